//! C20, second file: the text vectorisers as a correspondence op (`vocab`), and the sweep of the
//! estimators / transformers / parameter variants the first battery did not cover (inputs built to
//! contain exact ties).  Included from `c20.rs` (`#[path] mod more`).
use super::{bools, f32s, f64s, optusizes, sec, usizes, Data, Item, Sections};
use crate::util::{list, list2, Em, Rng};
use linfa::prelude::*;
use linfa::traits::{Fit, FitWith, Predict, Transformer};
use linfa::DatasetBase;
use ndarray::{Array1, Array2, Axis};
use std::collections::BTreeMap;

// ------------------------------------------------------------------------------------------------
// correspondence: CountVectorizer::fit (vocabulary under max_features / df window / stop words)

fn tok(i: usize) -> String {
    // fixed width: the order of the strings (and of the n-grams joined by ' ') is the
    // lexicographic order of the token-id lists
    format!("w{:02}", i)
}
fn word_of(ids: &[usize]) -> String {
    ids.iter().map(|i| tok(*i)).collect::<Vec<_>>().join(" ")
}
fn ids_of(word: &str) -> Vec<usize> {
    word.split(' ').map(|t| t[1..].parse::<usize>().unwrap()).collect()
}

/// n-grams of a document from first principles: every window of `lo..=hi` tokens
fn ngrams_ref(doc: &[usize], lo: usize, hi: usize) -> Vec<Vec<usize>> {
    let mut out = vec![];
    for i in 0..doc.len() {
        for n in lo..=hi {
            if i + n <= doc.len() {
                out.push(doc[i..i + n].to_vec());
            }
        }
    }
    out
}

/// (sorted word list with df and total count per word) of one real fit + transform
fn fit_once(docs: &Array1<String>, lo: usize, hi: usize, dfw: (f32, f32), stop: &Option<Vec<String>>, cap: Option<usize>) -> Result<Vec<(Vec<usize>, usize, usize)>, String> {
    use linfa_preprocessing::CountVectorizer;
    let mut p = CountVectorizer::params().n_gram_range(lo, hi).document_frequency(dfw.0, dfw.1).max_features(cap);
    if let Some(s) = stop {
        p = p.stopwords(s);
    }
    let cv = p.fit(docs).map_err(|e| format!("{:?}", e))?;
    let dense = cv.transform(docs).map_err(|e| format!("{:?}", e))?.to_dense();
    let mut out: Vec<(Vec<usize>, usize, usize)> = cv
        .vocabulary()
        .iter()
        .enumerate()
        .map(|(j, w)| {
            let col = dense.column(j);
            (ids_of(w), col.iter().filter(|c| **c > 0).count(), col.iter().sum::<usize>())
        })
        .collect();
    out.sort();
    Ok(out)
}

pub fn vocab_cases(em: &mut Em, rng: &mut Rng) {
    let n_cases = if em.thorough() { 2500 } else { 400 };
    for ci in 0..n_cases {
        // few tokens, short documents: many words first seen in the same document, many tied
        // document frequencies
        let ntok = 2 + rng.below(7);
        let ndocs = rng.below(7);
        let docs: Vec<Vec<usize>> = (0..ndocs).map(|_| (0..rng.below(7)).map(|_| rng.below(ntok)).collect()).collect();
        let (lo, hi) = *rng.pick(&[(1usize, 1usize), (1, 1), (1, 2), (2, 2), (1, 3), (2, 3)]);
        // dyadic frequency window a/4 .. b/4: the absolute bounds are exact
        let (a, b) = *rng.pick(&[(0usize, 4usize), (0, 4), (0, 4), (1, 4), (2, 4), (0, 2), (0, 3), (1, 3), (2, 2)]);
        let minabs = (a * ndocs + 3) / 4;
        let maxabs = (b * ndocs) / 4;
        // reference vocabulary
        let mut df: BTreeMap<Vec<usize>, usize> = BTreeMap::new();
        for d in &docs {
            let mut g = ngrams_ref(d, lo, hi);
            g.sort();
            g.dedup();
            for w in g {
                *df.entry(w).or_insert(0) += 1;
            }
        }
        let stop: Option<Vec<Vec<usize>>> = if rng.chance(1, 3) {
            let ws: Vec<Vec<usize>> = df.keys().cloned().collect();
            let mut s: Vec<Vec<usize>> = (0..rng.below(3)).filter_map(|_| if ws.is_empty() { None } else { Some(rng.pick(&ws).clone()) }).collect();
            if rng.coin() {
                s.push(vec![ntok + 1]);
            }
            Some(s)
        } else {
            None
        };
        let eligible: Vec<(Vec<usize>, usize)> = df
            .iter()
            .filter(|(w, f)| **f >= minabs && **f <= maxabs && !stop.as_ref().map(|s| s.contains(w)).unwrap_or(false))
            .map(|(w, f)| (w.clone(), *f))
            .collect();
        let cap: Option<usize> = match ci % 5 {
            0 => None,
            1 | 2 if !eligible.is_empty() => {
                // a cap that falls inside a group of tied frequencies, when there is one
                let mut fs: Vec<usize> = eligible.iter().map(|e| e.1).collect();
                fs.sort_by(|x, y| y.cmp(x));
                let cuts: Vec<usize> = (1..fs.len()).filter(|k| fs[*k - 1] == fs[*k]).collect();
                if cuts.is_empty() { Some(rng.below(eligible.len() + 1)) } else { Some(*rng.pick(&cuts)) }
            }
            _ => Some(rng.below(eligible.len() + 2)),
        };
        let tie_cut = match cap {
            Some(k) if k >= 1 && k < eligible.len() => {
                let mut fs: Vec<usize> = eligible.iter().map(|e| e.1).collect();
                fs.sort_by(|x, y| y.cmp(x));
                fs[k - 1] == fs[k]
            }
            _ => false,
        };
        let rev = rng.below(2);
        em.count(if tie_cut { "vocab:cap_splits_tie" } else if cap.is_some() { "vocab:cap_no_tie" } else { "vocab:no_cap" });
        em.count(&format!("vocab:ngram={}-{}", lo, hi));
        if stop.is_some() {
            em.count("vocab:stopwords");
        }
        let op = format!(
            "vocab docs={} lo={} hi={} minabs={} maxabs={} stop={} cap={} rev={}",
            list2(docs.iter().map(|d| d.iter()), |x| x.to_string()),
            lo,
            hi,
            minabs,
            maxabs,
            stop.as_ref().map(|s| list2(s.iter().map(|w| w.iter()), |x| x.to_string())).unwrap_or_default(),
            cap.map(|k| k.to_string()).unwrap_or("none".to_string()),
            rev
        );
        let class = if tie_cut { "vocab:cap_splits_tie" } else { "vocab:other" };
        em.case_valid(op, class, |ctx| {
            let texts = Array1::from_vec(docs.iter().map(|d| word_of(d)).collect::<Vec<String>>());
            let stop_s: Option<Vec<String>> = stop.as_ref().map(|s| s.iter().map(|w| word_of(w)).collect());
            let dfw = (a as f32 / 4.0, b as f32 / 4.0);
            let mut first: Option<Vec<(Vec<usize>, usize, usize)>> = None;
            // every fit builds fresh hash maps / sets (fresh hash seeds)
            for rep in 0..8 {
                let r = match fit_once(&texts, lo, hi, dfw, &stop_s, cap) {
                    Ok(r) => r,
                    Err(e) => {
                        ctx.fail("no_error", class, format!("valid parameters rejected: {}", e));
                        return "err".to_string();
                    }
                };
                match &first {
                    None => first = Some(r),
                    Some(f) => {
                        if *f != r {
                            ctx.fail("hash_order_independent", class, format!("fit {} learned {:?}, the first fit {:?}", rep + 1, r, f));
                            break;
                        }
                    }
                }
            }
            let v = first.unwrap();
            // first principles: the kept words are eligible, carry their document frequency, and no
            // dropped eligible word has a higher frequency than a kept one; the count is min(cap, eligible)
            let want = cap.map(|k| k.min(eligible.len())).unwrap_or(eligible.len());
            ctx.require(v.len() == want, "cap_size", class, || format!("{} entries kept, {} eligible, cap {:?}", v.len(), eligible.len(), cap));
            let minkept = v.iter().map(|e| e.1).min().unwrap_or(usize::MAX);
            for (w, f, _) in &v {
                ctx.require(eligible.iter().any(|(ew, ef)| ew == w && ef == f), "kept_is_eligible", class, || format!("{:?} kept with frequency {}", w, f));
            }
            for (w, f) in &eligible {
                if !v.iter().any(|e| e.0 == *w) {
                    ctx.require(*f <= minkept, "cap_keeps_most_frequent", class, || format!("{:?} (frequency {}) dropped while an entry of frequency {} is kept", w, f, minkept));
                }
            }
            // the statement promises the same vocabulary on every run (checked above over 8 fits), not which
            // of several words of equal document frequency survive the cut: when the cut falls inside a group
            // of equal frequencies only the words above that frequency and the number kept at it are compared
            let show = |l: &[&(Vec<usize>, usize, usize)]| list(l.iter(), |e| format!("{}={}", e.0.iter().map(|t| t.to_string()).collect::<Vec<_>>().join("."), e.1));
            if tie_cut {
                let mut fs: Vec<usize> = eligible.iter().map(|e| e.1).collect();
                fs.sort_by(|x, y| y.cmp(x));
                let f = fs[cap.unwrap()];
                let above: Vec<&(Vec<usize>, usize, usize)> = v.iter().filter(|e| e.1 > f).collect();
                format!("ok n={} vocab={} tie={}x{}", v.len(), show(&above), f, v.iter().filter(|e| e.1 == f).count())
            } else {
                let all: Vec<&(Vec<usize>, usize, usize)> = v.iter().collect();
                format!("ok n={} vocab={} tie=-", v.len(), show(&all))
            }
        });
    }
}

// ------------------------------------------------------------------------------------------------
// battery, second part: estimators / transformers / parameter variants the first battery lacks

/// the whole learned state of a model through its serde form: maps come out with sorted keys
/// (serde_json's object is a BTreeMap), floats in shortest round-trip form (one string per bit pattern)
fn state<T: serde::Serialize>(m: &T) -> Vec<u8> {
    match serde_json::to_value(m) {
        Ok(v) => v.to_string().into_bytes(),
        Err(e) => format!("serialisation error: {}", e).into_bytes(),
    }
}

/// vocabulary compared as a word -> column map: for every word, in sorted order, its column
fn by_word<T: Copy>(vocab: &[String], dense: &Array2<T>, enc: impl Fn(&[T]) -> Vec<u8>) -> Vec<u8> {
    let mut m: BTreeMap<String, Vec<T>> = BTreeMap::new();
    for (j, w) in vocab.iter().enumerate() {
        m.insert(w.clone(), dense.column(j).to_vec());
    }
    let mut bytes = vec![];
    for (w, col) in &m {
        bytes.extend(w.as_bytes());
        bytes.push(0);
        bytes.extend(enc(col));
    }
    bytes
}

/// text vectorisers with everything that consults a hash map: max_features cuts (the tie texts
/// make the cut fall inside groups of equal document frequency whose members were first seen in
/// one document), stop words, n-gram ranges, document-frequency windows, fit_vocabulary
fn it_vectorizers_capped(d: &Data) -> Sections {
    use linfa_preprocessing::tf_idf_vectorization::TfIdfVectorizer;
    use linfa_preprocessing::CountVectorizer;
    let mut out = vec![];
    let stop = ["w01", "w03 w04", "zz"];
    for (lo, hi) in [(1usize, 1usize), (1, 2), (2, 2), (1, 3)] {
        for cap in [1usize, 2, 3, 5, 8] {
            for with_stop in [false, true] {
                let mut p = CountVectorizer::params().n_gram_range(lo, hi).max_features(Some(cap));
                if with_stop {
                    p = p.stopwords(&stop);
                }
                let name = format!("count_{}_{}_cap{}_{}", lo, hi, cap, if with_stop { "stop" } else { "nostop" });
                match p.fit(&d.tie_texts) {
                    Ok(cv) => {
                        let dense = cv.transform(&d.tie_texts).unwrap().to_dense();
                        out.push(sec(&name, by_word(cv.vocabulary(), &dense, |c| usizes(c.iter()))));
                        let dq = cv.transform(&d.texts).unwrap().to_dense();
                        out.push(sec(&format!("{}_other_docs", name), by_word(cv.vocabulary(), &dq, |c| usizes(c.iter()))));
                    }
                    Err(e) => out.push(sec(&format!("{}_error", name), format!("{:?}", e).into_bytes())),
                }
            }
        }
    }
    for (a, b) in [(0.25f32, 0.75f32), (0.5, 1.0), (0.0, 0.5)] {
        let name = format!("count_df_{}_{}", a, b);
        match CountVectorizer::params().document_frequency(a, b).max_features(Some(3)).n_gram_range(1, 2).fit(&d.tie_texts) {
            Ok(cv) => {
                let dense = cv.transform(&d.tie_texts).unwrap().to_dense();
                out.push(sec(&name, by_word(cv.vocabulary(), &dense, |c| usizes(c.iter()))));
            }
            Err(e) => out.push(sec(&format!("{}_error", name), format!("{:?}", e).into_bytes())),
        }
    }
    for cap in [2usize, 4] {
        for (lo, hi) in [(1usize, 1usize), (1, 2)] {
            let name = format!("tfidf_{}_{}_cap{}", lo, hi, cap);
            match TfIdfVectorizer::default().n_gram_range(lo, hi).max_features(Some(cap)).fit(&d.tie_texts) {
                Ok(tf) => {
                    let dense = tf.transform(&d.tie_texts).unwrap().to_dense();
                    out.push(sec(&name, by_word(tf.vocabulary(), &dense, |c| f64s(c.iter()))));
                }
                Err(e) => out.push(sec(&format!("{}_error", name), format!("{:?}", e).into_bytes())),
            }
        }
    }
    let words = ["w00", "w02", "w05", "w01 w02"];
    if let Ok(cv) = CountVectorizer::params().n_gram_range(1, 2).fit_vocabulary(&words) {
        let dense = cv.transform(&d.tie_texts).unwrap().to_dense();
        out.push(sec("fit_vocabulary", by_word(cv.vocabulary(), &dense, |c| usizes(c.iter()))));
    }
    out
}

fn it_gmm_random(d: &Data) -> Sections {
    use linfa_clustering::{GaussianMixtureModel, GmmInitMethod};
    use rand_xoshiro::rand_core::SeedableRng;
    let n = d.blobs.nrows().min(600);
    let ds = DatasetBase::from(d.blobs.slice(ndarray::s![..n, ..]).to_owned());
    let mut out = vec![];
    // default seed, random initialisation
    match GaussianMixtureModel::params(3).init_method(GmmInitMethod::Random).n_runs(2).max_n_iterations(20).tolerance(1e-3).fit(&ds) {
        Ok(m) => {
            out.push(sec("default_seed_state", state(&m)));
            out.push(sec("default_seed_precisions", f64s(m.precisions().iter())));
            out.push(sec("default_seed_proba", f64s(m.predict_proba(&d.q).iter())));
            out.push(sec("default_seed_predict", usizes(m.predict(&d.q).iter())));
        }
        Err(e) => out.push(sec("default_seed_error", format!("{:?}", e).into_bytes())),
    }
    let rng = rand_xoshiro::Xoshiro256Plus::seed_from_u64(5);
    match GaussianMixtureModel::params_with_rng(2, rng).init_method(GmmInitMethod::Random).n_runs(1).max_n_iterations(15).fit(&ds) {
        Ok(m) => {
            out.push(sec("seeded_means", f64s(m.means().iter())));
            out.push(sec("seeded_weights", f64s(m.weights().iter())));
            out.push(sec("seeded_covariances", f64s(m.covariances().iter())));
        }
        Err(e) => out.push(sec("seeded_error", format!("{:?}", e).into_bytes())),
    }
    out
}

fn it_kmeans_more(d: &Data) -> Sections {
    use linfa_clustering::{KMeans, KMeansInit};
    let ds = DatasetBase::from(d.blobs.clone());
    let k = 3;
    let init = d.blobs.slice(ndarray::s![..k, ..]).to_owned();
    let m = KMeans::params(k).init_method(KMeansInit::Precomputed(init)).max_n_iterations(15).n_runs(1).fit(&ds).unwrap();
    let dist: Array1<f64> = m.transform(&d.q);
    let single: Vec<usize> = d.q.rows().into_iter().map(|r| m.predict(&r.to_owned())).collect();
    // lattice data: duplicate rows, exact distance ties between centroids
    let dl = DatasetBase::from(d.lat.clone());
    let ml = KMeans::params(3).max_n_iterations(10).n_runs(2).fit(&dl).unwrap();
    vec![
        sec("precomputed_state", state(&m)),
        sec("transform_query", f64s(dist.iter())),
        sec("predict_single_rows", usizes(single.iter())),
        sec("lattice_centroids", f64s(ml.centroids().iter())),
        sec("lattice_predict", usizes(ml.predict(&d.qlat).iter())),
    ]
}

/// f32 instantiations
fn it_f32_suite(d: &Data) -> Sections {
    use linfa_clustering::{Dbscan, KMeans};
    let mut out = vec![];
    let b32 = d.blobs.mapv(|v| v as f32);
    let q32 = d.q.mapv(|v| v as f32);
    let lat32 = d.lat.mapv(|v| v as f32);
    let qlat32 = d.qlat.mapv(|v| v as f32);
    let rx32 = d.rx.mapv(|v| v as f32);
    let ry32 = d.ry.mapv(|v| v as f32);
    let km = KMeans::params(4).max_n_iterations(20).n_runs(2).tolerance(1e-3).fit(&DatasetBase::from(b32.clone())).unwrap();
    out.push(sec("kmeans_centroids", f32s(km.centroids().iter())));
    out.push(sec("kmeans_inertia", f32s([km.inertia()].iter())));
    out.push(sec("kmeans_predict", usizes(km.predict(&q32).iter())));
    let n = b32.nrows().min(500);
    match linfa_clustering::GaussianMixtureModel::params(2).n_runs(1).max_n_iterations(15).fit(&DatasetBase::from(b32.slice(ndarray::s![..n, ..]).to_owned())) {
        Ok(g) => out.push(sec("gmm_means", f32s(g.means().iter()))),
        Err(e) => out.push(sec("gmm_error", format!("{:?}", e).into_bytes())),
    }
    let small32 = d.small.mapv(|v| v as f32);
    out.push(sec("dbscan", optusizes(Dbscan::params(3).tolerance(1.0f32).transform(&small32).unwrap().iter())));
    out.push(sec("dbscan_lattice", optusizes(Dbscan::params(2).tolerance(1.0f32).transform(&lat32).unwrap().iter())));
    let t = linfa_trees::DecisionTree::<f32, usize>::params().max_depth(Some(4)).fit(&Dataset::new(lat32.clone(), d.lat_y.clone())).unwrap();
    out.push(sec("tree_state", state(&t)));
    out.push(sec("tree_predict", usizes(t.predict(&qlat32).iter())));
    let nb = linfa_bayes::GaussianNb::<f32, usize>::params().fit(&Dataset::new(lat32.clone(), d.lat_y.clone())).unwrap();
    out.push(sec("gnb_state", state(&nb)));
    out.push(sec("gnb_predict", usizes(nb.predict(&qlat32).iter())));
    let ols = linfa_linear::LinearRegression::default().fit(&Dataset::new(rx32.clone(), ry32.clone())).unwrap();
    out.push(sec("ols_params", f32s(ols.params().iter())));
    out.push(sec("ols_predict", f32s(ols.predict(&rx32).iter())));
    match linfa_elasticnet::ElasticNet::<f32>::params().penalty(0.1).l1_ratio(0.5).fit(&Dataset::new(rx32.clone(), ry32.clone())) {
        Ok(en) => out.push(sec("elasticnet_hyperplane", f32s(en.hyperplane().iter()))),
        Err(e) => out.push(sec("elasticnet_error", format!("{:?}", e).into_bytes())),
    }
    match linfa_logistic::LogisticRegression::default().max_iterations(30).fit(&Dataset::new(rx32.clone(), d.rb.clone())) {
        Ok(m) => out.push(sec("logistic_params", f32s(m.params().iter()))),
        Err(e) => out.push(sec("logistic_error", format!("{:?}", e).into_bytes())),
    }
    match linfa_svm::Svm::<f32, bool>::params().gaussian_kernel(5.0).pos_neg_weights(1.0, 1.0).fit(&Dataset::new(rx32.clone(), d.rb.clone())) {
        Ok(m) => {
            out.push(sec("svm_alpha", f32s(m.alpha.iter())));
            out.push(sec("svm_predict", bools(m.predict(&rx32).iter())));
        }
        Err(e) => out.push(sec("svm_error", format!("{:?}", e).into_bytes())),
    }
    {
        use linfa_preprocessing::linear_scaling::LinearScaler;
        let s = LinearScaler::standard().fit(&DatasetBase::from(rx32.clone())).unwrap();
        out.push(sec("standard_scaler", f32s(s.transform(rx32.clone()).iter())));
    }
    {
        use linfa_reduction::random_projection::GaussianRandomProjection;
        let g = GaussianRandomProjection::<f32>::params().target_dim(2).fit(&DatasetBase::from(b32.slice(ndarray::s![..200, ..]).to_owned())).unwrap();
        out.push(sec("random_projection", f32s(g.transform(&q32).iter())));
    }
    out
}

fn it_isotonic(d: &Data) -> Sections {
    use linfa_linear::IsotonicRegression;
    // rounded abscissae: tied x values with different y
    let x1 = d.rx.slice(ndarray::s![.., 0..1]).mapv(|v| (v * 2.0).round() / 2.0);
    let mut out = vec![];
    match IsotonicRegression::new().fit(&Dataset::new(x1.clone(), d.ry.clone())) {
        Ok(m) => {
            out.push(sec("state", state(&m)));
            out.push(sec("predict", f64s(m.predict(&x1).iter())));
        }
        Err(e) => out.push(sec("fit_error", format!("{:?}", e).into_bytes())),
    }
    match IsotonicRegression::new().fit(&Dataset::new(x1.clone(), d.ry.clone()).with_weights(Array1::from_shape_fn(x1.nrows(), |i| 1.0 + (i % 3) as f32))) {
        Ok(m) => out.push(sec("weighted_predict", f64s(m.predict(&x1).iter()))),
        Err(e) => out.push(sec("weighted_fit_error", format!("{:?}", e).into_bytes())),
    }
    out
}

fn it_pls_variants(d: &Data) -> Sections {
    use linfa_pls::{PlsCanonical, PlsCca, PlsSvd};
    let ds = Dataset::new(d.rx.clone(), d.ry2.clone());
    let mut out = vec![];
    match PlsCanonical::params(2).scale(true).fit(&ds) {
        Ok(m) => {
            out.push(sec("canonical_state", state(&m)));
            out.push(sec("canonical_predict", f64s(m.predict(&d.rx).iter())));
            let t = m.transform(Dataset::new(d.rx.clone(), d.ry2.clone()));
            out.push(sec("canonical_transform_x", f64s(t.records().iter())));
            out.push(sec("canonical_transform_y", f64s(t.targets().iter())));
        }
        Err(e) => out.push(sec("canonical_error", format!("{:?}", e).into_bytes())),
    }
    match PlsCca::params(1).scale(false).fit(&ds) {
        Ok(m) => {
            out.push(sec("cca_coefficients", f64s(m.coefficients().iter())));
            out.push(sec("cca_weights_x", f64s(m.weights().0.iter())));
        }
        Err(e) => out.push(sec("cca_error", format!("{:?}", e).into_bytes())),
    }
    match PlsSvd::<f64>::params(2).fit(&ds) {
        Ok(m) => {
            out.push(sec("svd_weights_x", f64s(m.weights().0.iter())));
            out.push(sec("svd_weights_y", f64s(m.weights().1.iter())));
        }
        Err(e) => out.push(sec("svd_error", format!("{:?}", e).into_bytes())),
    }
    out
}

fn it_svm_variants(d: &Data) -> Sections {
    use linfa::composing::MultiClassModel;
    use linfa_svm::Svm;
    let mut out = vec![];
    let ds = Dataset::new(d.rx.clone(), d.rb.clone());
    match Svm::<f64, bool>::params().nu_weight(0.5).polynomial_kernel(1.0, 2.0).fit(&ds) {
        Ok(m) => {
            out.push(sec("nu_poly_state", state(&m)));
            out.push(sec("nu_poly_predict", bools(m.predict(&d.rx).iter())));
        }
        Err(e) => out.push(sec("nu_poly_error", format!("{:?}", e).into_bytes())),
    }
    match Svm::<f64, Pr>::params().pos_neg_weights(1.0, 1.0).gaussian_kernel(5.0).fit(&ds) {
        Ok(m) => out.push(sec("probability_predict", f32s(m.predict(&d.rx).iter().map(|p| &**p)))),
        Err(e) => out.push(sec("probability_error", format!("{:?}", e).into_bytes())),
    }
    match Svm::<f64, Pr>::params().nu_weight(0.5).gaussian_kernel(30.0).fit(&Dataset::from(d.rx.clone())) {
        Ok(m) => {
            let m: Svm<f64, bool> = m;
            out.push(sec("one_class_alpha", f64s(m.alpha.iter())));
            out.push(sec("one_class_predict", bools(m.predict(&d.rx).iter())));
        }
        Err(e) => out.push(sec("one_class_error", format!("{:?}", e).into_bytes())),
    }
    match Svm::<f64, f64>::params().nu_svr(0.5, Some(4.0)).gaussian_kernel(10.0).fit(&Dataset::new(d.rx.clone(), d.ry.clone())) {
        Ok(m) => out.push(sec("nu_svr_predict", f64s(m.predict(&d.rx).iter()))),
        Err(e) => out.push(sec("nu_svr_error", format!("{:?}", e).into_bytes())),
    }
    // multi-class by one-vs-all on the lattice (mirror-symmetric classes: equal member scores
    // happen); the members come in the order `one_vs_all` hands the labels out
    let dl = Dataset::new(d.lat.clone(), d.lat_y.clone());
    let fitted: Result<Vec<(usize, Svm<f64, Pr>)>, String> = dl
        .one_vs_all()
        .map_err(|e| format!("{:?}", e))
        .and_then(|v| v.into_iter().map(|(l, x)| Svm::<f64, Pr>::params().pos_neg_weights(1.0, 1.0).gaussian_kernel(2.0).fit(&x).map(|m| (l, m)).map_err(|e| format!("{:?}", e))).collect());
    match fitted {
        Ok(members) => {
            let w: MultiClassModel<Array2<f64>, usize> = members.into_iter().collect();
            out.push(sec("multi_class_predict_train", usizes(w.predict(&d.lat).iter())));
            out.push(sec("multi_class_predict_query", usizes(w.predict(&d.qlat).iter())));
        }
        Err(e) => out.push(sec("multi_class_error", e.into_bytes())),
    }
    // the same with the labels dealt differently over the (few distinct) lattice rows: member models
    // trained on near-symmetric problems give equal f32 probabilities for some rows
    for v in 1..5usize {
        let n = d.lat_y.len();
        let yv = Array1::from_shape_fn(n, |i| d.lat_y[(i * (2 * v + 1) + v) % n]);
        let dv = Dataset::new(d.lat.clone(), yv);
        let fitted: Result<Vec<(usize, Svm<f64, Pr>)>, String> = dv
            .one_vs_all()
            .map_err(|e| format!("{:?}", e))
            .and_then(|m| m.into_iter().map(|(l, x)| Svm::<f64, Pr>::params().pos_neg_weights(1.0, 1.0).gaussian_kernel(2.0).fit(&x).map(|m| (l, m)).map_err(|e| format!("{:?}", e))).collect());
        match fitted {
            Ok(members) => {
                let w: MultiClassModel<Array2<f64>, usize> = members.into_iter().collect();
                out.push(sec(&format!("multi_class_variant_{}_predict_train", v), usizes(w.predict(&d.lat).iter())));
                out.push(sec(&format!("multi_class_variant_{}_predict_query", v), usizes(w.predict(&d.qlat).iter())));
            }
            Err(e) => out.push(sec(&format!("multi_class_variant_{}_error", v), e.into_bytes())),
        }
    }
    // three classes on a line, classes 0 and 1 mirror images of each other, queries on the axis of
    // symmetry: if the two member models score equally, the label must still not depend on the
    // order `one_vs_all` hands the labels out in
    {
        let xs = Array2::from_shape_vec((6, 1), vec![-2.0, -1.0, 1.0, 2.0, 9.0, 10.0]).unwrap();
        let ys = Array1::from_vec(vec![0usize, 0, 1, 1, 2, 2]);
        let qs = Array2::from_shape_vec((4, 1), vec![0.0, -0.0, 5.5, 100.0]).unwrap();
        let dsym = Dataset::new(xs, ys);
        for (nm, lin) in [("gaussian", false), ("linear", true)] {
            let fitted: Result<Vec<(usize, Svm<f64, Pr>)>, String> = dsym.one_vs_all().map_err(|e| format!("{:?}", e)).and_then(|v| {
                v.into_iter()
                    .map(|(l, x)| {
                        let p = Svm::<f64, Pr>::params().pos_neg_weights(1.0, 1.0);
                        let p = if lin { p.linear_kernel() } else { p.gaussian_kernel(4.0) };
                        p.fit(&x).map(|m| (l, m)).map_err(|e| format!("{:?}", e))
                    })
                    .collect()
            });
            if let Ok(mut members) = fitted {
                members.sort_by_key(|m| m.0);
                let probs: Vec<f32> = members.iter().flat_map(|(_, m)| m.predict(&qs).iter().map(|p| **p).collect::<Vec<f32>>()).collect();
                out.push(sec(&format!("symmetric_{}_member_probabilities", nm), f32s(probs.iter())));
            }
            let fitted: Result<Vec<(usize, Svm<f64, Pr>)>, String> = dsym.one_vs_all().map_err(|e| format!("{:?}", e)).and_then(|v| {
                v.into_iter()
                    .map(|(l, x)| {
                        let p = Svm::<f64, Pr>::params().pos_neg_weights(1.0, 1.0);
                        let p = if lin { p.linear_kernel() } else { p.gaussian_kernel(4.0) };
                        p.fit(&x).map(|m| (l, m)).map_err(|e| format!("{:?}", e))
                    })
                    .collect()
            });
            if let Ok(members) = fitted {
                let w: MultiClassModel<Array2<f64>, usize> = members.into_iter().collect();
                out.push(sec(&format!("symmetric_{}_multi_class_predict", nm), usizes(w.predict(&qs).iter())));
            }
        }
    }
    // Platt scaling over a regression SVM
    {
        use linfa::composing::platt_scaling::Platt;
        use linfa::ParamGuard;
        let yreg = d.rb.mapv(|b| if b { 1.0 } else { -1.0 });
        if let Ok(inner) = Svm::<f64, f64>::params().c_svr(4.0, Some(0.125)).linear_kernel().fit(&Dataset::new(d.rx.clone(), yreg)) {
            if let Ok(checked) = Platt::<f64, Svm<f64, f64>>::params().check() {
                match checked.fit_with(inner, &ds) {
                    Ok(pl) => {
                        let p: Array1<Pr> = pl.predict(&d.rx);
                        out.push(sec("platt_predict", f32s(p.iter().map(|p| &**p))));
                    }
                    Err(e) => out.push(sec("platt_error", format!("{:?}", e).into_bytes())),
                }
            }
        }
    }
    out
}

fn it_preproc_variants(d: &Data) -> Sections {
    use linfa_preprocessing::linear_scaling::LinearScaler;
    use linfa_preprocessing::norm_scaling::NormScaler;
    use linfa_preprocessing::whitening::Whitener;
    let ds = DatasetBase::from(d.rx.clone());
    let mut out = vec![];
    let ma = LinearScaler::max_abs().fit(&ds).unwrap();
    out.push(sec("max_abs", f64s(ma.transform(d.rx.clone()).iter())));
    out.push(sec("max_abs_scales", f64s(ma.scales().iter())));
    let mr = LinearScaler::min_max_range(-2.0, 3.0).fit(&ds).unwrap();
    out.push(sec("min_max_range", f64s(mr.transform(d.rx.clone()).iter())));
    out.push(sec("min_max_offsets", f64s(mr.offsets().iter())));
    let nm = LinearScaler::standard_no_mean().fit(&ds).unwrap();
    out.push(sec("standard_no_mean", f64s(nm.transform(d.rx.clone()).iter())));
    let ns = LinearScaler::standard_no_std().fit(&ds).unwrap();
    out.push(sec("standard_no_std", f64s(ns.transform(d.rx.clone()).iter())));
    out.push(sec("l1norm", f64s(NormScaler::l1().transform(d.rx.clone()).iter())));
    out.push(sec("maxnorm", f64s(NormScaler::max().transform(d.rx.clone()).iter())));
    match Whitener::zca().fit(&ds) {
        Ok(z) => {
            out.push(sec("whiten_zca", f64s(z.transform(d.rx.clone()).iter())));
            out.push(sec("whiten_zca_matrix", f64s(z.transformation_matrix().iter())));
        }
        Err(e) => out.push(sec("whiten_zca_error", format!("{:?}", e).into_bytes())),
    }
    out
}

fn it_density_nn(d: &Data) -> Sections {
    use linfa_clustering::{Dbscan, Optics};
    use linfa_nn::distance::{L1Dist, L2Dist, LInfDist};
    use linfa_nn::{BallTree, KdTree, LinearSearch};
    let mut out = vec![];
    out.push(sec("dbscan_balltree", optusizes(Dbscan::params_with(2, L2Dist, BallTree::new()).tolerance(1.0).transform(&d.lat).unwrap().iter())));
    out.push(sec("dbscan_linear_l1", optusizes(Dbscan::params_with(3, L1Dist, LinearSearch::new()).tolerance(1.0).transform(&d.lat).unwrap().iter())));
    out.push(sec("dbscan_kdtree_linf", optusizes(Dbscan::params_with(2, LInfDist, KdTree::new()).tolerance(1.0).transform(&d.small).unwrap().iter())));
    let dump = |an: &linfa_clustering::OpticsAnalysis<f64>| {
        let mut v = vec![];
        for s in an.iter() {
            v.extend((s.index() as u64).to_le_bytes());
            v.extend(s.reachability_distance().unwrap_or(f64::INFINITY).to_bits().to_le_bytes());
            v.extend(s.core_distance().unwrap_or(f64::INFINITY).to_bits().to_le_bytes());
        }
        v
    };
    out.push(sec("optics_balltree", dump(&Optics::params_with(2, L2Dist, BallTree::new()).tolerance(1.5).transform(d.lat.view()).unwrap())));
    out.push(sec("optics_linear_l1", dump(&Optics::params_with(3, L1Dist, LinearSearch::new()).tolerance(2.0).transform(d.lat.view()).unwrap())));
    out
}

/// nearest-neighbour indices on the lattice: every query has exactly tied neighbours
fn it_nn_indices(d: &Data) -> Sections {
    use linfa_nn::distance::{L1Dist, L2Dist};
    use linfa_nn::{CommonNearestNeighbour, NearestNeighbour};
    let mut out = vec![];
    for (nm, algo) in [("linear", CommonNearestNeighbour::LinearSearch), ("kdtree", CommonNearestNeighbour::KdTree), ("balltree", CommonNearestNeighbour::BallTree)] {
        let mut bytes = vec![];
        if let Ok(idx) = algo.from_batch(&d.lat, L2Dist) {
            for q in d.qlat.rows().into_iter().take(60) {
                match idx.k_nearest(q, 4) {
                    Ok(r) => bytes.extend(usizes(r.iter().map(|(_, i)| i))),
                    Err(_) => bytes.push(0xEE),
                }
                match idx.within_range(q, 1.0) {
                    Ok(r) => {
                        bytes.push(0xAA);
                        bytes.extend(usizes(r.iter().map(|(_, i)| i)))
                    }
                    Err(_) => bytes.push(0xEF),
                }
            }
        }
        out.push(sec(&format!("{}_l2", nm), bytes));
        let mut bytes = vec![];
        if let Ok(idx) = algo.from_batch(&d.small, L1Dist) {
            for q in d.small.rows().into_iter().take(30) {
                if let Ok(r) = idx.k_nearest(q, 5) {
                    bytes.extend(usizes(r.iter().map(|(_, i)| i)));
                }
            }
        }
        out.push(sec(&format!("{}_l1", nm), bytes));
    }
    out
}

fn it_dataset_helpers(d: &Data) -> Sections {
    use rand::SeedableRng;
    let ds = Dataset::new(d.rx.clone(), d.ry.clone());
    let mut out = vec![];
    let mut rng = rand::rngs::SmallRng::seed_from_u64(7);
    for (i, b) in ds.bootstrap((20, 2), &mut rng).take(2).enumerate() {
        out.push(sec(&format!("bootstrap_{}", i), f64s(b.records().iter())));
    }
    let mut rng = rand::rngs::SmallRng::seed_from_u64(8);
    for (i, b) in ds.bootstrap_samples(15, &mut rng).take(2).enumerate() {
        out.push(sec(&format!("bootstrap_samples_{}", i), f64s(b.targets().iter())));
    }
    let mut rng = rand::rngs::SmallRng::seed_from_u64(9);
    for (i, b) in ds.bootstrap_features(2, &mut rng).take(2).enumerate() {
        out.push(sec(&format!("bootstrap_features_{}", i), f64s(b.records().iter())));
    }
    for (i, (tr, va)) in ds.fold(3).into_iter().enumerate() {
        out.push(sec(&format!("fold_{}_train", i), f64s(tr.records().iter())));
        out.push(sec(&format!("fold_{}_valid", i), f64s(va.targets().iter())));
    }
    let (a, b) = ds.split_with_ratio(0.7);
    out.push(sec("split_left", f64s(a.records().iter())));
    out.push(sec("split_right", f64s(b.targets().iter())));
    // label statistics: compared as label -> value maps
    let dl = Dataset::new(d.lat.clone(), d.lat_y.clone()).with_weights(d.lat_w.clone());
    let mut fr: Vec<(usize, f32)> = dl.label_frequencies().into_iter().collect();
    fr.sort_by(|a, b| a.0.cmp(&b.0));
    let mut bytes = vec![];
    for (l, f) in fr {
        bytes.extend((l as u64).to_le_bytes());
        bytes.extend(f.to_bits().to_le_bytes());
    }
    out.push(sec("label_frequencies_by_label", bytes));
    let mut ova: Vec<(usize, Vec<bool>)> = dl.one_vs_all().unwrap().into_iter().map(|(l, x)| (l, x.as_targets().iter().cloned().collect())).collect();
    ova.sort();
    let mut bytes = vec![];
    for (l, t) in ova {
        bytes.extend((l as u64).to_le_bytes());
        bytes.extend(bools(t.iter()));
    }
    out.push(sec("one_vs_all_by_label", bytes));
    out
}

/// learned quantities of naive Bayes (priors, means, variances, feature log-probabilities), not
/// only predictions; incremental fits; string and bool labels
fn it_nb_learned(d: &Data) -> Sections {
    use linfa_bayes::{GaussianNb, MultinomialNb};
    let mut out = vec![];
    let ds = Dataset::new(d.lat.clone(), d.lat_y.clone());
    let g = GaussianNb::params().fit(&ds).unwrap();
    out.push(sec("gaussian_state", state(&g)));
    let dc = Dataset::new(d.counts.clone(), d.lat_y.clone());
    let m = MultinomialNb::params().fit(&dc).unwrap();
    out.push(sec("multinomial_state", state(&m)));
    // two batches through fit_with
    let half = d.lat.nrows() / 2;
    let b1 = Dataset::new(d.lat.slice(ndarray::s![..half, ..]).to_owned(), d.lat_y.slice(ndarray::s![..half]).to_owned());
    let b2 = Dataset::new(d.lat.slice(ndarray::s![half.., ..]).to_owned(), d.lat_y.slice(ndarray::s![half..]).to_owned());
    let p = GaussianNb::params();
    if let Ok(Some(m1)) = p.fit_with(None, &b1) {
        if let Ok(Some(m2)) = p.fit_with(Some(m1), &b2) {
            out.push(sec("gaussian_incremental_state", state(&m2)));
            out.push(sec("gaussian_incremental_predict", usizes(m2.predict(&d.qlat).iter())));
        }
    }
    let c1 = Dataset::new(d.counts.slice(ndarray::s![..half, ..]).to_owned(), d.lat_y.slice(ndarray::s![..half]).to_owned());
    let c2 = Dataset::new(d.counts.slice(ndarray::s![half.., ..]).to_owned(), d.lat_y.slice(ndarray::s![half..]).to_owned());
    let pm = MultinomialNb::params();
    if let Ok(Some(m1)) = pm.fit_with(None, &c1) {
        if let Ok(Some(m2)) = pm.fit_with(Some(m1), &c2) {
            out.push(sec("multinomial_incremental_state", state(&m2)));
            out.push(sec("multinomial_incremental_predict", usizes(m2.predict(&d.counts).iter())));
        }
    }
    // string labels
    let ys: Array1<String> = d.lat_y.mapv(|v| ["pear", "apple", "fig", "kiwi"][v % 4].to_string());
    let gs = GaussianNb::params().fit(&Dataset::new(d.lat.clone(), ys.clone())).unwrap();
    out.push(sec("gaussian_string_labels_predict", gs.predict(&d.qlat).iter().flat_map(|s| s.bytes().chain(std::iter::once(0u8))).collect()));
    let ms = MultinomialNb::params().fit(&Dataset::new(d.counts.clone(), ys)).unwrap();
    out.push(sec("multinomial_string_labels_predict", ms.predict(&d.counts).iter().flat_map(|s| s.bytes().chain(std::iter::once(0u8))).collect()));
    let yb: Array1<bool> = d.lat_y.mapv(|v| v % 2 == 0);
    let gb = GaussianNb::params().fit(&Dataset::new(d.lat.clone(), yb)).unwrap();
    out.push(sec("gaussian_bool_labels_predict", bools(gb.predict(&d.qlat).iter())));
    out
}

/// decision tree: every accessor, string / bool labels, the TikZ export
fn it_tree_more(d: &Data) -> Sections {
    use linfa_trees::{DecisionTree, SplitQuality};
    let mut out = vec![];
    let ds = Dataset::new(d.lat.clone(), d.lat_y.clone());
    let m = DecisionTree::params().split_quality(SplitQuality::Gini).max_depth(Some(4)).fit(&ds).unwrap();
    out.push(sec("state", state(&m)));
    out.push(sec("features", usizes(m.features().iter())));
    out.push(sec("mean_impurity_decrease", f64s(m.mean_impurity_decrease().iter())));
    out.push(sec("relative_impurity_decrease", f64s(m.relative_impurity_decrease().iter())));
    out.push(sec("tikz", m.export_to_tikz().with_legend().to_string().into_bytes()));
    out.push(sec("max_depth_num_leaves", usizes([m.max_depth(), m.num_leaves()].iter())));
    // several features in play: generic blobs
    let n = d.blobs.nrows().min(300);
    let yb: Array1<usize> = Array1::from_shape_fn(n, |i| ((d.blobs[[i, 0]] > 0.0) as usize) + 2 * ((d.blobs[[i, 1]] > 0.0) as usize));
    let mb = DecisionTree::params().max_depth(Some(5)).fit(&Dataset::new(d.blobs.slice(ndarray::s![..n, ..]).to_owned(), yb)).unwrap();
    out.push(sec("blobs_features", usizes(mb.features().iter())));
    out.push(sec("blobs_feature_importance", f64s(mb.feature_importance().iter())));
    out.push(sec("blobs_predict", usizes(mb.predict(&d.q).iter())));
    let ys: Array1<String> = d.lat_y.mapv(|v| ["pear", "apple", "fig", "kiwi"][v % 4].to_string());
    let ms = DecisionTree::params().split_quality(SplitQuality::Entropy).max_depth(Some(3)).fit(&Dataset::new(d.lat.clone(), ys).with_weights(d.lat_w.clone())).unwrap();
    out.push(sec("string_labels_predict", ms.predict(&d.qlat).iter().flat_map(|s| s.bytes().chain(std::iter::once(0u8))).collect()));
    let yb: Array1<bool> = d.lat_y.mapv(|v| v % 2 == 0);
    let mbb = DecisionTree::params().max_depth(Some(3)).min_impurity_decrease(1e-3).fit(&Dataset::new(d.lat.clone(), yb)).unwrap();
    out.push(sec("bool_labels_predict", bools(mbb.predict(&d.qlat).iter())));
    out
}

fn it_ica_variants(d: &Data) -> Sections {
    use linfa_ica::fast_ica::{FastIca, GFunc};
    let n = d.blobs.nrows().min(300);
    let ds = DatasetBase::from(d.blobs.slice(ndarray::s![..n, ..]).to_owned());
    let mut out = vec![];
    for (nm, g) in [("exp", GFunc::Exp), ("cube", GFunc::Cube)] {
        match FastIca::params().ncomponents(2).gfunc(g).max_iter(40).random_state(7).fit(&ds) {
            Ok(m) => out.push(sec(&format!("{}_sources", nm), f64s(m.predict(&d.q).iter()))),
            Err(e) => out.push(sec(&format!("{}_error", nm), format!("{:?}", e).into_bytes())),
        }
    }
    out
}

fn it_kernels(d: &Data) -> Sections {
    use linfa_kernel::{Kernel, KernelMethod, KernelType};
    use linfa_nn::CommonNearestNeighbour;
    let mut out = vec![];
    for (nm, nn) in [("kdtree", CommonNearestNeighbour::KdTree), ("balltree", CommonNearestNeighbour::BallTree), ("linear", CommonNearestNeighbour::LinearSearch)] {
        let k = Kernel::params().kind(KernelType::Sparse(4)).nn_algo(nn).method(KernelMethod::Gaussian(2.0)).transform(d.lat.view());
        out.push(sec(&format!("sparse_{}_upper", nm), f64s(k.to_upper_triangle().iter())));
        out.push(sec(&format!("sparse_{}_sum", nm), f64s(k.sum().iter())));
    }
    let k = Kernel::params().method(KernelMethod::Polynomial(1.0, 2.0)).transform(d.small.view());
    out.push(sec("dense_poly_sum", f64s(k.sum().iter())));
    let k = Kernel::params().method(KernelMethod::Linear).transform(d.small.view());
    out.push(sec("dense_linear_dot", f64s(k.dot(&d.small.view()).iter())));
    out
}

/// the whole serde state of the estimators of the first battery (every learned field, not a selection)
fn it_serde_state(d: &Data) -> Sections {
    let mut out = vec![];
    {
        use linfa_clustering::{GaussianMixtureModel, KMeans};
        let n = d.blobs.nrows().min(600);
        let ds = DatasetBase::from(d.blobs.slice(ndarray::s![..n, ..]).to_owned());
        let m = KMeans::params(3).max_n_iterations(10).n_runs(2).fit(&ds).unwrap();
        out.push(sec("kmeans", state(&m)));
        if let Ok(g) = GaussianMixtureModel::params(2).n_runs(1).max_n_iterations(10).fit(&ds) {
            out.push(sec("gmm", state(&g)));
        }
        if let Ok(p) = linfa_reduction::Pca::params(2).fit(&ds) {
            out.push(sec("pca", state(&p)));
        }
    }
    let ds = Dataset::new(d.rx.clone(), d.ry.clone());
    if let Ok(m) = linfa_linear::LinearRegression::default().with_intercept(false).fit(&ds) {
        out.push(sec("ols_no_intercept", state(&m)));
    }
    if let Ok(m) = linfa_elasticnet::ElasticNet::params().penalty(0.2).l1_ratio(1.0).fit(&ds) {
        out.push(sec("lasso", state(&m)));
    }
    if let Ok(m) = linfa_elasticnet::ElasticNet::params().penalty(0.2).l1_ratio(0.0).with_intercept(false).fit(&ds) {
        out.push(sec("ridge_no_intercept", state(&m)));
    }
    // string labels for the logistic models: the class order must not come from a hash set
    let ys: Array1<String> = d.rc.mapv(|v| ["pear", "apple", "fig"][v % 3].to_string());
    match linfa_logistic::MultiLogisticRegression::default().max_iterations(30).fit(&Dataset::new(d.rx.clone(), ys)) {
        Ok(m) => {
            out.push(sec("multi_logistic_string_params", f64s(m.params().iter())));
            out.push(sec("multi_logistic_string_predict", m.predict(&d.rx).iter().flat_map(|s| s.bytes().chain(std::iter::once(0u8))).collect()));
        }
        Err(e) => out.push(sec("multi_logistic_string_error", format!("{:?}", e).into_bytes())),
    }
    let yb: Array1<String> = d.rb.mapv(|v| if v { "yes".to_string() } else { "no".to_string() });
    match linfa_logistic::LogisticRegression::default().max_iterations(30).fit(&Dataset::new(d.rx.clone(), yb)) {
        Ok(m) => {
            out.push(sec("logistic_string_params", f64s(m.params().iter())));
            out.push(sec("logistic_string_predict", m.predict(&d.rx).iter().flat_map(|s| s.bytes().chain(std::iter::once(0u8))).collect()));
        }
        Err(e) => out.push(sec("logistic_string_error", format!("{:?}", e).into_bytes())),
    }
    out
}

/// the small-data estimators once more on data large enough that a parallel loop would be split
fn it_large_regression(d: &Data) -> Sections {
    let n = d.blobs.nrows();
    let p = d.blobs.ncols();
    let y: Array1<f64> = Array1::from_shape_fn(n, |i| (0..p).map(|j| d.blobs[[i, j]] * (j as f64 + 0.5)).sum::<f64>() + (i % 7) as f64 * 0.1);
    let yb: Array1<bool> = y.mapv(|v| v > 0.0);
    let ds = Dataset::new(d.blobs.clone(), y.clone());
    let mut out = vec![];
    if let Ok(m) = linfa_linear::LinearRegression::default().fit(&ds) {
        out.push(sec("ols_params", f64s(m.params().iter())));
    }
    if let Ok(m) = linfa_elasticnet::ElasticNet::params().penalty(0.1).l1_ratio(0.5).fit(&ds) {
        out.push(sec("elasticnet_hyperplane", f64s(m.hyperplane().iter())));
        out.push(sec("elasticnet_duality_gap", f64s([m.duality_gap()].iter())));
    }
    match linfa_logistic::LogisticRegression::default().max_iterations(20).fit(&Dataset::new(d.blobs.clone(), yb.clone())) {
        Ok(m) => out.push(sec("logistic_params", f64s(m.params().iter()))),
        Err(e) => out.push(sec("logistic_error", format!("{:?}", e).into_bytes())),
    }
    {
        use linfa_preprocessing::linear_scaling::LinearScaler;
        let s = LinearScaler::standard().fit(&DatasetBase::from(d.blobs.clone())).unwrap();
        out.push(sec("scaler_offsets", f64s(s.offsets().iter())));
        out.push(sec("scaler_scales", f64s(s.scales().iter())));
    }
    if let Ok(p) = linfa_reduction::Pca::params(2).fit(&DatasetBase::from(d.blobs.clone())) {
        out.push(sec("pca_components", f64s(p.components().iter())));
    }
    let g = linfa_bayes::GaussianNb::params().fit(&Dataset::new(d.blobs.clone(), yb.mapv(|b| b as usize))).unwrap();
    out.push(sec("gnb_state", state(&g)));
    let t = linfa_trees::DecisionTree::params().max_depth(Some(4)).fit(&Dataset::new(d.blobs.clone(), yb.mapv(|b| b as usize))).unwrap();
    out.push(sec("tree_state", state(&t)));
    let corr = Dataset::new(d.blobs.clone(), y).pearson_correlation();
    out.push(sec("pearson", f64s(corr.get_coeffs().iter())));
    out
}

/// more than 10 000 rows: a parallel path gated on the number of samples would be taken
fn it_huge_rows(d: &Data) -> Sections {
    use linfa_clustering::{GaussianMixtureModel, KMeans};
    let mut out = vec![];
    let n = d.huge.nrows();
    let ds = DatasetBase::from(d.huge.clone());
    let m = KMeans::params(3).max_n_iterations(4).n_runs(2).tolerance(1e-3).fit(&ds).unwrap();
    out.push(sec("kmeans_centroids", f64s(m.centroids().iter())));
    out.push(sec("kmeans_inertia", f64s([m.inertia()].iter())));
    let h32 = d.huge.mapv(|v| v as f32);
    let m32 = KMeans::params(3).max_n_iterations(3).n_runs(1).tolerance(1e-3).fit(&DatasetBase::from(h32)).unwrap();
    out.push(sec("kmeans_f32_centroids", f32s(m32.centroids().iter())));
    out.push(sec("kmeans_f32_inertia", f32s([m32.inertia()].iter())));
    match KMeans::params(3).tolerance(1e-3).fit_with(None, &ds) {
        Ok(mi) => out.push(sec("kmeans_incremental_state", state(&mi))),
        Err(linfa_clustering::IncrKMeansError::NotConverged(mi)) => out.push(sec("kmeans_incremental_state", state(&mi))),
        Err(_) => out.push(sec("kmeans_incremental_error", vec![1])),
    }
    match GaussianMixtureModel::params(2).n_runs(1).max_n_iterations(4).tolerance(1e-2).fit(&ds) {
        Ok(g) => {
            out.push(sec("gmm_means", f64s(g.means().iter())));
            out.push(sec("gmm_weights", f64s(g.weights().iter())));
            out.push(sec("gmm_covariances", f64s(g.covariances().iter())));
        }
        Err(e) => out.push(sec("gmm_error", format!("{:?}", e).into_bytes())),
    }
    let y: Array1<f64> = Array1::from_shape_fn(n, |i| d.huge[[i, 0]] * 0.5 - d.huge[[i, 1]] * 1.5 + d.huge[[i, 2]] * 0.25 + (i % 11) as f64 * 0.1);
    let dr = Dataset::new(d.huge.clone(), y.clone());
    if let Ok(m) = linfa_linear::LinearRegression::default().fit(&dr) {
        out.push(sec("ols_params", f64s(m.params().iter())));
        out.push(sec("ols_intercept", f64s([m.intercept()].iter())));
    }
    if let Ok(m) = linfa_elasticnet::ElasticNet::params().penalty(0.1).l1_ratio(0.5).max_iterations(50).fit(&dr) {
        out.push(sec("elasticnet_hyperplane", f64s(m.hyperplane().iter())));
        out.push(sec("elasticnet_duality_gap", f64s([m.duality_gap()].iter())));
    }
    let yc: Array1<usize> = y.mapv(|v| if v > 1.0 { 2 } else if v > -1.0 { 1 } else { 0 });
    let g = linfa_bayes::GaussianNb::params().fit(&Dataset::new(d.huge.clone(), yc)).unwrap();
    out.push(sec("gnb_state", state(&g)));
    {
        use linfa_preprocessing::linear_scaling::LinearScaler;
        let s = LinearScaler::standard().fit(&ds).unwrap();
        out.push(sec("scaler_offsets", f64s(s.offsets().iter())));
        out.push(sec("scaler_scales", f64s(s.scales().iter())));
    }
    let corr = dr.pearson_correlation();
    out.push(sec("pearson", f64s(corr.get_coeffs().iter())));
    out
}

/// 12 features, 2 (and 1) components: `dim >= 5 * num`, the iterated (LOBPCG) branch of `leading_svd`
fn it_pca_iterated(d: &Data) -> Sections {
    use linfa_reduction::Pca;
    let ds = DatasetBase::from(d.wide.clone());
    let mut out = vec![];
    for (nm, num, whiten) in [("two", 2usize, false), ("one", 1, false), ("two_whitened", 2, true)] {
        match Pca::params(num).whiten(whiten).fit(&ds) {
            Ok(m) => {
                out.push(sec(&format!("{}_state", nm), state(&m)));
                out.push(sec(&format!("{}_components", nm), f64s(m.components().iter())));
                out.push(sec(&format!("{}_singular_values", nm), f64s(m.singular_values().iter())));
                out.push(sec(&format!("{}_embedding", nm), f64s(m.predict(&d.wide).iter())));
            }
            Err(e) => out.push(sec(&format!("{}_error", nm), format!("{:?}", e).into_bytes())),
        }
    }
    out
}

/// every feature column present twice, many rows: equal split scores between features at every
/// node and enough work per feature for a parallel split search to finish out of order
fn it_tree_tied_features(d: &Data) -> Sections {
    use linfa_trees::{DecisionTree, SplitQuality};
    let mut out = vec![];
    let ds = Dataset::new(d.dup.clone(), d.dup_y.clone());
    let m = DecisionTree::params().split_quality(SplitQuality::Gini).max_depth(Some(5)).fit(&ds).unwrap();
    out.push(sec("gini_state", state(&m)));
    out.push(sec("gini_features", usizes(m.features().iter())));
    out.push(sec("gini_feature_importance", f64s(m.feature_importance().iter())));
    let dw = Dataset::new(d.dup.clone(), d.dup_y.clone()).with_weights(d.dup_w.clone());
    let mw = DecisionTree::params().split_quality(SplitQuality::Entropy).max_depth(Some(4)).fit(&dw).unwrap();
    out.push(sec("entropy_weighted_state", state(&mw)));
    out.push(sec("entropy_weighted_predict", usizes(mw.predict(&d.dup).iter())));
    out
}

/// weighted trees with three to five classes and weights that are not dyadic: the weight totals
/// of a node are f32 sums whose value depends on the order of the classes
fn it_tree_weighted_multiclass(d: &Data) -> Sections {
    use linfa_trees::{DecisionTree, SplitQuality};
    let mut out = vec![];
    let n = d.lat_y.len();
    for v in 0..6usize {
        let nc = 3 + v % 3;
        let y = Array1::from_shape_fn(n, |i| (d.lat_y[i] + i * (v + 1) + (i / 3) * v) % nc);
        let w = Array1::from_shape_fn(n, |i| [0.3f32, 0.7, 0.1, 1.1, 0.9, 0.2, 1.7][(i * (v + 2) + v) % 7]);
        let ds = Dataset::new(d.lat.clone(), y).with_weights(w);
        let q = if v % 2 == 0 { SplitQuality::Entropy } else { SplitQuality::Gini };
        let m = DecisionTree::params().split_quality(q).max_depth(Some(4)).fit(&ds).unwrap();
        out.push(sec(&format!("variant_{}_state", v), state(&m)));
        out.push(sec(&format!("variant_{}_predict", v), usizes(m.predict(&d.qlat).iter())));
    }
    let nd = d.dup_y.len();
    let y5 = Array1::from_shape_fn(nd, |i| (d.dup_y[i] + (i % 5)) % 5);
    let m = DecisionTree::params().split_quality(SplitQuality::Gini).max_depth(Some(4)).fit(&Dataset::new(d.dup.clone(), y5).with_weights(d.dup_w.clone())).unwrap();
    out.push(sec("many_rows_state", state(&m)));
    out
}

/// f32 instantiations of the estimators `f32_suite` lacks, and the L1 metric in f32
fn it_f32_more(d: &Data) -> Sections {
    let mut out = vec![];
    let b32 = d.blobs.mapv(|v| v as f32);
    let q32 = d.q.mapv(|v| v as f32);
    let rx32 = d.rx.mapv(|v| v as f32);
    let ry32 = d.ry.mapv(|v| v as f32);
    let ry2_32 = d.ry2.mapv(|v| v as f32);
    let counts32 = d.counts.mapv(|v| v as f32);
    let small32 = d.small.mapv(|v| v as f32);
    let n = b32.nrows().min(400);
    let head = b32.slice(ndarray::s![..n, ..]).to_owned();
    {
        use linfa_ica::fast_ica::{FastIca, GFunc};
        match FastIca::params().ncomponents(2).gfunc(GFunc::Logcosh(1.0)).max_iter(40).random_state(42).fit(&DatasetBase::from(head.clone())) {
            Ok(m) => out.push(sec("fast_ica_sources", f32s(m.predict(&q32).iter()))),
            Err(e) => out.push(sec("fast_ica_error", format!("{:?}", e).into_bytes())),
        }
    }
    {
        use linfa_ftrl::Ftrl;
        match Ftrl::params().alpha(0.05).beta(1.0).l1_ratio(0.01).l2_ratio(0.5).fit_with(None, &Dataset::new(rx32.clone(), d.rb.clone())) {
            Ok(m) => {
                out.push(sec("ftrl_z", f32s(m.z().iter())));
                out.push(sec("ftrl_n", f32s(m.n().iter())));
            }
            Err(e) => out.push(sec("ftrl_error", format!("{:?}", e).into_bytes())),
        }
    }
    {
        use linfa_pls::PlsRegression;
        match PlsRegression::params(2).scale(true).max_iterations(100).fit(&Dataset::new(rx32.clone(), ry2_32.clone())) {
            Ok(m) => out.push(sec("pls_coefficients", f32s(m.coefficients().iter()))),
            Err(e) => out.push(sec("pls_error", format!("{:?}", e).into_bytes())),
        }
    }
    match linfa_svm::Svm::<f32, f32>::params().eps(1e-3).c_svr(10.0, Some(0.1)).linear_kernel().fit(&Dataset::new(rx32.clone(), ry32.clone())) {
        Ok(m) => {
            out.push(sec("svr_alpha", f32s(m.alpha.iter())));
            out.push(sec("svr_predict", f32s(m.predict(&rx32).iter())));
        }
        Err(e) => out.push(sec("svr_error", format!("{:?}", e).into_bytes())),
    }
    {
        use linfa_clustering::Optics;
        match Optics::params(3).tolerance(2.0f32).transform(small32.view()) {
            Ok(an) => {
                let mut v = vec![];
                for s in an.iter() {
                    v.extend((s.index() as u64).to_le_bytes());
                    v.extend(s.reachability_distance().unwrap_or(f32::INFINITY).to_bits().to_le_bytes());
                    v.extend(s.core_distance().unwrap_or(f32::INFINITY).to_bits().to_le_bytes());
                }
                out.push(sec("optics_order", v));
            }
            Err(e) => out.push(sec("optics_error", format!("{:?}", e).into_bytes())),
        }
    }
    match linfa_bayes::MultinomialNb::params().fit(&Dataset::new(counts32.clone(), d.lat_y.clone())) {
        Ok(m) => {
            out.push(sec("multinomial_nb_state", state(&m)));
            out.push(sec("multinomial_nb_predict", usizes(m.predict(&counts32).iter())));
        }
        Err(e) => out.push(sec("multinomial_nb_error", format!("{:?}", e).into_bytes())),
    }
    {
        use linfa_reduction::random_projection::SparseRandomProjection;
        match SparseRandomProjection::<f32>::params().target_dim(2).fit(&DatasetBase::from(head.clone())) {
            Ok(g) => out.push(sec("sparse_projection", f32s(g.transform(&q32).iter()))),
            Err(e) => out.push(sec("sparse_projection_error", format!("{:?}", e).into_bytes())),
        }
    }
    {
        use linfa_clustering::{GaussianMixtureModel, GmmInitMethod, KMeans};
        use rand_xoshiro::rand_core::SeedableRng;
        match GaussianMixtureModel::params(2).init_method(GmmInitMethod::Random).n_runs(1).max_n_iterations(12).fit(&DatasetBase::from(head.clone())) {
            Ok(g) => out.push(sec("gmm_random_means", f32s(g.means().iter()))),
            Err(e) => out.push(sec("gmm_random_error", format!("{:?}", e).into_bytes())),
        }
        let rng = rand_xoshiro::Xoshiro256Plus::seed_from_u64(11);
        match KMeans::params_with(3, rng, linfa_nn::distance::L1Dist).max_n_iterations(10).n_runs(1).fit(&DatasetBase::from(b32.clone())) {
            Ok(m) => {
                out.push(sec("kmeans_l1_centroids", f32s(m.centroids().iter())));
                out.push(sec("kmeans_l1_inertia", f32s([m.inertia()].iter())));
            }
            Err(e) => out.push(sec("kmeans_l1_error", format!("{:?}", e).into_bytes())),
        }
    }
    out
}

/// the cross-validation helpers (scores collected per model over the folds)
fn it_cross_validation(d: &Data) -> Sections {
    use linfa_elasticnet::ElasticNet;
    let mut out = vec![];
    let mut ds = Dataset::new(d.rx.clone(), d.ry.clone());
    let models: Vec<_> = [0.1f64, 0.5, 1.0].iter().map(|r| ElasticNet::params().penalty(0.2).l1_ratio(*r)).collect();
    let r: Result<Array1<f64>, linfa_elasticnet::ElasticNetError> = ds.cross_validate_single(4, &models, |prediction, truth| prediction.r2(&truth));
    match r {
        Ok(v) => out.push(sec("cross_validate_single_r2", f64s(v.iter()))),
        Err(e) => out.push(sec("cross_validate_single_error", format!("{:?}", e).into_bytes())),
    }
    let mut ds2 = Dataset::new(d.rx.clone(), d.ry.clone());
    let p = ElasticNet::params().penalty(0.1).l1_ratio(0.5);
    for (i, (m, val)) in ds2.iter_fold(3, |v| p.fit(v).unwrap()).enumerate() {
        out.push(sec(&format!("iter_fold_{}_hyperplane", i), f64s(m.hyperplane().iter())));
        out.push(sec(&format!("iter_fold_{}_validation", i), f64s(val.records().iter())));
    }
    out
}

pub fn items() -> Vec<Item> {
    vec![
        Item { name: "vectorizers_capped", parallel: false, f: it_vectorizers_capped },
        Item { name: "gmm_random_init", parallel: true, f: it_gmm_random },
        Item { name: "kmeans_precomputed_transform", parallel: true, f: it_kmeans_more },
        Item { name: "f32_suite", parallel: true, f: it_f32_suite },
        Item { name: "isotonic", parallel: false, f: it_isotonic },
        Item { name: "pls_variants", parallel: false, f: it_pls_variants },
        Item { name: "svm_variants", parallel: false, f: it_svm_variants },
        Item { name: "preprocessing_variants", parallel: false, f: it_preproc_variants },
        Item { name: "density_nn_variants", parallel: false, f: it_density_nn },
        Item { name: "nn_indices", parallel: false, f: it_nn_indices },
        Item { name: "dataset_helpers", parallel: false, f: it_dataset_helpers },
        Item { name: "naive_bayes_learned", parallel: false, f: it_nb_learned },
        Item { name: "tree_accessors", parallel: false, f: it_tree_more },
        Item { name: "fast_ica_variants", parallel: false, f: it_ica_variants },
        Item { name: "kernels", parallel: false, f: it_kernels },
        Item { name: "serde_state", parallel: false, f: it_serde_state },
        Item { name: "large_regression", parallel: true, f: it_large_regression },
        Item { name: "huge_rows", parallel: true, f: it_huge_rows },
        Item { name: "pca_iterated", parallel: false, f: it_pca_iterated },
        Item { name: "tree_tied_features", parallel: false, f: it_tree_tied_features },
        Item { name: "tree_weighted_multiclass", parallel: false, f: it_tree_weighted_multiclass },
        Item { name: "f32_more", parallel: true, f: it_f32_more },
        Item { name: "cross_validation", parallel: false, f: it_cross_validation },
    ]
}

// ------------------------------------------------------------------------------------------------
// oracle-only: ONE parameter object fitted repeatedly (the generator inside must not advance, and
// nothing may be cached between fits) for the seeded estimators besides KMeans::fit / Gmm::fit

pub fn rng_clone_more(em: &mut Em, rng: &mut Rng) {
    use rand_xoshiro::rand_core::SeedableRng;
    let n_cases = if em.thorough() { 30 } else { 8 };
    for _ in 0..n_cases {
        let seed = rng.next();
        let dseed = rng.next() % 100000;
        let op = format!("#rng_clone_more seed={} data={}", seed, dseed);
        em.case_valid(op, "rng_clone_more", |ctx| {
            let mut r = Rng::new(dseed);
            let x = Array2::from_shape_fn((200, 4), |_| (r.unit() - 0.5) * 10.0);
            let x2 = Array2::from_shape_fn((150, 4), |_| (r.unit() - 0.5) * 6.0);
            let yb = Array1::from_shape_fn(200, |i| x[[i, 0]] + x[[i, 1]] > 0.0);
            let ds = DatasetBase::from(x.clone());
            let ds2 = DatasetBase::from(x2.clone());
            let g = rand_xoshiro::Xoshiro256Plus::seed_from_u64(seed);
            let bits = |a: &Array2<f64>| a.iter().map(|v| v.to_bits()).collect::<Vec<u64>>();
            {
                use linfa_clustering::{GaussianMixtureModel, GmmInitMethod};
                let p = GaussianMixtureModel::params_with_rng(2, g.clone()).init_method(GmmInitMethod::Random).max_n_iterations(10).n_runs(1);
                match (p.fit(&ds), p.fit(&ds2), p.fit(&ds)) {
                    (Ok(a), _, Ok(c)) => ctx.require(bits(a.means()) == bits(c.means()), "rng_cloned_per_fit", "est=gmm_random_init", || "one GMM parameter object (Random init) fitted on the same data twice gives different means".to_string()),
                    // an error must at least be the same both times (a fit that fails once and succeeds once is a difference)
                    (a, _, c) => ctx.require(a.is_err() && c.is_err(), "rng_cloned_per_fit", "est=gmm_random_init", || "one GMM parameter object (Random init): the same data fitted twice succeed once and fail once".to_string()),
                }
            }
            {
                use linfa_clustering::{KMeans, KMeansInit};
                for (nm, init) in [("random", KMeansInit::Random), ("pp", KMeansInit::KMeansPlusPlus)] {
                    let p = KMeans::params_with_rng(3, g.clone()).init_method(init).tolerance(1e-3);
                    let run = |dsx: &DatasetBase<Array2<f64>, _>| match p.fit_with(None, dsx) {
                        Ok(m) => Some(bits(m.centroids())),
                        Err(linfa_clustering::IncrKMeansError::NotConverged(m)) => Some(bits(m.centroids())),
                        Err(_) => None,
                    };
                    let a = run(&ds);
                    let _ = run(&ds2);
                    let c = run(&ds);
                    ctx.require(a.is_some() && a == c, "rng_cloned_per_fit", &format!("est=kmeans_fit_with_{}", nm), || "one KMeans parameter object: fit_with(None, data) twice gives different centroids (or no model)".to_string());
                }
            }
            {
                use linfa_reduction::random_projection::{GaussianRandomProjection, SparseRandomProjection};
                let p = GaussianRandomProjection::<f64>::params_with_rng(g.clone()).target_dim(2);
                let a = p.fit(&ds).map(|m| bits(&m.transform(&x)));
                let _ = p.fit(&ds2);
                let c = p.fit(&ds).map(|m| bits(&m.transform(&x)));
                ctx.require(a.is_ok() && a.as_ref().ok() == c.as_ref().ok(), "rng_cloned_per_fit", "est=gaussian_random_projection", || "one parameter object fitted twice projects differently".to_string());
                let p = SparseRandomProjection::<f64>::params_with_rng(g.clone()).target_dim(2);
                let a = p.fit(&ds).map(|m| bits(&m.transform(&x)));
                let _ = p.fit(&ds2);
                let c = p.fit(&ds).map(|m| bits(&m.transform(&x)));
                ctx.require(a.is_ok() && a.as_ref().ok() == c.as_ref().ok(), "rng_cloned_per_fit", "est=sparse_random_projection", || "one parameter object fitted twice projects differently".to_string());
            }
            {
                use linfa_ftrl::Ftrl;
                let dsb = Dataset::new(x.clone(), yb.clone());
                let p = Ftrl::params_with_rng(g.clone()).alpha(0.05);
                let a = p.fit_with(None, &dsb).map(|m| m.z().iter().map(|v| v.to_bits()).collect::<Vec<u64>>());
                let c = p.fit_with(None, &dsb).map(|m| m.z().iter().map(|v| v.to_bits()).collect::<Vec<u64>>());
                ctx.require(a.is_ok() && a.as_ref().ok() == c.as_ref().ok(), "rng_cloned_per_fit", "est=ftrl", || "one FTRL parameter object: fit_with(None, data) twice gives different z".to_string());
            }
            {
                use linfa_ica::fast_ica::FastIca;
                let p = FastIca::params().ncomponents(2).max_iter(30).random_state((seed % 1000) as usize);
                let a = p.fit(&ds).map(|m| bits(&m.predict(&x)));
                let _ = p.fit(&ds2);
                let c = p.fit(&ds).map(|m| bits(&m.predict(&x)));
                ctx.require(a.is_ok() == c.is_ok() && a.as_ref().ok() == c.as_ref().ok(), "rng_cloned_per_fit", "est=fast_ica_seeded", || "one seeded FastICA parameter object fitted twice gives different sources".to_string());
            }
            "-".to_string()
        });
    }
}
