//! `hx <Cxx> <quick|thorough> <seed> <outdir> [--only <idx>]`
//! Runs the real linfa code (built from /repo's working tree, `--cfg linfa_verif`) on generated
//! cases and writes ops.txt / impl.out / oracle.jsonl / dist.json into <outdir>.
#![allow(clippy::all)]
#![allow(dead_code)]
mod util;
mod c01;
mod c02;
mod c03;
mod c04;
mod c05;
mod c06;
mod c07;
mod c08;
mod c09;
mod c10;
mod c11;
mod c12;
mod c13;
mod c14;
mod c15;
mod c16;
mod c17;
mod c18;
mod c19;
mod c20;

use util::{Em, Rng};

fn static_name(s: &str) -> Option<&'static str> {
    const NAMES: [&str; 20] = ["C01", "C02", "C03", "C04", "C05", "C06", "C07", "C08", "C09", "C10", "C11", "C12", "C13", "C14", "C15", "C16", "C17", "C18", "C19", "C20"];
    NAMES.iter().copied().find(|n| *n == s)
}

fn main() {
    let args: Vec<String> = std::env::args().collect();
    if args.len() < 5 {
        eprintln!("usage: hx <Cxx> <quick|thorough> <seed> <outdir> [--only <idx>]");
        std::process::exit(2);
    }
    let prop = static_name(&args[1]).unwrap_or_else(|| {
        eprintln!("unknown property {}", args[1]);
        std::process::exit(2)
    });
    let tier = args[2].clone();
    let seed: u64 = args[3].parse().expect("seed");
    let outdir = args[4].clone();
    let only = if args.len() >= 7 && args[5] == "--only" { Some(args[6].parse::<usize>().expect("idx")) } else { None };
    // keep panic messages of expected panics out of the way
    std::panic::set_hook(Box::new(|_| {}));
    let mut em = Em::new(prop, &tier, only);
    let mut rng = Rng::new(seed);
    match prop {
        "C01" => c01::run(&mut em, &mut rng),
        "C02" => c02::run(&mut em, &mut rng),
        "C03" => c03::run(&mut em, &mut rng),
        "C04" => c04::run(&mut em, &mut rng),
        "C05" => c05::run(&mut em, &mut rng),
        "C06" => c06::run(&mut em, &mut rng),
        "C07" => c07::run(&mut em, &mut rng),
        "C08" => c08::run(&mut em, &mut rng),
        "C09" => c09::run(&mut em, &mut rng),
        "C10" => c10::run(&mut em, &mut rng),
        "C11" => c11::run(&mut em, &mut rng),
        "C12" => c12::run(&mut em, &mut rng),
        "C13" => c13::run(&mut em, &mut rng),
        "C14" => c14::run(&mut em, &mut rng),
        "C15" => c15::run(&mut em, &mut rng),
        "C16" => c16::run(&mut em, &mut rng),
        "C17" => c17::run(&mut em, &mut rng),
        "C18" => c18::run(&mut em, &mut rng),
        "C19" => c19::run(&mut em, &mut rng),
        "C20" => c20::run(&mut em, &mut rng),
        _ => unreachable!(),
    }
    em.write(&outdir, seed).expect("write outputs");
}
