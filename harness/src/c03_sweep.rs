//! C03 (b) — implementation-level oracle sweep over the real predictors.
//!
//! For every fitted predictor and every query batch one oracle-only case (`#sweep kind=… `) checks
//!   one_output_per_row          exactly n outputs for n rows (incl. n = 0)
//!   batch_eq_rowwise            row i of the batch result = result of the one-row batch [row i]
//!   permutation_equivariant     predict(rows ∘ π)[k] = predict(rows)[π k]
//!   duplicates_agree            equal rows of one batch get equal outputs
//!   layout_independent          same logical rows as `slice(s![..;2, ..])` of a wider buffer and as a
//!                               column-major (`t()` of a transposed buffer) view
//!   forms_agree                 &records / records / &dataset / dataset / predict_inplace: bit-identical
//!   dataset_form_returns_records  the dataset forms hand back the input records unchanged
//! Discrete outputs are compared exactly; a mismatch is *skipped* (counted as `tie_skipped:<kind>`)
//! only when the decision margin of that row, recomputed from the model's public probabilities /
//! decision values, is below 1e-9.  Float outputs: bit-identical, or within 4 ulps / 1e-12 absolute
//! (gemm vs gemv vs strided dot reduce in different orders).
use super::{batch_from, hexrows, lattice};
use crate::util::*;
use linfa::dataset::{AsTargets, DatasetBase, Pr};
use linfa::traits::{Fit, FitWith, Predict, PredictInplace};
use linfa::{Dataset, MultiClassModel, MultiTargetModel};
use ndarray::{s, Array1, Array2, ArrayView1, ArrayView2, Axis, ShapeBuilder};

#[derive(Clone, Debug, PartialEq)]
pub enum V {
    D(String),
    F(f64),
    /// an `f32` output (f32 instantiations): compared in f32 ulps
    S(f32),
}

fn ordered(x: f64) -> i128 {
    let b = x.to_bits();
    if b >> 63 == 0 {
        b as i128
    } else {
        -((b & !(1u64 << 63)) as i128)
    }
}
pub fn fclose(a: f64, b: f64) -> bool {
    if a.to_bits() == b.to_bits() || a == b || (a.is_nan() && b.is_nan()) {
        return true;
    }
    if !a.is_finite() || !b.is_finite() {
        return false;
    }
    (ordered(a) - ordered(b)).abs() <= 4 || (a - b).abs() <= 1e-12
}
fn sclose(a: f32, b: f32) -> bool {
    if a.to_bits() == b.to_bits() || a == b || (a.is_nan() && b.is_nan()) {
        return true;
    }
    if !a.is_finite() || !b.is_finite() {
        return false;
    }
    let o = |x: f32| -> i64 {
        let b = x.to_bits();
        if b >> 31 == 0 { b as i64 } else { -((b & !(1u32 << 31)) as i64) }
    };
    (o(a) - o(b)).abs() <= 4 || (a - b).abs() <= 1e-4
}
/// Some(true) equal, Some(false) differ, None = discrete mismatch (caller consults the margin)
fn vclose(a: &[V], b: &[V]) -> Option<bool> {
    if a.len() != b.len() {
        return Some(false);
    }
    let mut disc = false;
    for (x, y) in a.iter().zip(b.iter()) {
        match (x, y) {
            (V::D(p), V::D(q)) => {
                if p != q {
                    disc = true;
                }
            }
            (V::F(p), V::F(q)) => {
                if !fclose(*p, *q) {
                    return Some(false);
                }
            }
            (V::S(p), V::S(q)) => {
                if !sclose(*p, *q) {
                    return Some(false);
                }
            }
            _ => return Some(false),
        }
    }
    if disc {
        None
    } else {
        Some(true)
    }
}

pub fn a1<T>(f: impl Fn(&T) -> V) -> impl Fn(&Array1<T>) -> Vec<Vec<V>> {
    move |a| a.iter().map(|x| vec![f(x)]).collect()
}
pub fn a2f(a: &Array2<f64>) -> Vec<Vec<V>> {
    a.rows().into_iter().map(|r| r.iter().map(|x| V::F(*x)).collect()).collect()
}
pub fn a2s(a: &Array2<f32>) -> Vec<Vec<V>> {
    a.rows().into_iter().map(|r| r.iter().map(|x| V::S(*x)).collect()).collect()
}

/// content for a target buffer a caller hands to `predict_inplace`: any junk of the right shape
pub trait Junk {
    fn junk(&mut self, salt: usize);
    /// a buffer of the same shape that is NOT in standard layout: an owned `Array1` that is every second
    /// cell of a wider allocation (`slice_move(s![..;2])`), an owned column-major `Array2`
    fn odd_layout(&self) -> Self;
}
fn strided1<T: Clone>(a: &Array1<T>) -> Array1<T> {
    let w: Array1<T> = a.iter().flat_map(|v| [v.clone(), v.clone()]).collect();
    w.slice_move(s![..;2])
}
impl Junk for Array1<f64> {
    fn odd_layout(&self) -> Self {
        strided1(self)
    }
    fn junk(&mut self, salt: usize) {
        for (i, v) in self.iter_mut().enumerate() {
            *v = if salt == 1 && i % 3 == 0 { f64::NAN } else { -7.25 - 1.5 * i as f64 + 1e3 * salt as f64 };
        }
    }
}
impl Junk for Array2<f64> {
    fn odd_layout(&self) -> Self {
        let mut fo = Array2::<f64>::zeros(self.dim().f());
        fo.assign(self);
        fo
    }
    fn junk(&mut self, salt: usize) {
        for (i, v) in self.iter_mut().enumerate() {
            *v = if salt == 1 && i % 3 == 0 { f64::NAN } else { -7.25 - 1.5 * i as f64 + 1e3 * salt as f64 };
        }
    }
}
impl Junk for Array1<f32> {
    fn odd_layout(&self) -> Self {
        strided1(self)
    }
    fn junk(&mut self, salt: usize) {
        for (i, v) in self.iter_mut().enumerate() {
            *v = if salt == 1 && i % 3 == 0 { f32::NAN } else { -7.25 - 1.5 * i as f32 + 1e3 * salt as f32 };
        }
    }
}
impl Junk for Array2<f32> {
    fn odd_layout(&self) -> Self {
        let mut fo = Array2::<f32>::zeros(self.dim().f());
        fo.assign(self);
        fo
    }
    fn junk(&mut self, salt: usize) {
        for (i, v) in self.iter_mut().enumerate() {
            *v = if salt == 1 && i % 3 == 0 { f32::NAN } else { -7.25 - 1.5 * i as f32 + 1e3 * salt as f32 };
        }
    }
}
impl Junk for Array1<usize> {
    fn odd_layout(&self) -> Self {
        strided1(self)
    }
    fn junk(&mut self, salt: usize) {
        for (i, v) in self.iter_mut().enumerate() {
            *v = 9000 + 10 * salt + i;
        }
    }
}
impl Junk for Array1<bool> {
    fn odd_layout(&self) -> Self {
        strided1(self)
    }
    fn junk(&mut self, salt: usize) {
        for (i, v) in self.iter_mut().enumerate() {
            *v = (i + salt) % 2 == 0;
        }
    }
}
impl Junk for Array1<Pr> {
    fn odd_layout(&self) -> Self {
        strided1(self)
    }
    fn junk(&mut self, salt: usize) {
        for (i, v) in self.iter_mut().enumerate() {
            *v = Pr::new(if (i + salt) % 2 == 0 { 0.75 } else { 0.0625 });
        }
    }
}

/// bit-identical (any NaN = any NaN)
fn videntical(a: &[V], b: &[V]) -> bool {
    a.len() == b.len()
        && a.iter().zip(b.iter()).all(|(x, y)| match (x, y) {
            (V::D(p), V::D(q)) => p == q,
            (V::F(p), V::F(q)) => p.to_bits() == q.to_bits() || (p.is_nan() && q.is_nan()),
            (V::S(p), V::S(q)) => p.to_bits() == q.to_bits() || (p.is_nan() && q.is_nan()),
            _ => false,
        })
}

struct Cmp<'a> {
    kind: &'a str,
    margin: &'a dyn Fn(ArrayView1<f64>) -> f64,
    skipped: usize,
    /// comparisons made / comparisons of rows in the SAME memory layout that passed by tolerance only
    compared: usize,
    same_layout: usize,
    inexact_same_layout: usize,
}
impl<'a> Cmp<'a> {
    fn rows(&mut self, ctx: &mut Ctx, clause: &str, row: ArrayView1<f64>, a: &[V], b: &[V], what: impl Fn() -> String) {
        self.compared += 1;
        let same_layout = clause != "layout_independent";
        if same_layout {
            self.same_layout += 1;
        }
        match vclose(a, b) {
            Some(true) => {
                if same_layout && !videntical(a, b) {
                    self.inexact_same_layout += 1;
                }
            }
            Some(false) => ctx.fail(clause, self.kind, format!("{}: {:?} vs {:?} for row {:?}", what(), a, b, row.to_vec())),
            None => {
                let m = (self.margin)(row);
                if m < 1e-9 {
                    self.skipped += 1;
                } else {
                    ctx.fail(clause, self.kind, format!("{}: {:?} vs {:?} for row {:?} (decision margin {:e})", what(), a, b, row.to_vec(), m));
                }
            }
        }
    }
}

/// the records handed back are the input records, cell for cell (a NaN cell is still that NaN cell)
fn same_records<F: linfa::Float>(a: &Array2<F>, b: &Array2<F>) -> bool {
    a.dim() == b.dim() && a.iter().zip(b.iter()).all(|(x, y)| x == y || (x.is_nan() && y.is_nan()))
}

/// all checks for one (model, batch)
/// (`F` = element type of the records the model was fitted on: the f64 lattice batch is cast exactly)
pub fn sweep_case<F, M, T>(em: &mut Em, rng: &mut Rng, kind: &str, fit_id: u64, m: &M, batch64: &Array2<f64>, conv: &dyn Fn(&T) -> Vec<Vec<V>>, margin: &dyn Fn(ArrayView1<f64>) -> f64)
where
    F: linfa::Float,
    T: AsTargets + Junk,
    M: PredictInplace<Array2<F>, T> + for<'v> PredictInplace<ArrayView2<'v, F>, T>,
{
    let batch: &Array2<F> = &batch64.mapv(|v| F::cast(v));
    let n = batch.nrows();
    let p = batch.ncols();
    let mut perm: Vec<usize> = (0..n).collect();
    rng.shuffle(&mut perm);
    let op = format!("#sweep kind={} fit={} rows={}", kind, fit_id, hexrows(batch64));
    let mut skipped = 0usize;
    let mut tally = (0usize, 0usize, 0usize);
    em.case_valid(op, kind, |ctx| {
        let mut c = Cmp { kind, margin, skipped: 0, compared: 0, same_layout: 0, inexact_same_layout: 0 };
        let base_t: T = <M as Predict<&Array2<F>, T>>::predict(m, batch);
        let base = conv(&base_t);
        ctx.require(base.len() == n, "one_output_per_row", kind, || format!("{} outputs for {} rows", base.len(), n));
        if base.len() != n {
            return String::new();
        }
        // row by row
        for i in 0..n {
            let one = batch.slice(s![i..i + 1, ..]).to_owned();
            let r = conv(&<M as Predict<&Array2<F>, T>>::predict(m, &one));
            ctx.require(r.len() == 1, "one_output_per_row", kind, || format!("{} outputs for a one-row batch", r.len()));
            if r.len() == 1 {
                c.rows(ctx, "batch_eq_rowwise", batch64.row(i), &base[i], &r[0], || format!("row {} of a {}-row batch vs alone", i, n));
            }
        }
        // permuted
        if n > 1 {
            let pb = batch.select(Axis(0), &perm);
            let r = conv(&<M as Predict<&Array2<F>, T>>::predict(m, &pb));
            ctx.require(r.len() == n, "one_output_per_row", kind, || format!("{} outputs for {} permuted rows", r.len(), n));
            if r.len() == n {
                for k in 0..n {
                    c.rows(ctx, "permutation_equivariant", batch64.row(perm[k]), &base[perm[k]], &r[k], || format!("row {} moved to position {}", perm[k], k));
                }
            }
        }
        // duplicates inside the batch
        for i in 0..n {
            for j in 0..i {
                if batch.row(i) == batch.row(j) {
                    c.rows(ctx, "duplicates_agree", batch64.row(i), &base[i], &base[j], || format!("equal rows {} and {} of one batch", j, i));
                }
            }
        }
        // non-contiguous layouts of the same logical rows
        {
            let mut wide = Array2::from_elem((2 * n, p), F::cast(1e3));
            for i in 0..n {
                wide.row_mut(2 * i).assign(&batch.row(i));
                if 2 * i + 1 < 2 * n {
                    wide.row_mut(2 * i + 1).fill(F::cast(-7.25 - i as f64));
                }
            }
            let v: ArrayView2<F> = wide.slice(s![..;2, ..]);
            let r = conv(&<M as Predict<&ArrayView2<F>, T>>::predict(m, &v));
            ctx.require(r.len() == n, "one_output_per_row", kind, || format!("{} outputs for {} strided rows", r.len(), n));
            if r.len() == n {
                for i in 0..n {
                    c.rows(ctx, "layout_independent", batch64.row(i), &base[i], &r[i], || format!("row {} through slice(s![..;2, ..])", i));
                }
            }
            let mut fo = Array2::zeros((n, p).f());
            fo.assign(batch);
            let v: ArrayView2<F> = fo.view();
            let r = conv(&<M as Predict<&ArrayView2<F>, T>>::predict(m, &v));
            ctx.require(r.len() == n, "one_output_per_row", kind, || format!("{} outputs for {} column-major rows", r.len(), n));
            if r.len() == n {
                for i in 0..n {
                    c.rows(ctx, "layout_independent", batch64.row(i), &base[i], &r[i], || format!("row {} through a column-major buffer", i));
                }
            }
        }
        // calling forms: bit-identical, records handed back
        {
            let bits = |x: &Vec<Vec<V>>| -> Vec<Vec<String>> {
                x.iter().map(|r| r.iter().map(|v| match v { V::D(s) => s.clone(), V::F(f) => hex64c(*f), V::S(f) => if f.is_nan() { "nan".to_string() } else { hex32(*f) } }).collect()).collect()
            };
            let want = bits(&base);
            let owned = <M as Predict<Array2<F>, DatasetBase<Array2<F>, T>>>::predict(m, batch.clone());
            ctx.require(bits(&conv(owned.targets())) == want, "forms_agree", kind, || "predict(records) differs from predict(&records)".to_string());
            ctx.require(same_records(owned.records(), batch), "dataset_form_returns_records", kind, || "predict(records) did not hand the records back unchanged".to_string());
            let ds: DatasetBase<Array2<F>, Array1<()>> = DatasetBase::from(batch.clone());
            let t3: T = <M as Predict<&DatasetBase<Array2<F>, Array1<()>>, T>>::predict(m, &ds);
            ctx.require(bits(&conv(&t3)) == want, "forms_agree", kind, || "predict(&dataset) differs from predict(&records)".to_string());
            ctx.require(same_records(ds.records(), batch), "dataset_form_returns_records", kind, || "predict(&dataset) modified the records".to_string());
            let d4 = <M as Predict<DatasetBase<Array2<F>, Array1<()>>, DatasetBase<Array2<F>, T>>>::predict(m, ds);
            ctx.require(bits(&conv(d4.targets())) == want, "forms_agree", kind, || "predict(dataset) differs from predict(&records)".to_string());
            ctx.require(same_records(d4.records(), batch), "dataset_form_returns_records", kind, || "predict(dataset) did not hand the records back unchanged".to_string());
            // dataset forms on a dataset that already carries targets, weights and feature names: the
            // prediction must not look at any of them, the records come back unchanged
            {
                let tg: Array1<usize> = (0..n).rev().collect();
                let wt: Array1<f32> = (0..n).map(|i| if i % 2 == 0 { 0.0 } else { 2.5 }).collect();
                let names: Vec<String> = (0..p).map(|j| format!("f{}", j)).collect();
                let full = DatasetBase::new(batch.clone(), tg).with_weights(wt).with_feature_names(names);
                let t: T = <M as Predict<&DatasetBase<Array2<F>, Array1<usize>>, T>>::predict(m, &full);
                ctx.require(bits(&conv(&t)) == want, "forms_agree", kind, || "predict(&dataset with targets, zero weights, names) differs from predict(&records)".to_string());
                ctx.require(same_records(full.records(), batch), "dataset_form_returns_records", kind, || "predict(&dataset with targets/weights) modified the records".to_string());
                let d = <M as Predict<DatasetBase<Array2<F>, Array1<usize>>, DatasetBase<Array2<F>, T>>>::predict(m, full);
                ctx.require(bits(&conv(d.targets())) == want, "forms_agree", kind, || "predict(dataset with targets, zero weights, names) differs from predict(&records)".to_string());
                ctx.require(same_records(d.records(), batch), "dataset_form_returns_records", kind, || "predict(dataset with targets/weights) did not hand the records back unchanged".to_string());
            }
            let mut t5 = <M as PredictInplace<Array2<F>, T>>::default_target(m, batch);
            <M as PredictInplace<Array2<F>, T>>::predict_inplace(m, batch, &mut t5);
            ctx.require(bits(&conv(&t5)) == want, "forms_agree", kind, || "predict_inplace differs from predict(&records)".to_string());
            // in place into a buffer supplied by the caller: pre-filled with junk (finite; with NaNs) ...
            for salt in 0..2 {
                let mut t6 = <M as PredictInplace<Array2<F>, T>>::default_target(m, batch);
                t6.junk(salt);
                <M as PredictInplace<Array2<F>, T>>::predict_inplace(m, batch, &mut t6);
                ctx.require(bits(&conv(&t6)) == want, "inplace_into_supplied_buffer", kind, || format!("predict_inplace into a pre-filled buffer (junk {}) differs from predict(&records): {:?} vs {:?}", salt, conv(&t6), base));
            }
            // ... into a buffer that is not in standard layout (owned strided `Array1`, column-major `Array2`)
            {
                let mut t9 = <M as PredictInplace<Array2<F>, T>>::default_target(m, batch).odd_layout();
                t9.junk(0);
                <M as PredictInplace<Array2<F>, T>>::predict_inplace(m, batch, &mut t9);
                ctx.require(bits(&conv(&t9)) == want, "inplace_into_supplied_buffer", kind, || format!("predict_inplace into a pre-filled buffer that is not in standard layout differs from predict(&records): {:?} vs {:?}", conv(&t9), base));
            }
            // ... and reused from a previous batch of the same size (the rows in reverse order)
            if n > 0 {
                let idx: Vec<usize> = (0..n).rev().collect();
                let other = batch.select(Axis(0), &idx);
                let mut t7 = <M as PredictInplace<Array2<F>, T>>::default_target(m, &other);
                <M as PredictInplace<Array2<F>, T>>::predict_inplace(m, &other, &mut t7);
                <M as PredictInplace<Array2<F>, T>>::predict_inplace(m, batch, &mut t7);
                ctx.require(bits(&conv(&t7)) == want, "inplace_into_supplied_buffer", kind, || format!("predict_inplace into the buffer of a previous batch differs from predict(&records): {:?} vs {:?}", conv(&t7), base));
                // and on the view form
                let mut t8 = <M as PredictInplace<ArrayView2<F>, T>>::default_target(m, &batch.view());
                t8.junk(0);
                <M as PredictInplace<ArrayView2<F>, T>>::predict_inplace(m, &batch.view(), &mut t8);
                ctx.require(bits(&conv(&t8)) == want, "inplace_into_supplied_buffer", kind, || "predict_inplace(&view) into a pre-filled buffer differs from predict(&records)".to_string());
            }
            // a second call on the same input: the model carries no state across calls
            let again: T = <M as Predict<&Array2<F>, T>>::predict(m, batch);
            ctx.require(bits(&conv(&again)) == want, "repeatable", kind, || "a second predict(&records) on the same batch differs".to_string());
        }
        skipped = c.skipped;
        tally = (c.compared, c.same_layout, c.inexact_same_layout);
        String::new()
    });
    if skipped > 0 {
        em.count_n(&format!("tie_skipped:{}", kind), skipped as u64);
    }
    em.count_n(&format!("rows:{}", kind), n as u64);
    em.count_n(&format!("cmp:{}", kind), tally.0 as u64);
    em.count_n(&format!("cmp_same_layout:{}", kind), tally.1 as u64);
    if tally.2 > 0 {
        em.count_n(&format!("inexact_same_layout:{}", kind), tally.2 as u64);
    }
}

fn sweep_model<F, M, T>(em: &mut Em, rng: &mut Rng, kind: &str, m: &M, pool: &Array2<f64>, conv: &dyn Fn(&T) -> Vec<Vec<V>>, margin: &dyn Fn(ArrayView1<f64>) -> f64)
where
    F: linfa::Float,
    T: AsTargets + Junk,
    M: PredictInplace<Array2<F>, T> + for<'v> PredictInplace<ArrayView2<'v, F>, T>,
{
    let nb = if em.thorough() { 6 } else { 3 };
    let fit_id = rng.next() % 1_000_000;
    em.count(&format!("fitted:{}", kind));
    for _ in 0..nb {
        let batch = batch_from(rng, pool, em);
        sweep_case::<F, M, T>(em, rng, kind, fit_id, m, &batch, conv, margin);
    }
    // a batch well beyond any small-batch fast path / chunk size: 33..=96 rows, midpoints of pool rows
    // (stay inside the pool's domain, exact on the quarter lattice)
    let midpoints = |rng: &mut Rng, nrows: usize| -> Array2<f64> {
        let np = pool.nrows();
        let mut big = Array2::zeros((nrows, pool.ncols()));
        for i in 0..nrows {
            let (a, b) = (rng.below(np), rng.below(np));
            for j in 0..pool.ncols() {
                big[(i, j)] = (pool[(a, j)] + pool[(b, j)]) / 2.0;
            }
        }
        big
    };
    if em.thorough() || rng.chance(1, 2) {
        let nrows = 33 + rng.below(64);
        let big = midpoints(rng, nrows);
        em.count("batch:large");
        sweep_case::<F, M, T>(em, rng, kind, fit_id, m, &big, conv, margin);
    }
    // ... and beyond the usual block sizes (128, 256): 130..=300 rows
    if rng.chance(1, if em.thorough() { 2 } else { 4 }) {
        let nrows = 130 + rng.below(171);
        let big = midpoints(rng, nrows);
        em.count("batch:huge");
        em.count(&format!("huge:{}", kind));
        sweep_case::<F, M, T>(em, rng, kind, fit_id, m, &big, conv, margin);
    }
    // a batch that contains non-finite rows (NaN, +-inf in one cell).  What the property promises for such
    // a row is what predicting it ALONE yields: where that panics (`argmax().unwrap()` of GMM / naive Bayes /
    // multinomial logistic, `Pr::new` of the probability models) nothing is promised for a batch that
    // contains it (counted `nonfinite_unpromised:<kind>`, not compared); where it yields a value the
    // whole sweep applies — in particular a zip-writing predictor must still write that row's cell
    // (the class of the fixed isotonic finding)
    {
        let (np, p) = pool.dim();
        let nrows = 3 + rng.below(4);
        let mut nf = Array2::zeros((nrows, p));
        for i in 0..nrows {
            let a = rng.below(np);
            nf.row_mut(i).assign(&pool.row(a));
        }
        let mut bad = vec![];
        for _ in 0..1 + rng.below(2) {
            let (i, j) = (rng.below(nrows), rng.below(p));
            nf[(i, j)] = *rng.pick(&[f64::NAN, f64::NAN, f64::INFINITY, f64::NEG_INFINITY]);
            bad.push(i);
        }
        let alone_ok = bad.iter().all(|i| {
            let one: Array2<F> = nf.slice(s![*i..*i + 1, ..]).mapv(|v| F::cast(v));
            std::panic::catch_unwind(std::panic::AssertUnwindSafe(|| {
                let _ = <M as Predict<&Array2<F>, T>>::predict(m, &one);
            }))
            .is_ok()
        });
        if alone_ok {
            em.count("batch:nonfinite");
            em.count(&format!("nonfinite:{}", kind));
            sweep_case::<F, M, T>(em, rng, kind, fit_id, m, &nf, conv, margin);
        } else {
            em.count(&format!("nonfinite_unpromised:{}", kind));
        }
    }
}

/// the single-sample calling forms (`Predict<ArrayBase<_, Ix1>, _>`: the SVM family, k-means): every pool
/// row handed over as an owned `Array1`, as a contiguous `ArrayView1` and as a strided `ArrayView1` (a row
/// of a column-major buffer) must give what the batch forms give for that row — bit-identical for the two
/// contiguous forms (the batch loop runs the very same per-row code), within the layout tolerance for
/// the strided one
fn single_forms<F: linfa::Float>(em: &mut Em, kind: &str, pool64: &Array2<f64>, batch: &dyn Fn(&Array2<F>) -> Vec<Vec<V>>, one: &dyn Fn(ArrayView1<F>, bool) -> Vec<V>) {
    let pool: Array2<F> = pool64.mapv(|v| F::cast(v));
    let op = format!("#single kind={} rows={}", kind, hexrows(pool64));
    em.count(&format!("single:{}", kind));
    em.case_valid(op, kind, |ctx| {
        let base = batch(&pool);
        let mut fo = Array2::zeros(pool.dim().f());
        fo.assign(&pool);
        for i in 0..pool.nrows().min(base.len()) {
            let v = one(pool.row(i), false);
            ctx.require(videntical(&v, &base[i]), "forms_agree", kind, || format!("predict(ArrayView1 of row {}) gives {:?}, the batch forms {:?}", i, v, base[i]));
            let o = one(pool.row(i), true);
            ctx.require(videntical(&o, &base[i]), "forms_agree", kind, || format!("predict(Array1 of row {}) gives {:?}, the batch forms {:?}", i, o, base[i]));
            let st = one(fo.row(i), false);
            ctx.require(vclose(&st, &base[i]) != Some(false), "layout_independent", kind, || format!("predict(strided ArrayView1 of row {}) gives {:?}, the batch forms {:?}", i, st, base[i]));
        }
        String::new()
    });
}

/// model-level tie of the score-table family: the `n x k` score matrix the real model takes its arg-max of
/// goes to the driver (`tableBatch` reads it as the class-major table), which answers the class index per
/// row; `idx()` = what the real predictor returns.  A row with several exactly maximal scores is written as
/// their set when the class returned is one of them (the statement fixes no tie-break).
fn table_case(em: &mut Em, kind: &str, sc: &Array2<f64>, idx: &dyn Fn() -> Vec<usize>) {
    if sc.iter().any(|v| !v.is_finite()) {
        em.count(&format!("table:nonfinite_scores:{}", kind));
        return;
    }
    em.count(&format!("table:{}", kind));
    let op = format!("table kind={} k={} scores={}", kind, sc.ncols(), hexrows(sc));
    let class = format!("table:{}", kind);
    em.case_valid(op, &class, |ctx| {
        let out = idx();
        ctx.require(out.len() == sc.nrows(), "one_output_per_row", &class, || format!("{} outputs for {} rows", out.len(), sc.nrows()));
        let cells: Vec<String> = sc
            .rows()
            .into_iter()
            .zip(out.iter())
            .map(|(r, l)| {
                let mx = r.iter().cloned().fold(f64::NEG_INFINITY, f64::max);
                let w: Vec<usize> = (0..r.len()).filter(|c| r[*c] == mx).collect();
                ctx.require(w.contains(l), "label_of_highest_score", &class, || format!("class {} returned, scores {:?}", l, r.to_vec()));
                if w.len() > 1 && w.contains(l) { format!("t{}", w.iter().map(|x| x.to_string()).collect::<Vec<_>>().join("|")) } else { l.to_string() }
            })
            .collect();
        format!("ok {}", cells.join(","))
    });
}

/// model-level tie of the threshold family: decision values of the real model, `threshBatch` in the driver
fn thresh_case(em: &mut Em, kind: &str, dec: &Array1<f64>, thr: f64, lab: &dyn Fn() -> Vec<bool>) {
    if dec.iter().any(|v| v.is_nan()) {
        return;
    }
    em.count(&format!("thresh:{}", kind));
    let op = format!("thresh kind={} thr={} dec={}", kind, hex64(thr), list(dec.iter(), |x| hex64(*x)));
    em.case_valid(op, &format!("thresh:{}", kind), |_ctx| format!("ok {}", list(lab().iter(), |b| b.to_string())));
}

fn top2_gap(v: &[f64]) -> f64 {
    if v.len() < 2 {
        return f64::INFINITY;
    }
    let mut s = v.to_vec();
    s.sort_by(|a, b| b.partial_cmp(a).unwrap_or(std::cmp::Ordering::Equal));
    s[0] - s[1]
}
fn row2(r: ArrayView1<f64>) -> Array2<f64> {
    r.to_owned().insert_axis(Axis(0))
}
const NOMARGIN: fn(ArrayView1<f64>) -> f64 = |_| f64::INFINITY;

/// two or three separated blobs on the half-integer lattice, with labels
fn blobs(rng: &mut Rng, n: usize, p: usize, k: usize) -> (Array2<f64>, Array1<usize>) {
    let centers = lattice(rng, k, p, 6, false);
    let mut x = Array2::zeros((n, p));
    let mut y = Array1::zeros(n);
    for i in 0..n {
        let c = i % k;
        y[i] = c;
        for j in 0..p {
            x[(i, j)] = centers[(c, j)] + rng.range(-3, 3) as f64 / 2.0;
        }
    }
    (x, y)
}

/// run a fit on a helper thread and give up after `ms` (the argmin line search used by the GLM and
/// logistic fits can spin forever on a non-finite cost; fitting is not C03's subject)
fn with_timeout<T: Send + 'static>(ms: u64, f: impl FnOnce() -> T + Send + 'static) -> Option<T> {
    let (tx, rx) = std::sync::mpsc::channel();
    std::thread::spawn(move || {
        let r = std::panic::catch_unwind(std::panic::AssertUnwindSafe(f));
        if let Ok(v) = r {
            let _ = tx.send(v);
        }
    });
    rx.recv_timeout(std::time::Duration::from_millis(ms)).ok()
}

fn trace(what: &str) {
    if std::env::var("VERIF_TRACE").is_ok() {
        eprintln!("trace {}", what);
    }
}

fn fail_fit(em: &mut Em, kind: &str) {
    em.count(&format!("fit_failed:{}", kind));
}

fn one_round(em: &mut Em, rng: &mut Rng) {
    use rand::SeedableRng;
    let p = 1 + rng.below(4);
    let p = if rng.chance(1, 5) { 9 + rng.below(4) } else { p }; // wide rows: ndarray's unrolled dot (>= 8 lanes)
    let n = 12 + rng.below(12);
    let k = 2 + rng.below(2);
    let (x, y) = blobs(rng, n, p, k);
    let ybool = y.mapv(|c| c == 0);
    let yreg = Array1::from_shape_fn(n, |i| (0..p).map(|j| x[(i, j)] * ((j % 3) as f64 - 1.0)).sum::<f64>() + 0.25 * rng.range(-4, 4) as f64);
    let pool = {
        let mut q = lattice(rng, 7, p, 9, true);
        for j in 0..p {
            q[(0, j)] = x[(0, j)];
        }
        q
    };
    let seed = rng.next();
    let fstr = a1(|x: &f64| V::F(*x));
    let ustr = a1(|x: &usize| V::D(x.to_string()));
    let bstr = a1(|x: &bool| V::D(x.to_string()));
    let prstr = a1(|x: &Pr| V::F(**x as f64));

    trace("k-means");
    // k-means
    {
        use linfa_clustering::KMeans;
        match KMeans::params_with_rng(k, rand_xoshiro::Xoshiro256Plus::seed_from_u64(seed)).max_n_iterations(15).n_runs(1).fit(&Dataset::from(x.clone())) {
            Ok(m) => {
                let cents = m.centroids().clone();
                let margin = move |r: ArrayView1<f64>| {
                    let d: Vec<f64> = cents.rows().into_iter().map(|c| -c.iter().zip(r.iter()).map(|(a, b)| (a - b) * (a - b)).sum::<f64>()).collect();
                    top2_gap(&d)
                };
                sweep_model::<f64, _, _>(em, rng, "kmeans", &m, &pool, &ustr, &margin);
                single_forms::<f64>(em, "kmeans", &pool, &|q| ustr(&m.predict(q)), &|r, owned| if owned { vec![V::D(m.predict(&r.to_owned()).to_string())] } else { vec![V::D(m.predict(&r).to_string())] });
            }
            Err(_) => fail_fit(em, "kmeans"),
        }
    }
    // k-means with a non-L2 distance (the generic `Distance` path of `closest_centroid`)
    {
        use linfa_clustering::KMeans;
        use linfa_nn::distance::L1Dist;
        match KMeans::params_with(k, rand_xoshiro::Xoshiro256Plus::seed_from_u64(seed), L1Dist).max_n_iterations(15).n_runs(1).fit(&Dataset::from(x.clone())) {
            Ok(m) => {
                let cents = m.centroids().clone();
                let margin = move |r: ArrayView1<f64>| {
                    let d: Vec<f64> = cents.rows().into_iter().map(|c| -c.iter().zip(r.iter()).map(|(a, b)| (a - b).abs()).sum::<f64>()).collect();
                    top2_gap(&d)
                };
                sweep_model::<f64, _, _>(em, rng, "kmeans_l1", &m, &pool, &ustr, &margin)
            }
            Err(_) => fail_fit(em, "kmeans_l1"),
        }
    }
    trace("Gaussian mixture");
    // Gaussian mixture
    if p <= 4 {
        use linfa_clustering::GaussianMixtureModel;
        match GaussianMixtureModel::params_with_rng(k, rand_xoshiro::Xoshiro256Plus::seed_from_u64(seed)).max_n_iterations(30).n_runs(1).tolerance(1e-3).fit(&Dataset::from(x.clone())) {
            Ok(m) => {
                let mm = m.clone();
                let margin = move |r: ArrayView1<f64>| {
                    let pr = mm.predict_proba(&row2(r));
                    let v = pr.row(0).to_vec();
                    if v.iter().any(|x| !x.is_finite()) {
                        0.0
                    } else {
                        top2_gap(&v)
                    }
                };
                // queries near the data and far from every component in ONE pool, so that batches mix
                // them: a log-sum-exp shift shared by the batch would let a near row decide a far
                // row's label (the per-row shift keeps far rows finite since the C10 repair)
                let mut mixed = Array2::zeros((2 * pool.nrows(), p));
                for i in 0..pool.nrows() {
                    for j in 0..p {
                        mixed[(2 * i, j)] = pool[(i, j)] / 2.0;
                        mixed[(2 * i + 1, j)] = pool[(i, j)] * 16.0 + 40.0;
                    }
                }
                sweep_model::<f64, _, _>(em, rng, "gmm", &m, &mixed, &ustr, &margin);
                table_case(em, "gmm", &m.predict_proba(&mixed), &|| m.predict(&mixed).to_vec());
            }
            Err(_) => fail_fit(em, "gmm"),
        }
    }
    trace("OLS");
    // OLS
    match linfa_linear::LinearRegression::new().with_intercept(rng.coin()).fit(&Dataset::new(x.clone(), yreg.clone())) {
        Ok(m) => sweep_model::<f64, _, _>(em, rng, "ols", &m, &pool, &fstr, &NOMARGIN),
        Err(_) => fail_fit(em, "ols"),
    }
    trace("Tweedie GLM");
    // Tweedie GLM (log link needs positive targets)
    {
        let ypos = yreg.mapv(|v| (v / 16.0).exp().min(8.0) + 0.125);
        let xs = x.mapv(|v| v / 8.0);
        let power = if rng.coin() { 1.0 } else { 0.0 };
        // every third fit: explicit logit link (targets in (0,1)) — `link.inverse` is then the sigmoid
        let logit = rng.chance(1, 3);
        let gkind = if logit { "glm_logit" } else { "glm" };
        let fitted = with_timeout(20000, move || {
            if logit {
                let y01 = ypos.mapv(|v| v / (1.0 + v));
                linfa_linear::TweedieRegressor::params().power(0.0).link(linfa_linear::Link::Logit).alpha(0.125).max_iter(30).fit(&Dataset::new(xs, y01)).ok()
            } else {
                linfa_linear::TweedieRegressor::params().power(power).alpha(0.125).max_iter(30).fit(&Dataset::new(xs, ypos)).ok()
            }
        });
        match fitted {
            Some(Some(m)) => sweep_model::<f64, _, _>(em, rng, gkind, &m, &pool.mapv(|v| v / 8.0), &fstr, &NOMARGIN),
            Some(None) => fail_fit(em, gkind),
            None => em.count(&format!("fit_timeout:{}", gkind)),
        }
    }
    trace("isotonic");
    // isotonic (one feature)
    {
        let x1 = x.slice(s![.., 0..1]).to_owned();
        match linfa_linear::IsotonicRegression::new().fit(&Dataset::new(x1, yreg.clone())) {
            Ok(m) => sweep_model::<f64, _, _>(em, rng, "isotonic", &m, &pool.slice(s![.., 0..1]).to_owned(), &fstr, &NOMARGIN),
            Err(_) => fail_fit(em, "isotonic"),
        }
    }
    trace("elastic net");
    // elastic net, single and multi task
    match linfa_elasticnet::ElasticNet::params().penalty(0.125).l1_ratio(0.5).with_intercept(rng.coin()).fit(&Dataset::new(x.clone(), yreg.clone())) {
        Ok(m) => sweep_model::<f64, _, _>(em, rng, "elasticnet", &m, &pool, &fstr, &NOMARGIN),
        Err(_) => fail_fit(em, "elasticnet"),
    }
    {
        let t = 2 + rng.below(2);
        let y2 = Array2::from_shape_fn((n, t), |(i, c)| yreg[i] * (c as f64 + 1.0) + x[(i, 0)]);
        match linfa_elasticnet::MultiTaskElasticNet::params().penalty(0.125).l1_ratio(0.5).fit(&Dataset::new(x.clone(), y2.clone())) {
            Ok(m) => sweep_model::<f64, _, _>(em, rng, "multitask_elasticnet", &m, &pool, &a2f, &NOMARGIN),
            Err(_) => fail_fit(em, "multitask_elasticnet"),
        }
        // PLS
        if p >= 2 {
            let comps = 1 + rng.below(2);
            let scale = rng.coin();
            match linfa_pls::PlsRegression::params(comps).scale(scale).fit(&Dataset::new(x.clone(), y2.clone())) {
                Ok(m) => sweep_model::<f64, _, _>(em, rng, "pls_regression", &m, &pool, &a2f, &NOMARGIN),
                Err(_) => fail_fit(em, "pls_regression"),
            }
            match linfa_pls::PlsCanonical::params(comps).scale(scale).fit(&Dataset::new(x.clone(), y2.clone())) {
                Ok(m) => sweep_model::<f64, _, _>(em, rng, "pls_canonical", &m, &pool, &a2f, &NOMARGIN),
                Err(_) => fail_fit(em, "pls_canonical"),
            }
            match linfa_pls::PlsCca::params(comps).scale(scale).fit(&Dataset::new(x.clone(), y2.clone())) {
                Ok(m) => sweep_model::<f64, _, _>(em, rng, "pls_cca", &m, &pool, &a2f, &NOMARGIN),
                Err(_) => fail_fit(em, "pls_cca"),
            }
        }
    }
    trace("PCA");
    // PCA
    match linfa_reduction::Pca::params(1 + rng.below(p)).whiten(rng.coin()).fit(&Dataset::from(x.clone())) {
        Ok(m) => sweep_model::<f64, _, _>(em, rng, "pca", &m, &pool, &a2f, &NOMARGIN),
        Err(_) => fail_fit(em, "pca"),
    }
    trace("logistic");
    // logistic, binary and multinomial
    let (xc, yc) = (x.clone(), ybool.clone());
    let icpt = rng.coin();
    match with_timeout(20000, move || linfa_logistic::LogisticRegression::default().with_intercept(icpt).max_iterations(40).fit(&Dataset::new(xc, yc)).map_err(|_| ())).unwrap_or(Err(())) {
        Ok(m) => {
            let mm = m.clone();
            let margin = move |r: ArrayView1<f64>| (mm.predict_probabilities(&row2(r))[0] - 0.5).abs();
            sweep_model::<f64, _, _>(em, rng, "logistic_binary", &m, &pool, &bstr, &margin);
            // default threshold 0.5 (never changed here); `true` = the model's positive class (which of the two
            // labels that is depends on the training targets: `labels().pos`)
            thresh_case(em, "logistic_binary", &m.predict_probabilities(&pool), 0.5, &|| {
                let pos = m.labels().pos.class;
                m.predict(&pool).iter().map(|b| *b == pos).collect()
            });
        }
        Err(_) => fail_fit(em, "logistic_binary"),
    }
    let (xc, yc) = (x.clone(), y.clone());
    match with_timeout(20000, move || linfa_logistic::MultiLogisticRegression::default().with_intercept(icpt).max_iterations(40).fit(&Dataset::new(xc, yc)).map_err(|_| ())).unwrap_or(Err(())) {
        Ok(m) => {
            let mm = m.clone();
            let margin = move |r: ArrayView1<f64>| top2_gap(&mm.predict_probabilities(&row2(r)).row(0).to_vec());
            sweep_model::<f64, _, _>(em, rng, "logistic_multinomial", &m, &pool, &ustr, &margin);
            // the un-normalised scores `x.W + b` the arg-max is taken of, computed as the model computes them
            let sc = pool.dot(m.params()) + m.intercept();
            let cls: Vec<usize> = m.classes().to_vec();
            table_case(em, "logistic_multinomial", &sc, &|| m.predict(&pool).iter().map(|l| cls.iter().position(|c| c == l).unwrap_or(usize::MAX)).collect());
        }
        Err(_) => fail_fit(em, "logistic_multinomial"),
    }
    trace("SVM:");
    // SVM: classification (linear / gaussian), probability, regression, one-class
    {
        use linfa_svm::Svm;
        let kern = rng.below(3); // 0 linear (explicit hyperplane path), 1 Gaussian, 2 polynomial (kernel expansion path)
        let gauss = kern == 1;
        let kname = ["linear", "gaussian", "poly"][kern];
        macro_rules! with_kernel {
            ($p:expr) => {
                match kern {
                    0 => $p.linear_kernel(),
                    1 => $p.gaussian_kernel(20.0),
                    _ => $p.polynomial_kernel(1.0, 2.0),
                }
            };
        }
        let nu = rng.chance(1, 3);
        let params = Svm::<f64, bool>::params();
        let params = if nu { params.nu_weight(0.5) } else { params.pos_neg_weights(1.0, 1.0) };
        let params = with_kernel!(params);
        match params.fit(&Dataset::new(x.clone(), ybool.clone())) {
            Ok(m) => {
                let mm = m.clone();
                let margin = move |r: ArrayView1<f64>| (mm.weighted_sum(&r) - mm.rho).abs();
                let ck = format!("svm_class_{}{}", kname, if nu { "_nu" } else { "" });
                sweep_model::<f64, _, _>(em, rng, &ck, &m, &pool, &bstr, &margin);
                let dec: Array1<f64> = pool.rows().into_iter().map(|r| m.weighted_sum(&r) - m.rho).collect();
                thresh_case(em, "svm_class", &dec, 0.0, &|| m.predict(&pool).to_vec());
                single_forms::<f64>(em, &ck, &pool, &|q| bstr(&m.predict(q)), &|r, owned| if owned { vec![V::D(m.predict(r.to_owned()).to_string())] } else { vec![V::D(m.predict(r).to_string())] });
            }
            Err(_) => fail_fit(em, &format!("svm_class_{}{}", kname, if nu { "_nu" } else { "" })),
        }
        let _ = gauss;
        let params = Svm::<f64, Pr>::params().pos_neg_weights(1.0, 1.0);
        let params = with_kernel!(params);
        match params.fit(&Dataset::new(x.clone(), ybool.clone())) {
            Ok(m) => {
                sweep_model::<f64, _, _>(em, rng, "svm_probability", &m, &pool, &prstr, &NOMARGIN);
                single_forms::<f64>(em, "svm_probability", &pool, &|q| prstr(&m.predict(q)), &|r, owned| if owned { vec![V::F(*m.predict(r.to_owned()) as f64)] } else { vec![V::F(*m.predict(r) as f64)] });
            }
            Err(_) => fail_fit(em, "svm_probability"),
        }
        let params = Svm::<f64, f64>::params();
        let params = if nu { params.nu_svr(0.5, Some(4.0)) } else { params.c_svr(4.0, Some(0.125)) };
        let params = with_kernel!(params);
        let rkind = if nu { "svm_regression_nu" } else { "svm_regression" };
        match params.fit(&Dataset::new(x.clone(), yreg.clone())) {
            Ok(m) => {
                sweep_model::<f64, _, _>(em, rng, rkind, &m, &pool, &fstr, &NOMARGIN);
                single_forms::<f64>(em, rkind, &pool, &|q| fstr(&m.predict(q)), &|r, owned| if owned { vec![V::F(m.predict(r.to_owned()))] } else { vec![V::F(m.predict(r))] });
            }
            Err(_) => fail_fit(em, rkind),
        }
        match Svm::<f64, Pr>::params().nu_weight(0.5).gaussian_kernel(30.0).fit(&Dataset::from(x.clone())) {
            Ok(m) => {
                let m: Svm<f64, bool> = m;
                let mm = m.clone();
                let margin = move |r: ArrayView1<f64>| (mm.weighted_sum(&r) - mm.rho).abs();
                sweep_model::<f64, _, _>(em, rng, "svm_one_class", &m, &pool, &bstr, &margin)
            }
            Err(_) => fail_fit(em, "svm_one_class"),
        }
    }
    trace("decision tree");
    // decision tree: raw comparisons only, never a tie
    match linfa_trees::DecisionTree::params().max_depth(Some(1 + rng.below(4))).fit(&Dataset::new(x.clone(), y.clone())) {
        Ok(m) => sweep_model::<f64, _, _>(em, rng, "decision_tree", &m, &pool, &ustr, &NOMARGIN),
        Err(_) => fail_fit(em, "decision_tree"),
    }
    // ... and with `bool` labels (`DecisionTree<F, bool>`; `L::default()` = false is also a real label)
    match linfa_trees::DecisionTree::params().max_depth(Some(1 + rng.below(4))).fit(&Dataset::new(x.clone(), ybool.clone())) {
        Ok(m) => sweep_model::<f64, _, _>(em, rng, "decision_tree_bool", &m, &pool, &bstr, &NOMARGIN),
        Err(_) => fail_fit(em, "decision_tree_bool"),
    }
    trace("naive Bayes");
    // naive Bayes (margins from the serialised class statistics)
    {
        match linfa_bayes::GaussianNb::params().fit(&Dataset::new(x.clone(), y.clone())) {
            Ok(m) => {
                let info = nb_info(&serde_json::to_value(&m).unwrap(), "theta", "sigma");
                let readable = nb_readable(&info, k, p);
                if !readable {
                    em.count("margin_unreadable:gaussian_nb");
                }
                let margin = move |r: ArrayView1<f64>| {
                    let jll: Vec<f64> = info
                        .iter()
                        .map(|(prior, th, sg)| {
                            let a: f64 = sg.iter().map(|s| (2.0 * std::f64::consts::PI * s).ln()).sum::<f64>() * -0.5;
                            let b: f64 = r.iter().zip(th.iter().zip(sg.iter())).map(|(x, (t, s))| (x - t) * (x - t) / s).sum::<f64>() * 0.5;
                            a - b + prior.ln()
                        })
                        .collect();
                    let g = top2_gap(&jll);
                    // parameters unreadable (serde image changed): no margin, no skip
                    if !readable { f64::INFINITY } else if g.is_finite() { g } else { 0.0 }
                };
                sweep_model::<f64, _, _>(em, rng, "gaussian_nb", &m, &pool, &ustr, &margin)
            }
            Err(_) => fail_fit(em, "gaussian_nb"),
        }
        let xc = x.mapv(|v| (v + 10.0).max(0.0).floor());
        match linfa_bayes::MultinomialNb::params().fit(&Dataset::new(xc, y.clone())) {
            Ok(m) => {
                let info = nb_info(&serde_json::to_value(&m).unwrap(), "feature_log_prob", "feature_log_prob");
                let readable = nb_readable(&info, k, p);
                if !readable {
                    em.count("margin_unreadable:multinomial_nb");
                }
                let margin = move |r: ArrayView1<f64>| {
                    let jll: Vec<f64> = info.iter().map(|(prior, lp, _)| r.iter().zip(lp.iter()).map(|(x, l)| x * l).sum::<f64>() + prior.ln()).collect();
                    let g = top2_gap(&jll);
                    if !readable { f64::INFINITY } else if g.is_finite() { g } else { 0.0 }
                };
                sweep_model::<f64, _, _>(em, rng, "multinomial_nb", &m, &pool.mapv(|v| v.abs()), &ustr, &margin)
            }
            Err(_) => fail_fit(em, "multinomial_nb"),
        }
    }
    trace("FTRL");
    // FTRL
    {
        use linfa_ftrl::Ftrl;
        let params = Ftrl::params_with_rng(rand_xoshiro::Xoshiro256Plus::seed_from_u64(seed)).alpha(0.5).l1_ratio(0.01).l2_ratio(0.01);
        let ds = Dataset::new(x.clone(), ybool.clone());
        let mut model: Option<Ftrl<f64>> = None;
        let mut ok = true;
        for _ in 0..3 {
            match params.fit_with(model.take(), &ds) {
                Ok(m) => model = Some(m),
                Err(_) => {
                    ok = false;
                    break;
                }
            }
        }
        match (ok, model) {
            (true, Some(m)) => sweep_model::<f64, _, _>(em, rng, "ftrl", &m, &pool, &prstr, &NOMARGIN),
            _ => fail_fit(em, "ftrl"),
        }
    }
    trace("composing wrappers");
    // composing wrappers over real members
    {
        let m1 = linfa_linear::LinearRegression::new().fit(&Dataset::new(x.clone(), yreg.clone()));
        let m2 = linfa_linear::LinearRegression::new().with_intercept(false).fit(&Dataset::new(x.clone(), yreg.mapv(|v| -2.0 * v + 1.0)));
        if let (Ok(m1), Ok(m2)) = (m1, m2) {
            let (c1, c2) = (m1.clone(), m2.clone());
            let arr: MultiTargetModel<Array2<f64>, f64> = vec![m1.clone(), m2.clone()].into_iter().collect();
            let view_ok = rng.coin();
            // the wrapper is generic in the record type but one instance serves one record type: sweep the
            // owned-array instance through a thin adapter that copies views into owned arrays would hide
            // layout effects, so the wrapper is checked on owned batches (all batch compositions and forms)
            let _ = view_ok;
            wrapper_mt(em, rng, &arr, &c1, &c2, &pool);
        } else {
            fail_fit(em, "multi_target");
        }
    }
}

/// the same logical rows in three other memory layouts: an OWNED array that is a strided slice of a
/// wider allocation (`slice_move(s![..;2, ..])`), an owned column-major array, and (for `views`) the
/// strided view itself
pub fn layouts(batch: &Array2<f64>) -> (Array2<f64>, Array2<f64>) {
    let (n, p) = batch.dim();
    let mut wide = Array2::from_elem((2 * n, p), 1e3);
    for i in 0..n {
        wide.row_mut(2 * i).assign(&batch.row(i));
        wide.row_mut(2 * i + 1).fill(-7.25 - i as f64);
    }
    let strided = wide.slice_move(s![..;2, ..]);
    let mut fo = Array2::zeros((n, p).f());
    fo.assign(batch);
    (strided, fo)
}

/// f32 instantiations of the generic predictors (separate monomorphisations; `Svm<f32, f32>` is a
/// separate macro instantiation, `platt_predict::<f32>` skips the f64 -> f32 cast).  The discrete
/// kinds skip a mismatch only when the margin recomputed in f64 is below 1e-5 (f32 rounding).
fn one_round_f32(em: &mut Em, rng: &mut Rng) {
    use rand::SeedableRng;
    let p = 1 + rng.below(4);
    let p = if rng.chance(1, 5) { 9 + rng.below(4) } else { p };
    let n = 12 + rng.below(12);
    let k = 2 + rng.below(2);
    let (x64, y) = blobs(rng, n, p, k);
    let x = x64.mapv(|v| v as f32);
    let ybool = y.mapv(|c| c == 0);
    let yreg = Array1::from_shape_fn(n, |i| ((0..p).map(|j| x64[(i, j)] * ((j % 3) as f64 - 1.0)).sum::<f64>() + 0.25 * rng.range(-4, 4) as f64) as f32);
    let pool = {
        let mut q = lattice(rng, 7, p, 9, true);
        for j in 0..p {
            q[(0, j)] = x64[(0, j)];
        }
        q
    };
    let seed = rng.next();
    let sstr = a1(|x: &f32| V::S(*x));
    let ustr = a1(|x: &usize| V::D(x.to_string()));
    let bstr = a1(|x: &bool| V::D(x.to_string()));
    let prstr = a1(|x: &Pr| V::S(**x));
    let row32 = |r: ArrayView1<f64>| r.mapv(|v| v as f32);
    {
        use linfa_clustering::KMeans;
        match KMeans::params_with_rng(k, rand_xoshiro::Xoshiro256Plus::seed_from_u64(seed)).max_n_iterations(15).n_runs(1).fit(&Dataset::from(x.clone())) {
            Ok(m) => {
                let cents = m.centroids().mapv(|v| v as f64);
                let margin = move |r: ArrayView1<f64>| {
                    let d: Vec<f64> = cents.rows().into_iter().map(|c| -c.iter().zip(r.iter()).map(|(a, b)| (a - b) * (a - b)).sum::<f64>()).collect();
                    top2_gap(&d) * 1e-4
                };
                sweep_model::<f32, _, _>(em, rng, "f32:kmeans", &m, &pool, &ustr, &margin)
            }
            Err(_) => fail_fit(em, "f32:kmeans"),
        }
    }
    match linfa_linear::LinearRegression::new().with_intercept(rng.coin()).fit(&Dataset::new(x.clone(), yreg.clone())) {
        Ok(m) => sweep_model::<f32, _, _>(em, rng, "f32:ols", &m, &pool, &sstr, &NOMARGIN),
        Err(_) => fail_fit(em, "f32:ols"),
    }
    {
        let x1 = x.slice(s![.., 0..1]).to_owned();
        match linfa_linear::IsotonicRegression::new().fit(&Dataset::new(x1, yreg.clone())) {
            Ok(m) => sweep_model::<f32, _, _>(em, rng, "f32:isotonic", &m, &pool.slice(s![.., 0..1]).to_owned(), &sstr, &NOMARGIN),
            Err(_) => fail_fit(em, "f32:isotonic"),
        }
    }
    match linfa_elasticnet::ElasticNet::<f32>::params().penalty(0.125).l1_ratio(0.5).fit(&Dataset::new(x.clone(), yreg.clone())) {
        Ok(m) => sweep_model::<f32, _, _>(em, rng, "f32:elasticnet", &m, &pool, &sstr, &NOMARGIN),
        Err(_) => fail_fit(em, "f32:elasticnet"),
    }
    {
        use linfa_svm::Svm;
        let gauss = rng.coin();
        let params = Svm::<f32, bool>::params().pos_neg_weights(1.0, 1.0);
        let params = if gauss { params.gaussian_kernel(20.0) } else { params.linear_kernel() };
        match params.fit(&Dataset::new(x.clone(), ybool.clone())) {
            Ok(m) => {
                let mm = m.clone();
                let margin = move |r: ArrayView1<f64>| ((mm.weighted_sum(&row32(r)) - mm.rho).abs() as f64) * 1e-4;
                sweep_model::<f32, _, _>(em, rng, "f32:svm_class", &m, &pool, &bstr, &margin)
            }
            Err(_) => fail_fit(em, "f32:svm_class"),
        }
        let params = Svm::<f32, Pr>::params().pos_neg_weights(1.0, 1.0);
        let params = if gauss { params.gaussian_kernel(20.0) } else { params.linear_kernel() };
        match params.fit(&Dataset::new(x.clone(), ybool.clone())) {
            Ok(m) => sweep_model::<f32, _, _>(em, rng, "f32:svm_probability", &m, &pool, &prstr, &NOMARGIN),
            Err(_) => fail_fit(em, "f32:svm_probability"),
        }
        let params = Svm::<f32, f32>::params().c_svr(4.0, Some(0.125));
        let params = if gauss { params.gaussian_kernel(20.0) } else { params.linear_kernel() };
        match params.fit(&Dataset::new(x.clone(), yreg.clone())) {
            Ok(m) => {
                sweep_model::<f32, _, _>(em, rng, "f32:svm_regression", &m, &pool, &sstr, &NOMARGIN);
                single_forms::<f32>(em, "f32:svm_regression", &pool, &|q| sstr(&m.predict(q)), &|r, owned| if owned { vec![V::S(m.predict(r.to_owned()))] } else { vec![V::S(m.predict(r))] });
            }
            Err(_) => fail_fit(em, "f32:svm_regression"),
        }
    }
    match linfa_trees::DecisionTree::params().max_depth(Some(1 + rng.below(4))).fit(&Dataset::new(x.clone(), y.clone())) {
        Ok(m) => sweep_model::<f32, _, _>(em, rng, "f32:decision_tree", &m, &pool, &ustr, &NOMARGIN),
        Err(_) => fail_fit(em, "f32:decision_tree"),
    }
    match linfa_bayes::GaussianNb::params().fit(&Dataset::new(x.clone(), y.clone())) {
        Ok(m) => {
            let info = nb_info(&serde_json::to_value(&m).unwrap(), "theta", "sigma");
            let readable = nb_readable(&info, k, p);
            if !readable {
                em.count("margin_unreadable:f32:gaussian_nb");
            }
            let margin = move |r: ArrayView1<f64>| {
                let jll: Vec<f64> = info
                    .iter()
                    .map(|(prior, th, sg)| {
                        let a: f64 = sg.iter().map(|s| (2.0 * std::f64::consts::PI * s).ln()).sum::<f64>() * -0.5;
                        let b: f64 = r.iter().zip(th.iter().zip(sg.iter())).map(|(x, (t, s))| (x - t) * (x - t) / s).sum::<f64>() * 0.5;
                        a - b + prior.ln()
                    })
                    .collect();
                let g = top2_gap(&jll);
                // f32 joint log-likelihoods reach 1e2..1e3 (rounding ~1e-4) and `sum_axis` reduces in another
                // order on a column-major batch: skip below a 1e-3 gap (the skips are under a ceiling)
                if !readable { f64::INFINITY } else if g.is_finite() { g * 1e-6 } else { 0.0 }
            };
            sweep_model::<f32, _, _>(em, rng, "f32:gaussian_nb", &m, &pool, &ustr, &margin)
        }
        Err(_) => fail_fit(em, "f32:gaussian_nb"),
    }
    {
        use linfa_ftrl::Ftrl;
        let params = Ftrl::<f32>::params_with_rng(rand_xoshiro::Xoshiro256Plus::seed_from_u64(seed)).alpha(0.5).l1_ratio(0.01).l2_ratio(0.01);
        let ds = Dataset::new(x.clone(), ybool.clone());
        let mut model: Option<Ftrl<f32>> = None;
        let mut ok = true;
        for _ in 0..3 {
            match params.fit_with(model.take(), &ds) {
                Ok(m) => model = Some(m),
                Err(_) => {
                    ok = false;
                    break;
                }
            }
        }
        match (ok, model) {
            (true, Some(m)) => sweep_model::<f32, _, _>(em, rng, "f32:ftrl", &m, &pool, &prstr, &NOMARGIN),
            _ => fail_fit(em, "f32:ftrl"),
        }
    }
}

/// the serde image gave one entry per class, each with a finite prior and two vectors of the feature width
fn nb_readable(info: &[(f64, Vec<f64>, Vec<f64>)], k: usize, p: usize) -> bool {
    info.len() == k && info.iter().all(|(pr, a, b)| pr.is_finite() && a.len() == p && b.len() == p)
}

/// (prior, vec a, vec b) per class from the serde image of a naive-Bayes model
fn nb_info(v: &serde_json::Value, ka: &str, kb: &str) -> Vec<(f64, Vec<f64>, Vec<f64>)> {
    let mut out = vec![];
    if let Some(map) = v["class_info"].as_object() {
        for (_, info) in map.iter() {
            let arr = |key: &str| -> Vec<f64> { info[key]["data"].as_array().map(|a| a.iter().map(|x| x.as_f64().unwrap_or(f64::NAN)).collect()).unwrap_or_default() };
            out.push((info["prior"].as_f64().unwrap_or(f64::NAN), arr(ka), arr(kb)));
        }
    }
    out
}

/// MultiTargetModel over two real regressors: column j = member j's own prediction, batch = rows
fn wrapper_mt(em: &mut Em, rng: &mut Rng, w: &MultiTargetModel<Array2<f64>, f64>, m1: &linfa_linear::FittedLinearRegression<f64>, m2: &linfa_linear::FittedLinearRegression<f64>, pool: &Array2<f64>) {
    let kind = "multi_target_of_ols";
    em.count(&format!("fitted:{}", kind));
    for _ in 0..3 {
        let batch = batch_from(rng, pool, em);
        let op = format!("#sweep kind={} rows={}", kind, hexrows(&batch));
        em.case_valid(op, kind, |ctx| {
            let out: Array2<f64> = w.predict(&batch);
            let n = batch.nrows();
            ctx.require(out.nrows() == n && out.ncols() == 2, "one_output_per_row", kind, || format!("shape {:?} for {} rows, 2 members", out.shape(), n));
            if out.nrows() != n || out.ncols() != 2 {
                return String::new();
            }
            let (a, b): (Array1<f64>, Array1<f64>) = (m1.predict(&batch), m2.predict(&batch));
            for i in 0..n {
                ctx.require(out[(i, 0)].to_bits() == a[i].to_bits() && out[(i, 1)].to_bits() == b[i].to_bits(), "column_j_is_model_j", kind, || format!("row {}: wrapper ({}, {}) members ({}, {})", i, out[(i, 0)], out[(i, 1)], a[i], b[i]));
                let one = batch.slice(s![i..i + 1, ..]).to_owned();
                let r: Array2<f64> = w.predict(&one);
                ctx.require(r.dim() == (1, 2) && fclose(r[(0, 0)], out[(i, 0)]) && fclose(r[(0, 1)], out[(i, 1)]), "batch_eq_rowwise", kind, || format!("row {} alone {:?} vs in batch {:?}", i, r, out.row(i)));
            }
            let ds = w.predict(batch.clone());
            ctx.require(ds.records() == &batch, "dataset_form_returns_records", kind, || "records changed".to_string());
            ctx.require(ds.targets() == &out, "forms_agree", kind, || "predict(records) differs from predict(&records)".to_string());
            // memory layouts: owned strided, owned column-major, strided view, column-major view
            {
                let (strided, fo) = layouts(&batch);
                // a wrapper instance serves one record type: the view-typed one is built here (its type
                // carries the lifetime of the views it will be given)
                let wv: MultiTargetModel<ArrayView2<f64>, f64> = vec![m1.clone(), m2.clone()].into_iter().collect();
                let same = |r: &Array2<f64>| r.dim() == out.dim() && r.iter().zip(out.iter()).all(|(a, b)| fclose(*a, *b));
                let r: Array2<f64> = w.predict(&strided);
                ctx.require(same(&r), "layout_independent", kind, || format!("owned strided batch: {:?} vs {:?}", r, out));
                let r: Array2<f64> = w.predict(&fo);
                ctx.require(same(&r), "layout_independent", kind, || format!("owned column-major batch: {:?} vs {:?}", r, out));
                let r: Array2<f64> = wv.predict(&strided.view());
                ctx.require(same(&r), "layout_independent", kind, || format!("strided view: {:?} vs {:?}", r, out));
                let r: Array2<f64> = wv.predict(&fo.view());
                ctx.require(same(&r), "layout_independent", kind, || format!("column-major view: {:?} vs {:?}", r, out));
            }
            for salt in 0..2 {
                let mut y = w.default_target(&batch);
                y.junk(salt);
                w.predict_inplace(&batch, &mut y);
                ctx.require(y.dim() == out.dim() && y.iter().zip(out.iter()).all(|(a, b)| a.to_bits() == b.to_bits()), "inplace_into_supplied_buffer", kind, || format!("pre-filled buffer gives {:?}, predict(&records) {:?}", y, out));
            }
            String::new()
        });
    }
}

/// MultiClassModel over one-vs-all probability SVMs and Platt over a regression SVM
fn wrappers_svm(em: &mut Em, rng: &mut Rng) {
    use linfa_svm::Svm;
    let p = 2;
    let n = 18;
    let (x, y) = blobs(rng, n, p, 3);
    let pool = lattice(rng, 7, p, 9, true);
    // one-vs-all members
    let mut members = vec![];
    for c in 0..3usize {
        let yb = y.mapv(|v| v == c);
        match Svm::<f64, Pr>::params().pos_neg_weights(1.0, 1.0).gaussian_kernel(30.0).fit(&Dataset::new(x.clone(), yb)) {
            Ok(m) => members.push((c, m)),
            Err(_) => {
                fail_fit(em, "multi_class_of_svm");
                return;
            }
        }
    }
    let copies: Vec<(usize, Svm<f64, Pr>)> = members.clone();
    let w: MultiClassModel<Array2<f64>, usize> = members.into_iter().collect();
    let kind = "multi_class_of_svm";
    em.count(&format!("fitted:{}", kind));
    for _ in 0..3 {
        let batch = batch_from(rng, &pool, em);
        let op = format!("#sweep kind={} rows={}", kind, hexrows(&batch));
        let mut skipped = 0;
        em.case_valid(op, kind, |ctx| {
            let out: Array1<usize> = w.predict(&batch);
            let n = batch.nrows();
            ctx.require(out.len() == n, "one_output_per_row", kind, || format!("{} outputs for {} rows", out.len(), n));
            if out.len() != n {
                return String::new();
            }
            for salt in 0..2 {
                let mut y = w.default_target(&batch);
                y.junk(salt);
                w.predict_inplace(&batch, &mut y);
                ctx.require(y == out, "inplace_into_supplied_buffer", kind, || format!("pre-filled buffer gives {:?}, predict(&records) {:?}", y, out));
            }
            let probs: Vec<Array1<Pr>> = copies.iter().map(|(_, m)| m.predict(&batch)).collect();
            {
                let (strided, fo) = layouts(&batch);
                let wv: MultiClassModel<ArrayView2<f64>, usize> = copies.clone().into_iter().collect();
                let outs: Vec<(&str, Array1<usize>)> = vec![("owned strided", w.predict(&strided)), ("owned column-major", w.predict(&fo)), ("strided view", wv.predict(&strided.view())), ("column-major view", wv.predict(&fo.view()))];
                for (what, r) in outs.iter() {
                    ctx.require(r.len() == n, "one_output_per_row", kind, || format!("{} outputs for {} rows ({})", r.len(), n, what));
                    for i in 0..n.min(r.len()) {
                        if r[i] != out[i] {
                            let v: Vec<f64> = probs.iter().map(|p| *p[i] as f64).collect();
                            if top2_gap(&v) < 1e-6 {
                                skipped += 1;
                            } else {
                                ctx.fail("layout_independent", kind, format!("row {} through {}: label {} vs {}", i, what, r[i], out[i]));
                            }
                        }
                    }
                }
            }
            for i in 0..n {
                let mx = probs.iter().map(|p| *p[i]).fold(f32::NEG_INFINITY, f32::max);
                let winners: Vec<usize> = (0..copies.len()).filter(|k| *probs[*k][i] == mx).map(|k| copies[k].0).collect();
                ctx.require(winners.contains(&out[i]), "label_of_highest_probability", kind, || format!("row {}: label {}, member probabilities {:?}", i, out[i], probs.iter().map(|p| *p[i]).collect::<Vec<f32>>()));
                let one = batch.slice(s![i..i + 1, ..]).to_owned();
                let r: Array1<usize> = w.predict(&one);
                if r.len() != 1 || r[0] != out[i] {
                    let v: Vec<f64> = probs.iter().map(|p| *p[i] as f64).collect();
                    if top2_gap(&v) < 1e-6 {
                        skipped += 1;
                    } else {
                        ctx.fail("batch_eq_rowwise", kind, format!("row {} alone {:?} vs in batch {}", i, r, out[i]));
                    }
                }
            }
            String::new()
        });
        if skipped > 0 {
            em.count_n(&format!("tie_skipped:{}", kind), skipped);
        }
    }
    // Platt over a real regression SVM
    let yb = y.mapv(|v| v == 0);
    let yreg = yb.mapv(|b| if b { 1.0 } else { -1.0 });
    if let Ok(inner) = Svm::<f64, f64>::params().c_svr(4.0, Some(0.125)).linear_kernel().fit(&Dataset::new(x.clone(), yreg)) {
        use linfa::composing::platt_scaling::{platt_predict, Platt};
        use linfa::ParamGuard;
        let inner2 = inner.clone();
        let ds = Dataset::new(x.clone(), yb);
        let checked = match Platt::<f64, Svm<f64, f64>>::params().check() {
            Ok(c) => c,
            Err(_) => return,
        };
        match checked.fit_with(inner, &ds) {
            Ok(pl) => {
                let kind = "platt_of_svm";
                em.count(&format!("fitted:{}", kind));
                for _ in 0..3 {
                    let batch = batch_from(rng, &pool, em);
                    let op = format!("#sweep kind={} rows={}", kind, hexrows(&batch));
                    em.case_valid(op, kind, |ctx| {
                        let out: Array1<Pr> = pl.predict(&batch);
                        let dec: Array1<f64> = inner2.predict(&batch);
                        ctx.require(out.len() == batch.nrows(), "one_output_per_row", kind, || format!("{} outputs for {} rows", out.len(), batch.nrows()));
                        if out.len() != batch.nrows() {
                            return String::new();
                        }
                        {
                            // `Platt` is implemented for owned records only (its inner model must return
                            // `ArrayBase<D, Ix1>` for the same `D`): owned strided and owned column-major
                            let (strided, fo) = layouts(&batch);
                            for (what, q) in [("owned strided", &strided), ("owned column-major", &fo)] {
                                let r: Array1<Pr> = pl.predict(q);
                                ctx.require(r.len() == out.len() && r.iter().zip(out.iter()).all(|(a, b)| (**a - **b).abs() <= 4.0 * f32::EPSILON), "layout_independent", kind, || format!("{}: {:?} vs {:?}", what, r, out));
                            }
                        }
                        for salt in 0..2 {
                            let mut y = pl.default_target(&batch);
                            y.junk(salt);
                            pl.predict_inplace(&batch, &mut y);
                            ctx.require(y == out, "inplace_into_supplied_buffer", kind, || format!("pre-filled buffer gives {:?}, predict(&records) {:?}", y, out));
                        }
                        let mut idx: Vec<usize> = (0..out.len()).collect();
                        idx.sort_by(|a, b| dec[*a].partial_cmp(&dec[*b]).unwrap());
                        for i in 0..out.len() {
                            ctx.require(*out[i] >= 0.0 && *out[i] <= 1.0, "probability_in_unit_interval", kind, || format!("{}", *out[i]));
                            let one = batch.slice(s![i..i + 1, ..]).to_owned();
                            let r: Array1<Pr> = pl.predict(&one);
                            ctx.require(r.len() == 1 && fclose(*r[0] as f64, *out[i] as f64) || (*r[0] - *out[i]).abs() <= 4.0 * f32::EPSILON, "batch_eq_rowwise", kind, || format!("row {} alone {:?} vs in batch {}", i, r, *out[i]));
                        }
                        // monotone in the inner decision value (direction fixed by the fitted sign of A)
                        let up = idx.windows(2).all(|w| *out[w[1]] >= *out[w[0]] - 4.0 * f32::EPSILON);
                        let down = idx.windows(2).all(|w| *out[w[1]] <= *out[w[0]] + 4.0 * f32::EPSILON);
                        ctx.require(up || down, "monotone_sigmoid", kind, || format!("decision values {:?} probabilities {:?}", dec, out));
                        String::new()
                    });
                }
            }
            Err(_) => fail_fit(em, "platt_of_svm"),
        }
    } else {
        fail_fit(em, "platt_of_svm");
    }
}

/// Gaussian naive Bayes on a mirror-symmetric training set: at the mirror point the two classes'
/// joint log-likelihoods are bit-identical, so the label must still be a function of the row.
fn nb_exact_tie(em: &mut Em, rng: &mut Rng) {
    let d = 1 + rng.below(3) as i64;
    let s = 1 + rng.below(2) as i64;
    let (la, lb) = if rng.coin() { (3usize, 8usize) } else { (8, 3) };
    let x = Array2::from_shape_vec((4, 1), vec![(-d - s) as f64, (-d + s) as f64, (d - s) as f64, (d + s) as f64]).unwrap();
    let y = Array1::from(vec![la, la, lb, lb]);
    let op = format!("#nb_tie d={} s={} la={} lb={}", d, s, la, lb);
    let kind = "gaussian_nb:exact_tie";
    em.case_valid(op, kind, |ctx| {
        let m = linfa_bayes::GaussianNb::params().fit(&Dataset::new(x.clone(), y.clone())).unwrap();
        let q = Array2::zeros((1, 1));
        let first: Array1<usize> = m.predict(&q);
        let mut seen = vec![first[0]];
        for _ in 0..24 {
            let r: Array1<usize> = m.predict(&q);
            seen.push(r[0]);
        }
        let q3 = Array2::zeros((3, 1));
        let r3: Array1<usize> = m.predict(&q3);
        ctx.require(seen.iter().all(|l| *l == first[0]), "repeatable", kind, || format!("the same one-row batch [0.0] predicted 25 times on one fitted model gave labels {:?}", seen));
        ctx.require(r3.iter().all(|l| *l == first[0]), "batch_eq_rowwise", kind, || format!("row [0.0] alone gives {}, three copies in one batch give {:?}", first[0], r3));
        String::new()
    });
}

pub fn run(em: &mut Em, rng: &mut Rng) {
    let rounds = if em.thorough() { 150 } else { 20 };
    for _ in 0..rounds {
        one_round(em, rng);
    }
    for _ in 0..(if em.thorough() { 60 } else { 8 }) {
        one_round_f32(em, rng);
    }
    for _ in 0..(if em.thorough() { 30 } else { 8 }) {
        wrappers_svm(em, rng);
    }
    for _ in 0..(if em.thorough() { 40 } else { 6 }) {
        nb_exact_tie(em, rng);
    }
    ceilings(em);
}

/// Ceilings on what the sweep does NOT alarm on (the counterpart of the coverage floors): per kind,
///   * discrete mismatches skipped for a small decision margin (`tie_skipped:<kind>`): at most
///     max(3, 0.5 %) of the comparisons of that kind — a margin recomputation gone deaf (renamed serde
///     key, non-finite probabilities) would otherwise swallow every label mismatch;
///   * comparisons of the same row in the SAME memory layout (batch vs alone vs permuted vs duplicate)
///     that hold within the tolerance but not bit for bit (`inexact_same_layout:<kind>`): at most
///     max(3, 1 %) — none occurs on the unchanged tree (the batch loops run the very per-row code), so a
///     rounding-level coupling between the rows of a batch no longer passes by tolerance;
///   * margin parameters unreadable (`margin_unreadable:<kind>`): never.
/// Reported as oracle failures of the clauses `tie_skip_ceiling` / `rowwise_bits_ceiling` /
/// `margin_readable`, class = the kind.  (A single-case replay sees no tallies and passes.)
fn ceilings(em: &mut Em) {
    let dist = em.dist.clone();
    em.case_valid("#ceilings".to_string(), "ceilings", |ctx| {
        for (key, v) in dist.iter() {
            if let Some(kind) = key.strip_prefix("tie_skipped:") {
                let cmp = dist.get(&format!("cmp:{}", kind)).copied().unwrap_or(0);
                let cap = 3.max(cmp / 200);
                ctx.require(*v <= cap, "tie_skip_ceiling", kind, || format!("{} discrete mismatches were skipped for a small decision margin, out of {} comparisons (ceiling {}; none on the unchanged tree)", v, cmp, cap));
            }
            if let Some(kind) = key.strip_prefix("inexact_same_layout:") {
                let cmp = dist.get(&format!("cmp_same_layout:{}", kind)).copied().unwrap_or(0);
                let cap = 3.max(cmp / 100);
                ctx.require(*v <= cap, "rowwise_bits_ceiling", kind, || format!("{} of {} comparisons of a row with itself in another batch of the same layout (alone / permuted / duplicated) agree within the tolerance only, not bit for bit (ceiling {}; none on the unchanged tree): the rows of a batch are coupled at rounding level", v, cmp, cap));
            }
            // cells of the `mc` / `kmeans` / `table` ops written as a SET of tied candidates (the mask of the
            // tie-break): the share of such cells stays near what the generators produce on the unchanged
            // tree (mc ~ 0.18 by construction of the probability levels, kmeans ~ 0.02: lattice queries
            // equidistant from two fitted centroids) — degenerate centroids / constant member
            // probabilities would otherwise mask every cell
            for (op, cap_pct) in [("mc", 45u64), ("kmeans", 10u64)] {
                if key == &format!("{}:tied_cells", op) {
                    let cells = dist.get(&format!("{}:cells", op)).copied().unwrap_or(0);
                    ctx.require(*v * 100 <= cap_pct * cells.max(1), "tie_set_ceiling", op, || format!("{} of {} cells are written as a set of tied candidates (ceiling {} %)", v, cells, cap_pct));
                }
            }
            if let Some(kind) = key.strip_prefix("margin_unreadable:") {
                ctx.fail("margin_readable", kind, format!("the class statistics behind the decision margin could not be read from the model's serde image ({} fits)", v));
            }
        }
        String::new()
    });
}
