//! C03 (b) — implementation-level oracle sweep (filled in below)
use crate::util::*;
pub fn run(_em: &mut Em, _rng: &mut Rng) {}
