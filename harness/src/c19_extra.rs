//! C19 — second sweep, closing the gaps the audit (notes/audit/C19.md) listed:
//!
//! * exact-tie and non-finite probe rows (`probe=ties`, `probe=nonfinite`): naive Bayes models whose
//!   classes have identical statistics tie on every input; every predictor is also asked about
//!   NaN / ±inf / huge / signed-zero rows (a panic must happen before and after alike);
//! * type-parameter instantiations the first sweep never builds (`inst:*`): k-means / DBSCAN / OPTICS
//!   with L1, L∞ and Lp distances, naive Bayes / logistic regression / trees with `String`, `bool`
//!   and `Option<usize>` labels, nu-SVC and one-class SVM;
//! * invalid parameter sets for the types that had none (`invalid:*`): PCA, PLS-SVD, the min-max
//!   scaler, tf-idf and count vectorisers;
//! * the `*_files` entry points of the vectorisers and the `Function`-then-`Regex` setter sequence;
//! * models large enough for the 16- and 32-bit container headers (`size:*`).
use super::c19_canon::Norm;
use super::c19_types::*;
use super::{rt, Sweep};
use crate::util::*;
use linfa::prelude::*;
use linfa::traits::{Fit, FitWith, Predict, Transformer};
use linfa::{Dataset, DatasetBase, Float, ParamGuard};
use ndarray::{Array1, Array2};
use std::panic::{catch_unwind, AssertUnwindSafe};

/// both calls under `catch_unwind`: the results are equal, or both sides panic
pub fn same_call<R: PartialEq + std::fmt::Debug>(ctx: &mut Ctx, clause: &str, class: &str, what: &str, fa: impl FnOnce() -> R, fb: impl FnOnce() -> R) {
    let ra = catch_unwind(AssertUnwindSafe(fa)).ok();
    let rb = catch_unwind(AssertUnwindSafe(fb)).ok();
    ctx.require(ra == rb, clause, class, || {
        let cut = |s: String| s.chars().take(160).collect::<String>();
        format!("{}: original {} restored {}", what, cut(format!("{:?}", ra)), cut(format!("{:?}", rb)))
    });
}

/// probe rows no generic stream contains: zeros, signed zero, NaN, ±inf, huge, subnormal, mixed
pub fn nasty<F: Fl>(p: usize) -> Array2<F> {
    let vals: [f64; 8] = [0.0, -0.0, f64::NAN, f64::INFINITY, f64::NEG_INFINITY, 1e30, -1e30, 1e-40];
    Array2::from_shape_fn((vals.len() + 1, p), |(i, j)| if i < vals.len() { F::cast(vals[i]) } else { F::cast(vals[(i + j) % vals.len()]) })
}

/// finite probe rows built from the training set: copies of training rows and exact midpoints
pub fn near<F: Fl>(x: &Array2<F>) -> Array2<F> {
    let n = x.nrows();
    Array2::from_shape_fn((6, x.ncols()), |(i, j)| match i {
        0 => x[(0, j)],
        1 => x[(n - 1, j)],
        2 => (x[(0, j)] + x[(n - 1, j)]) / F::cast(2.0),
        3 => (x[(1 % n, j)] + x[(n / 2, j)]) / F::cast(2.0),
        4 => F::cast(0.0),
        _ => x[(n / 2, j)],
    })
}

fn ubits<F: Fl>(a: &Array1<F>) -> Vec<u64> {
    a.iter().map(|v| fb(*v)).collect()
}

// ------------------------------------------------------------------------------------------------
// naive Bayes: exact ties on every input, and the label instantiations
// ------------------------------------------------------------------------------------------------

fn nb_one<F: Fl, L: linfa::Label + serde::Serialize + serde::de::DeserializeOwned + 'static>(em: &mut Em, rng: &mut Rng, sw: &mut Sweep, lname: &str, mk: &dyn Fn(usize) -> L, tied: bool) {
    use linfa_bayes::*;
    let tag = F::NAME;
    let (m, p, c) = (4 + rng.below(4), 1 + rng.below(3), 2 + rng.below(3));
    // tied: every class sees the same rows, so priors, means, variances and counts coincide and every
    // input scores exactly the same for every class
    let base: Array2<F> = Array2::from_shape_fn((m, p + 1), |_| F::cast(rng.below(5) as f64));
    let n = m * c;
    let y: Array1<L> = Array1::from_shape_fn(n, |i| mk(i / m));
    let x: Array2<F> = Array2::from_shape_fn((n, p + 1), |(i, j)| if tied { base[(i % m, j)] } else { base[(i % m, j)] + F::cast(((i / m) * (j + 1)) as f64) });
    let fresh: Array2<F> = Array2::from_shape_fn((8, p + 1), |(i, _)| if i == 0 { F::cast(0.0) } else { F::cast(rng.below(6) as f64) });
    let bad: Array2<F> = nasty(p + 1);
    let ds = Dataset::new(x, y);
    let probe = if tied { "ties" } else { "labels" };
    em.count(&format!("probe:nb_{}", probe));
    if let Ok(model) = GaussianNb::<F, L>::params().fit(&ds) {
        em.count(&format!("inst:nb<{}>", lname));
        let ds3 = ds.clone();
        rt(em, sw, "linfa-bayes::GaussianNb", tag, Norm::SortMaps, &model, &|a: &GaussianNb<F, L>, b, ctx, class| {
            let class = format!("{}:labels={}:probe={}", class, lname, probe);
            ctx.require(a == b || (a != a && super::value_has_nan()), "equal", &class, || "models differ".into());
            // the score table is rebuilt on every call: ask several times
            for _ in 0..6 {
                same_call(ctx, "predict", &class, "predict", || a.predict(&fresh).to_vec(), || b.predict(&fresh).to_vec());
            }
            same_call(ctx, "predict", &format!("{}:probe=nonfinite", class), "predict on non-finite rows", || a.predict(&bad).to_vec(), || b.predict(&bad).to_vec());
            // incremental fit continued from the restored model (`fit_with(Some(restored))`)
            let vpi: GaussianNbValidParams<F, L> = GaussianNb::params().check().unwrap();
            let cont = |m: &GaussianNb<F, L>| match vpi.fit_with(Some(m.clone()), &ds3) {
                Ok(Some(r)) => super::c19_canon::canon(&r, true, Norm::SortMaps).0,
                Ok(None) => "none".into(),
                Err(e) => format!("err:{}", e),
            };
            refit_same(ctx, &format!("{}:entry=fit_with", class), &|| cont(a), &|| cont(b));
        });
    }
    if let Ok(model) = MultinomialNb::<F, L>::params().fit(&ds) {
        let ds3 = ds.clone();
        rt(em, sw, "linfa-bayes::MultinomialNb", tag, Norm::SortMaps, &model, &|a: &MultinomialNb<F, L>, b, ctx, class| {
            let class = format!("{}:labels={}:probe={}", class, lname, probe);
            ctx.require(a == b || (a != a && super::value_has_nan()), "equal", &class, || "models differ".into());
            for _ in 0..6 {
                same_call(ctx, "predict", &class, "predict", || a.predict(&fresh).to_vec(), || b.predict(&fresh).to_vec());
            }
            same_call(ctx, "predict", &format!("{}:probe=nonfinite", class), "predict on non-finite rows", || a.predict(&bad).to_vec(), || b.predict(&bad).to_vec());
            let vpi: MultinomialNbValidParams<F, L> = MultinomialNb::params().check().unwrap();
            let cont = |m: &MultinomialNb<F, L>| match vpi.fit_with(Some(m.clone()), &ds3) {
                Ok(Some(r)) => super::c19_canon::canon(&r, true, Norm::SortMaps).0,
                Ok(None) => "none".into(),
                Err(e) => format!("err:{}", e),
            };
            refit_same(ctx, &format!("{}:entry=fit_with", class), &|| cont(a), &|| cont(b));
        });
    }
    // the parameter sets of the same label type
    let vp: GaussianNbValidParams<F, L> = GaussianNb::params().var_smoothing(F::cast(1e-3)).check().unwrap();
    let ds2 = ds.clone();
    rt(em, sw, "linfa-bayes::GaussianNbValidParams", tag, Norm::Exact, &vp, &|a, b, ctx, class| {
        let class = format!("{}:labels={}", class, lname);
        ctx.require(a == b || (a != a && super::value_has_nan()), "equal", &class, || format!("{:?} vs {:?}", a, b));
        dbg_same(ctx, &class, a, b);
        refit_same(ctx, &class, &|| fp(a.fit(&ds2)), &|| fp(b.fit(&ds2)));
    });
}

fn nb_extra<F: Fl>(em: &mut Em, rng: &mut Rng, sw: &mut Sweep) {
    for tied in [true, true, false] {
        nb_one::<F, usize>(em, rng, sw, "usize", &|k| k, tied);
        nb_one::<F, String>(em, rng, sw, "String", &|k| format!("class {}", k), tied);
    }
    nb_one::<F, bool>(em, rng, sw, "bool", &|k| k % 2 == 1, true);
    nb_one::<F, Option<usize>>(em, rng, sw, "Option<usize>", &|k| if k == 0 { None } else { Some(k) }, false);
}

// ------------------------------------------------------------------------------------------------
// clustering with the other distances
// ------------------------------------------------------------------------------------------------

fn clustering_dist<F: Fl, D>(em: &mut Em, rng: &mut Rng, sw: &mut Sweep, dname: &str, d: D)
where
    D: linfa_nn::distance::Distance<F> + serde::Serialize + serde::de::DeserializeOwned + PartialEq + std::fmt::Debug + 'static,
{
    use linfa_clustering::*;
    use linfa_nn::CommonNearestNeighbour;
    use rand::SeedableRng;
    use rand_xoshiro::Xoshiro256Plus;
    let tag = F::NAME;
    let (n, p, k) = (14 + rng.below(10), 1 + rng.below(3), 2 + rng.below(2));
    let y = labels(rng, n, k);
    let x: Array2<F> = blobs(rng, n, p, &y);
    let fresh: Array2<F> = near(&x);
    let bad: Array2<F> = nasty(p);
    let ds = DatasetBase::from(x.clone());
    em.count(&format!("inst:clustering<{}>", dname));
    let params = KMeans::params_with(k, Xoshiro256Plus::seed_from_u64(rng.next()), d.clone()).n_runs(2).tolerance(F::cast(1e-3)).max_n_iterations(30).init_method([KMeansInit::Random, KMeansInit::KMeansPlusPlus][rng.below(2)].clone());
    let ds2 = ds.clone();
    rt(em, sw, "linfa-clustering::KMeansParams", tag, Norm::Exact, &params, &|a, b, ctx, class| {
        let class = format!("{}:dist={}", class, dname);
        ctx.require(a == b || (a != a && super::value_has_nan()), "equal", &class, || format!("{:?} vs {:?}", a, b));
        dbg_same(ctx, &class, a, b);
        refit_same(ctx, &class, &|| fp(a.fit(&ds2)), &|| fp(b.fit(&ds2)));
    });
    let (pk, ds4) = (params.clone(), ds.clone());
    if let Ok(model) = params.fit(&ds) {
        rt(em, sw, "linfa-clustering::KMeans", tag, Norm::Exact, &model, &|a: &KMeans<F, D>, b, ctx, class| {
            let class = format!("{}:dist={}", class, dname);
            ctx.require(a == b || (a != a && super::value_has_nan()), "equal", &class, || "models differ".into());
            dbg_same(ctx, &class, a, b);
            same_arr(ctx, "accessors", &class, "centroids", a.centroids(), b.centroids());
            same_arr(ctx, "accessors", &class, "cluster_count", a.cluster_count(), b.cluster_count());
            ctx.require(fb(a.inertia()) == fb(b.inertia()), "accessors", &class, || "inertia".into());
            same_call(ctx, "predict", &format!("{}:probe=ties", class), "predict", || a.predict(&fresh).to_vec(), || b.predict(&fresh).to_vec());
            same_call(ctx, "predict", &format!("{}:probe=ties", class), "transform", || ubits(&a.transform(&fresh)), || ubits(&b.transform(&fresh)));
            same_call(ctx, "predict", &format!("{}:probe=nonfinite", class), "predict on non-finite rows", || a.predict(&bad).to_vec(), || b.predict(&bad).to_vec());
            // the single-row calling form
            same_call(ctx, "predict", &format!("{}:form=row", class), "predict(row)", || { let r: usize = a.predict(&fresh.row(2)); r }, || { let r: usize = b.predict(&fresh.row(2)); r });
            // mini-batch step continued from the restored model
            if let Ok(vpk) = pk.check_ref() {
                let cont = |m: &KMeans<F, D>| match vpk.fit_with(Some(m.clone()), &ds4) {
                    Ok(r) | Err(IncrKMeansError::NotConverged(r)) => super::c19_canon::canon(&r, true, Norm::Exact).0,
                    Err(e) => format!("err:{}", e),
                };
                refit_same(ctx, &format!("{}:entry=fit_with", class), &|| cont(a), &|| cont(b));
            }
        });
    }
    let nn = [CommonNearestNeighbour::LinearSearch, CommonNearestNeighbour::BallTree][rng.below(2)].clone();
    let dvp = Dbscan::params_with::<F, _, _>(2 + rng.below(2), d.clone(), nn.clone()).tolerance(F::cast(1.5)).check().unwrap();
    let x2 = x.clone();
    rt(em, sw, "linfa-clustering::DbscanValidParams", tag, Norm::Exact, &dvp, &|a, b, ctx, class| {
        let class = format!("{}:dist={}", class, dname);
        ctx.require(a == b || (a != a && super::value_has_nan()), "equal", &class, || format!("{:?} vs {:?}", a, b));
        dbg_same(ctx, &class, a, b);
        ctx.require(a.dist_fn() == b.dist_fn() && a.nn_algo() == b.nn_algo(), "accessors", &class, || "dist_fn / nn_algo".into());
        refit_same(ctx, &class, &|| fp::<_, String>(Ok(a.transform(&x2))), &|| fp::<_, String>(Ok(b.transform(&x2))));
    });
    let ovp = Optics::params_with::<F, _, _>(2 + rng.below(2), d.clone(), nn).tolerance(F::cast(3.0)).check().unwrap();
    let x2 = x.clone();
    rt(em, sw, "linfa-clustering::OpticsValidParams", tag, Norm::Exact, &ovp, &|a, b, ctx, class| {
        let class = format!("{}:dist={}", class, dname);
        ctx.require(a == b || (a != a && super::value_has_nan()), "equal", &class, || format!("{:?} vs {:?}", a, b));
        dbg_same(ctx, &class, a, b);
        refit_same(ctx, &class, &|| fp::<_, String>(Ok(a.transform(x2.view()))), &|| fp::<_, String>(Ok(b.transform(x2.view()))));
    });
}

fn clustering_extra<F: Fl>(em: &mut Em, rng: &mut Rng, sw: &mut Sweep) {
    use linfa_nn::distance::*;
    clustering_dist::<F, _>(em, rng, sw, "L1", L1Dist);
    clustering_dist::<F, _>(em, rng, sw, "LInf", LInfDist);
    clustering_dist::<F, _>(em, rng, sw, "Lp", LpDist(F::cast(3.0)));
    clustering_dist::<F, _>(em, rng, sw, "L2", L2Dist);
}

// ------------------------------------------------------------------------------------------------
// logistic regression / trees with other label types, SVM variants, non-finite probes
// ------------------------------------------------------------------------------------------------

macro_rules! labelled_impl { ($fname:ident, $F:ty) => {
fn $fname(em: &mut Em, rng: &mut Rng, sw: &mut Sweep) {
    use linfa_logistic::*;
    use linfa_svm::*;
    use linfa_trees::*;
    type F = $F;
    let tag = F::NAME;
    let (n, p) = (14 + rng.below(8), 1 + rng.below(3));
    let yl = labels(rng, n, 2);
    let x: Array2<F> = blobs(rng, n, p, &yl);
    let fresh: Array2<F> = near(&x);
    let bad: Array2<F> = nasty(p);
    // ---- binary logistic regression, bool and usize labels
    macro_rules! binlog { ($L:ty, $lname:expr, $mk:expr) => {{
        let y: Array1<$L> = yl.mapv($mk);
        let ds = Dataset::new(x.clone(), y);
        if let Ok(m) = LogisticRegression::<F>::default().max_iterations(30).fit(&ds) {
            em.count(concat!("inst:logistic<", $lname, ">"));
            rt(em, sw, "linfa-logistic::FittedLogisticRegression", tag, Norm::Exact, &m, &|a: &FittedLogisticRegression<F, $L>, b, ctx, class| {
                let class = format!("{}:labels={}", class, $lname);
                ctx.require(a == b || (a != a && super::value_has_nan()), "equal", &class, || "models differ".into());
                dbg_same(ctx, &class, a, b);
                ctx.require(a.labels() == b.labels(), "accessors", &class, || "labels".into());
                same_call(ctx, "predict", &format!("{}:probe=ties", class), "predict", || a.predict(&fresh).to_vec(), || b.predict(&fresh).to_vec());
                same_call(ctx, "predict", &format!("{}:probe=nonfinite", class), "predict on non-finite rows", || a.predict(&bad).to_vec(), || b.predict(&bad).to_vec());
                same_call(ctx, "predict", &format!("{}:probe=nonfinite", class), "probabilities on non-finite rows", || ubits(&a.predict_probabilities(&bad)), || ubits(&b.predict_probabilities(&bad)));
            });
        }
    }}}
    binlog!(bool, "bool", |v| v == 1);
    binlog!(usize, "usize", |v| v + 7);
    binlog!(i32, "i32", |v| v as i32 * 2 - 1);
    // ---- multinomial with string labels
    {
        let c = 3;
        let ym = labels(rng, n, c);
        let xm: Array2<F> = blobs(rng, n, p, &ym);
        let ys: Array1<String> = ym.mapv(|v| ["red", "green", "blue"][v].to_string());
        let ds = Dataset::new(xm, ys);
        if let Ok(m) = MultiLogisticRegression::<F>::default().max_iterations(30).fit(&ds) {
            em.count("inst:multilogistic<String>");
            rt(em, sw, "linfa-logistic::MultiFittedLogisticRegression", tag, Norm::Exact, &m, &|a: &MultiFittedLogisticRegression<F, String>, b, ctx, class| {
                let class = format!("{}:labels=String", class);
                ctx.require(a == b || (a != a && super::value_has_nan()), "equal", &class, || "models differ".into());
                dbg_same(ctx, &class, a, b);
                ctx.require(a.classes() == b.classes(), "accessors", &class, || "classes".into());
                same_call(ctx, "predict", &format!("{}:probe=ties", class), "predict", || a.predict(&fresh).to_vec(), || b.predict(&fresh).to_vec());
                same_call(ctx, "predict", &format!("{}:probe=nonfinite", class), "predict on non-finite rows", || a.predict(&bad).to_vec(), || b.predict(&bad).to_vec());
            });
        }
    }
    // ---- trees with string / bool labels
    macro_rules! tree { ($L:ty, $lname:expr, $mk:expr) => {{
        let y: Array1<$L> = yl.mapv($mk);
        let ds = Dataset::new(x.clone(), y);
        let params = DecisionTree::<F, $L>::params().max_depth(Some(3));
        rt(em, sw, "linfa-trees::DecisionTreeParams", tag, Norm::Exact, &params, &|a, b, ctx, class| {
            let class = format!("{}:labels={}", class, $lname);
            ctx.require(a == b || (a != a && super::value_has_nan()), "equal", &class, || format!("{:?} vs {:?}", a, b));
            dbg_same(ctx, &class, a, b);
        });
        if let Ok(m) = params.fit(&ds) {
            em.count(concat!("inst:tree<", $lname, ">"));
            rt(em, sw, "linfa-trees::DecisionTree", tag, Norm::Exact, &m, &|a: &DecisionTree<F, $L>, b, ctx, class| {
                let class = format!("{}:labels={}", class, $lname);
                ctx.require(a == b || (a != a && super::value_has_nan()), "equal", &class, || "trees differ".into());
                dbg_same(ctx, &class, a, b);
                ctx.require(a.features() == b.features() && a.max_depth() == b.max_depth() && a.num_leaves() == b.num_leaves(), "accessors", &class, || "features / depth / leaves".into());
                same_call(ctx, "predict", &format!("{}:probe=ties", class), "predict", || a.predict(&fresh).to_vec(), || b.predict(&fresh).to_vec());
                same_call(ctx, "predict", &format!("{}:probe=nonfinite", class), "predict on non-finite rows", || a.predict(&bad).to_vec(), || b.predict(&bad).to_vec());
                same_call(ctx, "accessors", &class, "tikz export", || Tikz::new(a).complete(true).to_string(), || Tikz::new(b).complete(true).to_string());
            });
        }
    }}}
    tree!(String, "String", |v| if v == 1 { "yes".to_string() } else { "no".to_string() });
    tree!(bool, "bool", |v| v == 1);
    // ---- SVM: nu-SVC and one-class, row calling form, non-finite rows
    let yb: Array1<bool> = yl.mapv(|v| v == 1);
    let dsb = Dataset::new(x.clone(), yb);
    let svmb = |a: &Svm<F, bool>, b: &Svm<F, bool>, ctx: &mut Ctx, class: &str| {
        ctx.require(a == b || (a != a && super::value_has_nan()), "equal", class, || "models differ".into());
        dbg_same(ctx, class, a, b);
        same_call(ctx, "predict", &format!("{}:probe=ties", class), "predict", || { let r: Array1<bool> = a.predict(&fresh); r.to_vec() }, || { let r: Array1<bool> = b.predict(&fresh); r.to_vec() });
        same_call(ctx, "predict", &format!("{}:probe=nonfinite", class), "decision values on non-finite rows", || bad.rows().into_iter().map(|r| fb(a.weighted_sum(&r))).collect::<Vec<_>>(), || bad.rows().into_iter().map(|r| fb(b.weighted_sum(&r))).collect::<Vec<_>>());
        same_call(ctx, "predict", &format!("{}:form=row", class), "predict(row)", || { let r: bool = a.predict(fresh.row(0)); r }, || { let r: bool = b.predict(fresh.row(0)); r });
    };
    if let Ok(m) = Svm::<F, bool>::params().nu_weight(0.3 as F).gaussian_kernel(2.0 as F).fit(&dsb) {
        em.count("inst:svm<nu_svc>");
        rt(em, sw, "linfa-svm::Svm", tag, Norm::Exact, &m, &|a, b, ctx, class| svmb(a, b, ctx, &format!("{}:kind=nu_svc", class)));
    }
    let ds1 = Dataset::new(x.clone(), Array1::from_elem(n, ()));
    if let Ok(m) = Svm::<F, Pr>::params().nu_weight(0.2 as F).gaussian_kernel(5.0 as F).fit(&ds1) {
        em.count("inst:svm<one_class>");
        let m: Svm<F, bool> = m;
        rt(em, sw, "linfa-svm::Svm", tag, Norm::Exact, &m, &|a, b, ctx, class| svmb(a, b, ctx, &format!("{}:kind=one_class", class)));
    }
}}}
labelled_impl!(labelled_f32, f32);
labelled_impl!(labelled_f64, f64);

// ------------------------------------------------------------------------------------------------
// non-finite / tie probes for the regressors and transformers of the first sweep
// ------------------------------------------------------------------------------------------------

fn probes<F: Fl>(em: &mut Em, rng: &mut Rng, sw: &mut Sweep) {
    use linfa_clustering::GaussianMixtureModel;
    use linfa_elasticnet::ElasticNet;
    use linfa_linear::LinearRegression;
    use linfa_preprocessing::linear_scaling::LinearScaler;
    let tag = F::NAME;
    let (n, p) = (12 + rng.below(8), 1 + rng.below(3));
    let x: Array2<F> = records(rng, n, p);
    let y = lin_targets(rng, &x);
    let near_: Array2<F> = near(&x);
    let bad: Array2<F> = nasty(p);
    let ds = Dataset::new(x.clone(), y);
    em.count("probe:regressors");
    if let Ok(m) = LinearRegression::new().fit(&ds) {
        rt(em, sw, "linfa-linear::FittedLinearRegression", tag, Norm::Exact, &m, &|a, b, ctx, class| {
            same_call(ctx, "predict", &format!("{}:probe=nonfinite", class), "predict", || ubits(&a.predict(&bad)), || ubits(&b.predict(&bad)));
            same_call(ctx, "predict", &format!("{}:probe=ties", class), "predict", || ubits(&a.predict(&near_)), || ubits(&b.predict(&near_)));
            // dataset calling form
            let dsf = DatasetBase::from(near_.clone());
            same_call(ctx, "predict", &format!("{}:form=dataset", class), "predict(&dataset)", || ubits(&a.predict(&dsf)), || ubits(&b.predict(&dsf)));
        });
    }
    if let Ok(m) = ElasticNet::<F>::params().penalty(F::cast(0.1)).fit(&ds) {
        rt(em, sw, "linfa-elasticnet::ElasticNet", tag, Norm::Exact, &m, &|a: &ElasticNet<F>, b, ctx, class| {
            same_call(ctx, "predict", &format!("{}:probe=nonfinite", class), "predict", || ubits(&a.predict(&bad)), || ubits(&b.predict(&bad)));
        });
    }
    for sp in [LinearScaler::<F>::standard(), LinearScaler::min_max()] {
        if let Ok(m) = sp.fit(&DatasetBase::from(x.clone())) {
            let bad = bad.clone();
            rt(em, sw, "linfa-preprocessing::LinearScaler", tag, Norm::Exact, &m, &|a: &LinearScaler<F>, b, ctx, class| {
                same_call(ctx, "predict", &format!("{}:probe=nonfinite", class), "transform", || bits(&a.transform(bad.clone())), || bits(&b.transform(bad.clone())));
            });
        }
    }
    let k = 2;
    let yk = labels(rng, n, k);
    let xb: Array2<F> = blobs(rng, n, p, &yk);
    if let Ok(m) = GaussianMixtureModel::<F>::params(k).max_n_iterations(20).fit(&DatasetBase::from(xb.clone())) {
        let near2: Array2<F> = near(&xb);
        rt(em, sw, "linfa-clustering::GaussianMixtureModel", tag, Norm::Exact, &m, &|a: &GaussianMixtureModel<F>, b, ctx, class| {
            same_call(ctx, "predict", &format!("{}:probe=ties", class), "predict", || a.predict(&near2).to_vec(), || b.predict(&near2).to_vec());
            same_call(ctx, "predict", &format!("{}:probe=nonfinite", class), "predict_proba", || bits(&a.predict_proba(&bad)), || bits(&b.predict_proba(&bad)));
        });
    }
}

// ------------------------------------------------------------------------------------------------
// invalid parameter sets: same verdict before and after
// ------------------------------------------------------------------------------------------------

fn invalid<F: Fl>(em: &mut Em, rng: &mut Rng, sw: &mut Sweep) {
    use linfa_pls::*;
    use linfa_preprocessing::linear_scaling::LinearScaler;
    let tag = F::NAME;
    let (n, p) = (8 + rng.below(6), 2 + rng.below(3));
    let x: Array2<F> = records(rng, n, p);
    let y2: Array2<F> = records(rng, n, 2);
    let verdict = |r: std::result::Result<String, String>| -> String {
        match r {
            Ok(_) => "ok".into(),
            Err(e) => format!("err:{}", e),
        }
    };
    // PLS-SVD: 0 components and more components than the rank bound
    for k in [0usize, 50] {
        let sp = PlsSvd::<F>::params(k);
        let ds = Dataset::new(x.clone(), y2.clone());
        em.count("invalid:PlsSvdParams");
        rt(em, sw, "linfa-pls::PlsSvdParams", tag, Norm::Exact, &sp, &|a, b, ctx, class| {
            let class = format!("{}:instance=invalid", class);
            ctx.require(a == b || (a != a && super::value_has_nan()), "equal", &class, || format!("{:?} vs {:?}", a, b));
            dbg_same(ctx, &class, a, b);
            let f = |q: &PlsSvdParams| verdict(Fit::<Array2<F>, Array2<F>, PlsError>::fit(q, &ds).map(|_| String::new()).map_err(|e| e.to_string()));
            same_call(ctx, "validate", &class, "fit verdict", || f(a), || f(b));
            ctx.require(f(a).starts_with("err:"), "validate", &format!("{}:generator", class), || "the instance was meant to be invalid".into());
        });
    }
    // min-max scaler with a flipped range
    {
        let sp = LinearScaler::<F>::min_max_range(F::cast(3.0), F::cast(-2.0));
        let ds = DatasetBase::from(x.clone());
        em.count("invalid:LinearScalerParams");
        rt(em, sw, "linfa-preprocessing::LinearScalerParams", tag, Norm::Exact, &sp, &|a, b, ctx, class| {
            let class = format!("{}:instance=invalid", class);
            ctx.require(a == b || (a != a && super::value_has_nan()), "equal", &class, || format!("{:?} vs {:?}", a, b));
            dbg_same(ctx, &class, a, b);
            same_call(ctx, "validate", &class, "fit verdict", || verdict(a.fit(&ds).map(|_| String::new()).map_err(|e| e.to_string())), || verdict(b.fit(&ds).map(|_| String::new()).map_err(|e| e.to_string())));
            ctx.require(a.fit(&ds).is_err(), "validate", &format!("{}:generator", class), || "the instance was meant to be invalid".into());
        });
    }
    // whitener on a dataset it cannot handle (one sample)
    {
        use linfa_preprocessing::whitening::Whitener;
        let ds = DatasetBase::from(x.slice(ndarray::s![0..1, ..]).to_owned());
        for w in [Whitener::pca(), Whitener::cholesky()] {
            em.count("invalid:Whitener");
            rt(em, sw, "linfa-preprocessing::Whitener", tag, Norm::Exact, &w, &|a, b, ctx, class| {
                let class = format!("{}:instance=invalid_data", class);
                same_call(ctx, "validate", &class, "fit verdict", || verdict(a.fit(&ds).map(|_| String::new()).map_err(|e| e.to_string())), || verdict(b.fit(&ds).map(|_| String::new()).map_err(|e| e.to_string())));
            });
        }
    }
}

fn invalid_untyped(em: &mut Em, rng: &mut Rng, sw: &mut Sweep) {
    use linfa_preprocessing::tf_idf_vectorization::TfIdfVectorizer;
    use linfa_preprocessing::CountVectorizer;
    use linfa_reduction::Pca;
    let (n, p) = (8 + rng.below(6), 2 + rng.below(3));
    let x: Array2<f64> = records(rng, n, p);
    // PCA: embedding size 0 and larger than the number of features
    for k in [0usize, p + 1, 1000] {
        let params = Pca::params(k).whiten(k % 2 == 0);
        let ds = DatasetBase::from(x.clone());
        em.count("invalid:PcaParams");
        rt(em, sw, "linfa-reduction::PcaParams", "f64", Norm::Exact, &params, &|a, b, ctx, class| {
            let class = format!("{}:instance=invalid", class);
            ctx.require(a == b || (a != a && super::value_has_nan()), "equal", &class, || format!("{:?} vs {:?}", a, b));
            dbg_same(ctx, &class, a, b);
            let f = |q: &linfa_reduction::PcaParams| q.fit(&ds).map(|m| fp::<_, String>(Ok(m))).map_err(|e| e.to_string());
            same_call(ctx, "validate", &class, "fit verdict", || f(a), || f(b));
            ctx.require(f(a).is_err(), "validate", &format!("{}:generator", class), || "the instance was meant to be invalid".into());
        });
    }
    let docs: Array1<String> = Array1::from_vec(vec!["one two three".to_string(), "two three four".to_string(), "five".to_string()]);
    let bad_tv = [TfIdfVectorizer::default().n_gram_range(2, 1), TfIdfVectorizer::default().n_gram_range(0, 1), TfIdfVectorizer::default().document_frequency(0.9, 0.1)];
    for tv in bad_tv.iter() {
        em.count("invalid:TfIdfVectorizer");
        let d = docs.clone();
        rt(em, sw, "linfa-preprocessing::TfIdfVectorizer", "-", Norm::SortMapsSeqs, tv, &|a: &TfIdfVectorizer, b, ctx, class| {
            let class = format!("{}:instance=invalid", class);
            let f = |q: &TfIdfVectorizer| q.fit(&d).map(|m| { let mut v = m.vocabulary().clone(); v.sort(); v }).map_err(|e| e.to_string());
            same_call(ctx, "validate", &class, "fit verdict", || f(a), || f(b));
            ctx.require(f(a).is_err(), "validate", &format!("{}:generator", class), || "the instance was meant to be invalid".into());
        });
    }
    let bad_cv = [CountVectorizer::params().document_frequency(0.9, 0.1), CountVectorizer::params().n_gram_range(0, 0), CountVectorizer::params().document_frequency(-0.5, 0.5)];
    for cv in bad_cv.iter() {
        em.count("invalid:CountVectorizerParams");
        let d = docs.clone();
        rt(em, sw, "linfa-preprocessing::CountVectorizerParams", "-", Norm::SortMapsSeqs, cv, &|a, b, ctx, class| {
            let class = format!("{}:instance=invalid", class);
            ctx.require(a.check_ref().is_err() == b.check_ref().is_err(), "validate", &class, || "validation verdict differs".into());
            let f = |q: &linfa_preprocessing::CountVectorizerParams| q.fit(&d).map(|m| { let mut v = m.vocabulary().clone(); v.sort(); v }).map_err(|e| e.to_string());
            same_call(ctx, "validate", &class, "fit verdict", || f(a), || f(b));
            ctx.require(f(a).is_err(), "validate", &format!("{}:generator", class), || "the instance was meant to be invalid".into());
        });
    }
}

// ------------------------------------------------------------------------------------------------
// vectorisers: the *_files entry points and the tokenizer setter sequences
// ------------------------------------------------------------------------------------------------

fn tok_ws2(s: &str) -> Vec<&str> {
    s.split(' ').filter(|t| !t.is_empty()).collect()
}

fn text_files(em: &mut Em, rng: &mut Rng, sw: &mut Sweep) {
    use linfa_preprocessing::tf_idf_vectorization::*;
    use linfa_preprocessing::verif_hooks_c04::{strict, utf8};
    use linfa_preprocessing::*;
    let tag = "-";
    let words = ["one", "Two", "three", "four", "six", "and", "the", "a1", "b2"];
    let doc = |rng: &mut Rng| -> String { (0..3 + rng.below(8)).map(|_| *rng.pick(&words)).collect::<Vec<_>>().join([" ", ", ", "  "][rng.below(3)]) };
    let dir = std::env::temp_dir().join(format!("linfa_verif_c19_{}", std::process::id()));
    let _ = std::fs::create_dir_all(&dir);
    let write = |name: &str, texts: &[String]| -> Vec<std::path::PathBuf> {
        texts.iter().enumerate().map(|(i, t)| { let f = dir.join(format!("{}{}.txt", name, i)); std::fs::write(&f, t).unwrap(); f }).collect()
    };
    // tokenizer configurations: what the ORIGINAL tokenises with / what a restored value may do
    //   default, regex                  -> restored behaves identically
    //   function, regex_then_function   -> restored must refuse until the function is set again
    //   function_then_regex             -> the last setter wins: a regex tokenizer, restored identical
    let modes = ["default", "regex", "function", "regex_then_function", "function_then_regex"];
    for (it, mode) in modes.iter().enumerate() {
        let mut texts: Vec<String> = (0..4 + rng.below(4)).map(|_| doc(rng)).collect();
        texts[0].push_str(" a1 b2 one, Two");
        let mut ftexts: Vec<String> = (0..4).map(|_| doc(rng)).collect();
        ftexts[0].push_str(" a1 one, three");
        let (paths, fpaths) = (write(&format!("d{}_", it), &texts), write(&format!("f{}_", it), &ftexts));
        let docs: Array1<String> = Array1::from_vec(texts.clone());
        let re = r"\b[a-z]+\b".to_string();
        let set = |p: CountVectorizerParams| -> CountVectorizerParams {
            match *mode {
                "regex" => p.tokenizer(Tokenizer::Regex(re.clone())),
                "function" => p.tokenizer(Tokenizer::Function(tok_ws2)),
                "regex_then_function" => p.tokenizer(Tokenizer::Regex(re.clone())).tokenizer(Tokenizer::Function(tok_ws2)),
                "function_then_regex" => p.tokenizer(Tokenizer::Function(tok_ws2)).tokenizer(Tokenizer::Regex(re.clone())),
                _ => p,
            }
        };
        let set_tv = |p: TfIdfVectorizer| -> TfIdfVectorizer {
            match *mode {
                "regex" => p.tokenizer(Tokenizer::Regex(re.clone())),
                "function" => p.tokenizer(Tokenizer::Function(tok_ws2)),
                "regex_then_function" => p.tokenizer(Tokenizer::Regex(re.clone())).tokenizer(Tokenizer::Function(tok_ws2)),
                "function_then_regex" => p.tokenizer(Tokenizer::Function(tok_ws2)).tokenizer(Tokenizer::Regex(re.clone())),
                _ => p,
            }
        };
        let refuses = *mode == "function" || *mode == "regex_then_function";
        em.count(&format!("tokenizer:{}", mode));
        let norm = Norm::SortMapsSeqs;
        let params = set(CountVectorizer::params().convert_to_lowercase(rng.coin()).n_gram_range(1, 1 + rng.below(2)));
        // a fitted vectoriser shown keyed by word (vocabulary order follows hash-map order)
        let show = |r: Result<CountVectorizer>, via_files: bool| -> String {
            match r {
                Ok(m) => {
                    let t = if via_files { m.transform_files(&fpaths, utf8(), strict()) } else { m.transform(&Array1::from_vec(ftexts.clone())) };
                    match t {
                        Ok(t) => {
                            let mut cols: Vec<(String, Vec<(usize, usize)>)> = m.vocabulary().iter().map(|w| (w.clone(), vec![])).collect();
                            for (v, (r, c)) in t.iter() {
                                cols[c].1.push((r, *v));
                            }
                            cols.sort();
                            format!("{:?}", cols)
                        }
                        Err(e) => format!("err:{}", e),
                    }
                }
                Err(e) => format!("err:{}", e),
            }
        };
        let judge = |ctx: &mut Ctx, clause: &str, class: &str, entry: &str, ra: String, rb: String| {
            let class = format!("{}:tokenizer={}:entry={}", class, mode, entry);
            if refuses {
                ctx.require(rb.starts_with("err:"), clause, &class, || format!("restored value lost its tokenizer function and silently tokenises differently: {} vs {}", &ra[..ra.len().min(120)], &rb[..rb.len().min(120)]));
            } else {
                ctx.require(ra == rb, clause, &class, || format!("original and restored differ: {} vs {}", &ra[..ra.len().min(160)], &rb[..rb.len().min(160)]));
            }
            ctx.require(!ra.starts_with("err:"), clause, &format!("{}:generator", class), || format!("the original was meant to work: {}", ra));
        };
        rt(em, sw, "linfa-preprocessing::CountVectorizerParams", tag, norm, &params, &|a, b, ctx, class| {
            judge(ctx, "refit", class, "fit", show(a.fit(&docs), false), show(b.fit(&docs), false));
            judge(ctx, "refit", class, "fit_files", show(a.fit_files(&paths, utf8(), strict()), true), show(b.fit_files(&paths, utf8(), strict()), true));
            // order-sensitive image of the parameter set (the canonical text sorts sequences)
            if let (Ok(va), Ok(vb)) = (a.check_ref(), b.check_ref()) {
                ctx.require(va.n_gram_range() == vb.n_gram_range() && va.document_frequency().0.to_bits() == vb.document_frequency().0.to_bits() && va.document_frequency().1.to_bits() == vb.document_frequency().1.to_bits() && va.max_features() == vb.max_features() && va.stopwords() == vb.stopwords() && va.convert_to_lowercase() == vb.convert_to_lowercase() && va.normalize() == vb.normalize(), "accessors", class, || "accessor differs".into());
            }
        });
        let vp = params.clone().check().unwrap();
        rt(em, sw, "linfa-preprocessing::CountVectorizerValidParams", tag, norm, &vp, &|a, b, ctx, class| {
            judge(ctx, "refit", class, "fit", show(a.fit(&docs), false), show(b.fit(&docs), false));
            judge(ctx, "refit", class, "fit_files", show(a.fit_files(&paths, utf8(), strict()), true), show(b.fit_files(&paths, utf8(), strict()), true));
        });
        let csr = |m: &sprs::CsMat<usize>| -> String { format!("{:?} {:?} {:?} {:?}", m.indptr().raw_storage(), m.indices(), m.data(), m.shape()) };
        let csrf = |m: &sprs::CsMat<f64>| -> String { format!("{:?} {:?} {:?} {:?}", m.indptr().raw_storage(), m.indices(), m.data().iter().map(|v| v.to_bits()).collect::<Vec<_>>(), m.shape()) };
        if let Ok(model) = params.fit(&docs) {
            rt(em, sw, "linfa-preprocessing::CountVectorizer", tag, norm, &model, &|a: &CountVectorizer, b, ctx, class| {
                let f = |m: &CountVectorizer| m.transform_files(&fpaths, utf8(), strict()).map(|t| csr(&t)).unwrap_or_else(|e| format!("err:{}", e));
                judge(ctx, "predict", class, "transform_files", f(a), f(b));
                if refuses {
                    let mut b2 = b.clone();
                    b2.force_tokenizer_function_redefinition(tok_ws2);
                    ctx.require(f(a) == f(&b2), "predict", &format!("{}:tokenizer={}:entry=transform_files:redefined", class, mode), || "transform_files differs after the tokenizer was set again".into());
                }
            });
        }
        let tv = set_tv(TfIdfVectorizer::default().convert_to_lowercase(rng.coin()));
        let showt = |r: Result<FittedTfIdfVectorizer>| -> String {
            match r {
                Ok(m) => match m.transform_files(&fpaths, utf8(), strict()) {
                    Ok(t) => {
                        let mut cols: Vec<(String, Vec<(usize, u64)>)> = m.vocabulary().iter().map(|w| (w.clone(), vec![])).collect();
                        for (v, (r, c)) in t.iter() {
                            cols[c].1.push((r, v.to_bits()));
                        }
                        cols.sort();
                        format!("{:?}", cols)
                    }
                    Err(e) => format!("err:{}", e),
                },
                Err(e) => format!("err:{}", e),
            }
        };
        rt(em, sw, "linfa-preprocessing::TfIdfVectorizer", tag, norm, &tv, &|a: &TfIdfVectorizer, b, ctx, class| {
            judge(ctx, "refit", class, "fit", showt(a.fit(&docs)), showt(b.fit(&docs)));
            judge(ctx, "refit", class, "fit_files", showt(a.fit_files(&paths, utf8(), strict())), showt(b.fit_files(&paths, utf8(), strict())));
        });
        if let Ok(fm) = tv.fit(&docs) {
            rt(em, sw, "linfa-preprocessing::FittedTfIdfVectorizer", tag, norm, &fm, &|a: &FittedTfIdfVectorizer, b, ctx, class| {
                let f = |m: &FittedTfIdfVectorizer| m.transform_files(&fpaths, utf8(), strict()).map(|t| csrf(&t)).unwrap_or_else(|e| format!("err:{}", e));
                judge(ctx, "predict", class, "transform_files", f(a), f(b));
                let g = |m: &FittedTfIdfVectorizer| m.transform(&Array1::from_vec(ftexts.clone())).map(|t| csrf(&t)).unwrap_or_else(|e| format!("err:{}", e));
                judge(ctx, "predict", class, "transform", g(a), g(b));
            });
        }
    }
    let _ = std::fs::remove_dir_all(&dir);
}

// ------------------------------------------------------------------------------------------------
// sizes: 16- and 32-bit container headers written by real models
// ------------------------------------------------------------------------------------------------

fn sizes(em: &mut Em, rng: &mut Rng, sw: &mut Sweep) {
    use linfa_linear::*;
    // array16: 300 coefficients
    let (n, p) = (320, 300);
    let x: Array2<f64> = Array2::from_shape_fn((n, p), |_| rng.unit() * 2.0 - 1.0);
    let y: Array1<f64> = Array1::from_shape_fn(n, |i| x[(i, 0)] - x[(i, 7)] + rng.unit() * 0.01);
    let fresh: Array2<f64> = records(rng, 4, p);
    em.count("size:array16");
    if let Ok(m) = LinearRegression::new().fit(&Dataset::new(x, y)) {
        rt(em, sw, "linfa-linear::FittedLinearRegression", "f64", Norm::Exact, &m, &|a, b, ctx, class| {
            let class = format!("{}:size=array16", class);
            ctx.require(a == b || (a != a && super::value_has_nan()), "equal", &class, || "models differ".into());
            same_arr(ctx, "accessors", &class, "params", a.params(), b.params());
            same_arr(ctx, "predict", &class, "predict", &a.predict(&fresh), &b.predict(&fresh));
        });
    }
    // array32: an isotonic fit with more than 65 535 knots (strictly increasing responses: no pooling).
    // Thorough tier only: the list-based Lean decoder needs minutes for a 1.3 MB message.
    if !em.thorough() {
        return;
    }
    let n = 66000 + rng.below(500);
    let x: Array2<f32> = Array2::from_shape_fn((n, 1), |(i, _)| i as f32);
    let y: Array1<f32> = Array1::from_shape_fn(n, |i| i as f32 * 0.5);
    let fresh: Array2<f32> = Array2::from_shape_fn((6, 1), |(i, _)| i as f32 * 9000.25 - 3.0);
    em.count("size:array32");
    if let Ok(m) = IsotonicRegression::new().fit(&Dataset::new(x, y)) {
        rt(em, sw, "linfa-linear::FittedIsotonicRegression", "f32", Norm::Exact, &m, &|a: &FittedIsotonicRegression<f32>, b, ctx, class| {
            let class = format!("{}:size=array32", class);
            ctx.require(a == b || (a != a && super::value_has_nan()), "equal", &class, || "models differ".into());
            same_arr(ctx, "predict", &class, "predict", &a.predict(&fresh), &b.predict(&fresh));
        });
    }
}

// ------------------------------------------------------------------------------------------------
// wide models (8 and more features: ndarray's unrolled 8-lane `dot` / `sum` kernels) asked in every memory layout
// ------------------------------------------------------------------------------------------------

/// the same matrix as a C-order array, an F-order array, a strided view (every second column of a wider array)
/// and a view with negative strides on both axes
pub fn for_layouts<F: Fl>(x: &Array2<F>, mut f: impl FnMut(&str, ndarray::ArrayView2<F>)) {
    let (n, p) = x.dim();
    f("c", x.view());
    let fo = Array2::from_shape_fn((p, n), |(j, i)| x[(i, j)]);
    f("f", fo.t());
    let wide = Array2::from_shape_fn((n, 2 * p), |(i, j)| if j % 2 == 0 { x[(i, j / 2)] } else { F::cast(777.0) });
    f("strided", wide.slice(ndarray::s![.., ..;2]));
    let rev = Array2::from_shape_fn((n, p), |(i, j)| x[(n - 1 - i, p - 1 - j)]);
    f("negative", rev.slice(ndarray::s![..;-1, ..;-1]));
}

fn wide<F: Fl>(em: &mut Em, rng: &mut Rng, sw: &mut Sweep) {
    use linfa_clustering::{GaussianMixtureModel, KMeans};
    use linfa_linear::LinearRegression;
    use linfa_pls::PlsRegression;
    use linfa_preprocessing::linear_scaling::LinearScaler;
    use linfa_preprocessing::whitening::Whitener;
    let tag = F::NAME;
    let p = 8 + rng.below(10);
    let n = 3 * p + rng.below(8);
    let y = labels(rng, n, 2);
    let x: Array2<F> = blobs(rng, n, p, &y);
    let fresh: Array2<F> = records(rng, 7, p);
    em.count("probe:wide");
    let ds = DatasetBase::from(x.clone());
    if let Ok(m) = GaussianMixtureModel::<F>::params(2).max_n_iterations(10).reg_covariance(F::cast(1e-2)).fit(&ds) {
        em.count("wide:gmm");
        rt(em, sw, "linfa-clustering::GaussianMixtureModel", tag, Norm::Exact, &m, &|a: &GaussianMixtureModel<F>, b, ctx, class| {
            for_layouts(&fresh, |l, v| {
                let class = format!("{}:probe=wide:layout={}", class, l);
                same_call(ctx, "predict", &class, "predict", || a.predict(&v).to_vec(), || b.predict(&v).to_vec());
                same_call(ctx, "predict", &class, "predict_proba", || bits(&a.predict_proba(&v)), || bits(&b.predict_proba(&v)));
            });
        });
    }
    if let Ok(m) = KMeans::params(3).max_n_iterations(10).fit(&ds) {
        em.count("wide:kmeans");
        rt(em, sw, "linfa-clustering::KMeans", tag, Norm::Exact, &m, &|a, b, ctx, class| {
            for_layouts(&fresh, |l, v| {
                let class = format!("{}:probe=wide:layout={}", class, l);
                same_call(ctx, "predict", &class, "predict", || a.predict(&v).to_vec(), || b.predict(&v).to_vec());
                same_call(ctx, "predict", &class, "transform", || ubits(&a.transform(&v)), || ubits(&b.transform(&v)));
            });
        });
    }
    let yr = lin_targets(rng, &x);
    if let Ok(m) = LinearRegression::new().fit(&Dataset::new(x.clone(), yr.clone())) {
        em.count("wide:ols");
        rt(em, sw, "linfa-linear::FittedLinearRegression", tag, Norm::Exact, &m, &|a, b, ctx, class| {
            for_layouts(&fresh, |l, v| {
                same_call(ctx, "predict", &format!("{}:probe=wide:layout={}", class, l), "predict", || ubits(&a.predict(&v)), || ubits(&b.predict(&v)));
            });
        });
    }
    let y2: Array2<F> = Array2::from_shape_fn((n, 2), |(i, c)| x[(i, c)] * F::cast(2.0) - x[(i, c + 3)] + F::cast(rng.unit() * 0.1));
    if let Ok(m) = PlsRegression::<F>::params(2).fit(&Dataset::new(x.clone(), y2)) {
        em.count("wide:pls");
        rt(em, sw, "linfa-pls::PlsRegression", tag, Norm::Exact, &m, &|a: &PlsRegression<F>, b, ctx, class| {
            for_layouts(&fresh, |l, v| {
                same_call(ctx, "predict", &format!("{}:probe=wide:layout={}", class, l), "predict", || bits(&a.predict(&v)), || bits(&b.predict(&v)));
            });
        });
    }
    for w in [Whitener::pca(), Whitener::zca(), Whitener::cholesky()] {
        if let Ok(m) = w.fit(&ds) {
            em.count("wide:whitener");
            let fresh = fresh.clone();
            rt(em, sw, "linfa-preprocessing::FittedWhitener", tag, Norm::Exact, &m, &|a: &linfa_preprocessing::whitening::FittedWhitener<F>, b, ctx, class| {
                for_layouts(&fresh, |l, v| {
                    // `transform` takes an owned array: C order, F order (kept by `to_owned`), and the copies of the two views
                    let owned = if l == "f" { v.t().to_owned().reversed_axes() } else { v.to_owned() };
                    same_call(ctx, "predict", &format!("{}:probe=wide:layout={}", class, l), "transform", || bits(&a.transform(owned.clone())), || bits(&b.transform(owned.clone())));
                });
            });
        }
    }
    for sp in [LinearScaler::<F>::standard(), LinearScaler::min_max()] {
        if let Ok(m) = sp.fit(&ds) {
            let fresh = fresh.clone();
            rt(em, sw, "linfa-preprocessing::LinearScaler", tag, Norm::Exact, &m, &|a: &LinearScaler<F>, b, ctx, class| {
                for_layouts(&fresh, |l, v| {
                    let owned = if l == "f" { v.t().to_owned().reversed_axes() } else { v.to_owned() };
                    same_call(ctx, "predict", &format!("{}:probe=wide:layout={}", class, l), "transform", || bits(&a.transform(owned.clone())), || bits(&b.transform(owned.clone())));
                });
            });
        }
    }
    // training data in the four layouts: the restored parameter sets refit like the originals on every one of them
    for_layouts(&x, |l, v| {
        em.count(&format!("layout:{}", l));
        let dsv = DatasetBase::new(v, yr.view());
        rt(em, sw, "linfa-linear::LinearRegression", tag, Norm::Exact, &LinearRegression::new(), &|a, b, ctx, class| {
            refit_same(ctx, &format!("{}:layout={}", class, l), &|| fp::<linfa_linear::FittedLinearRegression<F>, _>(a.fit(&dsv)), &|| fp::<linfa_linear::FittedLinearRegression<F>, _>(b.fit(&dsv)));
        });
        let dsu = DatasetBase::from(v);
        rt(em, sw, "linfa-preprocessing::LinearScalerParams", tag, Norm::Exact, &LinearScaler::<F>::standard(), &|a, b, ctx, class| {
            refit_same(ctx, &format!("{}:layout={}", class, l), &|| fp(a.fit(&dsu)), &|| fp(b.fit(&dsu)));
        });
        rt(em, sw, "linfa-preprocessing::Whitener", tag, Norm::Exact, &Whitener::cholesky(), &|a, b, ctx, class| {
            refit_same(ctx, &format!("{}:layout={}", class, l), &|| fp(a.fit(&dsu)), &|| fp(b.fit(&dsu)));
        });
        let dsl = DatasetBase::new(v, y.view());
        let vp: linfa_bayes::GaussianNbValidParams<F, usize> = linfa_bayes::GaussianNb::params().check().unwrap();
        rt(em, sw, "linfa-bayes::GaussianNbValidParams", tag, Norm::Exact, &vp, &|a, b, ctx, class| {
            refit_same(ctx, &format!("{}:layout={}", class, l), &|| fp(a.fit(&dsl)), &|| fp(b.fit(&dsl)));
        });
    });
}

fn wide_pca(em: &mut Em, rng: &mut Rng, sw: &mut Sweep) {
    use linfa_reduction::Pca;
    let p = 8 + rng.below(10);
    let n = 3 * p + rng.below(8);
    let x: Array2<f64> = records(rng, n, p);
    let fresh: Array2<f64> = records(rng, 7, p);
    for whiten in [false, true] {
        if let Ok(m) = Pca::params(2 + rng.below(4)).whiten(whiten).fit(&DatasetBase::from(x.clone())) {
            em.count("wide:pca");
            rt(em, sw, "linfa-reduction::Pca", "f64", Norm::Exact, &m, &|a: &Pca<f64>, b, ctx, class| {
                for_layouts(&fresh, |l, v| {
                    same_call(ctx, "predict", &format!("{}:probe=wide:layout={}", class, l), "predict", || bits(&a.predict(&v)), || bits(&b.predict(&v)));
                });
            });
        }
    }
    for_layouts(&x, |l, v| {
        let dsu = DatasetBase::from(v);
        rt(em, sw, "linfa-reduction::PcaParams", "f64", Norm::Exact, &Pca::params(3), &|a, b, ctx, class| {
            refit_same(ctx, &format!("{}:layout={}", class, l), &|| fp(a.fit(&dsu)), &|| fp(b.fit(&dsu)));
        });
    });
}

// ------------------------------------------------------------------------------------------------
// degenerate fitted states
// ------------------------------------------------------------------------------------------------

fn degenerate<F: Fl>(em: &mut Em, rng: &mut Rng, sw: &mut Sweep) {
    use linfa_clustering::{KMeans, KMeansInit, Optics};
    use linfa_preprocessing::linear_scaling::LinearScaler;
    use linfa_trees::DecisionTree;
    let tag = F::NAME;
    let (n, p) = (9 + rng.below(5), 3);
    // column 1 is constant (zero spread), column 2 is all zero
    let x: Array2<F> = Array2::from_shape_fn((n, p), |(i, j)| match j { 0 => F::cast(i as f64 * 0.5 - 1.0), 1 => F::cast(4.25), _ => F::cast(0.0) });
    let fresh: Array2<F> = Array2::from_shape_fn((4, p), |(i, j)| F::cast((i + j) as f64 - 1.5));
    em.count("probe:degenerate");
    for sp in [LinearScaler::<F>::standard(), LinearScaler::min_max(), LinearScaler::max_abs()] {
        if let Ok(m) = sp.fit(&DatasetBase::from(x.clone())) {
            em.count("degenerate:scaler");
            let fresh = fresh.clone();
            rt(em, sw, "linfa-preprocessing::LinearScaler", tag, Norm::Exact, &m, &|a: &LinearScaler<F>, b, ctx, class| {
                let class = format!("{}:instance=constant_column", class);
                ctx.require(a == b || (a != a && super::value_has_nan()), "equal", &class, || "scalers differ".into());
                dbg_same(ctx, &class, a, b);
                same_arr(ctx, "accessors", &class, "scales", a.scales(), b.scales());
                same_arr(ctx, "accessors", &class, "offsets", a.offsets(), b.offsets());
                same_call(ctx, "predict", &class, "transform", || bits(&a.transform(fresh.clone())), || bits(&b.transform(fresh.clone())));
            });
        }
    }
    // naive Bayes: a zero-variance feature in every class
    let y: Array1<usize> = Array1::from_shape_fn(n, |i| i % 2);
    if let Ok(m) = linfa_bayes::GaussianNb::<F, usize>::params().fit(&Dataset::new(x.clone(), y.clone())) {
        em.count("degenerate:nb");
        let fresh = fresh.clone();
        rt(em, sw, "linfa-bayes::GaussianNb", tag, Norm::SortMaps, &m, &|a: &linfa_bayes::GaussianNb<F, usize>, b, ctx, class| {
            let class = format!("{}:instance=zero_variance", class);
            ctx.require(a == b || (a != a && super::value_has_nan()), "equal", &class, || "models differ".into());
            same_call(ctx, "predict", &class, "predict", || a.predict(&fresh).to_vec(), || b.predict(&fresh).to_vec());
        });
    }
    // k-means: a precomputed centroid far from every observation keeps an empty cluster
    let mut cent: Array2<F> = x.slice(ndarray::s![0..3, ..]).to_owned();
    cent.row_mut(2).fill(F::cast(1e6));
    if let Ok(m) = KMeans::params(3).init_method(KMeansInit::Precomputed(cent)).max_n_iterations(5).fit(&DatasetBase::from(x.clone())) {
        em.count("degenerate:kmeans");
        let fresh = fresh.clone();
        rt(em, sw, "linfa-clustering::KMeans", tag, Norm::Exact, &m, &|a, b, ctx, class| {
            let class = format!("{}:instance=empty_cluster", class);
            ctx.require(a == b || (a != a && super::value_has_nan()), "equal", &class, || "models differ".into());
            dbg_same(ctx, &class, a, b);
            same_arr(ctx, "accessors", &class, "cluster_count", a.cluster_count(), b.cluster_count());
            same_call(ctx, "predict", &class, "predict", || a.predict(&fresh).to_vec(), || b.predict(&fresh).to_vec());
        });
    }
    // a tree that is a single leaf (one class)
    let y1: Array1<usize> = Array1::from_elem(n, 5);
    if let Ok(m) = DecisionTree::<F, usize>::params().fit(&Dataset::new(x.clone(), y1)) {
        em.count("degenerate:tree");
        let fresh = fresh.clone();
        rt(em, sw, "linfa-trees::DecisionTree", tag, Norm::Exact, &m, &|a: &DecisionTree<F, usize>, b, ctx, class| {
            let class = format!("{}:instance=single_leaf", class);
            ctx.require(a == b || (a != a && super::value_has_nan()), "equal", &class, || "trees differ".into());
            dbg_same(ctx, &class, a, b);
            ctx.require(a.num_leaves() == b.num_leaves() && a.features() == b.features() && a.max_depth() == b.max_depth(), "accessors", &class, || "leaves / features / depth".into());
            same_call(ctx, "predict", &class, "predict", || a.predict(&fresh).to_vec(), || b.predict(&fresh).to_vec());
        });
    }
    // OPTICS: a neighbourhood so small that every observation is noise (no core distance anywhere)
    if let Ok(vp) = Optics::params::<F>(3).tolerance(F::cast(1e-6)).check() {
        let an = vp.transform(x.view());
        {
            em.count("degenerate:optics");
            rt(em, sw, "linfa-clustering::OpticsAnalysis", tag, Norm::Exact, &an, &|a: &linfa_clustering::OpticsAnalysis<F>, b, ctx, class| {
                let class = format!("{}:instance=all_noise", class);
                ctx.require(a == b || (a != a && super::value_has_nan()), "equal", &class, || "analysis differs".into());
                dbg_same(ctx, &class, a, b);
                let key = |o: &linfa_clustering::OpticsAnalysis<F>| -> Vec<(usize, Option<u64>, Option<u64>)> { o.iter().map(|s| (s.index(), s.core_distance().map(fb), s.reachability_distance().map(fb))).collect() };
                ctx.require(key(a) == key(b), "accessors", &class, || "sample accessors differ".into());
            });
        }
    }
}

fn degenerate_text(em: &mut Em, sw: &mut Sweep) {
    use linfa_preprocessing::CountVectorizer;
    // every word occurs in every document and the upper document frequency excludes them all: empty vocabulary
    let docs: Array1<String> = Array1::from_vec(vec!["one two".to_string(), "two one".to_string(), "one two one".to_string()]);
    if let Ok(m) = CountVectorizer::params().document_frequency(0.0, 0.5).fit(&docs) {
        em.count("degenerate:vocabulary");
        let d = docs.clone();
        rt(em, sw, "linfa-preprocessing::CountVectorizer", "-", Norm::SortMapsSeqs, &m, &|a: &CountVectorizer, b, ctx, class| {
            let class = format!("{}:instance=empty_vocabulary", class);
            ctx.require(a.vocabulary() == b.vocabulary() && a.nentries() == b.nentries(), "accessors", &class, || "vocabulary differs".into());
            let f = |m: &CountVectorizer| m.transform(&d).map(|t| format!("{:?} {:?} {:?}", t.indptr().raw_storage(), t.indices(), t.shape())).map_err(|e| e.to_string());
            same_call(ctx, "predict", &class, "transform", || f(a), || f(b));
        });
    }
}

// ------------------------------------------------------------------------------------------------
// regex tokenizers whose meaning depends on the compile options (a restored value recompiles from the pattern
// text alone, with the default options): documents that tell the options apart
// ------------------------------------------------------------------------------------------------

fn regex_flags(em: &mut Em, sw: &mut Sweep) {
    use linfa_preprocessing::tf_idf_vectorization::TfIdfVectorizer;
    use linfa_preprocessing::{CountVectorizer, Tokenizer};
    // (pattern, documents): case_insensitive / multi_line / unicode / dot_matches_new_line / ignore_whitespace / swap_greed
    let cases: [(&str, &str, [&str; 3]); 6] = [
        ("case", r"\b[a-z]+\b", ["one Two THREE", "Two two tWo one", "THREE three"]),
        ("multi_line", r"^\w+|\w+$", ["one two\nthree four\nfive six", "three x\none y\nsix z", "one\ntwo"]),
        ("unicode", r"\w+", ["ﬁve naïve café", "café five ﬁve", "naïve nai ve"]),
        ("dot_newline", r"a.b", ["a\nb a b axb", "a\nb", "axb a\tb"]),
        ("whitespace", r"o n e", ["one o n e", "o n e o n e", "one"]),
        ("greed", r"a+?b*", ["aaab aab", "ab aaa", "b a"]),
    ];
    for (name, pat, docs) in cases.iter() {
        let docs: Array1<String> = Array1::from_vec(docs.iter().map(|s| s.to_string()).collect());
        em.count("tokenizer:regex_flags");
        let params = CountVectorizer::params().convert_to_lowercase(false).normalize(false).tokenizer(Tokenizer::Regex(pat.to_string()));
        let show = |r: linfa_preprocessing::error::Result<CountVectorizer>, d: &Array1<String>| -> String {
            match r {
                Ok(m) => match m.transform(d) {
                    Ok(t) => {
                        let mut cols: Vec<(String, Vec<(usize, usize)>)> = m.vocabulary().iter().map(|w| (w.clone(), vec![])).collect();
                        for (v, (r, c)) in t.iter() {
                            cols[c].1.push((r, *v));
                        }
                        cols.sort();
                        format!("{:?}", cols)
                    }
                    Err(e) => format!("err:{}", e),
                },
                Err(e) => format!("err:{}", e),
            }
        };
        let d = docs.clone();
        rt(em, sw, "linfa-preprocessing::CountVectorizerParams", "-", Norm::SortMapsSeqs, &params, &|a, b, ctx, class| {
            let class = format!("{}:tokenizer=regex_flags:{}", class, name);
            same_call(ctx, "refit", &class, "fit + transform", || show(a.fit(&d), &d), || show(b.fit(&d), &d));
            ctx.require(!show(a.fit(&d), &d).starts_with("err:"), "refit", &format!("{}:generator", class), || "the original was meant to work".into());
        });
        if let Ok(vp) = params.clone().check() {
            let d = docs.clone();
            rt(em, sw, "linfa-preprocessing::CountVectorizerValidParams", "-", Norm::SortMapsSeqs, &vp, &|a, b, ctx, class| {
                let class = format!("{}:tokenizer=regex_flags:{}", class, name);
                same_call(ctx, "refit", &class, "fit + transform", || show(a.fit(&d), &d), || show(b.fit(&d), &d));
            });
        }
        if let Ok(m) = params.fit(&docs) {
            let d = docs.clone();
            rt(em, sw, "linfa-preprocessing::CountVectorizer", "-", Norm::SortMapsSeqs, &m, &|a: &CountVectorizer, b, ctx, class| {
                let class = format!("{}:tokenizer=regex_flags:{}", class, name);
                let f = |m: &CountVectorizer| m.transform(&d).map(|t| format!("{:?} {:?} {:?} {:?}", t.indptr().raw_storage(), t.indices(), t.data(), t.shape())).map_err(|e| e.to_string());
                same_call(ctx, "predict", &class, "transform", || f(a), || f(b));
            });
        }
        let tv = TfIdfVectorizer::default().convert_to_lowercase(false).normalize(false).tokenizer(Tokenizer::Regex(pat.to_string()));
        let d = docs.clone();
        rt(em, sw, "linfa-preprocessing::TfIdfVectorizer", "-", Norm::SortMapsSeqs, &tv, &|a: &TfIdfVectorizer, b, ctx, class| {
            let class = format!("{}:tokenizer=regex_flags:{}", class, name);
            let f = |q: &TfIdfVectorizer| q.fit(&d).map(|m| { let mut v = m.vocabulary().clone(); v.sort(); v }).map_err(|e| e.to_string());
            same_call(ctx, "refit", &class, "fit vocabulary", || f(a), || f(b));
        });
    }
}

// ------------------------------------------------------------------------------------------------
// instantiations: unit nearest-neighbour selectors as the `N` of DBSCAN / OPTICS parameters, other generators as the
// `R` of k-means / Gaussian-mixture / FTRL parameters
// ------------------------------------------------------------------------------------------------

fn dbscan_nn<F: Fl, N>(em: &mut Em, rng: &mut Rng, sw: &mut Sweep, nname: &str, nn: N)
where
    N: linfa_nn::NearestNeighbour + Clone + serde::Serialize + serde::de::DeserializeOwned + PartialEq + std::fmt::Debug + 'static,
{
    use linfa_clustering::{Dbscan, Optics};
    use linfa_nn::distance::L2Dist;
    let tag = F::NAME;
    let (n, p) = (12 + rng.below(8), 2);
    let y = labels(rng, n, 2);
    let x: Array2<F> = blobs(rng, n, p, &y);
    if let Ok(dvp) = Dbscan::params_with::<F, _, _>(3, L2Dist, nn.clone()).tolerance(F::cast(1.5)).check() {
        em.count(&format!("inst:dbscan<{}>", nname));
        let x2 = x.clone();
        rt(em, sw, "linfa-clustering::DbscanValidParams", tag, Norm::Exact, &dvp, &|a, b, ctx, class| {
            let class = format!("{}:nn={}", class, nname);
            ctx.require(a == b || (a != a && super::value_has_nan()), "equal", &class, || format!("{:?} vs {:?}", a, b));
            dbg_same(ctx, &class, a, b);
            ctx.require(a.nn_algo() == b.nn_algo(), "accessors", &class, || "nn_algo".into());
            refit_same(ctx, &class, &|| fp::<_, String>(Ok(a.transform(&x2))), &|| fp::<_, String>(Ok(b.transform(&x2))));
        });
    }
    if let Ok(ovp) = Optics::params_with::<F, _, _>(3, L2Dist, nn).tolerance(F::cast(3.0)).check() {
        let x2 = x.clone();
        rt(em, sw, "linfa-clustering::OpticsValidParams", tag, Norm::Exact, &ovp, &|a, b, ctx, class| {
            let class = format!("{}:nn={}", class, nname);
            ctx.require(a == b || (a != a && super::value_has_nan()), "equal", &class, || format!("{:?} vs {:?}", a, b));
            dbg_same(ctx, &class, a, b);
            refit_same(ctx, &class, &|| fp::<_, String>(Ok(a.transform(x2.view()))), &|| fp::<_, String>(Ok(b.transform(x2.view()))));
        });
    }
}

fn with_rng<F: Fl, R>(em: &mut Em, rng: &mut Rng, sw: &mut Sweep, rname: &str, r: R)
where
    R: rand::Rng + Clone + serde::Serialize + serde::de::DeserializeOwned + PartialEq + std::fmt::Debug + 'static,
{
    use linfa_clustering::{GaussianMixtureModel, KMeans};
    use linfa_ftrl::Ftrl;
    use linfa_nn::distance::L2Dist;
    let tag = F::NAME;
    let (n, p) = (14 + rng.below(8), 2);
    let y = labels(rng, n, 2);
    let x: Array2<F> = blobs(rng, n, p, &y);
    let ds = DatasetBase::from(x.clone());
    em.count(&format!("inst:rng<{}>", rname));
    let kp = KMeans::params_with(2, r.clone(), L2Dist).max_n_iterations(20);
    let ds2 = ds.clone();
    rt(em, sw, "linfa-clustering::KMeansParams", tag, Norm::Exact, &kp, &|a, b, ctx, class| {
        let class = format!("{}:rng={}", class, rname);
        ctx.require(a == b || (a != a && super::value_has_nan()), "equal", &class, || format!("{:?} vs {:?}", a, b));
        dbg_same(ctx, &class, a, b);
        refit_same(ctx, &class, &|| fp(a.fit(&ds2)), &|| fp(b.fit(&ds2)));
    });
    let gp = GaussianMixtureModel::<F>::params_with_rng(2, r.clone()).max_n_iterations(10).reg_covariance(F::cast(1e-3));
    let ds2 = ds.clone();
    rt(em, sw, "linfa-clustering::GmmParams", tag, Norm::Exact, &gp, &|a, b, ctx, class| {
        let class = format!("{}:rng={}", class, rname);
        ctx.require(a == b || (a != a && super::value_has_nan()), "equal", &class, || format!("{:?} vs {:?}", a, b));
        dbg_same(ctx, &class, a, b);
        refit_same(ctx, &class, &|| fp(a.fit(&ds2)), &|| fp(b.fit(&ds2)));
    });
    let fpz = Ftrl::<F>::params_with_rng(r).alpha(F::cast(0.5));
    let dsb = Dataset::new(x, y.mapv(|v| v == 1));
    rt(em, sw, "linfa-ftrl::FtrlParams", tag, Norm::Exact, &fpz, &|a, b, ctx, class| {
        let class = format!("{}:rng={}", class, rname);
        ctx.require(a == b || (a != a && super::value_has_nan()), "equal", &class, || format!("{:?} vs {:?}", a, b));
        dbg_same(ctx, &class, a, b);
        refit_same(ctx, &class, &|| fp(a.fit_with(None, &dsb)), &|| fp(b.fit_with(None, &dsb)));
    });
}

fn instantiations<F: Fl>(em: &mut Em, rng: &mut Rng, sw: &mut Sweep) {
    use rand::SeedableRng;
    dbscan_nn::<F, _>(em, rng, sw, "KdTree", linfa_nn::KdTree);
    dbscan_nn::<F, _>(em, rng, sw, "BallTree", linfa_nn::BallTree);
    dbscan_nn::<F, _>(em, rng, sw, "LinearSearch", linfa_nn::LinearSearch);
    let (s1, s2) = (rng.next(), rng.next());
    with_rng::<F, _>(em, rng, sw, "Xoshiro256StarStar", rand_xoshiro::Xoshiro256StarStar::seed_from_u64(s1));
    with_rng::<F, _>(em, rng, sw, "Xoroshiro128Plus", rand_xoshiro::Xoroshiro128Plus::seed_from_u64(s2));
}

pub fn sweep_extra(em: &mut Em, rng: &mut Rng, sw: &mut Sweep, first: bool) {
    nb_extra::<f32>(em, rng, sw);
    nb_extra::<f64>(em, rng, sw);
    clustering_extra::<f32>(em, rng, sw);
    clustering_extra::<f64>(em, rng, sw);
    labelled_f32(em, rng, sw);
    labelled_f64(em, rng, sw);
    probes::<f32>(em, rng, sw);
    probes::<f64>(em, rng, sw);
    invalid::<f32>(em, rng, sw);
    invalid::<f64>(em, rng, sw);
    invalid_untyped(em, rng, sw);
    text_files(em, rng, sw);
    wide::<f32>(em, rng, sw);
    wide::<f64>(em, rng, sw);
    wide_pca(em, rng, sw);
    degenerate::<f32>(em, rng, sw);
    degenerate::<f64>(em, rng, sw);
    degenerate_text(em, sw);
    regex_flags(em, sw);
    instantiations::<f32>(em, rng, sw);
    instantiations::<f64>(em, rng, sw);
    if first {
        sizes(em, rng, sw);
    }
}
