//! C19 — second sweep, closing the gaps the audit (notes/audit/C19.md) listed:
//!
//! * exact-tie and non-finite probe rows (`probe=ties`, `probe=nonfinite`): naive Bayes models whose
//!   classes have identical statistics tie on every input; every predictor is also asked about
//!   NaN / ±inf / huge / signed-zero rows (a panic must happen before and after alike);
//! * type-parameter instantiations the first sweep never builds (`inst:*`): k-means / DBSCAN / OPTICS
//!   with L1, L∞ and Lp distances, naive Bayes / logistic regression / trees with `String`, `bool`
//!   and `Option<usize>` labels, nu-SVC and one-class SVM;
//! * invalid parameter sets for the types that had none (`invalid:*`): PCA, PLS-SVD, the min-max
//!   scaler, tf-idf and count vectorisers;
//! * the `*_files` entry points of the vectorisers and the `Function`-then-`Regex` setter sequence;
//! * models large enough for the 16- and 32-bit container headers (`size:*`).
use super::c19_canon::Norm;
use super::c19_types::*;
use super::{rt, Sweep};
use crate::util::*;
use linfa::prelude::*;
use linfa::traits::{Fit, Predict, Transformer};
use linfa::{Dataset, DatasetBase, ParamGuard};
use ndarray::{Array1, Array2};
use std::panic::{catch_unwind, AssertUnwindSafe};

/// both calls under `catch_unwind`: the results are equal, or both sides panic
pub fn same_call<R: PartialEq + std::fmt::Debug>(ctx: &mut Ctx, clause: &str, class: &str, what: &str, fa: impl FnOnce() -> R, fb: impl FnOnce() -> R) {
    let ra = catch_unwind(AssertUnwindSafe(fa)).ok();
    let rb = catch_unwind(AssertUnwindSafe(fb)).ok();
    ctx.require(ra == rb, clause, class, || {
        let cut = |s: String| s.chars().take(160).collect::<String>();
        format!("{}: original {} restored {}", what, cut(format!("{:?}", ra)), cut(format!("{:?}", rb)))
    });
}

/// probe rows no generic stream contains: zeros, signed zero, NaN, ±inf, huge, subnormal, mixed
pub fn nasty<F: Fl>(p: usize) -> Array2<F> {
    let vals: [f64; 8] = [0.0, -0.0, f64::NAN, f64::INFINITY, f64::NEG_INFINITY, 1e30, -1e30, 1e-40];
    Array2::from_shape_fn((vals.len() + 1, p), |(i, j)| if i < vals.len() { F::cast(vals[i]) } else { F::cast(vals[(i + j) % vals.len()]) })
}

/// finite probe rows built from the training set: copies of training rows and exact midpoints
pub fn near<F: Fl>(x: &Array2<F>) -> Array2<F> {
    let n = x.nrows();
    Array2::from_shape_fn((6, x.ncols()), |(i, j)| match i {
        0 => x[(0, j)],
        1 => x[(n - 1, j)],
        2 => (x[(0, j)] + x[(n - 1, j)]) / F::cast(2.0),
        3 => (x[(1 % n, j)] + x[(n / 2, j)]) / F::cast(2.0),
        4 => F::cast(0.0),
        _ => x[(n / 2, j)],
    })
}

fn ubits<F: Fl>(a: &Array1<F>) -> Vec<u64> {
    a.iter().map(|v| fb(*v)).collect()
}

// ------------------------------------------------------------------------------------------------
// naive Bayes: exact ties on every input, and the label instantiations
// ------------------------------------------------------------------------------------------------

fn nb_one<F: Fl, L: linfa::Label + serde::Serialize + serde::de::DeserializeOwned + 'static>(em: &mut Em, rng: &mut Rng, sw: &mut Sweep, lname: &str, mk: &dyn Fn(usize) -> L, tied: bool) {
    use linfa_bayes::*;
    let tag = F::NAME;
    let (m, p, c) = (4 + rng.below(4), 1 + rng.below(3), 2 + rng.below(3));
    // tied: every class sees the same rows, so priors, means, variances and counts coincide and every
    // input scores exactly the same for every class
    let base: Array2<F> = Array2::from_shape_fn((m, p + 1), |_| F::cast(rng.below(5) as f64));
    let n = m * c;
    let y: Array1<L> = Array1::from_shape_fn(n, |i| mk(i / m));
    let x: Array2<F> = Array2::from_shape_fn((n, p + 1), |(i, j)| if tied { base[(i % m, j)] } else { base[(i % m, j)] + F::cast(((i / m) * (j + 1)) as f64) });
    let fresh: Array2<F> = Array2::from_shape_fn((8, p + 1), |(i, _)| if i == 0 { F::cast(0.0) } else { F::cast(rng.below(6) as f64) });
    let bad: Array2<F> = nasty(p + 1);
    let ds = Dataset::new(x, y);
    let probe = if tied { "ties" } else { "labels" };
    em.count(&format!("probe:nb_{}", probe));
    em.count(&format!("inst:nb<{}>", lname));
    if let Ok(model) = GaussianNb::<F, L>::params().fit(&ds) {
        rt(em, sw, "linfa-bayes::GaussianNb", tag, Norm::SortMaps, &model, &|a: &GaussianNb<F, L>, b, ctx, class| {
            let class = format!("{}:labels={}:probe={}", class, lname, probe);
            ctx.require(a == b || (a != a && super::value_has_nan()), "equal", &class, || "models differ".into());
            // the score table is rebuilt on every call: ask several times
            for _ in 0..6 {
                same_call(ctx, "predict", &class, "predict", || a.predict(&fresh).to_vec(), || b.predict(&fresh).to_vec());
            }
            same_call(ctx, "predict", &format!("{}:probe=nonfinite", class), "predict on non-finite rows", || a.predict(&bad).to_vec(), || b.predict(&bad).to_vec());
        });
    }
    if let Ok(model) = MultinomialNb::<F, L>::params().fit(&ds) {
        rt(em, sw, "linfa-bayes::MultinomialNb", tag, Norm::SortMaps, &model, &|a: &MultinomialNb<F, L>, b, ctx, class| {
            let class = format!("{}:labels={}:probe={}", class, lname, probe);
            ctx.require(a == b || (a != a && super::value_has_nan()), "equal", &class, || "models differ".into());
            for _ in 0..6 {
                same_call(ctx, "predict", &class, "predict", || a.predict(&fresh).to_vec(), || b.predict(&fresh).to_vec());
            }
            same_call(ctx, "predict", &format!("{}:probe=nonfinite", class), "predict on non-finite rows", || a.predict(&bad).to_vec(), || b.predict(&bad).to_vec());
        });
    }
    // the parameter sets of the same label type
    let vp: GaussianNbValidParams<F, L> = GaussianNb::params().var_smoothing(F::cast(1e-3)).check().unwrap();
    let ds2 = ds.clone();
    rt(em, sw, "linfa-bayes::GaussianNbValidParams", tag, Norm::Exact, &vp, &|a, b, ctx, class| {
        let class = format!("{}:labels={}", class, lname);
        ctx.require(a == b || (a != a && super::value_has_nan()), "equal", &class, || format!("{:?} vs {:?}", a, b));
        dbg_same(ctx, &class, a, b);
        refit_same(ctx, &class, &|| fp(a.fit(&ds2)), &|| fp(b.fit(&ds2)));
    });
}

fn nb_extra<F: Fl>(em: &mut Em, rng: &mut Rng, sw: &mut Sweep) {
    for tied in [true, true, false] {
        nb_one::<F, usize>(em, rng, sw, "usize", &|k| k, tied);
        nb_one::<F, String>(em, rng, sw, "String", &|k| format!("class {}", k), tied);
    }
    nb_one::<F, bool>(em, rng, sw, "bool", &|k| k % 2 == 1, true);
    nb_one::<F, Option<usize>>(em, rng, sw, "Option<usize>", &|k| if k == 0 { None } else { Some(k) }, false);
}

// ------------------------------------------------------------------------------------------------
// clustering with the other distances
// ------------------------------------------------------------------------------------------------

fn clustering_dist<F: Fl, D>(em: &mut Em, rng: &mut Rng, sw: &mut Sweep, dname: &str, d: D)
where
    D: linfa_nn::distance::Distance<F> + serde::Serialize + serde::de::DeserializeOwned + PartialEq + std::fmt::Debug + 'static,
{
    use linfa_clustering::*;
    use linfa_nn::CommonNearestNeighbour;
    use rand::SeedableRng;
    use rand_xoshiro::Xoshiro256Plus;
    let tag = F::NAME;
    let (n, p, k) = (14 + rng.below(10), 1 + rng.below(3), 2 + rng.below(2));
    let y = labels(rng, n, k);
    let x: Array2<F> = blobs(rng, n, p, &y);
    let fresh: Array2<F> = near(&x);
    let bad: Array2<F> = nasty(p);
    let ds = DatasetBase::from(x.clone());
    em.count(&format!("inst:clustering<{}>", dname));
    let params = KMeans::params_with(k, Xoshiro256Plus::seed_from_u64(rng.next()), d.clone()).n_runs(2).tolerance(F::cast(1e-3)).max_n_iterations(30).init_method([KMeansInit::Random, KMeansInit::KMeansPlusPlus][rng.below(2)].clone());
    let ds2 = ds.clone();
    rt(em, sw, "linfa-clustering::KMeansParams", tag, Norm::Exact, &params, &|a, b, ctx, class| {
        let class = format!("{}:dist={}", class, dname);
        ctx.require(a == b || (a != a && super::value_has_nan()), "equal", &class, || format!("{:?} vs {:?}", a, b));
        dbg_same(ctx, &class, a, b);
        refit_same(ctx, &class, &|| fp(a.fit(&ds2)), &|| fp(b.fit(&ds2)));
    });
    if let Ok(model) = params.fit(&ds) {
        rt(em, sw, "linfa-clustering::KMeans", tag, Norm::Exact, &model, &|a: &KMeans<F, D>, b, ctx, class| {
            let class = format!("{}:dist={}", class, dname);
            ctx.require(a == b || (a != a && super::value_has_nan()), "equal", &class, || "models differ".into());
            dbg_same(ctx, &class, a, b);
            same_arr(ctx, "accessors", &class, "centroids", a.centroids(), b.centroids());
            same_arr(ctx, "accessors", &class, "cluster_count", a.cluster_count(), b.cluster_count());
            ctx.require(fb(a.inertia()) == fb(b.inertia()), "accessors", &class, || "inertia".into());
            same_call(ctx, "predict", &format!("{}:probe=ties", class), "predict", || a.predict(&fresh).to_vec(), || b.predict(&fresh).to_vec());
            same_call(ctx, "predict", &format!("{}:probe=ties", class), "transform", || ubits(&a.transform(&fresh)), || ubits(&b.transform(&fresh)));
            same_call(ctx, "predict", &format!("{}:probe=nonfinite", class), "predict on non-finite rows", || a.predict(&bad).to_vec(), || b.predict(&bad).to_vec());
            // the single-row calling form
            same_call(ctx, "predict", &format!("{}:form=row", class), "predict(row)", || { let r: usize = a.predict(&fresh.row(2)); r }, || { let r: usize = b.predict(&fresh.row(2)); r });
        });
    }
    let nn = [CommonNearestNeighbour::LinearSearch, CommonNearestNeighbour::BallTree][rng.below(2)].clone();
    let dvp = Dbscan::params_with::<F, _, _>(2 + rng.below(2), d.clone(), nn.clone()).tolerance(F::cast(1.5)).check().unwrap();
    let x2 = x.clone();
    rt(em, sw, "linfa-clustering::DbscanValidParams", tag, Norm::Exact, &dvp, &|a, b, ctx, class| {
        let class = format!("{}:dist={}", class, dname);
        ctx.require(a == b || (a != a && super::value_has_nan()), "equal", &class, || format!("{:?} vs {:?}", a, b));
        dbg_same(ctx, &class, a, b);
        ctx.require(a.dist_fn() == b.dist_fn() && a.nn_algo() == b.nn_algo(), "accessors", &class, || "dist_fn / nn_algo".into());
        refit_same(ctx, &class, &|| fp::<_, String>(Ok(a.transform(&x2))), &|| fp::<_, String>(Ok(b.transform(&x2))));
    });
    let ovp = Optics::params_with::<F, _, _>(2 + rng.below(2), d.clone(), nn).tolerance(F::cast(3.0)).check().unwrap();
    let x2 = x.clone();
    rt(em, sw, "linfa-clustering::OpticsValidParams", tag, Norm::Exact, &ovp, &|a, b, ctx, class| {
        let class = format!("{}:dist={}", class, dname);
        ctx.require(a == b || (a != a && super::value_has_nan()), "equal", &class, || format!("{:?} vs {:?}", a, b));
        dbg_same(ctx, &class, a, b);
        refit_same(ctx, &class, &|| fp::<_, String>(Ok(a.transform(x2.view()))), &|| fp::<_, String>(Ok(b.transform(x2.view()))));
    });
}

fn clustering_extra<F: Fl>(em: &mut Em, rng: &mut Rng, sw: &mut Sweep) {
    use linfa_nn::distance::*;
    clustering_dist::<F, _>(em, rng, sw, "L1", L1Dist);
    clustering_dist::<F, _>(em, rng, sw, "LInf", LInfDist);
    clustering_dist::<F, _>(em, rng, sw, "Lp", LpDist(F::cast(3.0)));
    clustering_dist::<F, _>(em, rng, sw, "L2", L2Dist);
}

// ------------------------------------------------------------------------------------------------
// logistic regression / trees with other label types, SVM variants, non-finite probes
// ------------------------------------------------------------------------------------------------

macro_rules! labelled_impl { ($fname:ident, $F:ty) => {
fn $fname(em: &mut Em, rng: &mut Rng, sw: &mut Sweep) {
    use linfa_logistic::*;
    use linfa_svm::*;
    use linfa_trees::*;
    type F = $F;
    let tag = F::NAME;
    let (n, p) = (14 + rng.below(8), 1 + rng.below(3));
    let yl = labels(rng, n, 2);
    let x: Array2<F> = blobs(rng, n, p, &yl);
    let fresh: Array2<F> = near(&x);
    let bad: Array2<F> = nasty(p);
    // ---- binary logistic regression, bool and usize labels
    macro_rules! binlog { ($L:ty, $lname:expr, $mk:expr) => {{
        let y: Array1<$L> = yl.mapv($mk);
        let ds = Dataset::new(x.clone(), y);
        em.count(concat!("inst:logistic<", $lname, ">"));
        if let Ok(m) = LogisticRegression::<F>::default().max_iterations(30).fit(&ds) {
            rt(em, sw, "linfa-logistic::FittedLogisticRegression", tag, Norm::Exact, &m, &|a: &FittedLogisticRegression<F, $L>, b, ctx, class| {
                let class = format!("{}:labels={}", class, $lname);
                ctx.require(a == b || (a != a && super::value_has_nan()), "equal", &class, || "models differ".into());
                dbg_same(ctx, &class, a, b);
                ctx.require(a.labels() == b.labels(), "accessors", &class, || "labels".into());
                same_call(ctx, "predict", &format!("{}:probe=ties", class), "predict", || a.predict(&fresh).to_vec(), || b.predict(&fresh).to_vec());
                same_call(ctx, "predict", &format!("{}:probe=nonfinite", class), "predict on non-finite rows", || a.predict(&bad).to_vec(), || b.predict(&bad).to_vec());
                same_call(ctx, "predict", &format!("{}:probe=nonfinite", class), "probabilities on non-finite rows", || ubits(&a.predict_probabilities(&bad)), || ubits(&b.predict_probabilities(&bad)));
            });
        }
    }}}
    binlog!(bool, "bool", |v| v == 1);
    binlog!(usize, "usize", |v| v + 7);
    // ---- multinomial with string labels
    {
        let c = 3;
        let ym = labels(rng, n, c);
        let xm: Array2<F> = blobs(rng, n, p, &ym);
        let ys: Array1<String> = ym.mapv(|v| ["red", "green", "blue"][v].to_string());
        let ds = Dataset::new(xm, ys);
        em.count("inst:multilogistic<String>");
        if let Ok(m) = MultiLogisticRegression::<F>::default().max_iterations(30).fit(&ds) {
            rt(em, sw, "linfa-logistic::MultiFittedLogisticRegression", tag, Norm::Exact, &m, &|a: &MultiFittedLogisticRegression<F, String>, b, ctx, class| {
                let class = format!("{}:labels=String", class);
                ctx.require(a == b || (a != a && super::value_has_nan()), "equal", &class, || "models differ".into());
                dbg_same(ctx, &class, a, b);
                ctx.require(a.classes() == b.classes(), "accessors", &class, || "classes".into());
                same_call(ctx, "predict", &format!("{}:probe=ties", class), "predict", || a.predict(&fresh).to_vec(), || b.predict(&fresh).to_vec());
                same_call(ctx, "predict", &format!("{}:probe=nonfinite", class), "predict on non-finite rows", || a.predict(&bad).to_vec(), || b.predict(&bad).to_vec());
            });
        }
    }
    // ---- trees with string / bool labels
    macro_rules! tree { ($L:ty, $lname:expr, $mk:expr) => {{
        let y: Array1<$L> = yl.mapv($mk);
        let ds = Dataset::new(x.clone(), y);
        em.count(concat!("inst:tree<", $lname, ">"));
        let params = DecisionTree::<F, $L>::params().max_depth(Some(3));
        rt(em, sw, "linfa-trees::DecisionTreeParams", tag, Norm::Exact, &params, &|a, b, ctx, class| {
            let class = format!("{}:labels={}", class, $lname);
            ctx.require(a == b || (a != a && super::value_has_nan()), "equal", &class, || format!("{:?} vs {:?}", a, b));
            dbg_same(ctx, &class, a, b);
        });
        if let Ok(m) = params.fit(&ds) {
            rt(em, sw, "linfa-trees::DecisionTree", tag, Norm::Exact, &m, &|a: &DecisionTree<F, $L>, b, ctx, class| {
                let class = format!("{}:labels={}", class, $lname);
                ctx.require(a == b || (a != a && super::value_has_nan()), "equal", &class, || "trees differ".into());
                dbg_same(ctx, &class, a, b);
                ctx.require(a.features() == b.features() && a.max_depth() == b.max_depth() && a.num_leaves() == b.num_leaves(), "accessors", &class, || "features / depth / leaves".into());
                same_call(ctx, "predict", &format!("{}:probe=ties", class), "predict", || a.predict(&fresh).to_vec(), || b.predict(&fresh).to_vec());
                same_call(ctx, "predict", &format!("{}:probe=nonfinite", class), "predict on non-finite rows", || a.predict(&bad).to_vec(), || b.predict(&bad).to_vec());
                same_call(ctx, "accessors", &class, "tikz export", || Tikz::new(a).complete(true).to_string(), || Tikz::new(b).complete(true).to_string());
            });
        }
    }}}
    tree!(String, "String", |v| if v == 1 { "yes".to_string() } else { "no".to_string() });
    tree!(bool, "bool", |v| v == 1);
    // ---- SVM: nu-SVC and one-class, row calling form, non-finite rows
    let yb: Array1<bool> = yl.mapv(|v| v == 1);
    let dsb = Dataset::new(x.clone(), yb);
    let svmb = |a: &Svm<F, bool>, b: &Svm<F, bool>, ctx: &mut Ctx, class: &str| {
        ctx.require(a == b || (a != a && super::value_has_nan()), "equal", class, || "models differ".into());
        dbg_same(ctx, class, a, b);
        same_call(ctx, "predict", &format!("{}:probe=ties", class), "predict", || { let r: Array1<bool> = a.predict(&fresh); r.to_vec() }, || { let r: Array1<bool> = b.predict(&fresh); r.to_vec() });
        same_call(ctx, "predict", &format!("{}:probe=nonfinite", class), "decision values on non-finite rows", || bad.rows().into_iter().map(|r| fb(a.weighted_sum(&r))).collect::<Vec<_>>(), || bad.rows().into_iter().map(|r| fb(b.weighted_sum(&r))).collect::<Vec<_>>());
        same_call(ctx, "predict", &format!("{}:form=row", class), "predict(row)", || { let r: bool = a.predict(fresh.row(0)); r }, || { let r: bool = b.predict(fresh.row(0)); r });
    };
    em.count("inst:svm<nu_svc>");
    if let Ok(m) = Svm::<F, bool>::params().nu_weight(0.3 as F).gaussian_kernel(2.0 as F).fit(&dsb) {
        rt(em, sw, "linfa-svm::Svm", tag, Norm::Exact, &m, &|a, b, ctx, class| svmb(a, b, ctx, &format!("{}:kind=nu_svc", class)));
    }
    em.count("inst:svm<one_class>");
    let ds1 = Dataset::new(x.clone(), Array1::from_elem(n, ()));
    if let Ok(m) = Svm::<F, Pr>::params().nu_weight(0.2 as F).gaussian_kernel(5.0 as F).fit(&ds1) {
        let m: Svm<F, bool> = m;
        rt(em, sw, "linfa-svm::Svm", tag, Norm::Exact, &m, &|a, b, ctx, class| svmb(a, b, ctx, &format!("{}:kind=one_class", class)));
    }
}}}
labelled_impl!(labelled_f32, f32);
labelled_impl!(labelled_f64, f64);

// ------------------------------------------------------------------------------------------------
// non-finite / tie probes for the regressors and transformers of the first sweep
// ------------------------------------------------------------------------------------------------

fn probes<F: Fl>(em: &mut Em, rng: &mut Rng, sw: &mut Sweep) {
    use linfa_clustering::GaussianMixtureModel;
    use linfa_elasticnet::ElasticNet;
    use linfa_linear::LinearRegression;
    use linfa_preprocessing::linear_scaling::LinearScaler;
    let tag = F::NAME;
    let (n, p) = (12 + rng.below(8), 1 + rng.below(3));
    let x: Array2<F> = records(rng, n, p);
    let y = lin_targets(rng, &x);
    let near_: Array2<F> = near(&x);
    let bad: Array2<F> = nasty(p);
    let ds = Dataset::new(x.clone(), y);
    em.count("probe:regressors");
    if let Ok(m) = LinearRegression::new().fit(&ds) {
        rt(em, sw, "linfa-linear::FittedLinearRegression", tag, Norm::Exact, &m, &|a, b, ctx, class| {
            same_call(ctx, "predict", &format!("{}:probe=nonfinite", class), "predict", || ubits(&a.predict(&bad)), || ubits(&b.predict(&bad)));
            same_call(ctx, "predict", &format!("{}:probe=ties", class), "predict", || ubits(&a.predict(&near_)), || ubits(&b.predict(&near_)));
            // dataset calling form
            let dsf = DatasetBase::from(near_.clone());
            same_call(ctx, "predict", &format!("{}:form=dataset", class), "predict(&dataset)", || ubits(&a.predict(&dsf)), || ubits(&b.predict(&dsf)));
        });
    }
    if let Ok(m) = ElasticNet::<F>::params().penalty(F::cast(0.1)).fit(&ds) {
        rt(em, sw, "linfa-elasticnet::ElasticNet", tag, Norm::Exact, &m, &|a: &ElasticNet<F>, b, ctx, class| {
            same_call(ctx, "predict", &format!("{}:probe=nonfinite", class), "predict", || ubits(&a.predict(&bad)), || ubits(&b.predict(&bad)));
        });
    }
    for sp in [LinearScaler::<F>::standard(), LinearScaler::min_max()] {
        if let Ok(m) = sp.fit(&DatasetBase::from(x.clone())) {
            let bad = bad.clone();
            rt(em, sw, "linfa-preprocessing::LinearScaler", tag, Norm::Exact, &m, &|a: &LinearScaler<F>, b, ctx, class| {
                same_call(ctx, "predict", &format!("{}:probe=nonfinite", class), "transform", || bits(&a.transform(bad.clone())), || bits(&b.transform(bad.clone())));
            });
        }
    }
    let k = 2;
    let yk = labels(rng, n, k);
    let xb: Array2<F> = blobs(rng, n, p, &yk);
    if let Ok(m) = GaussianMixtureModel::<F>::params(k).max_n_iterations(20).fit(&DatasetBase::from(xb.clone())) {
        let near2: Array2<F> = near(&xb);
        rt(em, sw, "linfa-clustering::GaussianMixtureModel", tag, Norm::Exact, &m, &|a: &GaussianMixtureModel<F>, b, ctx, class| {
            same_call(ctx, "predict", &format!("{}:probe=ties", class), "predict", || a.predict(&near2).to_vec(), || b.predict(&near2).to_vec());
            same_call(ctx, "predict", &format!("{}:probe=nonfinite", class), "predict_proba", || bits(&a.predict_proba(&bad)), || bits(&b.predict_proba(&bad)));
        });
    }
}

// ------------------------------------------------------------------------------------------------
// invalid parameter sets: same verdict before and after
// ------------------------------------------------------------------------------------------------

fn invalid<F: Fl>(em: &mut Em, rng: &mut Rng, sw: &mut Sweep) {
    use linfa_pls::*;
    use linfa_preprocessing::linear_scaling::LinearScaler;
    let tag = F::NAME;
    let (n, p) = (8 + rng.below(6), 2 + rng.below(3));
    let x: Array2<F> = records(rng, n, p);
    let y2: Array2<F> = records(rng, n, 2);
    let verdict = |r: std::result::Result<String, String>| -> String {
        match r {
            Ok(_) => "ok".into(),
            Err(e) => format!("err:{}", e),
        }
    };
    // PLS-SVD: 0 components and more components than the rank bound
    for k in [0usize, 50] {
        let sp = PlsSvd::<F>::params(k);
        let ds = Dataset::new(x.clone(), y2.clone());
        em.count("invalid:PlsSvdParams");
        rt(em, sw, "linfa-pls::PlsSvdParams", tag, Norm::Exact, &sp, &|a, b, ctx, class| {
            let class = format!("{}:instance=invalid", class);
            ctx.require(a == b || (a != a && super::value_has_nan()), "equal", &class, || format!("{:?} vs {:?}", a, b));
            dbg_same(ctx, &class, a, b);
            let f = |q: &PlsSvdParams| verdict(Fit::<Array2<F>, Array2<F>, PlsError>::fit(q, &ds).map(|_| String::new()).map_err(|e| e.to_string()));
            same_call(ctx, "validate", &class, "fit verdict", || f(a), || f(b));
            ctx.require(f(a).starts_with("err:"), "validate", &format!("{}:generator", class), || "the instance was meant to be invalid".into());
        });
    }
    // min-max scaler with a flipped range
    {
        let sp = LinearScaler::<F>::min_max_range(F::cast(3.0), F::cast(-2.0));
        let ds = DatasetBase::from(x.clone());
        em.count("invalid:LinearScalerParams");
        rt(em, sw, "linfa-preprocessing::LinearScalerParams", tag, Norm::Exact, &sp, &|a, b, ctx, class| {
            let class = format!("{}:instance=invalid", class);
            ctx.require(a == b || (a != a && super::value_has_nan()), "equal", &class, || format!("{:?} vs {:?}", a, b));
            dbg_same(ctx, &class, a, b);
            same_call(ctx, "validate", &class, "fit verdict", || verdict(a.fit(&ds).map(|_| String::new()).map_err(|e| e.to_string())), || verdict(b.fit(&ds).map(|_| String::new()).map_err(|e| e.to_string())));
            ctx.require(a.fit(&ds).is_err(), "validate", &format!("{}:generator", class), || "the instance was meant to be invalid".into());
        });
    }
    // whitener on a dataset it cannot handle (one sample)
    {
        use linfa_preprocessing::whitening::Whitener;
        let ds = DatasetBase::from(x.slice(ndarray::s![0..1, ..]).to_owned());
        for w in [Whitener::pca(), Whitener::cholesky()] {
            em.count("invalid:Whitener");
            rt(em, sw, "linfa-preprocessing::Whitener", tag, Norm::Exact, &w, &|a, b, ctx, class| {
                let class = format!("{}:instance=invalid_data", class);
                same_call(ctx, "validate", &class, "fit verdict", || verdict(a.fit(&ds).map(|_| String::new()).map_err(|e| e.to_string())), || verdict(b.fit(&ds).map(|_| String::new()).map_err(|e| e.to_string())));
            });
        }
    }
}

fn invalid_untyped(em: &mut Em, rng: &mut Rng, sw: &mut Sweep) {
    use linfa_preprocessing::tf_idf_vectorization::TfIdfVectorizer;
    use linfa_preprocessing::CountVectorizer;
    use linfa_reduction::Pca;
    let (n, p) = (8 + rng.below(6), 2 + rng.below(3));
    let x: Array2<f64> = records(rng, n, p);
    // PCA: embedding size 0 and larger than the number of features
    for k in [0usize, p + 1, 1000] {
        let params = Pca::params(k).whiten(k % 2 == 0);
        let ds = DatasetBase::from(x.clone());
        em.count("invalid:PcaParams");
        rt(em, sw, "linfa-reduction::PcaParams", "f64", Norm::Exact, &params, &|a, b, ctx, class| {
            let class = format!("{}:instance=invalid", class);
            ctx.require(a == b || (a != a && super::value_has_nan()), "equal", &class, || format!("{:?} vs {:?}", a, b));
            dbg_same(ctx, &class, a, b);
            let f = |q: &linfa_reduction::PcaParams| q.fit(&ds).map(|m| fp::<_, String>(Ok(m))).map_err(|e| e.to_string());
            same_call(ctx, "validate", &class, "fit verdict", || f(a), || f(b));
            ctx.require(f(a).is_err(), "validate", &format!("{}:generator", class), || "the instance was meant to be invalid".into());
        });
    }
    let docs: Array1<String> = Array1::from_vec(vec!["one two three".to_string(), "two three four".to_string(), "five".to_string()]);
    let bad_tv = [TfIdfVectorizer::default().n_gram_range(2, 1), TfIdfVectorizer::default().n_gram_range(0, 1), TfIdfVectorizer::default().document_frequency(0.9, 0.1)];
    for tv in bad_tv.iter() {
        em.count("invalid:TfIdfVectorizer");
        let d = docs.clone();
        rt(em, sw, "linfa-preprocessing::TfIdfVectorizer", "-", Norm::SortMapsSeqs, tv, &|a: &TfIdfVectorizer, b, ctx, class| {
            let class = format!("{}:instance=invalid", class);
            let f = |q: &TfIdfVectorizer| q.fit(&d).map(|m| { let mut v = m.vocabulary().clone(); v.sort(); v }).map_err(|e| e.to_string());
            same_call(ctx, "validate", &class, "fit verdict", || f(a), || f(b));
            ctx.require(f(a).is_err(), "validate", &format!("{}:generator", class), || "the instance was meant to be invalid".into());
        });
    }
    let bad_cv = [CountVectorizer::params().document_frequency(0.9, 0.1), CountVectorizer::params().n_gram_range(0, 0), CountVectorizer::params().document_frequency(-0.5, 0.5)];
    for cv in bad_cv.iter() {
        em.count("invalid:CountVectorizerParams");
        let d = docs.clone();
        rt(em, sw, "linfa-preprocessing::CountVectorizerParams", "-", Norm::SortMapsSeqs, cv, &|a, b, ctx, class| {
            let class = format!("{}:instance=invalid", class);
            ctx.require(a.check_ref().is_err() == b.check_ref().is_err(), "validate", &class, || "validation verdict differs".into());
            let f = |q: &linfa_preprocessing::CountVectorizerParams| q.fit(&d).map(|m| { let mut v = m.vocabulary().clone(); v.sort(); v }).map_err(|e| e.to_string());
            same_call(ctx, "validate", &class, "fit verdict", || f(a), || f(b));
            ctx.require(f(a).is_err(), "validate", &format!("{}:generator", class), || "the instance was meant to be invalid".into());
        });
    }
}

// ------------------------------------------------------------------------------------------------
// vectorisers: the *_files entry points and the tokenizer setter sequences
// ------------------------------------------------------------------------------------------------

fn tok_ws2(s: &str) -> Vec<&str> {
    s.split(' ').filter(|t| !t.is_empty()).collect()
}

fn text_files(em: &mut Em, rng: &mut Rng, sw: &mut Sweep) {
    use linfa_preprocessing::tf_idf_vectorization::*;
    use linfa_preprocessing::verif_hooks_c04::{strict, utf8};
    use linfa_preprocessing::*;
    let tag = "-";
    let words = ["one", "Two", "three", "four", "six", "and", "the", "a1", "b2"];
    let doc = |rng: &mut Rng| -> String { (0..3 + rng.below(8)).map(|_| *rng.pick(&words)).collect::<Vec<_>>().join([" ", ", ", "  "][rng.below(3)]) };
    let dir = std::env::temp_dir().join(format!("linfa_verif_c19_{}", std::process::id()));
    let _ = std::fs::create_dir_all(&dir);
    let write = |name: &str, texts: &[String]| -> Vec<std::path::PathBuf> {
        texts.iter().enumerate().map(|(i, t)| { let f = dir.join(format!("{}{}.txt", name, i)); std::fs::write(&f, t).unwrap(); f }).collect()
    };
    // tokenizer configurations: what the ORIGINAL tokenises with / what a restored value may do
    //   default, regex                  -> restored behaves identically
    //   function, regex_then_function   -> restored must refuse until the function is set again
    //   function_then_regex             -> the last setter wins: a regex tokenizer, restored identical
    let modes = ["default", "regex", "function", "regex_then_function", "function_then_regex"];
    for (it, mode) in modes.iter().enumerate() {
        let mut texts: Vec<String> = (0..4 + rng.below(4)).map(|_| doc(rng)).collect();
        texts[0].push_str(" a1 b2 one, Two");
        let mut ftexts: Vec<String> = (0..4).map(|_| doc(rng)).collect();
        ftexts[0].push_str(" a1 one, three");
        let (paths, fpaths) = (write(&format!("d{}_", it), &texts), write(&format!("f{}_", it), &ftexts));
        let docs: Array1<String> = Array1::from_vec(texts.clone());
        let re = r"\b[a-z]+\b".to_string();
        let set = |p: CountVectorizerParams| -> CountVectorizerParams {
            match *mode {
                "regex" => p.tokenizer(Tokenizer::Regex(re.clone())),
                "function" => p.tokenizer(Tokenizer::Function(tok_ws2)),
                "regex_then_function" => p.tokenizer(Tokenizer::Regex(re.clone())).tokenizer(Tokenizer::Function(tok_ws2)),
                "function_then_regex" => p.tokenizer(Tokenizer::Function(tok_ws2)).tokenizer(Tokenizer::Regex(re.clone())),
                _ => p,
            }
        };
        let set_tv = |p: TfIdfVectorizer| -> TfIdfVectorizer {
            match *mode {
                "regex" => p.tokenizer(Tokenizer::Regex(re.clone())),
                "function" => p.tokenizer(Tokenizer::Function(tok_ws2)),
                "regex_then_function" => p.tokenizer(Tokenizer::Regex(re.clone())).tokenizer(Tokenizer::Function(tok_ws2)),
                "function_then_regex" => p.tokenizer(Tokenizer::Function(tok_ws2)).tokenizer(Tokenizer::Regex(re.clone())),
                _ => p,
            }
        };
        let refuses = *mode == "function" || *mode == "regex_then_function";
        em.count(&format!("tokenizer:{}", mode));
        let norm = Norm::SortMapsSeqs;
        let params = set(CountVectorizer::params().convert_to_lowercase(rng.coin()).n_gram_range(1, 1 + rng.below(2)));
        // a fitted vectoriser shown keyed by word (vocabulary order follows hash-map order)
        let show = |r: Result<CountVectorizer>, via_files: bool| -> String {
            match r {
                Ok(m) => {
                    let t = if via_files { m.transform_files(&fpaths, utf8(), strict()) } else { m.transform(&Array1::from_vec(ftexts.clone())) };
                    match t {
                        Ok(t) => {
                            let mut cols: Vec<(String, Vec<(usize, usize)>)> = m.vocabulary().iter().map(|w| (w.clone(), vec![])).collect();
                            for (v, (r, c)) in t.iter() {
                                cols[c].1.push((r, *v));
                            }
                            cols.sort();
                            format!("{:?}", cols)
                        }
                        Err(e) => format!("err:{}", e),
                    }
                }
                Err(e) => format!("err:{}", e),
            }
        };
        let judge = |ctx: &mut Ctx, clause: &str, class: &str, entry: &str, ra: String, rb: String| {
            let class = format!("{}:tokenizer={}:entry={}", class, mode, entry);
            if refuses {
                ctx.require(rb.starts_with("err:"), clause, &class, || format!("restored value lost its tokenizer function and silently tokenises differently: {} vs {}", &ra[..ra.len().min(120)], &rb[..rb.len().min(120)]));
            } else {
                ctx.require(ra == rb, clause, &class, || format!("original and restored differ: {} vs {}", &ra[..ra.len().min(160)], &rb[..rb.len().min(160)]));
            }
            ctx.require(!ra.starts_with("err:"), clause, &format!("{}:generator", class), || format!("the original was meant to work: {}", ra));
        };
        rt(em, sw, "linfa-preprocessing::CountVectorizerParams", tag, norm, &params, &|a, b, ctx, class| {
            judge(ctx, "refit", class, "fit", show(a.fit(&docs), false), show(b.fit(&docs), false));
            judge(ctx, "refit", class, "fit_files", show(a.fit_files(&paths, utf8(), strict()), true), show(b.fit_files(&paths, utf8(), strict()), true));
            // order-sensitive image of the parameter set (the canonical text sorts sequences)
            if let (Ok(va), Ok(vb)) = (a.check_ref(), b.check_ref()) {
                ctx.require(va.n_gram_range() == vb.n_gram_range() && va.document_frequency().0.to_bits() == vb.document_frequency().0.to_bits() && va.document_frequency().1.to_bits() == vb.document_frequency().1.to_bits() && va.max_features() == vb.max_features() && va.stopwords() == vb.stopwords() && va.convert_to_lowercase() == vb.convert_to_lowercase() && va.normalize() == vb.normalize(), "accessors", class, || "accessor differs".into());
            }
        });
        let vp = params.clone().check().unwrap();
        rt(em, sw, "linfa-preprocessing::CountVectorizerValidParams", tag, norm, &vp, &|a, b, ctx, class| {
            judge(ctx, "refit", class, "fit", show(a.fit(&docs), false), show(b.fit(&docs), false));
            judge(ctx, "refit", class, "fit_files", show(a.fit_files(&paths, utf8(), strict()), true), show(b.fit_files(&paths, utf8(), strict()), true));
        });
        let csr = |m: &sprs::CsMat<usize>| -> String { format!("{:?} {:?} {:?} {:?}", m.indptr().raw_storage(), m.indices(), m.data(), m.shape()) };
        let csrf = |m: &sprs::CsMat<f64>| -> String { format!("{:?} {:?} {:?} {:?}", m.indptr().raw_storage(), m.indices(), m.data().iter().map(|v| v.to_bits()).collect::<Vec<_>>(), m.shape()) };
        if let Ok(model) = params.fit(&docs) {
            rt(em, sw, "linfa-preprocessing::CountVectorizer", tag, norm, &model, &|a: &CountVectorizer, b, ctx, class| {
                let f = |m: &CountVectorizer| m.transform_files(&fpaths, utf8(), strict()).map(|t| csr(&t)).unwrap_or_else(|e| format!("err:{}", e));
                judge(ctx, "predict", class, "transform_files", f(a), f(b));
                if refuses {
                    let mut b2 = b.clone();
                    b2.force_tokenizer_function_redefinition(tok_ws2);
                    ctx.require(f(a) == f(&b2), "predict", &format!("{}:tokenizer={}:entry=transform_files:redefined", class, mode), || "transform_files differs after the tokenizer was set again".into());
                }
            });
        }
        let tv = set_tv(TfIdfVectorizer::default().convert_to_lowercase(rng.coin()));
        let showt = |r: Result<FittedTfIdfVectorizer>| -> String {
            match r {
                Ok(m) => match m.transform_files(&fpaths, utf8(), strict()) {
                    Ok(t) => {
                        let mut cols: Vec<(String, Vec<(usize, u64)>)> = m.vocabulary().iter().map(|w| (w.clone(), vec![])).collect();
                        for (v, (r, c)) in t.iter() {
                            cols[c].1.push((r, v.to_bits()));
                        }
                        cols.sort();
                        format!("{:?}", cols)
                    }
                    Err(e) => format!("err:{}", e),
                },
                Err(e) => format!("err:{}", e),
            }
        };
        rt(em, sw, "linfa-preprocessing::TfIdfVectorizer", tag, norm, &tv, &|a: &TfIdfVectorizer, b, ctx, class| {
            judge(ctx, "refit", class, "fit", showt(a.fit(&docs)), showt(b.fit(&docs)));
            judge(ctx, "refit", class, "fit_files", showt(a.fit_files(&paths, utf8(), strict())), showt(b.fit_files(&paths, utf8(), strict())));
        });
        if let Ok(fm) = tv.fit(&docs) {
            rt(em, sw, "linfa-preprocessing::FittedTfIdfVectorizer", tag, norm, &fm, &|a: &FittedTfIdfVectorizer, b, ctx, class| {
                let f = |m: &FittedTfIdfVectorizer| m.transform_files(&fpaths, utf8(), strict()).map(|t| csrf(&t)).unwrap_or_else(|e| format!("err:{}", e));
                judge(ctx, "predict", class, "transform_files", f(a), f(b));
                let g = |m: &FittedTfIdfVectorizer| m.transform(&Array1::from_vec(ftexts.clone())).map(|t| csrf(&t)).unwrap_or_else(|e| format!("err:{}", e));
                judge(ctx, "predict", class, "transform", g(a), g(b));
            });
        }
    }
    let _ = std::fs::remove_dir_all(&dir);
}

// ------------------------------------------------------------------------------------------------
// sizes: 16- and 32-bit container headers written by real models
// ------------------------------------------------------------------------------------------------

fn sizes(em: &mut Em, rng: &mut Rng, sw: &mut Sweep) {
    use linfa_linear::*;
    // array16: 300 coefficients
    let (n, p) = (320, 300);
    let x: Array2<f64> = Array2::from_shape_fn((n, p), |_| rng.unit() * 2.0 - 1.0);
    let y: Array1<f64> = Array1::from_shape_fn(n, |i| x[(i, 0)] - x[(i, 7)] + rng.unit() * 0.01);
    let fresh: Array2<f64> = records(rng, 4, p);
    em.count("size:array16");
    if let Ok(m) = LinearRegression::new().fit(&Dataset::new(x, y)) {
        rt(em, sw, "linfa-linear::FittedLinearRegression", "f64", Norm::Exact, &m, &|a, b, ctx, class| {
            let class = format!("{}:size=array16", class);
            ctx.require(a == b || (a != a && super::value_has_nan()), "equal", &class, || "models differ".into());
            same_arr(ctx, "accessors", &class, "params", a.params(), b.params());
            same_arr(ctx, "predict", &class, "predict", &a.predict(&fresh), &b.predict(&fresh));
        });
    }
    // array32: an isotonic fit with more than 65 535 knots (strictly increasing responses: no pooling).
    // Thorough tier only: the list-based Lean decoder needs minutes for a 1.3 MB message.
    if !em.thorough() {
        return;
    }
    let n = 66000 + rng.below(500);
    let x: Array2<f32> = Array2::from_shape_fn((n, 1), |(i, _)| i as f32);
    let y: Array1<f32> = Array1::from_shape_fn(n, |i| i as f32 * 0.5);
    let fresh: Array2<f32> = Array2::from_shape_fn((6, 1), |(i, _)| i as f32 * 9000.25 - 3.0);
    em.count("size:array32");
    if let Ok(m) = IsotonicRegression::new().fit(&Dataset::new(x, y)) {
        rt(em, sw, "linfa-linear::FittedIsotonicRegression", "f32", Norm::Exact, &m, &|a: &FittedIsotonicRegression<f32>, b, ctx, class| {
            let class = format!("{}:size=array32", class);
            ctx.require(a == b || (a != a && super::value_has_nan()), "equal", &class, || "models differ".into());
            same_arr(ctx, "predict", &class, "predict", &a.predict(&fresh), &b.predict(&fresh));
        });
    }
}

pub fn sweep_extra(em: &mut Em, rng: &mut Rng, sw: &mut Sweep, first: bool) {
    nb_extra::<f32>(em, rng, sw);
    nb_extra::<f64>(em, rng, sw);
    clustering_extra::<f32>(em, rng, sw);
    clustering_extra::<f64>(em, rng, sw);
    labelled_f32(em, rng, sw);
    labelled_f64(em, rng, sw);
    probes::<f32>(em, rng, sw);
    probes::<f64>(em, rng, sw);
    invalid::<f32>(em, rng, sw);
    invalid::<f64>(em, rng, sw);
    invalid_untyped(em, rng, sw);
    text_files(em, rng, sw);
    if first {
        sizes(em, rng, sw);
    }
}
