//! C05 — every evaluation metric equals its definition recomputed from first principles.
//!
//! Ops (one self-contained request per line):
//!   cm ty=n|s p=.. t=..            confusion matrix + all derived scores (usize / bool / String labels)
//!   cms lp=.. p=.. t=..            the same through a `CountedTargets` receiver with a stale label cache `lp`
//!   roc s=<f32 bits> y=0/1         ROC curve, thresholds, AUC
//!   logloss s=<f32 bits> y=0/1     log-loss (libm `ln`: tolerant token)
//!   reg  w=64|32 p=.. a=.. b=..    regression scores on lattice inputs, compared bit for bit
//!   regt w=64|32 p=.. a=.. b=..    regression scores on generic inputs, tolerant tokens (+ msle)
//!   sil x=.. l=..                  silhouette score on integer points
//!   pearson x=.. p=..              Pearson coefficients
//! The oracle recomputes each score naively in f64 from the raw vectors (never from linfa's own
//! intermediate values) and replays the call on a permuted copy of the input.
use crate::util::*;
use linfa::prelude::*;
use ndarray::{Array1, Array2};
#[path = "c05_forms.rs"]
mod forms;
use forms::CmLabel;
use std::collections::BTreeSet;
use std::fmt::Display;
use std::panic::{catch_unwind, AssertUnwindSafe};

/// success-like outcome counter for the coverage floors of conf "floors" (`ok:*`): the last case
/// answered `ok` (and, for `full`, returned every score: no `none` token)
fn tally(em: &mut Em, key: &str, full: bool) {
    if em.only.is_some() {
        return;
    }
    if em.outs.last().map_or(false, |o| o.starts_with("ok") && !(full && o.contains("none"))) {
        em.count(&format!("ok:{}", key));
    }
}

fn h32c(x: f32) -> String {
    if x.is_nan() { "nan".into() } else { hex32(x) }
}
fn tl(x: f64) -> String {
    format!("~{}", hex64c(x))
}

// ------------------------------------------------------------------ confusion matrix

/// the `Debug` output of a `ConfusionMatrix` prints the members and every cell; parsed only for the
/// soft cross-check `cm:debug=...` (the cells are read through the hook, see `cm_parts`)
fn parse_cm<A: Display>(cm: &ConfusionMatrix<A>) -> (Vec<String>, Vec<Vec<u64>>) {
    let s = format!("{:?}", cm);
    let lines: Vec<&str> = s.lines().filter(|l| !l.trim().is_empty()).collect();
    if lines.is_empty() {
        return (vec![], vec![]);
    }
    let members: Vec<String> = lines[0].split(" | ").skip(1).map(|x| x.trim().to_string()).collect();
    let mut cells = vec![];
    for l in &lines[1..] {
        let row: Vec<u64> = l.split(" | ").skip(1).map(|x| x.trim().parse::<f32>().expect("cell") as u64).collect();
        cells.push(row);
    }
    (members, cells)
}

/// members and cells through the read-only hook `linfa::metrics::verif_hooks_c05` (no dependence on
/// the `Debug` layout); cells are `f32` counts, exact below 2^24
fn cm_parts<A: Clone>(cm: &ConfusionMatrix<A>) -> (Vec<A>, Vec<Vec<u64>>) {
    use linfa::metrics::verif_hooks_c05::{cm_cells, cm_members};
    let members = cm_members(cm).to_vec();
    let cells = cm_cells(cm).rows().into_iter().map(|r| r.iter().map(|x| if *x >= 0.0 && x.fract() == 0.0 { *x as u64 } else { u64::MAX }).collect()).collect();
    (members, cells)
}

struct CmObs {
    members: Vec<String>,
    cells: Vec<Vec<u64>>,
    scores: [f32; 7], // acc prec rec f1 fh mcc f2
    ova: Vec<Vec<Vec<u64>>>,
    ovo: Vec<Vec<Vec<u64>>>,
    ovap: Vec<f32>,
    ovar: Vec<f32>,
    ovaf: Vec<f32>,
    beta: f32,
    fb: f32,
    ovop: Vec<f32>,
    ovor: Vec<f32>,
    /// every split matrix has the members `[true, false]`
    split_members_ok: bool,
}
impl CmObs {
    fn line(&self) -> String {
        format!(
            "ok members={} cells={} acc={} prec={} rec={} f1={} fh={} f2={} mcc={} ova={} ovo={} ovap={} ovar={} ovaf={} fb={} ovop={} ovor={}",
            self.members.join(","),
            list2(self.cells.iter().map(|r| r.iter()), |x| x.to_string()),
            h32c(self.scores[0]),
            h32c(self.scores[1]),
            h32c(self.scores[2]),
            h32c(self.scores[3]),
            h32c(self.scores[4]),
            h32c(self.scores[6]),
            h32c(self.scores[5]),
            list3(self.ova.iter().map(|m| m.iter().map(|r| r.iter())), |x| x.to_string()),
            list3(self.ovo.iter().map(|m| m.iter().map(|r| r.iter())), |x| x.to_string()),
            list(self.ovap.iter(), |x| h32c(*x)),
            list(self.ovar.iter(), |x| h32c(*x)),
            list(self.ovaf.iter(), |x| h32c(*x)),
            h32c(self.fb),
            list(self.ovop.iter(), |x| h32c(*x)),
            list(self.ovor.iter(), |x| h32c(*x)),
        )
    }
}

/// `f_score(beta)` is driven with 1, 0.5, 2 on every case and with one more `beta` per case from
/// this table (0: the precision; > 2; negative: beta enters squared; huge; inf: NaN by 0 * inf or inf / inf)
const BETAS: [f32; 6] = [0.0, 0.25, 3.0, -1.0, 1000.0, f32::INFINITY];

fn beta_of<L: PartialEq>(form: usize, pred: &[L], truth: &[L]) -> f32 {
    let eq = pred.iter().zip(truth.iter()).filter(|(a, b)| a == b).count();
    BETAS[(pred.len() * 7 + eq * 3 + form) % BETAS.len()]
}

fn observe_cm<L: CmLabel>(form: usize, beta: f32, pred: &[L], truth: &[L], tok: &dyn Fn(&L) -> String) -> Result<CmObs, String> {
    observe_cm_of(forms::call_cm(form, pred, truth), beta, pred, truth, &[], tok)
}

/// `extra`: labels that may appear among the members without occurring in `pred` or `truth`
fn observe_cm_of<L: CmLabel>(res: linfa::error::Result<ConfusionMatrix<L>>, beta: f32, pred: &[L], truth: &[L], extra: &[L], tok: &dyn Fn(&L) -> String) -> Result<CmObs, String> {
    let cm = match res {
        Ok(cm) => cm,
        Err(linfa::Error::MismatchedShapes(_, _)) => return Err("err MismatchedShapes".into()),
        Err(e) => return Err(format!("err {:?}", e)),
    };
    let _ = extra;
    let (mem, cells) = cm_parts(&cm);
    let members: Vec<String> = mem.iter().map(|l| tok(l)).collect();
    let ova_cms = cm.split_one_vs_all();
    let ovo_cms = cm.split_one_vs_one();
    Ok(CmObs {
        members,
        cells,
        scores: [cm.accuracy(), cm.precision(), cm.recall(), cm.f1_score(), cm.f_score(0.5), cm.mcc(), cm.f_score(2.0)],
        ova: ova_cms.iter().map(|c| cm_parts(c).1).collect(),
        ovo: ovo_cms.iter().map(|c| cm_parts(c).1).collect(),
        ovap: ova_cms.iter().map(|c| c.precision()).collect(),
        ovar: ova_cms.iter().map(|c| c.recall()).collect(),
        ovaf: ova_cms.iter().map(|c| c.f1_score()).collect(),
        beta,
        fb: cm.f_score(beta),
        ovop: ovo_cms.iter().map(|c| c.precision()).collect(),
        ovor: ovo_cms.iter().map(|c| c.recall()).collect(),
        split_members_ok: ova_cms.iter().chain(ovo_cms.iter()).all(|c| cm_parts(c).0 == vec![true, false]),
    })
}

fn close(a: f64, b: f64, tol: f64) -> bool {
    if a.is_nan() || b.is_nan() {
        return a.is_nan() && b.is_nan();
    }
    if a.is_infinite() || b.is_infinite() {
        return a == b;
    }
    (a - b).abs() <= tol * (1.0 + a.abs().max(b.abs()))
}

fn fbeta(beta: f64, p: f64, r: f64) -> f64 {
    let sb = beta * beta;
    (1.0 + sb) * (p * r) / (sb * p + r)
}

/// first-principles oracle for the confusion matrix and everything derived from it
fn oracle_cm<L: Ord + Clone + Eq>(ctx: &mut Ctx, prefix: &str, pred: &[L], truth: &[L], tok: &dyn Fn(&L) -> String, o: &CmObs) {
    let n = pred.len();
    let set: BTreeSet<&L> = pred.iter().chain(truth.iter()).collect();
    let mut cs: Vec<&L> = set.into_iter().collect();
    if cs.len() == 2 {
        cs.reverse();
    }
    let k = cs.len();
    let kc = if k == 2 { "binary" } else if k < 2 { "single" } else { "multi" };
    let class = format!("{}:classes={}", prefix, kc);
    let want_members: Vec<String> = cs.iter().map(|l| tok(l)).collect();
    ctx.require(o.members == want_members, "members_sorted_union", &class, || format!("members {:?}, want {:?}", o.members, want_members));
    if o.members != want_members {
        return;
    }
    let cnt = |f: &dyn Fn(&L, &L) -> bool| -> u64 { pred.iter().zip(truth.iter()).filter(|(p, t)| f(p, t)).count() as u64 };
    let want: Vec<Vec<u64>> = (0..k).map(|i| (0..k).map(|j| cnt(&|p, t| p == cs[i] && t == cs[j])).collect()).collect();
    ctx.require(o.cells == want, "cells_count_pairs", &class, || format!("cells {:?}, want {:?}", o.cells, want));
    let s: u64 = o.cells.iter().flatten().sum();
    ctx.require(s == n as u64, "cells_sum_n", &class, || format!("cells sum to {} for {} samples", s, n));
    let eq = cnt(&|p, t| p == t);
    let acc = eq as f64 / n as f64;
    ctx.require(close(o.scores[0] as f64, acc, 1e-6), "accuracy", &class, || format!("accuracy {} want {}", o.scores[0], acc));
    // one-vs-all splits, each cell as a count
    let ova_want: Vec<Vec<Vec<u64>>> = (0..k)
        .map(|c| {
            let tp = cnt(&|p, t| p == cs[c] && t == cs[c]);
            let fp = cnt(&|p, t| p == cs[c] && t != cs[c]);
            let fnn = cnt(&|p, t| p != cs[c] && t == cs[c]);
            let tn = cnt(&|p, t| p != cs[c] && t != cs[c]);
            vec![vec![tp, fp], vec![fnn, tn]]
        })
        .collect();
    ctx.require(o.ova == ova_want, "one_vs_all_cells", &class, || format!("one-vs-all {:?}, want {:?}", o.ova, ova_want));
    // one-vs-one: documented as N*(N-1)/2 matrices, one per unordered pair of distinct classes
    let mut ovo_want = vec![];
    for i in 0..k {
        for j in (i + 1)..k {
            ovo_want.push(vec![vec![want[i][i], want[i][j]], vec![want[j][i], want[j][j]]]);
        }
    }
    ctx.require(o.ovo.len() == k * k.saturating_sub(1) / 2, "one_vs_one_count", &class, || format!("{} one-vs-one matrices for {} classes, documented N*(N-1)/2 = {}", o.ovo.len(), k, k * k.saturating_sub(1) / 2));
    if o.ovo.len() == ovo_want.len() {
        ctx.require(o.ovo == ovo_want, "one_vs_one_cells", &class, || format!("one-vs-one {:?}, want {:?}", o.ovo, ovo_want));
    }
    // documented cell formulas: precision = m00/(m00+m10), recall = m00/(m00+m01) on 2x2,
    // macro average over the one-vs-all splits otherwise
    let pb = |m: &Vec<Vec<u64>>| m[0][0] as f64 / (m[0][0] as f64 + m[1][0] as f64);
    let rb = |m: &Vec<Vec<u64>>| m[0][0] as f64 / (m[0][0] as f64 + m[0][1] as f64);
    let (p, r) = if k == 2 {
        (pb(&want), rb(&want))
    } else {
        (ova_want.iter().map(pb).sum::<f64>() / k as f64, ova_want.iter().map(rb).sum::<f64>() / k as f64)
    };
    ctx.require(close(o.scores[1] as f64, p, 1e-5), "precision_documented", &class, || format!("precision {} want {}", o.scores[1], p));
    ctx.require(close(o.scores[2] as f64, r, 1e-5), "recall_documented", &class, || format!("recall {} want {}", o.scores[2], r));
    ctx.require(close(o.scores[3] as f64, fbeta(1.0, p, r), 1e-5), "f_beta", &class, || format!("f1 {} want {}", o.scores[3], fbeta(1.0, p, r)));
    ctx.require(close(o.scores[4] as f64, fbeta(0.5, p, r), 1e-5), "f_beta", &class, || format!("f0.5 {} want {}", o.scores[4], fbeta(0.5, p, r)));
    ctx.require(close(o.scores[6] as f64, fbeta(2.0, p, r), 1e-5), "f_beta", &class, || format!("f2 {} want {}", o.scores[6], fbeta(2.0, p, r)));
    ctx.require(close(o.fb as f64, fbeta(o.beta as f64, p, r), 1e-5), "f_beta", &class, || format!("f_score({}) {} want {}", o.beta, o.fb, fbeta(o.beta as f64, p, r)));
    // the split matrices are binary matrices of the class against the rest / the other class: members [true, false]
    ctx.require(o.split_members_ok, "split_members", &class, || "a one-vs-all / one-vs-one matrix does not have the members [true, false]".to_string());
    if o.ovo.len() == ovo_want.len() && o.ovop.len() == ovo_want.len() && o.ovor.len() == ovo_want.len() {
        for (q, m) in ovo_want.iter().enumerate() {
            ctx.require(close(o.ovop[q] as f64, pb(m), 1e-5) && close(o.ovor[q] as f64, rb(m), 1e-5), "one_vs_one_scores", &class, || format!("pair {}: precision/recall {} {} want {} {}", q, o.ovop[q], o.ovor[q], pb(m), rb(m)));
        }
    }
    for c in 0..k {
        let (pc, rc) = (pb(&ova_want[c]), rb(&ova_want[c]));
        ctx.require(close(o.ovap[c] as f64, pc, 1e-5) && close(o.ovar[c] as f64, rc, 1e-5) && close(o.ovaf[c] as f64, fbeta(1.0, pc, rc), 1e-5), "one_vs_all_scores", &class, || {
            format!("class {}: precision/recall/f1 {} {} {} want {} {} {}", c, o.ovap[c], o.ovar[c], o.ovaf[c], pc, rc, fbeta(1.0, pc, rc))
        });
    }
    // Matthews correlation (multi-class form; reduces to (tp*tn-fp*fn)/sqrt(..) for two classes)
    let nn = n as f64;
    let correct = eq as f64;
    let pk: Vec<f64> = (0..k).map(|c| cnt(&|p, _| p == cs[c]) as f64).collect();
    let tk: Vec<f64> = (0..k).map(|c| cnt(&|_, t| t == cs[c]) as f64).collect();
    let num = correct * nn - pk.iter().zip(tk.iter()).map(|(a, b)| a * b).sum::<f64>();
    let den = ((nn * nn - pk.iter().map(|a| a * a).sum::<f64>()) * (nn * nn - tk.iter().map(|a| a * a).sum::<f64>())).sqrt();
    let mcc = num / den;
    ctx.require(close(o.scores[5] as f64, mcc, 1e-5), "mcc", &class, || format!("mcc {} want {}", o.scores[5], mcc));
    if k == 2 {
        let (tp, fp, fnn, tn) = (want[0][0] as f64, want[0][1] as f64, want[1][0] as f64, want[1][1] as f64);
        let m2 = (tp * tn - fp * fnn) / ((tp + fp) * (tp + fnn) * (tn + fp) * (tn + fnn)).sqrt();
        ctx.require(close(o.scores[5] as f64, m2, 1e-5), "mcc_binary", &class, || format!("mcc {} want {}", o.scores[5], m2));
    }
}

fn same_obs(a: &CmObs, b: &CmObs) -> bool {
    a.line() == b.line()
}

/// `form` 0 is the plain `Array1.confusion_matrix(&Array1)` call (op `cm`); every other calling form
/// (op `cmf form=k`) has the same model and the same oracle: the matrix is a function of the
/// (prediction, truth) label vectors only, whatever container carries them
fn op_cm<L: CmLabel>(em: &mut Em, form: usize, ty: &str, kind: &str, pred: Vec<L>, truth: Vec<L>, perm: Vec<usize>, tok: &dyn Fn(&L) -> String) {
    let beta = beta_of(form, &pred, &truth);
    let args = format!("ty={} beta={} p={} t={}", ty, hex32(beta), list(pred.iter(), |x| tok(x)), list(truth.iter(), |x| tok(x)));
    let op = if form == 0 { format!("cm {}", args) } else { format!("cmf form={} {}", form, args) };
    let prefix = if form == 0 { "cm".to_string() } else { format!("cmf:{}", forms::CM_FORM_NAMES[form]) };
    em.count(&format!("{}:{}", if form == 0 { "cm" } else { "cmf" }, kind));
    if form != 0 {
        em.count(&format!("cmf:form={}", forms::CM_FORM_NAMES[form]));
    }
    let valid = pred.len() == truth.len() && !pred.is_empty();
    let class = format!("{}:{}", prefix, kind);
    let okkey = if form == 0 { format!("cm:{}", kind.split(':').next().unwrap_or("")) } else { format!("cmf:{}", forms::CM_FORM_NAMES[form]) };
    let body = |ctx: &mut Ctx| {
        let o = match observe_cm(form, beta, &pred, &truth, tok) {
            Ok(o) => o,
            Err(e) => return e,
        };
        if valid {
            oracle_cm(ctx, &prefix, &pred, &truth, tok, &o);
            // one permutation applied to predictions and truths together
            let pp: Vec<L> = perm.iter().map(|i| pred[*i].clone()).collect();
            let tt: Vec<L> = perm.iter().map(|i| truth[*i].clone()).collect();
            match observe_cm(form, beta, &pp, &tt, tok) {
                Ok(o2) => ctx.require(same_obs(&o, &o2), "perm_invariant", &prefix, || format!("permuted input {:?} gives {} instead of {}", perm, o2.line(), o.line())),
                Err(e) => ctx.fail("perm_invariant", &prefix, format!("permuted input fails: {}", e)),
            }
        } else if pred.len() == truth.len() {
            // n = 0: an empty matrix; cells (none) sum to 0 = n
            ctx.require(o.members.is_empty() && o.cells.is_empty() && o.ova.is_empty() && o.ovo.is_empty(), "cells_sum_n", &format!("{}:classes=none", prefix), || format!("no samples but {}", o.line()));
        }
        o.line()
    };
    if valid {
        em.case_valid(op, &class, body)
    } else {
        em.case(op, body)
    }
    if valid {
        tally(em, &okkey, false);
    }
    // the `Debug` rendering is not part of the property: whether it still shows the same cells is only
    // counted (distribution key `cm:debug=...`), never alarmed on
    if form == 0 && valid && em.only.is_none() && kind.starts_with("random") {
        let same = catch_unwind(AssertUnwindSafe(|| forms::call_cm(0, &pred, &truth).ok().map(|cm| parse_cm(&cm).1 == cm_parts(&cm).1))).ok().flatten().unwrap_or(false);
        em.count(if same { "cm:debug=shows_cells" } else { "cm:debug=layout_changed" });
    }
}

/// op `cms lp=.. p=.. t=..`: a `CountedTargets` receiver whose cached label counts are stale (taken
/// on `cached`, targets overwritten afterwards).  The matrix is built over the cached label set and the
/// truth's labels, and samples whose predicted label is in neither are skipped silently.  The
/// statement speaks of the label sets of the two vectors, so only the requests whose cache has exactly
/// the labels of `pred` are inside it (full oracle); the others are compared with the model
/// (`confusionWith`, theorem `confusion_with_labels_sum`) and checked against a direct count.
fn op_cm_stale(em: &mut Em, form: usize, cached: Vec<usize>, pred: Vec<usize>, truth: Vec<usize>) {
    let tok = |x: &usize| x.to_string();
    let mut lp: Vec<usize> = cached.clone();
    lp.sort();
    lp.dedup();
    let pset: BTreeSet<usize> = pred.iter().copied().collect();
    let lset: BTreeSet<usize> = lp.iter().copied().collect();
    let kind = if pset == lset { "same" } else if pset.is_subset(&lset) { "covering" } else { "dropping" };
    em.count(&format!("cms:{}", kind));
    em.count(&format!("cms:form={}", forms::STALE_FORM_NAMES[form]));
    let op = format!("cms form={} lp={} p={} t={}", form, list(lp.iter(), |x| x.to_string()), list(pred.iter(), |x| x.to_string()), list(truth.iter(), |x| x.to_string()));
    let class = if form == 0 { format!("cms:cache={}", kind) } else { format!("cms:{}:cache={}", forms::STALE_FORM_NAMES[form], kind) };
    let same = kind == "same";
    let body = |ctx: &mut Ctx| {
        let o = match observe_cm_of(forms::call_cm_stale(form, &cached, &pred, &truth), 1.0, &pred, &truth, &lp, &tok) {
            Ok(o) => o,
            Err(e) => return e,
        };
        if same {
            oracle_cm(ctx, "cms", &pred, &truth, &tok, &o);
        } else {
            let mut cs: Vec<usize> = lset.iter().copied().chain(truth.iter().copied()).collect::<BTreeSet<usize>>().into_iter().collect();
            if cs.len() == 2 {
                cs.reverse();
            }
            let want_members: Vec<String> = cs.iter().map(|l| l.to_string()).collect();
            ctx.require(o.members == want_members, "members_sorted_union", &class, || format!("members {:?}, want {:?} (cached labels {:?})", o.members, want_members, lp));
            let want: Vec<Vec<u64>> = cs.iter().map(|a| cs.iter().map(|b| pred.iter().zip(truth.iter()).filter(|(p, t)| *p == a && *t == b).count() as u64).collect()).collect();
            ctx.require(o.cells == want, "cells_count_pairs", &class, || format!("cells {:?}, want {:?}", o.cells, want));
            let kept = pred.iter().filter(|p| cs.contains(p)).count() as u64;
            let s: u64 = o.cells.iter().flatten().sum();
            ctx.require(s == kept, "cells_sum_known_labels", &class, || format!("cells sum to {}, {} samples carry a known label", s, kept));
        }
        o.line()
    };
    if same {
        em.case_valid(op, &class, body)
    } else {
        em.case(op, body)
    }
    // answered cases per cache kind (all forms together) and per form
    tally(em, &format!("cms:cache={}", kind), false);
    tally(em, &format!("cms:form={}", forms::STALE_FORM_NAMES[form]), false);
}

fn gen_cm_stale(em: &mut Em, rng: &mut Rng) {
    let reps = if em.thorough() { 4800 } else { 480 };
    for r in 0..reps {
        let (pred, truth) = random_cm_pair(rng);
        let n = pred.len();
        let a = pred.iter().chain(truth.iter()).copied().max().unwrap_or(0) + 2;
        let mut cached = pred.clone();
        match r % 3 {
            0 => rng.shuffle(&mut cached), // same label set
            1 => {
                // a label of the data is missing from the cache: overwrite every occurrence of one label
                let gone = pred[rng.below(n)];
                let by = rng.below(a);
                cached.iter_mut().for_each(|v| if *v == gone { *v = by });
            }
            _ => {
                // further labels in the cache
                for _ in 0..(1 + rng.below(3)) {
                    let i = rng.below(n);
                    cached[i] = rng.below(a);
                }
            }
        }
        op_cm_stale(em, (r / 3) % forms::STALE_FORMS, cached, pred, truth);
    }
}

const STR_LABELS: [&str; 8] = ["a", "b", "B", "ab", "10", "9", "Zz", "\u{e9}"];

/// `variant`: 0 usize, 1 bool (alphabet <= 2, else usize), 2 String, 3 &'static str
fn cm_dispatch(em: &mut Em, rng: &mut Rng, form: usize, kind: &str, pred: Vec<usize>, truth: Vec<usize>, variant: usize) {
    let n = pred.len().min(truth.len());
    let mut perm: Vec<usize> = (0..n).collect();
    rng.shuffle(&mut perm);
    let alphabet = pred.iter().chain(truth.iter()).copied().max().map(|m| m + 1).unwrap_or(0);
    match variant {
        1 if alphabet <= 2 => {
            let f = |v: &Vec<usize>| v.iter().map(|x| *x == 1).collect::<Vec<bool>>();
            op_cm(em, form, "n", &format!("{}:bool", kind), f(&pred), f(&truth), perm, &|b: &bool| (*b as u8).to_string());
        }
        2 => {
            // a fixed injection of the small alphabet into strings whose byte order differs from the index order
            let off = rng.below(STR_LABELS.len());
            let f = |v: &Vec<usize>| v.iter().map(|x| STR_LABELS[(*x + off) % STR_LABELS.len()].to_string()).collect::<Vec<String>>();
            op_cm(em, form, "s", &format!("{}:string", kind), f(&pred), f(&truth), perm, &|s: &String| hexstr(s));
        }
        3 => {
            let off = rng.below(STR_LABELS.len());
            let f = |v: &Vec<usize>| v.iter().map(|x| STR_LABELS[(*x + off) % STR_LABELS.len()]).collect::<Vec<&'static str>>();
            op_cm(em, form, "s", &format!("{}:str", kind), f(&pred), f(&truth), perm, &|s: &&'static str| hexstr(s));
        }
        _ => op_cm(em, form, "n", &format!("{}:usize", kind), pred, truth, perm, &|x: &usize| x.to_string()),
    }
}

fn random_cm_pair(rng: &mut Rng) -> (Vec<usize>, Vec<usize>) {
    let a = 1 + rng.below(6);
    let big = rng.chance(1, 8);
    let n = 1 + rng.below(if big { 200 } else { 30 });
    let shift = if rng.chance(1, 3) { rng.below(3) } else { 0 };
    let skew = rng.coin();
    let mut draw = |rng: &mut Rng, s: usize| -> Vec<usize> { (0..n).map(|_| if skew && rng.chance(2, 3) { s } else { s + rng.below(a) }).collect() };
    let pred = draw(rng, 0);
    let truth = draw(rng, shift);
    (pred, truth)
}

fn gen_cm(em: &mut Em, rng: &mut Rng) {
    // exhaustive: every (prediction, truth) pair of label vectors of length n over an alphabet of a labels
    let plan: &[(usize, usize)] = if em.thorough() { &[(2, 8), (3, 5), (4, 4)] } else { &[(2, 6), (3, 4), (4, 3)] };
    for &(a, maxn) in plan {
        for n in 1..=maxn {
            let total = (a as u64).pow(2 * n as u32);
            for code in 0..total {
                let mut c = code;
                let mut pred = vec![];
                let mut truth = vec![];
                for _ in 0..n {
                    pred.push((c % a as u64) as usize);
                    c /= a as u64;
                    truth.push((c % a as u64) as usize);
                    c /= a as u64;
                }
                let variant = (code % 3) as usize;
                cm_dispatch(em, rng, 0, &format!("exhaustive:a={}", a), pred, truth, variant);
            }
        }
    }
    // random longer vectors, label sets that differ between the two sides, skewed classes
    let reps = if em.thorough() { 12000 } else { 700 };
    for _ in 0..reps {
        let (pred, truth) = random_cm_pair(rng);
        let variant = rng.below(4);
        cm_dispatch(em, rng, 0, "random", pred, truth, variant);
    }
    // malformed: lengths differ (MismatchedShapes)
    for _ in 0..20 {
        let n = 1 + rng.below(6);
        let m = n + 1 + rng.below(3);
        let pred: Vec<usize> = (0..n).map(|_| rng.below(3)).collect();
        let truth: Vec<usize> = (0..m).map(|_| rng.below(3)).collect();
        let (p, t) = if rng.coin() { (pred, truth) } else { (truth, pred) };
        op_cm(em, 0, "n", "mismatched", p, t, vec![], &|x: &usize| x.to_string());
    }
    // no samples at all
    op_cm(em, 0, "n", "empty", Vec::<usize>::new(), vec![], vec![], &|x: &usize| x.to_string());
    op_cm(em, 0, "s", "empty", Vec::<String>::new(), vec![], vec![], &|s: &String| hexstr(s));
}

/// every calling form of `confusion_matrix` (arrays by value / reference / view, datasets,
/// `CountedTargets`, `with_labels` datasets) on asymmetric inputs
fn gen_cm_forms(em: &mut Em, rng: &mut Rng) {
    for form in 1..forms::CM_FORMS {
        // every (prediction, truth) pair over 2 labels up to length 3 and over 3 labels of length 2, 3:
        // contains every asymmetric 2x2 and 3x3 pattern (e.g. pred=[0,1,1], truth=[0,0,1])
        for &(a, lo, hi) in &[(2usize, 1usize, 3usize), (3, 2, if em.thorough() { 3 } else { 2 })] {
            for n in lo..=hi {
                let total = (a as u64).pow(2 * n as u32);
                for code in 0..total {
                    let mut c = code;
                    let mut pred = vec![];
                    let mut truth = vec![];
                    for _ in 0..n {
                        pred.push((c % a as u64) as usize);
                        c /= a as u64;
                        truth.push((c % a as u64) as usize);
                        c /= a as u64;
                    }
                    let variant = ((code + form as u64) % 4) as usize;
                    cm_dispatch(em, rng, form, &format!("exhaustive:a={}", a), pred, truth, variant);
                }
            }
        }
        let reps = if em.thorough() { 600 } else { 60 };
        for _ in 0..reps {
            let (pred, truth) = random_cm_pair(rng);
            let variant = rng.below(4);
            cm_dispatch(em, rng, form, "random", pred, truth, variant);
        }
        // lengths differ / no samples
        for _ in 0..3 {
            let n = 1 + rng.below(4);
            let m = n + 1 + rng.below(2);
            let pred: Vec<usize> = (0..n).map(|_| rng.below(3)).collect();
            let truth: Vec<usize> = (0..m).map(|_| rng.below(3)).collect();
            let (p, t) = if rng.coin() { (pred, truth) } else { (truth, pred) };
            op_cm(em, form, "n", "mismatched", p, t, vec![], &|x: &usize| x.to_string());
        }
        op_cm(em, form, "n", "empty", Vec::<usize>::new(), vec![], vec![], &|x: &usize| x.to_string());
    }
}

// ------------------------------------------------------------------ ROC / AUC / log-loss

struct RocObs {
    curve: Vec<(f32, f32)>,
    thr: Vec<f32>,
    auc: f32,
}
impl RocObs {
    fn line(&self) -> String {
        format!("ok curve={} thr={} auc={}", list2(self.curve.iter().map(|p| [p.0, p.1]), |x| h32c(x)), list(self.thr.iter(), |x| h32c(*x)), h32c(self.auc))
    }
}
fn observe_roc(form: usize, s: &[f32], y: &[bool]) -> RocObs {
    let roc = forms::call_roc(form, s, y).expect("roc");
    RocObs { curve: roc.get_curve(), thr: roc.get_thresholds(), auc: roc.area_under_curve() }
}

/// `form` 0: `(&[Pr]).roc(&[bool])` (op `roc`); other forms (op `rocf`): `Array1<Pr>`, views, datasets
fn op_roc(em: &mut Em, form: usize, kind: &str, s: Vec<f32>, y: Vec<bool>, perm: Vec<usize>) {
    let args = format!("s={} y={}", list(s.iter(), |x| hex32(*x)), list(y.iter(), |b| (*b as u8).to_string()));
    let equal_len = s.len() == y.len();
    // unequal lengths are outside the property's guard (today `zip` truncates silently; a length check
    // would be as good): oracle-only request, nothing compared, nothing required
    let op = if !equal_len { format!("#rocf-unequal form={} {}", form, args) } else if form == 0 { format!("roc {}", args) } else { format!("rocf form={} {}", form, args) };
    if form != 0 {
        em.count(&format!("rocf:form={}", forms::BIN_FORM_NAMES[form]));
    }
    let npos = y.iter().filter(|b| **b).count();
    let nneg = y.len() - npos;
    let in_range = s.iter().all(|x| *x >= 0.0 && *x <= 1.0);
    // the statement quantifies over ALL probability vectors: distinct scores however close (saturated
    // probabilities 1e-12 vs 5e-11) are distinct ranks of the Mann-Whitney statistic.  `tiny_gap`
    // only labels the class (the original code merged scores closer than 1e-10: finding
    // C05-roc-epsilon-grouping, fixed)
    let mut sorted = s.clone();
    sorted.sort_by(|a, b| a.partial_cmp(b).unwrap());
    let tiny_gap = sorted.windows(2).any(|w| w[0] != w[1] && (w[1] - w[0]) <= 2e-10);
    let covered = equal_len && npos > 0 && nneg > 0 && in_range;
    let has_zero = s.iter().any(|x| *x == 0.0);
    let has_tie = sorted.windows(2).any(|w| w[0] == w[1]);
    em.count(&format!("{}:{}", if form == 0 { "roc" } else { "rocf" }, kind));
    if covered {
        em.count(if has_zero { "roc:lowest_score_zero" } else { "roc:lowest_score_positive" });
        if has_tie {
            em.count("roc:tied_scores");
        }
        if tiny_gap {
            em.count("roc:tiny_gap");
        }
    }
    let gap = if tiny_gap { ":gap=below_1e-10" } else { "" };
    let class = if form == 0 { format!("roc:min_score={}{}", if has_zero { "zero" } else { "positive" }, gap) } else { format!("rocf:{}:min_score={}{}", forms::BIN_FORM_NAMES[form], if has_zero { "zero" } else { "positive" }, gap) };
    let body = |ctx: &mut Ctx| {
        let o = observe_roc(form, &s, &y);
        if covered {
            let first = o.curve.first().copied();
            let last = o.curve.last().copied();
            ctx.require(first == Some((0.0, 0.0)), "roc_starts_at_origin", &class, || format!("curve starts at {:?}: {:?}", first, o.curve));
            ctx.require(last == Some((1.0, 1.0)), "roc_ends_at_one", &class, || format!("curve ends at {:?}", last));
            ctx.require(o.curve.windows(2).all(|w| w[0].0 <= w[1].0 && w[0].1 <= w[1].1), "roc_monotone", &class, || format!("curve not monotone: {:?}", o.curve));
            // the thresholds are not part of the statement: they are compared with the model only
            // (theorem `roc_curve_def`: the distinct scores in increasing order), not by the oracle
            // Mann-Whitney with ties one half
            let mut mw = 0.0f64;
            for i in 0..s.len() {
                if !y[i] {
                    continue;
                }
                for j in 0..s.len() {
                    if y[j] {
                        continue;
                    }
                    if s[j] < s[i] {
                        mw += 1.0;
                    } else if s[j] == s[i] {
                        mw += 0.5;
                    }
                }
            }
            mw /= (npos * nneg) as f64;
            ctx.require(close(o.auc as f64, mw, 2e-6), "auc_eq_mann_whitney", &class, || format!("AUC {} but Mann-Whitney statistic {} (scores {:?} labels {:?})", o.auc, mw, s, y));
            let sp: Vec<f32> = perm.iter().map(|i| s[*i]).collect();
            let yp: Vec<bool> = perm.iter().map(|i| y[*i]).collect();
            let o2 = observe_roc(form, &sp, &yp);
            ctx.require(o2.line() == o.line(), "perm_invariant", "roc", || format!("permuted input {:?} gives {} instead of {}", perm, o2.line(), o.line()));
        } else {
            ctx.mark_trivial();
        }
        o.line()
    };
    if covered {
        em.case_valid(op, &class, body)
    } else {
        em.case(op, body)
    }
    if covered {
        tally(em, &(if form == 0 { "roc:covered".to_string() } else { format!("rocf:{}", forms::BIN_FORM_NAMES[form]) }), false);
    }
}

const LATTICE5: [f32; 5] = [0.0, 0.25, 0.5, 0.75, 1.0];

fn multisets(items: usize, size: usize, start: usize, cur: &mut Vec<usize>, out: &mut Vec<Vec<usize>>) {
    if cur.len() == size {
        out.push(cur.clone());
        return;
    }
    for i in start..items {
        cur.push(i);
        multisets(items, size, i, cur, out);
        cur.pop();
    }
}

fn gen_roc(em: &mut Em, rng: &mut Rng) {
    // every ordered (score, label) vector over the 5-point lattice incl. 0 and 1
    let maxn = if em.thorough() { 4 } else { 3 };
    for n in 1..=maxn {
        let total = 10u64.pow(n as u32);
        for code in 0..total {
            let mut c = code;
            let mut s = vec![];
            let mut y = vec![];
            for _ in 0..n {
                let d = (c % 10) as usize;
                c /= 10;
                s.push(LATTICE5[d / 2]);
                y.push(d % 2 == 1);
            }
            let mut perm: Vec<usize> = (0..n).collect();
            rng.shuffle(&mut perm);
            op_roc(em, 0, "exhaustive_ordered", s, y, perm);
        }
    }
    // every multiset of (score, label) items of the next sizes, in a random order
    let sizes: &[usize] = if em.thorough() { &[5, 6, 7, 8] } else { &[4, 5, 6] };
    for &n in sizes {
        let mut out = vec![];
        multisets(10, n, 0, &mut vec![], &mut out);
        for ms in out {
            let mut items = ms.clone();
            rng.shuffle(&mut items);
            let s: Vec<f32> = items.iter().map(|d| LATTICE5[d / 2]).collect();
            let y: Vec<bool> = items.iter().map(|d| d % 2 == 1).collect();
            let mut perm: Vec<usize> = (0..n).collect();
            rng.shuffle(&mut perm);
            op_roc(em, 0, "exhaustive_multiset", s, y, perm);
        }
    }
    // random: finer lattice, generic f32 scores, heavy ties
    let reps = if em.thorough() { 15000 } else { 600 };
    for _ in 0..reps {
        let big = rng.chance(1, 10);
        let n = 2 + rng.below(if big { 300 } else { 40 });
        let mode = rng.below(3);
        let s: Vec<f32> = (0..n)
            .map(|_| match mode {
                0 => rng.below(17) as f32 / 16.0,
                1 => rng.unit() as f32,
                _ => *rng.pick(&[0.0f32, 0.1, 0.5, 0.9, 1.0]),
            })
            .collect();
        let y: Vec<bool> = (0..n).map(|_| rng.coin()).collect();
        let mut perm: Vec<usize> = (0..n).collect();
        rng.shuffle(&mut perm);
        op_roc(em, 0, "random", s, y, perm);
    }
    // saturated probabilities: distinct scores closer than 1e-10 to each other (and to 0), both classes
    for _ in 0..(if em.thorough() { 2000 } else { 200 }) {
        let n = 2 + rng.below(8);
        let s: Vec<f32> = (0..n).map(|_| *rng.pick(&[0.0f32, 1e-12, 3e-11, 5e-11, 1.2e-10, 2.1e-10, 3e-10, 0.5, 1.0])).collect();
        let mut y: Vec<bool> = (0..n).map(|_| rng.coin()).collect();
        y[0] = true;
        y[1] = false;
        let mut perm: Vec<usize> = (0..n).collect();
        rng.shuffle(&mut perm);
        op_roc(em, 0, "saturated", s, y, perm);
    }
    // outside the Mann-Whitney claim (model vs code only): negative scores (filtered out by the
    // code), a single class
    for _ in 0..(if em.thorough() { 1500 } else { 150 }) {
        let n = 2 + rng.below(10);
        let s: Vec<f32> = (0..n)
            .map(|_| match rng.below(6) {
                0 => 0.0,
                1 => 5e-11,
                2 => 1.2e-10,
                3 => 2.1e-10,
                4 => -0.25,
                _ => rng.below(5) as f32 / 4.0,
            })
            .collect();
        let y: Vec<bool> = (0..n).map(|_| rng.chance(3, 4)).collect();
        let mut perm: Vec<usize> = (0..n).collect();
        rng.shuffle(&mut perm);
        op_roc(em, 0, "uncovered", s, y, perm);
    }
}

/// `form` 0: `Array1<Pr>.log_loss(&[bool])` (op `logloss`); other forms (op `loglossf`): slice, view,
/// datasets.  Unequal lengths are documented to panic (`assert_eq!`), which the model answers too.
fn op_logloss(em: &mut Em, form: usize, kind: &str, s: Vec<f32>, y: Vec<bool>, perm: Vec<usize>) {
    let args = format!("s={} y={}", list(s.iter(), |x| hex32(*x)), list(y.iter(), |b| (*b as u8).to_string()));
    // harness form numbering: 0 = Array1 (the original op), k>0 = forms::call_log_loss(k') with 0 <-> 1 swapped
    let cform = match form { 0 => 1, 1 => 0, k => k };
    let op = if form == 0 { format!("logloss {}", args) } else { format!("loglossf form={} {}", form, args) };
    em.count(&format!("{}:{}", if form == 0 { "logloss" } else { "loglossf" }, kind));
    if s.len() != y.len() {
        // outside the property's guard (equal lengths): the documented behaviour is a panic, an `Err`
        // would be as good; only a silently returned value is reported.  Oracle-only, not compared.
        let cls = format!("loglossf:{}", forms::BIN_FORM_NAMES[cform]);
        em.case(format!("#logloss-mismatch form={} {}", form, args), |ctx| {
            let r = catch_unwind(AssertUnwindSafe(|| forms::call_log_loss(cform, &s, &y)));
            if let Ok(Ok(v)) = r {
                ctx.fail("length_mismatch_rejected", &cls, format!("{} probabilities against {} labels: returned {} instead of rejecting the call", s.len(), y.len(), v));
            }
            "-".to_string()
        });
        return;
    }
    if form != 0 {
        em.count(&format!("loglossf:form={}", forms::BIN_FORM_NAMES[cform]));
    }
    let class = if form == 0 { "logloss".to_string() } else { format!("loglossf:{}", forms::BIN_FORM_NAMES[cform]) };
    let n = s.len();
    let valid = n > 0 && n == y.len();
    let body = |ctx: &mut Ctx| {
        match forms::call_log_loss(cform, &s, &y) {
            Ok(v) => {
                // mean clipped negative log-likelihood, in f64
                let eps = f32::EPSILON as f64;
                let mut sum = 0.0f64;
                for (p, b) in s.iter().zip(y.iter()) {
                    let a = (*p as f64).max(eps).min((1.0f32 - f32::EPSILON) as f64);
                    sum += if *b { -a.ln() } else { -(1.0 - a).ln() };
                }
                let want = sum / n as f64;
                // error bound of the f32 evaluation: every term carries the relative error of `1 - a`, of
                // libm's `ln` (<= 1 ulp) and of the negation-free sum, the sequential sum of n non-negative
                // terms adds (n-1)u, the division u (u = 2^-24 = 6e-8): relative error <= (n + 3)u;
                // 1.2e-7 * (n + 8) is twice that
                let tol = 1.2e-7 * (n as f64 + 8.0);
                ctx.require(close(v as f64, want, tol), "log_loss_def", &class, || format!("log-loss {} want {}", v, want));
                if valid {
                    // one permutation applied to probabilities and labels together: only the order of the
                    // sequential sum changes, each order is within (n-1)u of the exact sum
                    let sp: Vec<f32> = perm.iter().map(|i| s[*i]).collect();
                    let yp: Vec<bool> = perm.iter().map(|i| y[*i]).collect();
                    match forms::call_log_loss(cform, &sp, &yp) {
                        Ok(v2) => ctx.require(close(v as f64, v2 as f64, 1.2e-7 * (n as f64 + 8.0)), "perm_invariant", &class, || format!("permuted input {:?} gives {} instead of {}", perm, v2, v)),
                        Err(e) => ctx.fail("perm_invariant", &class, format!("permuted input fails: {:?}", e)),
                    }
                }
                format!("ok {}", tl(v as f64))
            }
            Err(linfa::Error::NotEnoughSamples) => "err NotEnoughSamples".into(),
            Err(e) => format!("err {:?}", e),
        }
    };
    if valid {
        em.case_valid(op, &class, body)
    } else {
        em.case(op, body)
    }
    if valid {
        tally(em, &class, false);
    }
}

fn random_scores(rng: &mut Rng, n: usize) -> (Vec<f32>, &'static str) {
    let mode = rng.below(3);
    let s: Vec<f32> = (0..n)
        .map(|_| match mode {
            0 => rng.below(9) as f32 / 8.0,
            1 => rng.unit() as f32,
            _ => *rng.pick(&[0.0f32, 1.0, 1e-9, 1.0 - 1e-7, 0.5]),
        })
        .collect();
    (s, if mode == 1 { "generic" } else { "boundary" })
}

fn gen_logloss(em: &mut Em, rng: &mut Rng) {
    op_logloss(em, 0, "empty", vec![], vec![], vec![]);
    let reps = if em.thorough() { 5000 } else { 400 };
    for r in 0..reps {
        // mostly short vectors, every eighth one long (the sum runs over hundreds of terms)
        let n = if r % 8 == 7 { 21 + rng.below(280) } else { 1 + rng.below(20) };
        let (s, kind) = random_scores(rng, n);
        let y: Vec<bool> = (0..n).map(|_| rng.coin()).collect();
        let mut perm: Vec<usize> = (0..n).collect();
        rng.shuffle(&mut perm);
        op_logloss(em, 0, kind, s, y, perm);
    }
}

/// the ROC / log-loss wrappers: `Array1<Pr>`, `ArrayView1<Pr>`, `&[Pr]`, dataset against dataset
fn gen_binary_forms(em: &mut Em, rng: &mut Rng) {
    for form in 1..forms::BIN_FORMS {
        // ROC: every multiset of (score, label) items of size 3 over the 5-point lattice, random vectors
        let mut out = vec![];
        multisets(10, 3, 0, &mut vec![], &mut out);
        for ms in out {
            let mut items = ms.clone();
            rng.shuffle(&mut items);
            let s: Vec<f32> = items.iter().map(|d| LATTICE5[d / 2]).collect();
            let y: Vec<bool> = items.iter().map(|d| d % 2 == 1).collect();
            let mut perm: Vec<usize> = (0..3).collect();
            rng.shuffle(&mut perm);
            op_roc(em, form, "exhaustive_multiset", s, y, perm);
        }
        let reps = if em.thorough() { 1500 } else { 120 };
        for _ in 0..reps {
            let big = rng.chance(1, 10);
            let n = 2 + rng.below(if big { 300 } else { 40 });
            let mode = rng.below(3);
            let s: Vec<f32> = (0..n)
                .map(|_| match mode {
                    0 => rng.below(17) as f32 / 16.0,
                    1 => rng.unit() as f32,
                    _ => *rng.pick(&[0.0f32, 0.1, 0.5, 0.9, 1.0]),
                })
                .collect();
            let y: Vec<bool> = (0..n).map(|_| rng.coin()).collect();
            let mut perm: Vec<usize> = (0..n).collect();
            rng.shuffle(&mut perm);
            op_roc(em, form, "random", s, y, perm);
        }
        // outside the claim: negative scores, single class, chained scores, unequal lengths (zip truncates)
        for r in 0..(if em.thorough() { 200 } else { 20 }) {
            let n = 2 + rng.below(10);
            let s: Vec<f32> = (0..n)
                .map(|_| match rng.below(6) {
                    0 => 0.0,
                    1 => 5e-11,
                    2 => 1.2e-10,
                    3 => -0.25,
                    _ => rng.below(5) as f32 / 4.0,
                })
                .collect();
            let m = if r % 4 == 0 { n + 1 + rng.below(2) } else if r % 4 == 1 { n - 1 } else { n };
            let y: Vec<bool> = (0..m).map(|_| rng.chance(3, 4)).collect();
            let mut perm: Vec<usize> = (0..n.min(m)).collect();
            rng.shuffle(&mut perm);
            op_roc(em, form, "uncovered", s, y, perm);
        }
        // log-loss
        op_logloss(em, form, "empty", vec![], vec![], vec![]);
        let reps = if em.thorough() { 1200 } else { 100 };
        for r in 0..reps {
            let n = if r % 8 == 7 { 21 + rng.below(280) } else { 1 + rng.below(20) };
            let (s, kind) = random_scores(rng, n);
            let y: Vec<bool> = (0..n).map(|_| rng.coin()).collect();
            let mut perm: Vec<usize> = (0..n).collect();
            rng.shuffle(&mut perm);
            op_logloss(em, form, kind, s, y, perm);
        }
    }
    // unequal lengths: documented panic, through every form (form 0 included)
    for form in 0..forms::BIN_FORMS {
        for _ in 0..4 {
            let n = 1 + rng.below(6);
            let m = if rng.coin() { n + 1 + rng.below(2) } else { n - 1 };
            let (s, _) = random_scores(rng, n);
            let y: Vec<bool> = (0..m).map(|_| rng.coin()).collect();
            op_logloss(em, form, "mismatched", s, y, vec![]);
        }
    }
}

// ------------------------------------------------------------------ regression

const NAMES: [&str; 8] = ["max", "mae", "mse", "med", "mape", "r2", "ev", "msle"];

/// the eight scores through the public API, calling form `form` (see `c05_forms.rs`);
/// `None` = `Err(NotEnoughSamples)`, `-inf` (max_error of nothing) or a panic (median of nothing).
/// Result: observed scores [metric][column] as f64 (f32 widened exactly)
fn observe_reg(form: usize, w: usize, p: usize, a: &[Vec<f64>], b: &[Vec<f64>]) -> Vec<Vec<Option<f64>>> {
    let n = a.len();
    fn conv<F: linfa::Float>(form: usize, n: usize, p: usize, a: &[Vec<f64>], b: &[Vec<f64>]) -> Vec<Vec<Option<f64>>> {
        let to = |x: Option<F>| x.map(|v| v.to_f64().unwrap());
        if p == 1 {
            let aa: Array1<F> = a.iter().map(|r| F::cast(r[0])).collect();
            let bb: Array1<F> = b.iter().map(|r| F::cast(r[0])).collect();
            let g = |f: &dyn Fn() -> linfa::error::Result<F>| -> Option<F> {
                match catch_unwind(AssertUnwindSafe(|| f())) {
                    Ok(Ok(v)) => Some(v),
                    _ => None,
                }
            };
            let mut v = forms::call_reg1(form, &aa, &bb, &g);
            if v[0] == Some(F::neg_infinity()) {
                v[0] = None;
            }
            v.into_iter().map(|x| vec![to(x)]).collect()
        } else {
            let aa = Array2::from_shape_fn((n, p), |(i, j)| F::cast(a[i][j]));
            let bb = Array2::from_shape_fn((n, p), |(i, j)| F::cast(b[i][j]));
            let g = |f: &dyn Fn() -> linfa::error::Result<Array1<F>>| -> Vec<Option<F>> {
                match catch_unwind(AssertUnwindSafe(|| f())) {
                    Ok(Ok(v)) if v.len() == p => v.iter().map(|x| Some(*x)).collect(),
                    _ => vec![None; p],
                }
            };
            forms::call_regm(form, &aa, &bb, &g).into_iter().map(|v| v.into_iter().map(to).collect()).collect()
        }
    }
    if w == 64 { conv::<f64>(form, n, p, a, b) } else { conv::<f32>(form, n, p, a, b) }
}

fn reg_line(w: usize, exact: bool, obs: &[Vec<Option<f64>>]) -> String {
    // mape divides before summing and msle takes logarithms: their terms are not exact even on the
    // lattice, so ndarray's unrolled sum may round differently from the left-to-right sum; always
    // tolerant tokens
    let show = |x: &Option<f64>, inexact_term: bool| -> String {
        match x {
            None => "none".into(),
            Some(v) => {
                if exact && !inexact_term {
                    if w == 64 { hex64c(*v) } else { h32c(*v as f32) }
                } else {
                    tl(*v)
                }
            }
        }
    };
    let mut parts = vec![];
    for (k, nm) in NAMES.iter().enumerate() {
        parts.push(format!("{}={}", nm, list(obs[k].iter(), |x| show(x, *nm == "mape" || *nm == "msle"))));
    }
    format!("ok {}", parts.join(" "))
}

/// textbook definitions in f64 on one column; returns the wanted values (None = not covered)
fn oracle_reg_col(ctx: &mut Ctx, prefix: &str, w: usize, col: usize, a: &[f64], b: &[f64], obs: &[Vec<Option<f64>>]) {
    let n = a.len();
    if n == 0 {
        return;
    }
    let nf = n as f64;
    let tol = if w == 64 { 1e-9 } else { 2e-4 };
    let err: Vec<f64> = a.iter().zip(b.iter()).map(|(x, y)| x - y).collect();
    let get = |k: usize| obs[k][col];
    // `unit`: the natural scale of the score (max|input| for the absolute errors, its square for the
    // squared ones, 1 for the dimensionless scores), capped at 1 so the test is never looser than
    // `close`.  The inputs are exactly representable in the working precision, so every difference
    // a_i - b_i carries only a relative error u and the sums of non-negative terms (n+2)u: the bound
    // is relative to the score itself; `unit` only keeps the test meaningful at 0.
    let mag = a.iter().chain(b.iter()).fold(0.0f64, |m, x| m.max(x.abs()));
    let (u1, u2) = (mag.min(1.0), (mag * mag).min(1.0));
    let mut chk = |ctx: &mut Ctx, k: usize, clause: &str, class: &str, want: f64, slack: f64, unit: f64| {
        let ok = match get(k) {
            Some(v) if v.is_finite() && want.is_finite() => (v - want).abs() <= tol * (unit + v.abs().max(want.abs())) || (v - want).abs() <= slack,
            Some(v) => close(v, want, tol),
            None => false,
        };
        ctx.require(ok, clause, class, || format!("{} column {}: got {:?}, definition gives {} (a={:?} b={:?})", NAMES[k], col, get(k), want, a, b));
    };
    let cls = format!("{}:f{}", prefix, w);
    chk(ctx, 0, "max_error_def", &cls, err.iter().fold(f64::NEG_INFINITY, |m, e| m.max(e.abs())), 0.0, u1);
    chk(ctx, 1, "mae_def", &cls, err.iter().map(|e| e.abs()).sum::<f64>() / nf, 0.0, u1);
    chk(ctx, 2, "mse_def", &cls, err.iter().map(|e| e * e).sum::<f64>() / nf, 0.0, u2);
    let mut ae: Vec<f64> = err.iter().map(|e| e.abs()).collect();
    ae.sort_by(|x, y| x.partial_cmp(y).unwrap());
    let med = if n % 2 == 1 { ae[n / 2] } else { (ae[n / 2 - 1] + ae[n / 2]) / 2.0 };
    chk(ctx, 3, "median_def", &cls, med, 0.0, u1);
    if a.iter().all(|x| *x != 0.0) {
        // percentage error relative to the receiver
        chk(ctx, 4, "mape_def", &cls, err.iter().zip(a.iter()).map(|(e, x)| (e / x).abs()).sum::<f64>() / nf, 0.0, 1.0);
    }
    let mean_b = b.iter().sum::<f64>() / nf;
    let sstot = b.iter().map(|y| (y - mean_b) * (y - mean_b)).sum::<f64>();
    let ssres = err.iter().map(|e| e * e).sum::<f64>();
    let scale = b.iter().fold(0.0f64, |m, y| m.max(y.abs())).max(1e-300);
    // "non-constant truth" with a margin that keeps the quotient well conditioned
    if sstot > 1e-3 * scale * scale {
        // the code regularises the denominator by 1e-10: exact size of that documented deviation
        let slack = |s: f64| 1.01e-10 * s.abs() / (sstot * (sstot + 1e-10)) + if w == 32 { 2e-4 * (1.0 + s.abs() / sstot) } else { 1e-9 * (1.0 + s.abs() / sstot) };
        chk(ctx, 5, "r2_def", &cls, 1.0 - ssres / sstot, slack(ssres), 1.0);
        let mean_e = err.iter().sum::<f64>() / nf;
        let var_e = err.iter().map(|e| (e - mean_e) * (e - mean_e)).sum::<f64>();
        let zero_mean = mean_e.abs() <= 1e-12 * (1.0 + err.iter().fold(0.0f64, |m, e| m.max(e.abs())));
        // The open finding C05-explained-variance-mean-error is the specific slip "subtract mean(err)
        // instead of n*mean(err)^2".  A deviation from the textbook value is attributed to it (class
        // `...:value=sum_sq_minus_mean_error`) only if the returned value IS that formula; any other
        // wrong value on the same inputs gets the class `...:value=other`, which is not listed.
        let coded = 1.0 - (ssres - mean_e) / (sstot + 1e-10);
        let is_coded = match get(6) {
            Some(v) => close(v, coded, tol) || (v - coded).abs() <= slack(ssres - mean_e),
            None => false,
        };
        let ecls = if zero_mean {
            "explained_variance:mean_error=zero".to_string()
        } else {
            format!("explained_variance:mean_error=nonzero:value={}", if is_coded { "sum_sq_minus_mean_error" } else { "other" })
        };
        chk(ctx, 6, "explained_variance_textbook", &ecls, 1.0 - var_e / sstot, slack(var_e), 1.0);
    }
    if a.iter().chain(b.iter()).all(|x| 1.0 + *x > 1e-6) {
        let l: Vec<f64> = a.iter().zip(b.iter()).map(|(x, y)| (1.0 + x).ln() - (1.0 + y).ln()).collect();
        chk(ctx, 7, "msle_def", &cls, l.iter().map(|e| e * e).sum::<f64>() / nf, 0.0, 1.0);
    }
}

/// `form` 0: arrays against arrays (ops `reg` / `regt`); other forms (ops `regf` / `regtf`):
/// datasets as receiver and / or argument, views, an n x 1 matrix through the multi-target trait
fn op_reg(em: &mut Em, form: usize, exact: bool, kind: &str, w: usize, p: usize, a: Vec<Vec<f64>>, b: Vec<Vec<f64>>, perm: Vec<usize>) {
    // a reversed view is summed by ndarray in memory order, i.e. backwards: the left-to-right model
    // agrees only up to rounding there, so that form is always compared with tolerance
    let exact = exact && !(if p == 1 { forms::REG1_FORM_NAMES[form] } else { forms::REGM_FORM_NAMES[form] }).contains("reversed");
    let name = match (exact, form == 0) {
        (true, true) => "reg",
        (false, true) => "regt",
        (true, false) => "regf",
        (false, false) => "regtf",
    };
    let fname = if p == 1 { forms::REG1_FORM_NAMES[form] } else { forms::REGM_FORM_NAMES[form] };
    let args = format!("w={} p={} a={} b={}", w, p, list2(a.iter().map(|r| r.iter()), |x| hex64(*x)), list2(b.iter().map(|r| r.iter()), |x| hex64(*x)));
    let op = if form == 0 { format!("{} {}", name, args) } else { format!("{} form={} {}", name, form, args) };
    em.count(&format!("{}:{}:f{}:p={}", name, kind, w, if p == 1 { "1".to_string() } else if p <= 3 { "2..3".to_string() } else { "4+".to_string() }));
    if form != 0 {
        em.count(&format!("{}:form={}", name, fname));
    }
    let prefix = if form == 0 { "reg".to_string() } else { format!("regf:{}", fname) };
    let n = a.len();
    let body = |ctx: &mut Ctx| {
        let obs = observe_reg(form, w, p, &a, &b);
        for c in 0..p {
            let ca: Vec<f64> = a.iter().map(|r| r[c]).collect();
            let cb: Vec<f64> = b.iter().map(|r| r[c]).collect();
            oracle_reg_col(ctx, &prefix, w, c, &ca, &cb, &obs);
        }
        if n > 0 {
            let ap: Vec<Vec<f64>> = perm.iter().map(|i| a[*i].clone()).collect();
            let bp: Vec<Vec<f64>> = perm.iter().map(|i| b[*i].clone()).collect();
            let obs2 = observe_reg(form, w, p, &ap, &bp);
            let same = {
                obs.iter().flatten().zip(obs2.iter().flatten()).all(|(x, y)| match (x, y) {
                    (Some(x), Some(y)) => close(*x, *y, if w == 64 { 1e-9 } else { 2e-4 }),
                    (None, None) => true,
                    _ => false,
                })
            };
            ctx.require(same, "perm_invariant", &prefix, || format!("permuted input {:?} gives {} instead of {}", perm, reg_line(w, exact, &obs2), reg_line(w, exact, &obs)));
        }
        reg_line(w, exact, &obs)
    };
    em.case(op, body);
    if n > 0 {
        tally(em, &(if form == 0 { format!("{}:f{}", name, w) } else { format!("{}:{}", name, fname) }), true);
    }
}

/// lattice inputs: multiples of 1/4 in [-8, 8] (+16 now and then); every sum, square and
/// mean-deviation is exact when n is a power of two, and the code/model operation orders coincide
/// otherwise up to exact sums
fn lattice_reg(rng: &mut Rng, n: usize, p: usize) -> (Vec<Vec<f64>>, Vec<Vec<f64>>) {
    let mode = rng.below(4);
    let mut a = vec![vec![0.0; p]; n];
    let mut b = vec![vec![0.0; p]; n];
    for c in 0..p {
        let shift = if rng.chance(1, 4) { 16.0 } else { 0.0 };
        for i in 0..n {
            b[i][c] = rng.range(-16, 16) as f64 / 4.0 + shift;
        }
        match mode {
            0 => {
                // zero-sum perturbation (mean error exactly 0)
                let mut e: Vec<f64> = (0..n).map(|_| rng.range(-8, 8) as f64 / 4.0).collect();
                let s: f64 = e.iter().sum();
                if n > 0 {
                    e[0] -= s;
                }
                for i in 0..n {
                    a[i][c] = b[i][c] + e[i];
                }
            }
            1 => {
                // constant offset (shift of the prediction)
                let o = rng.range(-8, 8) as f64 / 2.0;
                for i in 0..n {
                    a[i][c] = b[i][c] + o + rng.range(-2, 2) as f64 / 4.0;
                }
            }
            2 => {
                for i in 0..n {
                    a[i][c] = b[i][c];
                }
                if n > 0 && rng.coin() {
                    let i = rng.below(n);
                    a[i][c] += 1.0;
                }
            }
            _ => {
                for i in 0..n {
                    a[i][c] = rng.range(-16, 16) as f64 / 4.0 + shift;
                }
            }
        }
        // constant truth now and then (outside the r2 claim, inside the correspondence)
        if rng.chance(1, 20) {
            for i in 0..n {
                b[i][c] = 1.5;
            }
        }
    }
    (a, b)
}

/// generic inputs: log-uniform scales, offsets, positive values (so msle is defined)
fn generic_reg(rng: &mut Rng, w: usize, n: usize, p: usize) -> (Vec<Vec<f64>>, Vec<Vec<f64>>) {
    let scale = 10f64.powf(rng.unit() * 6.0 - 3.0);
    let off = if rng.coin() { 0.0 } else { scale * (rng.unit() * 20.0) };
    let positive = rng.coin();
    let mut a = vec![vec![0.0; p]; n];
    let mut b = vec![vec![0.0; p]; n];
    for c in 0..p {
        for i in 0..n {
            let t = if positive { rng.unit() } else { rng.unit() * 2.0 - 1.0 };
            let y = off + scale * t;
            let x = y + scale * 0.3 * (rng.unit() - 0.4);
            let (x, y) = if positive { (x.abs() + 1e-3 * scale, y.abs() + 1e-3 * scale) } else { (x, y) };
            // values travel as f64 bits; for the f32 runs round first so both sides see the same input
            a[i][c] = if w == 32 { x as f32 as f64 } else { x };
            b[i][c] = if w == 32 { y as f32 as f64 } else { y };
        }
    }
    (a, b)
}

fn gen_reg(em: &mut Em, rng: &mut Rng) {
    let reps = if em.thorough() { 12000 } else { 900 };
    for r in 0..reps {
        let w = if rng.chance(1, 3) { 32 } else { 64 };
        let wide = rng.chance(1, 4);
        let p = if rng.chance(1, 4) { 2 + rng.below(if wide { 5 } else { 2 }) } else { 1 };
        // n <= 7: ndarray's unrolled sum is the left-to-right sum; n = 8, 16 (f64 only): means are exact,
        // so every term of every sum is exact and the order of summation is immaterial
        let n = if r < 3 { r } else if w == 64 { *rng.pick(&[1usize, 2, 2, 3, 4, 4, 5, 6, 7, 8, 8, 16]) } else { 1 + rng.below(7) };
        if n == 0 && p > 1 {
            continue;
        }
        let (a, b) = lattice_reg(rng, n, p);
        let mut perm: Vec<usize> = (0..n).collect();
        rng.shuffle(&mut perm);
        op_reg(em, 0, true, "lattice", w, p, a, b, perm);
    }
    let reps = if em.thorough() { 6000 } else { 400 };
    for _ in 0..reps {
        let w = if rng.chance(1, 3) { 32 } else { 64 };
        let p = if rng.chance(1, 4) { 2 } else { 1 };
        let big = rng.chance(1, 10);
        let n = 2 + rng.below(if big { 200 } else { 30 });
        let (a, b) = generic_reg(rng, w, n, p);
        let mut perm: Vec<usize> = (0..n).collect();
        rng.shuffle(&mut perm);
        op_reg(em, 0, false, "generic", w, p, a, b, perm);
    }
}

/// the regression traits through datasets (receiver and / or argument), views and an n x 1 matrix
fn gen_reg_forms(em: &mut Em, rng: &mut Rng) {
    let reps = if em.thorough() { 500 } else { 45 };
    for single in [true, false] {
        let nforms = if single { forms::REG1_FORMS } else { forms::REGM_FORMS };
        for form in 1..nforms {
            for r in 0..reps {
                let w = if rng.chance(1, 3) { 32 } else { 64 };
                // the reversed-view form only in f64: ndarray sums a reversed view backwards, and in f32 the
                // difference to the left-to-right model, amplified by the cancellation in `1 - q` of r2 /
                // explained variance, can exceed the relative tolerance of `regtf` (seen: 1.8e-5, thorough
                // seed 2); f32 with a non-trivial layout is covered by the strided form
                let w = if (if single { forms::REG1_FORM_NAMES[form] } else { forms::REGM_FORM_NAMES[form] }).contains("reversed") { 64 } else { w };
                let wide = rng.chance(1, 4);
                let p = if single { 1 } else { 2 + rng.below(if wide { 5 } else { 2 }) };
                if r % 3 != 2 {
                    let n = if r == 0 && single { 0 } else if w == 64 { *rng.pick(&[1usize, 2, 3, 4, 5, 6, 7, 8, 16]) } else { 1 + rng.below(7) };
                    let (a, b) = lattice_reg(rng, n, p);
                    let mut perm: Vec<usize> = (0..n).collect();
                    rng.shuffle(&mut perm);
                    op_reg(em, form, true, "lattice", w, p, a, b, perm);
                } else {
                    let big = rng.chance(1, 10);
                    let n = 2 + rng.below(if big { 200 } else { 30 });
                    let (a, b) = generic_reg(rng, w, n, p);
                    let mut perm: Vec<usize> = (0..n).collect();
                    rng.shuffle(&mut perm);
                    op_reg(em, form, false, "generic", w, p, a, b, perm);
                }
            }
        }
    }
}

// ------------------------------------------------------------------ silhouette

fn observe_sil(form: usize, w: usize, x: &[Vec<f64>], l: &[usize]) -> f64 {
    let n = x.len();
    let d = x[0].len();
    if w == 64 {
        let rec = Array2::from_shape_fn((n, d), |(i, j)| x[i][j]);
        forms::call_sil::<f64>(form, rec, l).expect("silhouette")
    } else {
        let rec = Array2::from_shape_fn((n, d), |(i, j)| x[i][j] as f32);
        forms::call_sil::<f32>(form, rec, l).expect("silhouette") as f64
    }
}

/// ops: `sil` (f64, `Dataset<f64, usize>`), `sil32` (f32 records), `silf form=k` (other label types,
/// `CountedTargets`, dataset views; f64).  For `w = 32` the coordinates are exactly representable in f32.
fn op_sil(em: &mut Em, form: usize, w: usize, kind: &str, x: Vec<Vec<f64>>, l: Vec<usize>, perm: Vec<usize>) {
    let args = format!("x={} l={}", list2(x.iter().map(|r| r.iter()), |v| hex64(*v)), list(l.iter(), |v| v.to_string()));
    let name = if form != 0 { "silf" } else if w == 32 { "sil32" } else { "sil" };
    let op = if form != 0 { format!("silf form={} {}", form, args) } else { format!("{} {}", name, args) };
    let n = x.len();
    let dist = |i: usize, j: usize| -> f64 { x[i].iter().zip(x[j].iter()).map(|(a, b)| (a - b) * (a - b)).sum::<f64>().sqrt() };
    let mut labels: Vec<usize> = l.clone();
    labels.sort();
    labels.dedup();
    // covered: two or more clusters, each with at least two distinct points
    let covered = labels.len() >= 2
        && labels.iter().all(|c| {
            let members: Vec<usize> = (0..n).filter(|i| l[*i] == *c).collect();
            members.len() >= 2 && members.iter().any(|i| x[*i] != x[members[0]])
        });
    em.count(&format!("{}:{}:{}", name, kind, if covered { "covered" } else { "degenerate" }));
    if form != 0 {
        em.count(&format!("silf:form={}", forms::SIL_FORM_NAMES[form]));
    }
    let class = if form != 0 { format!("silf:{}", forms::SIL_FORM_NAMES[form]) } else { name.to_string() };
    // f64: every a(x), b(x) is a sum of at most n distances, each with relative error <= (d+2)u, the sum
    // adds (n-1)u, the quotient 2u; s = (b-a)/max(a,b) has |ds| <= 2 * that; n <= 60, d <= 6, u = 1.1e-16
    // gives 2e-14; 1e-9 is kept from the first version.  f32: u = 6e-8 gives 2 * (60 + 8) * 6e-8 = 8e-6;
    // tolerance 2e-5.
    let tol = if w == 64 { 1e-9 } else { 2e-5 };
    let body = |ctx: &mut Ctx| {
        let v = observe_sil(form, w, &x, &l);
        if covered {
            let mut total = 0.0;
            for i in 0..n {
                let own: Vec<usize> = (0..n).filter(|j| *j != i && l[*j] == l[i]).collect();
                let a = own.iter().map(|j| dist(i, *j)).sum::<f64>() / own.len() as f64;
                let b = labels
                    .iter()
                    .filter(|c| **c != l[i])
                    .map(|c| {
                        let m: Vec<usize> = (0..n).filter(|j| l[*j] == *c).collect();
                        m.iter().map(|j| dist(i, *j)).sum::<f64>() / m.len() as f64
                    })
                    .fold(f64::INFINITY, f64::min);
                total += (b - a) / a.max(b);
            }
            let want = total / n as f64;
            ctx.require(close(v, want, tol), "silhouette_def", &class, || format!("silhouette {} want {}", v, want));
            let xp: Vec<Vec<f64>> = perm.iter().map(|i| x[*i].clone()).collect();
            let lp: Vec<usize> = perm.iter().map(|i| l[*i]).collect();
            let v2 = observe_sil(form, w, &xp, &lp);
            ctx.require(close(v, v2, tol), "perm_invariant", &class, || format!("permuted input {:?} gives {} instead of {}", perm, v2, v));
        }
        format!("ok {}", tl(v))
    };
    if covered {
        em.case_valid(op, &class, body)
    } else {
        em.case(op, body)
    }
    if covered {
        tally(em, &class, false);
    }
}

/// `wide`: up to 6 dimensions and 7 clusters, half-integer or generic coordinates
fn random_sil(rng: &mut Rng, wide: bool, w: usize) -> (Vec<Vec<f64>>, Vec<usize>, String) {
    let d = if wide { 1 + rng.below(6) } else { 1 + rng.below(2) };
    let k = if wide { 2 + rng.below(6) } else { 2 + rng.below(3) };
    let n = if rng.chance(1, 10) { 1 + rng.below(4) } else { 2 * k + rng.below(8) };
    let spread = 1 + rng.below(6) as i64;
    let generic = wide && rng.chance(1, 3);
    let centers: Vec<Vec<i64>> = (0..k).map(|_| (0..d).map(|_| rng.range(-6, 6)).collect()).collect();
    let mut l: Vec<usize> = (0..n).map(|i| if i < 2 * k { i % k } else { rng.below(k) }).collect();
    if rng.chance(1, 12) {
        // degenerate shapes: one cluster, singleton cluster
        if rng.coin() {
            l.iter_mut().for_each(|v| *v = 3);
        } else if n > 0 {
            l[0] = 9;
        }
    }
    let x: Vec<Vec<f64>> = (0..n)
        .map(|i| {
            (0..d)
                .map(|j| {
                    let c = centers[l[i] % k][j] as f64;
                    let v = if generic { c + (rng.unit() * 2.0 - 1.0) * spread as f64 } else { c + rng.range(-spread, spread) as f64 };
                    if w == 32 { v as f32 as f64 } else { v }
                })
                .collect()
        })
        .collect();
    (x, l, format!("d={}{}", if d <= 2 { d.to_string() } else { "3+".to_string() }, if generic { ":generic" } else { "" }))
}

fn gen_sil(em: &mut Em, rng: &mut Rng) {
    let reps = if em.thorough() { 6000 } else { 500 };
    for r in 0..reps {
        let (x, l, kind) = random_sil(rng, r % 4 == 3, 64);
        let mut perm: Vec<usize> = (0..x.len()).collect();
        rng.shuffle(&mut perm);
        op_sil(em, 0, 64, &kind, x, l, perm);
    }
    // f32 records
    let reps = if em.thorough() { 2500 } else { 200 };
    for r in 0..reps {
        let (x, l, kind) = random_sil(rng, r % 2 == 1, 32);
        let mut perm: Vec<usize> = (0..x.len()).collect();
        rng.shuffle(&mut perm);
        op_sil(em, 0, 32, &kind, x, l, perm);
    }
    // other label types and containers
    let reps = if em.thorough() { 600 } else { 50 };
    for form in 1..forms::SIL_FORMS {
        for r in 0..reps {
            let (x, l, kind) = random_sil(rng, r % 2 == 1, 64);
            let mut perm: Vec<usize> = (0..x.len()).collect();
            rng.shuffle(&mut perm);
            op_sil(em, form, 64, &kind, x, l, perm);
        }
    }
}

/// op `sils cl=.. x=.. l=..`: the silhouette of a dataset whose label counts are stale (counted on
/// `cl`, targets overwritten with `l` afterwards).  Outside the statement unless the counts are those
/// of the data (then: full oracle); otherwise model (`silhouetteC`) against code only — stale cluster
/// sizes as divisors, the `unwrap` panic on an uncached label.
fn op_sil_stale(em: &mut Em, x: Vec<Vec<f64>>, cached: Vec<usize>, l: Vec<usize>) {
    let n = x.len();
    let d = x[0].len();
    let counts = |v: &Vec<usize>| {
        let mut m = std::collections::BTreeMap::new();
        v.iter().for_each(|c| *m.entry(*c).or_insert(0usize) += 1);
        m
    };
    let (cc, cl) = (counts(&cached), counts(&l));
    let kind = if cc == cl { "fresh" } else if l.iter().any(|c| !cc.contains_key(c)) { "uncached_label" } else { "stale_counts" };
    em.count(&format!("sils:{}", kind));
    let op = format!("sils cl={} x={} l={}", list(cached.iter(), |v| v.to_string()), list2(x.iter().map(|r| r.iter()), |v| hex64(*v)), list(l.iter(), |v| v.to_string()));
    let dist = |i: usize, j: usize| -> f64 { x[i].iter().zip(x[j].iter()).map(|(a, b)| (a - b) * (a - b)).sum::<f64>().sqrt() };
    let labels: Vec<usize> = cl.keys().copied().collect();
    let covered = kind == "fresh" && labels.len() >= 2 && labels.iter().all(|c| {
        let members: Vec<usize> = (0..n).filter(|i| l[*i] == *c).collect();
        members.len() >= 2 && members.iter().any(|i| x[*i] != x[members[0]])
    });
    em.case(op, |ctx| {
        let rec = Array2::from_shape_fn((n, d), |(i, j)| x[i][j]);
        let v = forms::call_sil_stale(rec, &cached, &l).expect("silhouette");
        if covered {
            let mut total = 0.0;
            for i in 0..n {
                let own: Vec<usize> = (0..n).filter(|j| *j != i && l[*j] == l[i]).collect();
                let a = own.iter().map(|j| dist(i, *j)).sum::<f64>() / own.len() as f64;
                let b = labels.iter().filter(|c| **c != l[i]).map(|c| {
                    let m: Vec<usize> = (0..n).filter(|j| l[*j] == *c).collect();
                    m.iter().map(|j| dist(i, *j)).sum::<f64>() / m.len() as f64
                }).fold(f64::INFINITY, f64::min);
                total += (b - a) / a.max(b);
            }
            let want = total / n as f64;
            ctx.require(close(v, want, 1e-9), "silhouette_def", "sils:fresh", || format!("silhouette {} want {}", v, want));
        }
        format!("ok {}", tl(v))
    });
    if em.only.is_none() {
        let last = em.outs.last().cloned().unwrap_or_default();
        em.count(&format!("ok:sils:{}", if last.starts_with("ok") { kind } else { "panic" }));
    }
}

fn gen_sil_stale(em: &mut Em, rng: &mut Rng) {
    let reps = if em.thorough() { 1500 } else { 150 };
    for r in 0..reps {
        let (x, l, _) = random_sil(rng, false, 64);
        let n = l.len();
        if n == 0 {
            continue;
        }
        let a = l.iter().copied().max().unwrap_or(0) + 2;
        let mut cached = l.clone();
        match r % 3 {
            0 => rng.shuffle(&mut cached),
            1 => {
                let gone = l[rng.below(n)];
                let by = rng.below(a);
                cached.iter_mut().for_each(|v| if *v == gone { *v = by });
            }
            _ => {
                for _ in 0..(1 + rng.below(3)) {
                    let i = rng.below(n);
                    cached[i] = rng.below(a);
                }
            }
        }
        op_sil_stale(em, x, cached, l);
    }
}

// ------------------------------------------------------------------ Pearson

fn observe_pearson(form: usize, w: usize, x: &[Vec<f64>], p: usize) -> Vec<f64> {
    let n = x.len();
    if w == 64 {
        let rec = Array2::from_shape_fn((n, p), |(i, j)| x[i][j]);
        forms::call_pearson::<f64>(form, rec)
    } else {
        let rec = Array2::from_shape_fn((n, p), |(i, j)| x[i][j] as f32);
        forms::call_pearson::<f32>(form, rec).iter().map(|v| *v as f64).collect()
    }
}

/// ops `pearson` (f64), `pearson32` (f32 records; values exactly representable in f32) and
/// `pearsonf form=k` (f64; column-major records, strided views, a dataset that also has targets)
fn op_pearson(em: &mut Em, form: usize, w: usize, kind: &str, x: Vec<Vec<f64>>, p: usize, perm: Vec<usize>) {
    let name = if form != 0 { "pearsonf" } else if w == 32 { "pearson32" } else { "pearson" };
    let args = format!("x={} p={}", list2(x.iter().map(|r| r.iter()), |v| hex64(*v)), p);
    let op = if form != 0 { format!("pearsonf form={} {}", form, args) } else { format!("{} {}", name, args) };
    let n = x.len();
    em.count(&format!("{}:{}:p={}", name, kind, if p <= 4 { p.to_string() } else { "5+".to_string() }));
    if form != 0 {
        em.count(&format!("pearsonf:form={}", forms::PEARSON_FORM_NAMES[form]));
    }
    let class_s = if form != 0 { format!("pearsonf:{}", forms::PEARSON_FORM_NAMES[form]) } else { name.to_string() };
    let name = class_s.as_str();
    // Error bound.  With u the unit roundoff and M = max|x|, the centred columns carry an absolute error
    // <= (n+1)u*M, the dot products / variances a relative error <= (n+2)u of sums of non-negative or
    // Cauchy-Schwarz-bounded terms, so the absolute error of r = cov/(s_i s_j) is <= c*(n+4)*u*(1 + M/s)
    // with M/s <= 100/0.3 on the generated data (offset 100, spread >= 1) and n <= 14:
    // f64: 18 * 1.1e-16 * 330 * c ~ 1e-12 (tolerance 1e-9 kept).  f32, sharper: the error d of a column
    // mean (<= n*ulp(n*M)/n: 6e-5 with offset 100, 4e-6 without) shifts the whole centred column, which
    // enters cov and var only in second order (n*d^2 <= 5e-8); the roundings of the centred values
    // (ulp(13)/2 = 5e-7 each) contribute sum|c_i|*5e-7 / sum c_i^2 <= 1.4e-5 when the spread is >= 1
    // (sum c_i^2 >= 0.5): tolerance 2e-4 with offset columns, 5e-5 without.
    let has_offset = x.iter().flatten().any(|v| v.abs() > 50.0);
    let tol = if w == 64 { 1e-9 } else if has_offset { 2e-4 } else { 5e-5 };
    let body = |ctx: &mut Ctx| {
        let got = observe_pearson(form, w, &x, p);
        // textbook: cov / (std std), pairs (i, j), i < j, row-major
        let col = |j: usize| -> Vec<f64> { x.iter().map(|r| r[j]).collect() };
        let mut want = vec![];
        for i in 0..p {
            for j in (i + 1)..p {
                let (a, b) = (col(i), col(j));
                let (ma, mb) = (a.iter().sum::<f64>() / n as f64, b.iter().sum::<f64>() / n as f64);
                let cov: f64 = a.iter().zip(b.iter()).map(|(u, v)| (u - ma) * (v - mb)).sum();
                let va: f64 = a.iter().map(|u| (u - ma) * (u - ma)).sum();
                let vb: f64 = b.iter().map(|v| (v - mb) * (v - mb)).sum();
                want.push(cov / (va.sqrt() * vb.sqrt()));
            }
        }
        ctx.require(got.len() == want.len(), "pearson_order", name, || format!("{} coefficients for {} features", got.len(), p));
        if got.len() == want.len() {
            ctx.require(got.iter().zip(want.iter()).all(|(g, w)| close(*g, *w, tol)), "pearson_def", name, || format!("coefficients {:?} want {:?}", got, want));
            // one permutation applied to all features together (a permutation of the observations)
            let xp: Vec<Vec<f64>> = perm.iter().map(|i| x[*i].clone()).collect();
            let got2 = observe_pearson(form, w, &xp, p);
            ctx.require(got2.len() == got.len() && got.iter().zip(got2.iter()).all(|(g, h)| close(*g, *h, tol)), "perm_invariant", name, || format!("permuted observations {:?} give {:?} instead of {:?}", perm, got2, got));
        }
        format!("ok {}", list(got.iter(), |v| tl(*v)))
    };
    em.case_valid(op, name, body);
    tally(em, name, false);
    if form == 4 && em.only.is_none() {
        // not part of the property, only counted: are the p-values of 3 resamplings frequencies k/3?
        let rec = Array2::from_shape_fn((n, p), |(i, j)| x[i][j]);
        let f = catch_unwind(AssertUnwindSafe(|| forms::pvalues_are_frequencies(rec))).unwrap_or(false);
        em.count(if f { "pearsonf:pvalues=frequencies" } else { "pearsonf:pvalues=other" });
    }
}

fn random_pearson(rng: &mut Rng, w: usize) -> (Vec<Vec<f64>>, usize, &'static str) {
    // up to 8 features (28 coefficients): index slips of the upper-triangle enumeration that first
    // show with 5 or more features are inside the stream
    let p = if rng.chance(1, 3) { 5 + rng.below(4) } else { 1 + rng.below(4) };
    let n = if rng.chance(1, 12) { 2 } else { 3 + rng.below(12) };
    let generic = rng.chance(1, 3);
    let mut x = vec![vec![0.0; p]; n];
    for j in 0..p {
        let off = if rng.chance(1, 3) { 100.0 } else { 0.0 };
        loop {
            for i in 0..n {
                let v = off + if generic { rng.unit() * 10.0 - 5.0 } else { rng.range(-8, 8) as f64 };
                x[i][j] = if w == 32 { v as f32 as f64 } else { v };
            }
            // every feature non-constant (the coefficient is undefined otherwise); for generic f32 data
            // also spread by at least 1 so the error bound above applies
            let (lo, hi) = x.iter().fold((f64::INFINITY, f64::NEG_INFINITY), |(lo, hi), r| (lo.min(r[j]), hi.max(r[j])));
            if hi - lo >= 1.0 {
                break;
            }
        }
        if j > 0 && rng.chance(1, 4) {
            // exactly (anti-)correlated with the first column
            let s = if rng.coin() { 2.0 } else { -0.5 };
            for i in 0..n {
                let v = s * x[i][0] + 1.0;
                x[i][j] = if w == 32 { v as f32 as f64 } else { v };
            }
        }
    }
    (x, p, if generic { "generic" } else { "integer" })
}

fn gen_pearson(em: &mut Em, rng: &mut Rng) {
    let reps = if em.thorough() { 4000 } else { 300 };
    for _ in 0..reps {
        let (x, p, kind) = random_pearson(rng, 64);
        let mut perm: Vec<usize> = (0..x.len()).collect();
        rng.shuffle(&mut perm);
        op_pearson(em, 0, 64, kind, x, p, perm);
    }
    let reps = if em.thorough() { 2000 } else { 150 };
    for _ in 0..reps {
        let (x, p, kind) = random_pearson(rng, 32);
        let mut perm: Vec<usize> = (0..x.len()).collect();
        rng.shuffle(&mut perm);
        op_pearson(em, 0, 32, kind, x, p, perm);
    }
    let reps = if em.thorough() { 500 } else { 50 };
    for form in 1..forms::PEARSON_FORMS {
        for _ in 0..reps {
            let (x, p, kind) = random_pearson(rng, 64);
            let mut perm: Vec<usize> = (0..x.len()).collect();
            rng.shuffle(&mut perm);
            op_pearson(em, form, 64, kind, x, p, perm);
        }
    }
}

/// Coverage floors (oracle-only case `#floors`): every stream and every calling form must have
/// delivered at least a minimum number of cases, so a generator slip that silently switches a
/// part of the check off (a form never drawn, no covered clustering, no tied scores) is reported.
/// The minima are about two thirds of what the quick tier produces with any seed.
fn floors(em: &mut Em) {
    let mut need: Vec<(Vec<String>, u64)> = vec![];
    let mut add = |subs: &[&str], min: u64| need.push((subs.iter().map(|s| s.to_string()).collect(), min));
    add(&["cm:exhaustive"], 17000);
    add(&["cm:random"], 600);
    add(&["cm:mismatched"], 20);
    for f in 1..forms::CM_FORMS {
        add(&[&format!("cmf:form={}", forms::CM_FORM_NAMES[f])], 150);
    }
    add(&["cms:same"], 60);
    add(&["cms:covering"], 20);
    for f in 0..forms::STALE_FORMS {
        add(&[&format!("cms:form={}", forms::STALE_FORM_NAMES[f])], 40);
    }
    add(&["roc:tiny_gap"], 80);
    add(&["cms:dropping"], 30);
    add(&["roc:lowest_score_zero"], 1000);
    add(&["roc:lowest_score_positive"], 300);
    add(&["roc:tied_scores"], 1000);
    for f in 1..forms::BIN_FORMS {
        add(&[&format!("rocf:form={}", forms::BIN_FORM_NAMES[f])], 250);
    }
    add(&["logloss:"], 300);
    for f in [0usize, 2, 3, 4, 5, 6, 7, 8, 9] {
        add(&[&format!("loglossf:form={}", forms::BIN_FORM_NAMES[f])], 80);
    }
    add(&["reg:lattice", ":f64:"], 400);
    add(&["reg:lattice", ":f32:"], 200);
    add(&["reg:lattice", "p=4+"], 5);
    add(&["regt:generic"], 300);
    for f in 1..forms::REG1_FORMS {
        // the reversed-view form is always sent as `regtf` (see `op_reg`)
        let rev = forms::REG1_FORM_NAMES[f].contains("reversed");
        if !rev {
            add(&[&format!("regf:form={}", forms::REG1_FORM_NAMES[f])], 20);
        }
        add(&[&format!("regtf:form={}", forms::REG1_FORM_NAMES[f])], if rev { 30 } else { 10 });
    }
    for f in 1..forms::REGM_FORMS {
        let rev = forms::REGM_FORM_NAMES[f].contains("reversed");
        if !rev {
            add(&[&format!("regf:form={}", forms::REGM_FORM_NAMES[f])], 20);
        }
        add(&[&format!("regtf:form={}", forms::REGM_FORM_NAMES[f])], if rev { 30 } else { 10 });
    }
    add(&["sil:", ":covered"], 300);
    add(&["sil:d=3+", ":covered"], 30);
    add(&["sil32:", ":covered"], 100);
    for f in 1..forms::SIL_FORMS {
        add(&[&format!("silf:form={}", forms::SIL_FORM_NAMES[f])], 40);
    }
    add(&["sils:fresh"], 25);
    add(&["sils:stale_counts"], 25);
    add(&["sils:uncached_label"], 15);
    add(&["pearson:", "p=5+"], 60);
    add(&["pearson:"], 250);
    add(&["pearson32:", "p=5+"], 20);
    add(&["pearson32:"], 120);
    for f in 1..forms::PEARSON_FORMS {
        add(&[&format!("pearsonf:form={}", forms::PEARSON_FORM_NAMES[f])], 30);
    }
    let sums: Vec<(String, u64, u64)> = need
        .iter()
        .map(|(subs, min)| (subs.join("*"), em.dist.iter().filter(|(k, _)| subs.iter().all(|s| k.contains(s.as_str()))).map(|(_, v)| *v).sum::<u64>(), *min))
        .collect();
    em.case("#floors".to_string(), |ctx| {
        for (k, got, min) in &sums {
            ctx.require(got >= min, "coverage_floor", k, || format!("only {} cases of kind {} were generated, floor {}", got, k, min));
        }
        "-".to_string()
    });
}

pub fn run(em: &mut Em, rng: &mut Rng) {
    gen_cm(em, rng);
    gen_cm_forms(em, rng);
    gen_cm_stale(em, rng);
    gen_roc(em, rng);
    gen_logloss(em, rng);
    gen_binary_forms(em, rng);
    gen_reg(em, rng);
    gen_reg_forms(em, rng);
    gen_sil(em, rng);
    gen_sil_stale(em, rng);
    gen_pearson(em, rng);
    floors(em);
}
