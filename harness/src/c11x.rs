//! C11, second part — the forms the first part never reached:
//!   * both scalar types (`ty=f32`: `ElasticNet<f32>`, `MultiTaskElasticNet<f32>`, OLS on f32),
//!   * record layouts (`lay=f` Fortran order, `lay=s` a view that skips rows; targets owned or views),
//!   * the constructors `params()` / `ridge()` / `lasso()` with any subset of the setters (`fitc`, `fitm`:
//!     a setter that is absent from the line is NOT called, so the documented default is in force),
//!   * `predict` of the three estimators,
//!   * `block_coordinate_descent` with its real stopping rule (`bcdt`) and the public
//!     `MultiTaskElasticNet::fit` (`fitm`) as correspondence ops (tolerance on the values, the sweep count
//!     exact whenever the model says no float test was a near-tie: `margin=~1`),
//!   * OLS on square / barely over-determined systems, 2-D single-column targets, `default()`.
use super::*;
use linfa::traits::Predict;
use linfa::DatasetBase;
use linfa_elasticnet::{ElasticNetParams, MultiTaskElasticNetParams};
use ndarray::{s, ArrayView2, ShapeBuilder};

pub(crate) trait Sc: linfa::Float {
    const TY: &'static str;
    /// relative slack of the oracle's recomputations (in f64, on the widened values)
    const REL: f64;
    fn hx(self) -> String;
    fn of(x: f64) -> Self;
    fn wd(self) -> f64;
}
impl Sc for f64 {
    const TY: &'static str = "f64";
    const REL: f64 = 1e-9;
    fn hx(self) -> String {
        hex64(self)
    }
    fn of(x: f64) -> Self {
        x
    }
    fn wd(self) -> f64 {
        self
    }
}
impl Sc for f32 {
    const TY: &'static str = "f32";
    const REL: f64 = 2e-3;
    fn hx(self) -> String {
        hex32(self)
    }
    fn of(x: f64) -> Self {
        x as f32
    }
    fn wd(self) -> f64 {
        self as f64
    }
}

fn shx<F: Sc>(v: F) -> String {
    let v = v + F::zero();
    if v.is_nan() {
        "nan".into()
    } else {
        v.hx()
    }
}
fn shtx<F: Sc>(v: F) -> String {
    format!("~{}", hex64c(v.wd() + 0.0))
}
/// the multi-task gap is compared in f64 only (in f32 it is a difference of large terms)
fn shgap<F: Sc>(v: F) -> String {
    if F::TY == "f64" {
        shtx(v)
    } else {
        "-".to_string()
    }
}
fn rows_hx<F: Sc>(x: ArrayView2<F>) -> String {
    list2(x.rows().into_iter().map(|r| r.to_vec()), |v: F| v.hx())
}
fn vec_hx<F: Sc>(v: &Array1<F>) -> String {
    list(v.iter().copied(), |v: F| v.hx())
}
fn to_f<F: Sc>(x: &Array2<f64>) -> Array2<F> {
    x.mapv(F::of)
}
fn to_f1<F: Sc>(x: &Array1<f64>) -> Array1<F> {
    x.mapv(F::of)
}
fn wide2<F: Sc>(x: ArrayView2<F>) -> Array2<f64> {
    Array2::from_shape_fn(x.dim(), |ij| x[ij].wd())
}
fn wide1<F: Sc>(x: &Array1<F>) -> Array1<f64> {
    x.mapv(|v| v.wd())
}
fn ty_tok<F: Sc>() -> String {
    if F::TY == "f64" {
        String::new()
    } else {
        format!(" ty={}", F::TY)
    }
}

#[derive(Clone, Copy, PartialEq, Debug)]
pub(crate) enum Lay {
    C,
    F,
    S,
}
/// a record matrix held in a chosen memory layout
pub(crate) struct XL<F: Sc> {
    back: Array2<F>,
    lay: Lay,
}
impl<F: Sc> XL<F> {
    fn new(x: &Array2<F>, lay: Lay) -> Self {
        let (n, p) = x.dim();
        let back = match lay {
            Lay::C => x.as_standard_layout().to_owned(),
            Lay::F => {
                let mut b = Array2::<F>::zeros((n, p).f());
                b.assign(x);
                b
            }
            Lay::S => {
                let mut b = Array2::<F>::from_elem((2 * n, p), F::of(7.5));
                b.slice_mut(s![..;2, ..]).assign(x);
                b
            }
        };
        XL { back, lay }
    }
    fn view(&self) -> ArrayView2<'_, F> {
        match self.lay {
            Lay::S => self.back.slice(s![..;2, ..]),
            _ => self.back.view(),
        }
    }
    fn tok(&self) -> &'static str {
        match self.lay {
            Lay::C => "",
            Lay::F => " lay=f",
            Lay::S => " lay=s",
        }
    }
    fn name(&self) -> &'static str {
        match self.lay {
            Lay::C => "c",
            Lay::F => "f",
            Lay::S => "s",
        }
    }
}
fn pick_lay(rng: &mut Rng) -> Lay {
    *rng.pick(&[Lay::C, Lay::C, Lay::F, Lay::S])
}

/// constructor + the setters that are called; `None` = the setter is NOT called
#[derive(Clone, Debug)]
pub(crate) struct Prm {
    ctor: u8,
    pen: Option<f64>,
    l1r: Option<f64>,
    tol: Option<f64>,
    max: Option<u32>,
    icpt: Option<bool>,
}
impl Prm {
    fn ctor_name(&self) -> &'static str {
        ["params", "ridge", "lasso", "default"][self.ctor as usize]
    }
    fn line<F: Sc>(&self) -> String {
        let mut s = format!("ctor={}", self.ctor_name());
        if let Some(v) = self.pen {
            s += &format!(" pen={}", F::of(v).hx());
        }
        if let Some(v) = self.l1r {
            s += &format!(" l1r={}", F::of(v).hx());
        }
        if let Some(v) = self.tol {
            s += &format!(" tol={}", F::of(v).hx());
        }
        if let Some(v) = self.max {
            s += &format!(" max={}", v);
        }
        if let Some(v) = self.icpt {
            s += &format!(" icpt={}", v as u8);
        }
        s
    }
    /// the values in force according to the DOCUMENTATION (table of `ElasticNetParams`, `ridge` = l1_ratio 0,
    /// `lasso` = l1_ratio 1), rounded to the scalar type: (penalty, l1_ratio, tolerance, max_iterations, intercept)
    fn eff<F: Sc>(&self) -> (f64, f64, f64, u32, bool) {
        let l1d = [0.5, 0.0, 1.0, 0.5][self.ctor as usize];
        (F::of(self.pen.unwrap_or(1.0)).wd(), F::of(self.l1r.unwrap_or(l1d)).wd(), F::of(self.tol.unwrap_or(1e-4)).wd(), self.max.unwrap_or(1000), self.icpt.unwrap_or(true))
    }
    fn valid<F: Sc>(&self) -> bool {
        let (pen, l1r, tol, _, _) = self.eff::<F>();
        pen >= 0.0 && (0.0..=1.0).contains(&l1r) && tol >= 0.0
    }
    fn build<F: Sc>(&self) -> ElasticNetParams<F> {
        let mut p = match self.ctor {
            0 => ElasticNet::<F>::params(),
            1 => ElasticNet::<F>::ridge(),
            2 => ElasticNet::<F>::lasso(),
            // the `Default` impl of the parameter set (documented defaults, like `params()`)
            _ => ElasticNetParams::<F>::default(),
        };
        if let Some(v) = self.pen {
            p = p.penalty(F::of(v));
        }
        if let Some(v) = self.l1r {
            p = p.l1_ratio(F::of(v));
        }
        if let Some(v) = self.tol {
            p = p.tolerance(F::of(v));
        }
        if let Some(v) = self.max {
            p = p.max_iterations(v);
        }
        if let Some(v) = self.icpt {
            p = p.with_intercept(v);
        }
        p
    }
    fn build_mtl<F: Sc>(&self) -> MultiTaskElasticNetParams<F> {
        let mut p = match self.ctor {
            0 => MultiTaskElasticNet::<F>::params(),
            1 => MultiTaskElasticNet::<F>::ridge(),
            2 => MultiTaskElasticNet::<F>::lasso(),
            _ => MultiTaskElasticNetParams::<F>::default(),
        };
        if let Some(v) = self.pen {
            p = p.penalty(F::of(v));
        }
        if let Some(v) = self.l1r {
            p = p.l1_ratio(F::of(v));
        }
        if let Some(v) = self.tol {
            p = p.tolerance(F::of(v));
        }
        if let Some(v) = self.max {
            p = p.max_iterations(v);
        }
        if let Some(v) = self.icpt {
            p = p.with_intercept(v);
        }
        p
    }
}

fn gen_prm(rng: &mut Rng, collinear: bool, f32_: bool) -> Prm {
    let ctor = *rng.pick(&[0u8, 0, 1, 1, 2, 2, 3]);
    let opt = |rng: &mut Rng| rng.chance(3, 5);
    let mut pen = if opt(rng) { Some(pick_f(rng, &PENS)) } else { None };
    // `l1_ratio` after ridge()/lasso() only now and then: the point of the constructors is their own ratio
    let mut l1r = if ctor == 0 || ctor == 3 { if opt(rng) { Some(pick_f(rng, &L1RS)) } else { None } } else if rng.chance(1, 6) { Some(pick_f(rng, &L1RS)) } else { None };
    let tols: &[f64] = if f32_ { &[1e-2, 1e-3, 1e-4] } else { &TOLS };
    let tol = if opt(rng) { Some(pick_f(rng, tols)) } else { None };
    let max = if opt(rng) { Some(*rng.pick(&[1u32, 2, 3, 5, 50, 1000, 20000])) } else { None };
    let icpt = if opt(rng) { Some(rng.chance(2, 3)) } else { None };
    if collinear {
        // collinear designs only with an l2 part ("collinear-but-regularised")
        let l1d = [0.5, 0.0, 1.0, 0.5][ctor as usize];
        if pen == Some(0.0) {
            pen = Some(0.3);
        }
        if l1r.unwrap_or(l1d) == 1.0 {
            l1r = Some(0.5);
        }
    }
    Prm { ctor, pen, l1r, tol, max, icpt }
}

/// a small share of parameter sets outside `ParamGuard` (both sides must refuse; the kind is not compared)
fn spoil(rng: &mut Rng, prm: &mut Prm) {
    match rng.below(3) {
        0 => prm.pen = Some(-0.5),
        1 => prm.l1r = Some(*rng.pick(&[-0.25, 1.5])),
        _ => prm.tol = Some(-1e-4),
    }
}

fn gen_xy<F: Sc>(rng: &mut Rng, big: bool, lattice_y: bool, scale_ok: bool) -> (Array2<F>, Array1<F>, usize, bool) {
    // one case in 25 is LARGE (p up to 48, n up to 160): a rewrite that is only taken above a size (Gram updates,
    // chunked or parallel products for `n_features > 32` / `n_samples >= 64` ...) is compared too
    let large = rng.chance(1, 25);
    let p = if large { 20 + rng.below(29) } else { 1 + rng.below(if big { 6 } else { 4 }) };
    // n up to 40: several rounds of the eight-fold unrolled kernels plus a remainder
    let n = if large { p + 30 + rng.below(84) } else { p + 1 + rng.below(if big { 36 } else { 10 }) };
    let kind = rng.below(6);
    let mut x = gen_design(rng, n, p, kind);
    let scaled = scale_ok && rng.chance(1, 4);
    if scaled {
        scale_columns(rng, &mut x);
    }
    let y = gen_target(rng, &x, lattice_y);
    (to_f::<F>(&x), to_f1::<F>(&y), kind, scaled)
}

fn new_rows<F: Sc>(rng: &mut Rng, p: usize) -> Array2<F> {
    let m = 1 + rng.below(4);
    Array2::from_shape_fn((m, p), |_| F::of(if rng.coin() { rng.range(-6, 6) as f64 } else { (rng.unit() - 0.5) * 12.0 }))
}

// ------------------------------------------------------------------ single task

fn op_gap_x<F: Sc>(em: &mut Em, rng: &mut Rng) {
    let nmax = if rng.chance(1, 3) { 30 } else { 9 };
    let n = 2 + rng.below(nmax);
    let pmax = if rng.chance(1, 5) { 10 } else { 4 };
    let p = 1 + rng.below(pmax);
    let kind = rng.below(6);
    let x: Array2<F> = to_f(&gen_design(rng, n, p, kind));
    let ints = rng.coin();
    let mk = |rng: &mut Rng, len: usize| Array1::from_shape_fn(len, |_| F::of(if ints { rng.range(-5, 5) as f64 } else { (rng.unit() - 0.5) * 8.0 }));
    let y = mk(rng, n);
    let mut w = mk(rng, p);
    for j in 0..p {
        if rng.chance(1, 3) {
            w[j] = F::zero();
        }
    }
    let r = if rng.coin() { &y - &x.dot(&w) } else { mk(rng, n) };
    let l1r = F::of(pick_f(rng, &L1RS));
    let pen = F::of(pick_f(rng, &PENS));
    let xl = XL::new(&x, pick_lay(rng));
    em.count(&format!("gapx:{}:lay={}", F::TY, xl.name()));
    let op = format!("gap X={} y={} w={} r={} l1r={} pen={}{}{}", rows_hx(x.view()), vec_hx(&y), vec_hx(&w), vec_hx(&r), l1r.hx(), pen.hx(), xl.tok(), ty_tok::<F>());
    em.case(op, |ctx| {
        let g = hk::duality_gap(xl.view(), y.view(), w.view(), r.view(), l1r, pen);
        let nf = n as f64;
        let (xw, yw, ww, rw) = (wide2(x.view()), wide1(&y).to_vec(), wide1(&w).to_vec(), wide1(&r).to_vec());
        let g2 = gap_naive(&xw, &yw, &ww, &rw, l1r.wd() * pen.wd() * nf, (1.0 - l1r.wd()) * pen.wd() * nf);
        let sc = dot(&yw, &yw) + dot(&rw, &rw) + g2.abs() + 1.0;
        ctx.require((g.wd() - g2).abs() <= F::REL * sc * (1.0 + pen.wd() * nf * (1.0 + dot(&ww, &ww))), "gap_formula", "gap", || format!("duality_gap={} naive={}", g, g2));
        format!("ok {}", shx(g))
    });
}

fn op_cd_x<F: Sc>(em: &mut Em, rng: &mut Rng) {
    let f32_ = F::TY == "f32";
    let (big, lat) = (rng.chance(1, 3), rng.coin());
    let (x, y, kind, _) = gen_xy::<F>(rng, big, lat, true);
    let mut l1r = pick_f(rng, &L1RS);
    let mut pen = pick_f(rng, &PENS);
    if kind == 4 && (pen == 0.0 || l1r == 1.0) {
        pen = 0.3;
        l1r = 0.5;
    }
    let tol = pick_f(rng, if f32_ { &[1e-2, 1e-3, 1e-4] } else { &TOLS });
    let mut max = *rng.pick(&[1u32, 2, 3, 5, 50, 1000, 5000]);
    if x.ncols() >= 20 {
        // large problems: a short budget (the model walks lists)
        max = max.min(30);
        em.count(&format!("cdx:{}:large", F::TY));
    }
    let (l1r, pen, tol) = (F::of(l1r), F::of(pen), F::of(tol));
    let xl = XL::new(&x, pick_lay(rng));
    em.count(&format!("cdx:{}:lay={}", F::TY, xl.name()));
    let op = format!("cd X={} y={} tol={} max={} l1r={} pen={}{}{}", rows_hx(x.view()), vec_hx(&y), tol.hx(), max, l1r.hx(), pen.hx(), xl.tok(), ty_tok::<F>());
    let mut counts = vec![];
    em.case_valid(op, "cd", |ctx| {
        let (w, g, s) = hk::coordinate_descent(xl.view(), y.view(), tol, max, l1r, pen);
        let c = EnetCase { x: wide2(x.view()), y: wide1(&y), l1r: l1r.wd(), pen: pen.wd(), tol: tol.wd(), max, icpt: false, rel: F::REL };
        oracle_enet(ctx, &mut counts, &c, &wide1(&w).to_vec(), 0.0, g.wd(), s, "cd");
        format!("ok w={} gap={} steps={}", list(w.iter().copied(), shx), shx(g), s)
    });
    for k in counts {
        em.count(&format!("x:{}:{}", F::TY, k));
    }
}

/// `ElasticNet::{params,ridge,lasso}()` + setters + `fit` (+ `predict`), any layout, target owned or a view
fn op_fitc<F: Sc>(em: &mut Em, rng: &mut Rng) {
    let f32_ = F::TY == "f32";
    let (big, lat) = (rng.chance(1, 3), rng.coin());
    let (x, y, kind, scaled) = gen_xy::<F>(rng, big, lat, true);
    let mut prm = gen_prm(rng, kind == 4, f32_);
    if x.ncols() >= 20 {
        prm.max = Some(prm.max.unwrap_or(1000).min(30));
        em.count(&format!("fitc:{}:large", F::TY));
    }
    let invalid = rng.chance(1, 25);
    if invalid {
        spoil(rng, &mut prm);
    }
    let xl = XL::new(&x, pick_lay(rng));
    // target: owned, a contiguous view, or — on integer targets with an intercept, where the mean is exact whatever
    // the order of summation and the centred target is an owned array — a view that skips every other element
    let ystrided = lat && !scaled && prm.icpt.unwrap_or(true) && rng.chance(1, 3);
    let yback: Array1<F> = {
        let mut b = Array1::<F>::from_elem(2 * y.len(), F::of(-3.25));
        b.slice_mut(s![..;2]).assign(&y);
        b
    };
    if ystrided {
        em.count(&format!("fitc:{}:target=strided", F::TY));
    }
    let yview = rng.coin();
    let pnew: Option<Array2<F>> = if rng.chance(2, 3) { Some(new_rows(rng, x.ncols())) } else { None };
    em.count(&format!("fitc:{}:ctor={}", F::TY, prm.ctor_name()));
    em.count(&format!("fitc:{}:lay={}", F::TY, xl.name()));
    for (k, v) in [("pen", prm.pen.is_some()), ("l1r", prm.l1r.is_some()), ("tol", prm.tol.is_some()), ("max", prm.max.is_some()), ("icpt", prm.icpt.is_some())] {
        if !v {
            em.count(&format!("fitc:default:{}", k));
        }
    }
    let ptok = match &pnew {
        Some(pn) => format!(" P={}", rows_hx(pn.view())),
        None => String::new(),
    };
    let op = format!("fitc {} X={} y={}{}{}{}{}", prm.line::<F>(), rows_hx(x.view()), vec_hx(&y), ptok, xl.tok(), ty_tok::<F>(), if ystrided { " yform=strided" } else { "" });
    let mut counts = vec![];
    let class = if invalid { "fitc:invalid_params" } else { "fitc" };
    em.case_valid(op, class, |ctx| {
        let params = prm.build::<F>();
        let res = if ystrided { params.fit(&DatasetBase::new(xl.view(), yback.slice(s![..;2]))) } else if yview { params.fit(&DatasetBase::new(xl.view(), y.view())) } else if xl.lay == Lay::C { params.fit(&Dataset::new(xl.back.clone(), y.clone())) } else { params.fit(&DatasetBase::new(xl.view(), y.clone())) };
        match res {
            Err(e) => {
                ctx.require(!prm.valid::<F>(), "fit_ok", class, || format!("valid parameters refused: {:?}", e));
                "err".to_string()
            }
            Ok(m) => {
                ctx.require(prm.valid::<F>(), "invalid_params_refused", class, || format!("{:?} accepted", prm));
                let (pen, l1r, tol, max, icpt) = prm.eff::<F>();
                let c = EnetCase { x: wide2(x.view()), y: wide1(&y), l1r, pen, tol, max, icpt, rel: F::REL };
                let w = m.hyperplane().clone();
                if prm.valid::<F>() {
                    oracle_enet(ctx, &mut counts, &c, &wide1(&w).to_vec(), m.intercept().wd(), m.duality_gap().wd(), m.n_steps(), "fitc");
                }
                let mut out = format!("ok b={} w={} gap={} steps={}", shx(m.intercept()), list(w.iter().copied(), shx), shx(m.duality_gap()), m.n_steps());
                if let Some(pn) = &pnew {
                    let pr: Array1<F> = m.predict(pn);
                    let ww = wide1(&w).to_vec();
                    let want = matvec(&wide2(pn.view()), &ww);
                    let sc: f64 = ww.iter().map(|v| v.abs()).sum::<f64>() * 12.0 + m.intercept().wd().abs() + 1.0;
                    let ok = pr.len() == pn.nrows() && pr.iter().zip(&want).all(|(a, b)| (a.wd() - b - m.intercept().wd()).abs() <= 1e-3 * F::REL * sc || !b.is_finite());
                    ctx.require(ok, "predict_is_xw_plus_b", class, || format!("predict={:?} but X.w+b={:?}+{}", pr.to_vec(), want, m.intercept()));
                    counts.push("predicted".to_string());
                    out += &format!(" pred={}", list(pr.iter().copied(), shx));
                }
                out
            }
        }
    });
    for k in counts {
        if k == "predicted" {
            em.count("fitc:predicted");
        } else {
            em.count(&format!("x:{}:{}", F::TY, k));
        }
    }
}

/// "whatever the offsets and scales of the features ... badly scaled columns ... f32/f64": the units of some columns
/// are changed by powers of ten far beyond the 1e-3..1e3 of the other streams (the target is generated from the
/// design BEFORE the change of units, so every column matters to it whatever its scale): columns of norm² under
/// `F::EPSILON` and coefficients under `F::EPSILON` — where the solver's former `abs_diff_eq!(norm_cols_x[j], 0)` /
/// `abs_diff_ne!(w_j, 0)` guards dropped columns and residual updates (finding C11-enet-epsilon-guards, fixed in
/// repo 070f1c2).  Same `fitc` line as above, so model and implementation are compared bit for bit; the oracle
/// clause that speaks here is `suboptimality_within_tolerance`.
fn op_fitc_scales<F: Sc>(em: &mut Em, rng: &mut Rng) {
    let f32_ = F::TY == "f32";
    let p = 1 + rng.below(3);
    let n = p + 2 + rng.below(12);
    let kind = *rng.pick(&[0usize, 0, 1, 2]);
    let mut x = gen_design(rng, n, p, kind);
    let lat = rng.coin();
    let y = gen_target(rng, &x, lat);
    let exps: &[i32] = if f32_ { &[-5, -4, -3, 3, 5, 7] } else { &[-10, -9, -6, 6, 9, 12] };
    let mut tag = "mid";
    for j in 0..p {
        if j == 0 || rng.coin() {
            let k = *rng.pick(exps);
            let f = 10f64.powi(k);
            for i in 0..n {
                x[[i, j]] *= f;
            }
            let tiny = if f32_ { k <= -4 } else { k <= -9 };
            let huge = if f32_ { k >= 7 } else { k >= 12 };
            if tiny {
                tag = "tiny";
            } else if huge && tag != "tiny" {
                tag = "huge";
            }
        }
    }
    let (x, y): (Array2<F>, Array1<F>) = (to_f(&x), to_f1(&y));
    // small or no penalty: a column in other units still carries its share of the fit
    let pen = *rng.pick(&[0.0, 0.0, 0.001, 0.01]);
    let l1r = *rng.pick(&[0.5, 1.0, 0.0]);
    let tol = *rng.pick(if f32_ { &[1e-2, 1e-3][..] } else { &[1e-4, 1e-6][..] });
    let prm = Prm { ctor: 0, pen: Some(pen), l1r: Some(l1r), tol: Some(tol), max: Some(*rng.pick(&[1000u32, 5000])), icpt: Some(kind == 0 && rng.coin()) };
    let xl = XL::new(&x, pick_lay(rng));
    em.count(&format!("fitc:{}:scales={}", F::TY, tag));
    let op = format!("fitc {} X={} y={}{}{}", prm.line::<F>(), rows_hx(x.view()), vec_hx(&y), xl.tok(), ty_tok::<F>());
    let mut counts = vec![];
    em.case_valid(op, "fitc", |ctx| {
        let m = match prm.build::<F>().fit(&DatasetBase::new(xl.view(), y.clone())) {
            Ok(m) => m,
            Err(e) => {
                ctx.fail("fit_ok", "fitc", format!("valid parameters refused: {:?}", e));
                return "err".to_string();
            }
        };
        let (pen, l1r, tol, max, icpt) = prm.eff::<F>();
        let c = EnetCase { x: wide2(x.view()), y: wide1(&y), l1r, pen, tol, max, icpt, rel: F::REL };
        let w = m.hyperplane().clone();
        oracle_enet(ctx, &mut counts, &c, &wide1(&w).to_vec(), m.intercept().wd(), m.duality_gap().wd(), m.n_steps(), "fitc");
        format!("ok b={} w={} gap={} steps={}", shx(m.intercept()), list(w.iter().copied(), shx), shx(m.duality_gap()), m.n_steps())
    });
    for k in counts {
        em.count(&format!("xs:{}:{}:{}", F::TY, tag, k));
    }
}

// ------------------------------------------------------------------ multi task

fn gen_mtl_x<F: Sc>(rng: &mut Rng, lattice: bool) -> (Array2<F>, Array2<F>, usize) {
    let large = rng.chance(1, 25);
    let p = if large { 12 + rng.below(24) } else { 1 + rng.below(4) };
    let nmax = if rng.chance(1, 4) { 24 } else { 8 };
    let n = if large { p + 30 + rng.below(50) } else { p + 1 + rng.below(nmax) };
    let t = if large { 2 + rng.below(5) } else { 1 + rng.below(3) };
    let kind = rng.below(6);
    let x = gen_design(rng, n, p, kind);
    let mut y = Array2::<f64>::zeros((n, t));
    for k in 0..t {
        let yk = gen_target(rng, &x, lattice);
        for i in 0..n {
            y[[i, k]] = yk[i];
        }
    }
    (to_f::<F>(&x), to_f::<F>(&y), kind)
}

fn name32<F: Sc>(op: &str) -> String {
    if F::TY == "f32" {
        format!("{}32", op)
    } else {
        op.to_string()
    }
}

/// with `l1 = 0`: is the returned point stationary to working precision (`‖XᵀR − l2·W‖ ≤ thr·‖Y‖·max‖x_j‖`, `Y` the centred target)?
/// Then whether the descent hit `XᵀR − l2·W = 0` exactly (and broke) hangs on the last bits: gap and sweep
/// count are not compared (the driver applies the same criterion), everything else is.
fn stationary_l1_0<F: Sc>(x: &Array2<f64>, yc: &Array2<f64>, w: &Array2<f64>, l1r: f64, pen: f64) -> bool {
    let nf = x.nrows() as f64;
    if l1r * pen * nf != 0.0 {
        return false;
    }
    let r = yc - &x.dot(w);
    let dn = dual_norm_mtl(x, w, &r, (1.0 - l1r) * pen * nf);
    let yn: f64 = yc.iter().map(|v| v * v).sum();
    let xn = (0..x.ncols()).map(|j| dot(&col(x, j), &col(x, j))).fold(0.0, f64::max);
    let thr = if F::TY == "f64" { 1e-9 } else { 1e-4 };
    dn / (yn.sqrt() * xn.sqrt() + 1e-300) <= thr
}
fn gap_steps<F: Sc>(stat: bool, g: F, s: u32) -> String {
    if stat {
        "gap=- steps=-".to_string()
    } else {
        format!("gap={} steps={}", shgap(g), s)
    }
}

const MARGIN1: &str = "margin=~3ff0000000000000";

/// `block_coordinate_descent` with its real stopping rule
fn op_bcdt<F: Sc>(em: &mut Em, rng: &mut Rng) {
    let f32_ = F::TY == "f32";
    let lat = rng.coin();
    let (x, y, kind) = gen_mtl_x::<F>(rng, lat);
    let t = y.ncols();
    let mut l1r = pick_f(rng, &L1RS);
    let mut pen = pick_f(rng, &PENS);
    if kind == 4 && (pen == 0.0 || l1r == 1.0) {
        pen = 0.3;
        l1r = 0.5;
    }
    let tol = pick_f(rng, if f32_ { &[1e-2, 1e-3, 1e-4] } else { &TOLS });
    let mut max = *rng.pick(&[1u32, 2, 3, 5, 50, 400, 400]);
    if x.ncols() >= 12 {
        max = max.min(12);
        em.count(&format!("bcdt:{}:large", F::TY));
    }
    let (l1r, pen, tol) = (F::of(l1r), F::of(pen), F::of(tol));
    let xl = XL::new(&x, pick_lay(rng));
    em.count(&format!("bcdt:{}:lay={}", F::TY, xl.name()));
    let op = format!("{} t={} X={} Y={} tol={} max={} l1r={} pen={}{}{}", name32::<F>("bcdt"), t, rows_hx(x.view()), rows_hx(y.view()), tol.hx(), max, l1r.hx(), pen.hx(), xl.tok(), ty_tok::<F>());
    let mut counts = vec![];
    em.case_valid(op, "bcdt", |ctx| {
        let (w, g, s) = hk::block_coordinate_descent(xl.view(), y.view(), tol, max, l1r, pen);
        let c = MtlCase { x: wide2(x.view()), y: wide2(y.view()), l1r: l1r.wd(), pen: pen.wd(), tol: tol.wd(), max, icpt: false, rel: F::REL };
        oracle_mtl(ctx, &mut counts, &c, &wide2(w.view()), &vec![0.0; t], g.wd(), s);
        let stat = stationary_l1_0::<F>(&c.x, &c.y, &wide2(w.view()), c.l1r, c.pen);
        format!("ok w={} {} {}", list2(w.rows().into_iter().map(|r| r.to_vec()), shtx), gap_steps(stat, g, s), MARGIN1)
    });
    for k in counts {
        em.count(&format!("x:{}:bcdt:{}", F::TY, k));
    }
}

/// `MultiTaskElasticNet::{params,ridge,lasso}()` + setters + `fit` (+ `predict`)
fn op_fitm<F: Sc>(em: &mut Em, rng: &mut Rng) {
    let f32_ = F::TY == "f32";
    // `mean_axis(Axis(0))` of a 2-D target: in standard layout with t >= 2 the rows are added one after the other
    // (the model's `computeInterceptMtl`), so real-valued targets are compared there (`b` exactly); in Fortran
    // order / for a single column each column goes through the unrolled `sum`: integer targets there (the
    // column means are then exact whatever the order)
    let yform = rng.below(4); // owned standard, Fortran order, view, view that skips rows
    let real_y = rng.coin();
    let (x, mut y, kind) = gen_mtl_x::<F>(rng, !real_y);
    let t = y.ncols();
    if real_y && (t < 2 || yform == 1) {
        y.mapv_inplace(|v| F::of(v.wd().round()));
    } else if real_y {
        em.count(&format!("fitm:{}:target=real", F::TY));
    }
    let mut prm = gen_prm(rng, kind == 4, f32_);
    if let Some(m) = prm.max {
        prm.max = Some(m.min(1000));
    }
    if x.ncols() >= 12 {
        prm.max = Some(prm.max.unwrap_or(1000).min(12));
        em.count(&format!("fitm:{}:large", F::TY));
    }
    let invalid = rng.chance(1, 25);
    if invalid {
        spoil(rng, &mut prm);
    }
    let xl = XL::new(&x, pick_lay(rng));
    let pnew: Option<Array2<F>> = if rng.chance(2, 3) { Some(new_rows(rng, x.ncols())) } else { None };
    em.count(&format!("fitm:{}:yform={}", F::TY, yform));
    em.count(&format!("fitm:{}:ctor={}", F::TY, prm.ctor_name()));
    em.count(&format!("fitm:{}:lay={}", F::TY, xl.name()));
    em.count(&format!("fitm:tasks={}", t));
    let ptok = match &pnew {
        Some(pn) => format!(" P={}", rows_hx(pn.view())),
        None => String::new(),
    };
    let op = format!("{} {} t={} X={} Y={}{}{}{} yform={}", name32::<F>("fitm"), prm.line::<F>(), t, rows_hx(x.view()), rows_hx(y.view()), ptok, xl.tok(), ty_tok::<F>(), yform);
    let mut counts = vec![];
    let class = if invalid { "fitm:invalid_params" } else { "fitm" };
    em.case_valid(op, class, |ctx| {
        let params = prm.build_mtl::<F>();
        let res = match yform {
            0 => params.fit(&DatasetBase::new(xl.view(), y.clone())),
            1 => {
                let mut yf = Array2::<F>::zeros(y.dim().f());
                yf.assign(&y);
                params.fit(&DatasetBase::new(xl.view(), yf))
            }
            2 => params.fit(&DatasetBase::new(xl.view(), y.view())),
            _ => {
                let mut yb = Array2::<F>::from_elem((2 * y.nrows(), t), F::of(-3.25));
                yb.slice_mut(s![..;2, ..]).assign(&y);
                params.fit(&DatasetBase::new(xl.view(), yb.slice(s![..;2, ..])))
            }
        };
        match res {
            Err(e) => {
                ctx.require(!prm.valid::<F>(), "fit_ok", class, || format!("valid parameters refused: {:?}", e));
                "err".to_string()
            }
            Ok(m) => {
                ctx.require(prm.valid::<F>(), "invalid_params_refused", class, || format!("{:?} accepted", prm));
                let (pen, l1r, tol, max, icpt) = prm.eff::<F>();
                let c = MtlCase { x: wide2(x.view()), y: wide2(y.view()), l1r, pen, tol, max, icpt, rel: F::REL };
                let w = m.hyperplane().clone();
                let b = m.intercept().clone();
                if prm.valid::<F>() {
                    oracle_mtl(ctx, &mut counts, &c, &wide2(w.view()), &wide1(&b).to_vec(), m.duality_gap().wd(), m.n_steps());
                }
                let yc = Array2::from_shape_fn(c.y.dim(), |(i, k)| c.y[[i, k]] - b[k].wd());
                let stat = prm.valid::<F>() && stationary_l1_0::<F>(&c.x, &yc, &wide2(w.view()), l1r, pen);
                let mut out = format!("ok b={} w={} {}", list(b.iter().copied(), shx), list2(w.rows().into_iter().map(|r| r.to_vec()), shtx), gap_steps(stat, m.duality_gap(), m.n_steps()));
                if let Some(pn) = &pnew {
                    let pr: Array2<F> = m.predict(pn);
                    let want = wide2(pn.view()).dot(&wide2(w.view()));
                    let sc: f64 = w.iter().map(|v| v.wd().abs()).sum::<f64>() * 12.0 + b.iter().map(|v| v.wd().abs()).sum::<f64>() + 1.0;
                    let ok = pr.dim() == (pn.nrows(), t) && pr.indexed_iter().all(|((i, k), a)| (a.wd() - want[[i, k]] - b[k].wd()).abs() <= 1e-3 * F::REL * sc || !want[[i, k]].is_finite());
                    ctx.require(ok, "predict_is_xw_plus_b", class, || format!("predict={:?} but X.W={:?} b={:?}", pr, want, b.to_vec()));
                    counts.push("predicted".to_string());
                    out += &format!(" pred={}", list2(pr.rows().into_iter().map(|r| r.to_vec()), shtx));
                }
                format!("{} {}", out, MARGIN1)
            }
        }
    });
    for k in counts {
        if k == "predicted" {
            em.count("fitm:predicted");
        } else {
            em.count(&format!("x:{}:fitm:{}", F::TY, k));
        }
    }
}

/// `duality_gap_mtl` on f32 (`gapm32`): the single-precision instantiation of the multi-task gap formula, on lattice
/// inputs (tolerance 1e-4: the row norms go through `sqrt`, the products through gemm)
fn op_gapm32(em: &mut Em, rng: &mut Rng) {
    let (x, y, _) = gen_mtl_x::<f32>(rng, true);
    let (n, p) = x.dim();
    let t = y.ncols();
    let w = Array2::<f32>::from_shape_fn((p, t), |_| if rng.chance(1, 4) { 0.0 } else { rng.range(-4, 4) as f32 });
    let r = if rng.coin() { &y - &x.dot(&w) } else { Array2::from_shape_fn((n, t), |_| rng.range(-5, 5) as f32) };
    let l1r = *rng.pick(&[0.0f32, 0.25, 0.5, 1.0]);
    let pen = *rng.pick(&[0.0f32, 0.125, 0.5, 2.0, 8.0]);
    let xl = XL::new(&x, pick_lay(rng));
    em.count(&format!("gapm32:tasks={}", t));
    let op = format!("gapm32 t={} X={} Y={} W={} R={} l1r={} pen={}{} ty=f32", t, rows_hx(x.view()), rows_hx(y.view()), rows_hx(w.view()), rows_hx(r.view()), l1r.hx(), pen.hx(), xl.tok());
    em.case(op, |ctx| {
        let g = hk::duality_gap_mtl(xl.view(), y.view(), w.view(), r.view(), l1r, pen);
        let nf = n as f64;
        let g2 = gap_mtl_naive(&wide2(x.view()), &wide2(y.view()), &wide2(w.view()), &wide2(r.view()), l1r as f64 * pen as f64 * nf, (1.0 - l1r as f64) * pen as f64 * nf);
        let sc: f64 = 1.0 + g2.abs() + y.iter().map(|v| (*v as f64) * (*v as f64)).sum::<f64>() + r.iter().map(|v| (*v as f64) * (*v as f64)).sum::<f64>() + (pen as f64) * nf * w.iter().map(|v| (*v as f64) * (*v as f64)).sum::<f64>();
        ctx.require((g as f64 - g2).abs() <= 1e-5 * sc, "gap_formula", "gapm32", || format!("duality_gap_mtl::<f32>={} naive(f64)={}", g, g2));
        format!("ok {}", shtx(g))
    });
}

fn op_objm(em: &mut Em, rng: &mut Rng) {
    let (x, y, _) = gen_mtl(rng, true);
    let (n, p) = x.dim();
    let t = y.ncols();
    let w = Array2::from_shape_fn((p, t), |_| if rng.chance(1, 4) { 0.0 } else { rng.range(-8, 8) as f64 / 4.0 });
    let b: Vec<f64> = (0..t).map(|_| rng.range(-8, 8) as f64 / 2.0).collect();
    let l1r = *rng.pick(&[0.0, 0.25, 0.5, 1.0]);
    let pen = *rng.pick(&[0.0, 0.125, 0.5, 2.0]);
    let op = format!("objm t={} X={} Y={} W={} b={} l1r={} pen={}", t, rows_hex(&x), rows_hex(&y), rows_hex(&w), list(b.iter().copied(), hex64), hex64(l1r), hex64(pen));
    em.case(op, |_ctx| {
        let nf = n as f64;
        format!("ok {}", sht(objective_mtl(&x, &y, &w, &b, l1r * pen * nf, (1.0 - l1r) * pen * nf)))
    });
}

// ------------------------------------------------------------------ OLS

/// OLS in the forms the first stream leaves out: f32, `n = p + 1` / `n = p` (square systems), layouts,
/// `(n, 1)` targets, target views, `default()`, and `predict`.
fn op_ols_x<F: Sc>(em: &mut Em, rng: &mut Rng) {
    let p = 1 + rng.below(5);
    let icpt = rng.chance(2, 3);
    let unknowns = p + icpt as usize;
    let n = unknowns + *rng.pick(&[0usize, 0, 1, 1, 2, 7, 20]);
    let kind = *rng.pick(&[0usize, 1, 1, 2, 2]);
    let mut x = gen_design(rng, n, p, kind);
    let scaled = F::TY == "f64" && rng.chance(1, 3);
    if scaled {
        scale_columns(rng, &mut x);
    }
    let lat = rng.coin();
    let y = gen_target(rng, &x, lat);
    let (x, y): (Array2<F>, Array1<F>) = (to_f(&x), to_f1(&y));
    let (xw, yw) = (wide2(x.view()), wide1(&y).to_vec());
    if !full_rank(gen_rank_matrix(&xw, icpt)) {
        em.count("olsx:rank_deficient_skipped");
        return;
    }
    let xl = XL::new(&x, pick_lay(rng));
    let form = rng.below(5); // owned 1-D, owned records, view, default(), target view that skips elements
    em.count(&format!("olsx:{}:lay={}", F::TY, xl.name()));
    em.count(&format!("olsx:{}:n-unknowns={}", F::TY, if n == unknowns { "0" } else if n == unknowns + 1 { "1" } else { ">1" }));
    em.count(&format!("olsx:form={}", form));
    let class = format!("ols:icpt={}", icpt as u8);
    let pnew: Array2<F> = new_rows(rng, p);
    let op = format!("#ols X={} y={} icpt={} form={}{}{}", rows_hx(x.view()), vec_hx(&y), icpt as u8, form, xl.tok(), ty_tok::<F>());
    let mut fitted = false;
    em.case_valid(op, &class, |ctx| {
        let lr = if form == 3 && icpt { LinearRegression::default() } else { LinearRegression::new().with_intercept(icpt) };
        let res = match form {
            // ((n, 1) 2-D targets do not type-check as single targets: nothing to run)
            1 => lr.fit(&Dataset::new(xl.view().to_owned(), y.clone())),
            2 => lr.fit(&DatasetBase::new(xl.view(), y.view())),
            4 => {
                let mut yb = Array1::<F>::from_elem(2 * y.len(), F::of(-3.25));
                yb.slice_mut(s![..;2]).assign(&y);
                lr.fit(&DatasetBase::new(xl.view(), yb.slice(s![..;2])))
            }
            _ => lr.fit(&DatasetBase::new(xl.view(), y.clone())),
        };
        match res {
            Err(e) => ctx.fail("fit_ok", &class, format!("{:?}", e)),
            Ok(m) => {
                fitted = true;
                let w = wide1(m.params()).to_vec();
                let b = m.intercept().wd();
                ctx.require(w.len() == p && w.iter().all(|v| v.is_finite()) && b.is_finite(), "finite", &class, || format!("w={:?} b={}", w, b));
                if w.len() != p {
                    return "-".to_string();
                }
                let xwv = matvec(&xw, &w);
                let r: Vec<f64> = (0..n).map(|i| yw[i] - xwv[i] - b).collect();
                let ynorm = dot(&yw, &yw).sqrt().max(1e-300);
                // f64: 1e-8; f32: 2e-2 relative to |x_j||y| (QR in single precision on integer designs)
                let tolr = 10.0 * F::REL;
                for j in 0..p {
                    let cj = col(&xw, j);
                    let cn = dot(&cj, &cj).sqrt();
                    ctx.require(dot(&cj, &r).abs() <= tolr * cn * ynorm, "residual_orthogonal_to_columns", &class, || format!("x_{}.r = {} (|x_j|={} |y|={})", j, dot(&cj, &r), cn, ynorm));
                }
                if icpt {
                    ctx.require(r.iter().sum::<f64>().abs() <= tolr * (n as f64).sqrt() * ynorm, "residual_orthogonal_to_ones", &class, || format!("sum r = {}", r.iter().sum::<f64>()));
                } else {
                    ctx.require(b == 0.0, "no_intercept", &class, || format!("b={}", b));
                }
                let s0 = dot(&r, &r);
                for j in 0..=p {
                    for d in [1e-2, 1e-5] {
                        for sg in [-1.0, 1.0] {
                            let mut v = w.clone();
                            let mut bb = b;
                            if j < p {
                                v[j] += sg * d * (w[j].abs() + 1.0);
                            } else if icpt {
                                bb += sg * d * (b.abs() + 1.0);
                            }
                            let s1 = 2.0 * objective(&xw, &yw, &v, bb, 0.0, 0.0);
                            ctx.require(s0 <= s1 + F::REL * (s0 + ynorm * ynorm * 1e-3), "no_smaller_sse", &class, || format!("sse {} > perturbed {}", s0, s1));
                        }
                    }
                }
                let pr: Array1<F> = m.predict(&pnew);
                let want = matvec(&wide2(pnew.view()), &w);
                let sc: f64 = w.iter().map(|v| v.abs()).sum::<f64>() * 12.0 + b.abs() + 1.0;
                let ok = pr.len() == pnew.nrows() && pr.iter().zip(&want).all(|(a, q)| (a.wd() - q - b).abs() <= 1e-3 * F::REL * sc);
                ctx.require(ok, "predict_is_xw_plus_b", &class, || format!("predict={:?} but X.w+b={:?}+{}", pr.to_vec(), want, b));
            }
        }
        "-".to_string()
    });
    if fitted {
        em.count(&format!("olsx:{}:fitted", F::TY));
    }
}

pub(crate) fn run(em: &mut Em, rng: &mut Rng) {
    let f = if em.thorough() { 10 } else { 1 };
    for _ in 0..120 * f {
        op_gap_x::<f64>(em, rng);
    }
    for _ in 0..80 * f {
        op_gap_x::<f32>(em, rng);
    }
    for _ in 0..200 * f {
        op_cd_x::<f64>(em, rng);
    }
    for _ in 0..150 * f {
        op_cd_x::<f32>(em, rng);
    }
    for _ in 0..350 * f {
        op_fitc::<f64>(em, rng);
    }
    for _ in 0..150 * f {
        op_fitc::<f32>(em, rng);
    }
    for _ in 0..120 * f {
        op_fitc_scales::<f64>(em, rng);
    }
    for _ in 0..120 * f {
        op_fitc_scales::<f32>(em, rng);
    }
    for _ in 0..250 * f {
        op_bcdt::<f64>(em, rng);
    }
    for _ in 0..60 * f {
        op_bcdt::<f32>(em, rng);
    }
    for _ in 0..250 * f {
        op_fitm::<f64>(em, rng);
    }
    for _ in 0..60 * f {
        op_fitm::<f32>(em, rng);
    }
    for _ in 0..100 * f {
        op_gapm32(em, rng);
    }
    for _ in 0..100 * f {
        op_objm(em, rng);
    }
    for _ in 0..200 * f {
        op_ols_x::<f64>(em, rng);
    }
    for _ in 0..100 * f {
        op_ols_x::<f32>(em, rng);
    }
}
