//! C15 — FTRL-proximal: `Ftrl::update` / `fit_with` recurrence of z and n, exact zeros of the weights,
//! predicted probabilities (clamped sigmoid of x·w) recomputed from first principles, f32.
use super::*;
use linfa::dataset::Pr;
use linfa_ftrl::Ftrl;
use rand_xoshiro::rand_core::SeedableRng;
use rand_xoshiro::Xoshiro256Plus;

fn ftrl_w(z: f64, n: f64, hp: &[f64; 4]) -> f64 {
    let (a, b, l1, l2) = (hp[0], hp[1], hp[2], hp[3]);
    if z.abs() <= l1 {
        0.0
    } else {
        -(z - z.signum() * l1) / ((b + n.sqrt()) / a + l2)
    }
}
/// the documented prediction: sigmoid of the logit x·w clamped to [-35, 35] (textbook `1/(1+e^-v)`; for
/// v < 0 written `e^v/(1+e^v)`, the same number without overflow), then rounded to the `f32` inside `Pr`.
/// Returns (logit, Σ|x_j w_j|)
fn ftrl_logit(z: &[f64], n: &[f64], hp: &[f64; 4], x: &[f64]) -> (f64, f64) {
    let terms: Vec<f64> = x.iter().zip(z.iter().zip(n)).map(|(x, (z, n))| x * ftrl_w(*z, *n, hp)).collect();
    (terms.iter().sum(), terms.iter().map(|t| t.abs()).sum())
}
fn sigmoid35(v: f64) -> f64 {
    let v = v.clamp(-35.0, 35.0);
    if v < 0.0 {
        v.exp() / (1.0 + v.exp())
    } else {
        1.0 / (1.0 + (-v).exp())
    }
}
/// `predict` against the first-principles probability.  `unit` is the rounding unit of the scalar the model
/// computes in (1.2e-16 / 6e-8).  The logit carries an absolute error of at most `(p + 8)·unit·Σ|x_j w_j|`
/// (p products and additions, <= 8 roundings inside each weight); e^v turns it into the same *relative*
/// error of the probability; `Pr` holds an f32 (6e-8 relative) and exp is good to an ulp.  A logit whose
/// error interval straddles +-35 is not judged.  No absolute slack: at the negative clamp the probability is
/// e^-35 = 6.3e-16 and must have exactly that magnitude (a missing or moved clamp changes it by orders of
/// magnitude); at the positive clamp it is 1.
fn ftrl_prob_check(ctx: &mut Ctx, class: &str, step: usize, z: &[f64], n: &[f64], hp: &[f64; 4], xs: &Rows, got: &[f32], unit: f64) {
    for (i, x) in xs.iter().enumerate() {
        let (v, mag) = ftrl_logit(z, n, hp, x);
        let noise = (x.len() as f64 + 8.0) * unit * mag;
        if (v.abs() - 35.0).abs() <= noise {
            continue;
        }
        tag(if v.abs() > 35.0 { "ok:ftrl:prob_judged:clamped" } else { "ok:ftrl:prob_judged:inside" });
        let want = sigmoid35(v);
        let rel = 2.5e-7 + 4.0 * unit + if v.abs() < 35.0 { 2.0 * noise } else { 0.0 };
        let g = got[i] as f64;
        ctx.require((g - want).abs() <= rel * want.abs().max(g.abs()), "probabilities", class, || format!("step {}: row {:?}: predicted probability {:e}, sigmoid(clamp(x.w = {}, +-35)) = {:e}", step, x, g, v, want));
    }
}
/// the documented per-coordinate recurrence, from the previous state and the probabilities the model used
fn ftrl_expect(z: &[f64], n: &[f64], hp: &[f64; 4], probs: &[f32], xs: &Rows, ys: &[bool]) -> (Vec<f64>, Vec<f64>) {
    let p = z.len();
    let mut zo = vec![];
    let mut no = vec![];
    for j in 0..p {
        let g: f64 = (0..xs.len()).map(|i| (probs[i] as f64 - if ys[i] { 1.0 } else { 0.0 }) * xs[i][j]).sum();
        let sigma = ((n[j] + g * g).sqrt() - n[j].sqrt()) / hp[0];
        zo.push(z[j] + g - sigma * ftrl_w(z[j], n[j], hp));
        no.push(n[j] + g * g);
    }
    (zo, no)
}
fn zero_check(ctx: &mut Ctx, class: &str, what: &str, step: usize, z: &[f64], w: &[f64], hp: &[f64; 4]) {
    for j in 0..z.len() {
        tag(if z[j].abs() == hp[2] {
            "ok:ftrl:weight_judged:on_l1"
        } else if z[j].abs() < hp[2] {
            "ok:ftrl:weight_judged:below_l1"
        } else {
            "ok:ftrl:weight_judged:above_l1"
        });
        ctx.require((w[j] == 0.0) == (z[j].abs() <= hp[2]), "zero_iff_within_l1", class, || format!("step {} ({}): coordinate {}: z {} l1 {} weight {}", step, what, j, z[j], hp[2], w[j]));
    }
}
fn ftrl_checks(ctx: &mut Ctx, class: &str, step: usize, m: &Ftrl<f64>, hp: &[f64; 4], z0: &[f64], n0: &[f64], probs: &[f32], xs: &Rows, ys: &[bool]) {
    let (wz, wn) = ftrl_expect(z0, n0, hp, probs, xs, ys);
    let (z, n) = (m.z().to_vec(), m.n().to_vec());
    ctx.require(near_v(&z, &wz, 1e-9) && near_v(&n, &wn, 1e-9), "recurrence", class, || format!("step {}: z {:?} n {:?}, recurrence gives z {:?} n {:?}", step, z, n, wz, wn));
    ctx.require(n.iter().zip(n0).all(|(a, b)| a >= b), "n_monotone", class, || format!("step {}: n decreased: {:?} -> {:?}", step, n0, n));
    let w = m.get_weights().to_vec();
    zero_check(ctx, class, "after the update", step, &z, &w, hp);
    // the weights themselves: closed form of the proximal step
    let ww: Vec<f64> = z.iter().zip(&n).map(|(z, n)| ftrl_w(*z, *n, hp)).collect();
    ctx.require(near_v(&w, &ww, 1e-12), "weights_closed_form", class, || format!("step {}: get_weights {:?}, closed form {:?}", step, w, ww));
    // independent of the closed form (Lean: `ftrl_weight_is_proximal_minimiser`): the weight minimises the documented
    // per-coordinate objective z·w + l1·|w| + ½·d·w², d = (√n + β)/α + l2 > 0 — no nearby or distant w does better
    let d = |n: f64| (hp[1] + n.sqrt()) / hp[0] + hp[3];
    let obj = |z: f64, n: f64, w: f64| z * w + hp[2] * w.abs() + 0.5 * d(n) * w * w;
    for j in 0..z.len() {
        if !(d(n[j]) > 0.0 && d(n[j]).is_finite() && w[j].is_finite() && z[j].is_finite()) {
            continue;
        }
        let at = obj(z[j], n[j], w[j]);
        for h in [1e-3, 0.1, 1.0] {
            for sgn in [-1.0, 1.0] {
                let v = w[j] + sgn * h * (1.0 + w[j].abs());
                let there = obj(z[j], n[j], v);
                ctx.require(at <= there + 1e-9 * (1.0 + there.abs()), "weights_minimise_objective", class, || format!("step {}: coordinate {}: objective {} at the weight {} but {} at {}", step, j, at, w[j], there, v));
            }
        }
    }
}
fn show_ftrl(m: &Ftrl<f64>) -> String {
    format!("z={}/n={}/w={}", list(m.z().iter(), |x| tf(*x)), list(m.n().iter(), |x| tf(*x)), list(m.get_weights().iter(), |x| tf(*x)))
}
fn mk_bool_ds(xs: &Rows, ys: &[bool], p: usize) -> Dataset<f64, bool, ndarray::Ix1> {
    Dataset::new(arr2(xs, p), Array1::from(ys.to_vec()))
}
fn ftrl_from_state(hp: &[f64; 4], z: &[f64], n: &[f64]) -> Ftrl<f64> {
    let arr = |v: &[f64]| serde_json::json!({"v": 1, "dim": [v.len()], "data": v});
    serde_json::from_value(serde_json::json!({"alpha": hp[0], "beta": hp[1], "l1_ratio": hp[2], "l2_ratio": hp[3], "z": arr(z), "n": arr(n)})).expect("Ftrl deserialises")
}

fn op_ftrl_update(em: &mut Em, hp: [f64; 4], z: &[f64], n: &[f64], probs: &[f32], xs: &Rows, ys: &[bool]) {
    let p = z.len();
    let op = format!(
        "ftrl_update hp={} z={} n={} probs={} x={} y={}",
        list(hp.iter(), |x| hex64(*x)),
        list(z.iter(), |x| hex64(*x)),
        list(n.iter(), |x| hex64(*x)),
        list(probs.iter(), |x| hex64(*x as f64)),
        list2(xs.iter().map(|x| x.iter()), |x| hex64(*x)),
        list(ys.iter(), |x| (*x as u8).to_string())
    );
    case_t(em, op, "ftrl_update", |ctx| {
        let mut m = ftrl_from_state(&hp, z, n);
        // the weights of the start state itself (|z| exactly on the l1 threshold included)
        let w0 = m.get_weights().to_vec();
        zero_check(ctx, "ftrl_update", "start state", 0, z, &w0, &hp);
        let ds = mk_bool_ds(xs, ys, p);
        let pr: Array1<Pr> = Array1::from(probs.iter().map(|x| Pr::new(*x)).collect::<Vec<_>>());
        m.update(&ds, pr.view());
        tag("ok:ftrl_update:updated");
        ftrl_checks(ctx, "ftrl_update", 0, &m, &hp, z, n, probs, xs, ys);
        format!("ok w0={} {}", list(w0.iter(), |x| tf(*x)), show_ftrl(&m))
    });
}

/// `predict` of a lattice state on (possibly wide) rows: logits far beyond the +-35 clamp on both sides
fn op_ftrl_pred(em: &mut Em, hp: [f64; 4], z: &[f64], n: &[f64], xs: &Rows) {
    let p = z.len();
    let op = format!("ftrl_pred hp={} z={} n={} x={}", list(hp.iter(), |x| hex64(*x)), list(z.iter(), |x| hex64(*x)), list(n.iter(), |x| hex64(*x)), list2(xs.iter().map(|x| x.iter()), |x| hex64(*x)));
    let logits: Vec<f64> = xs.iter().map(|x| ftrl_logit(z, n, &hp, x).0).collect();
    for v in &logits {
        em.count(if *v > 35.0 {
            "ftrl:logit>35"
        } else if *v < -35.0 {
            "ftrl:logit<-35"
        } else {
            "ftrl:logit_inside"
        });
    }
    case_t(em, op, "ftrl_pred", |ctx| {
        let m = ftrl_from_state(&hp, z, n);
        let got: Vec<f32> = m.predict(&arr2(xs, p)).iter().map(|pr| **pr).collect();
        ftrl_prob_check(ctx, "ftrl_pred", 0, z, n, &hp, xs, &got, 1.2e-16);
        format!("ok p={}", list(got.iter(), |x| tf(*x as f64)))
    });
}

/// checked parameters (their type is not exported by linfa-ftrl, hence a macro)
macro_rules! mk_params {
    ($hp:expr, $seed:expr) => {
        Ftrl::<f64>::params_with_rng(Xoshiro256Plus::seed_from_u64($seed)).alpha($hp[0]).beta($hp[1]).l1_ratio($hp[2]).l2_ratio($hp[3]).check().expect("valid FTRL parameters")
    };
}

/// A history of `fit_with` calls.  `hps[i]` are the hyper-parameters of the PARAMETERS used for call i; an `Ftrl`
/// value stores its own copy (made by `Ftrl::new` at the first call) and the code that exists uses the
/// model's copy throughout — that is what the model side (`ftrlFitHistoryM`) does.  The oracle demands the
/// documented recurrence with ONE consistent set of hyper-parameters per update (the model's, or — a choice
/// the statement also permits — those of the call's parameters): a mixed update fails.
fn op_ftrl_fit(em: &mut Em, hps: &[[f64; 4]], seed: u64, p: usize, batches: &[(Rows, Vec<bool>)], layout: usize) {
    // z0 is drawn by the real code from the seeded generator; it is part of the request line
    let params: Vec<_> = hps.iter().map(|hp| mk_params!(hp, seed)).collect();
    let z0 = Ftrl::new(params[0].clone(), p).z().to_vec();
    let op = format!(
        "ftrl_fit hps={} z0={} x={} y={}",
        list2(hps.iter().map(|h| h.iter()), |x| hex64(*x)),
        list(z0.iter(), |x| hex64(*x)),
        list3(batches.iter().map(|(r, _)| r.iter().map(|x| x.iter())), |x| hex64(*x)),
        list2(batches.iter().map(|(_, l)| l.iter()), |x| (*x as u8).to_string())
    );
    let differing = hps.iter().any(|h| h != &hps[0]);
    let class = if differing { "ftrl_fit:params_differ_from_model" } else { "ftrl_fit" };
    case_t(em, op, "ftrl_fit", |ctx| {
        ctx.require(z0.iter().all(|v| (0.0..1.0).contains(v)), "function_of_history", class, || format!("initial z {:?} is not drawn from [0, 1)", z0));
        let mut model: Option<Ftrl<f64>> = None;
        let mut parts = vec![];
        let (mut z, mut n) = (z0.clone(), vec![0.0; p]);
        let hp = hps[0];
        for (i, (xs, ys)) in batches.iter().enumerate() {
            let ds = mk_bool_ds(xs, ys, p);
            let prev = model.clone().unwrap_or_else(|| Ftrl::new(params[0].clone(), p));
            ctx.require(prev.z().to_vec() == z && prev.n().to_vec() == n, "function_of_history", class, || format!("step {}: state before the update differs from the state after the previous one", i));
            // the probabilities the update uses are the public prediction of the previous model; they are first
            // judged against the first-principles sigmoid of the previous state, then fed to the recurrence
            let probs: Vec<f32> = prev.predict(&arr2(xs, p)).iter().map(|pr| **pr).collect();
            ftrl_prob_check(ctx, class, i, &z, &n, &hp, xs, &probs, 1.2e-16);
            let m = params[i].fit_with(model.take(), &ds).expect("fit_with");
            tag("ok:ftrl_fit:batch_fitted");
            let mut own = Ctx { fails: vec![], trivial: false };
            ftrl_checks(&mut own, class, i, &m, &hp, &z, &n, &probs, xs, ys);
            if !own.fails.is_empty() && hps[i] != hp {
                let mut other = Ctx { fails: vec![], trivial: false };
                ftrl_checks(&mut other, class, i, &m, &hps[i], &z, &n, &probs, xs, ys);
                if other.fails.is_empty() {
                    own.fails.clear();
                    tag("ok:ftrl_fit:update_with_the_calls_hyperparameters");
                }
            }
            if hps[i] != hp {
                tag("ok:ftrl_fit:batch_fitted:params_differ_from_model");
            }
            ctx.fails.extend(own.fails);
            z = m.z().to_vec();
            n = m.n().to_vec();
            parts.push(show_ftrl(&m));
            model = Some(m);
        }
        // the model is a function of the history (and the seed) alone: a second replay ends in the same state
        let mut again: Option<Ftrl<f64>> = None;
        for (i, (xs, ys)) in batches.iter().enumerate() {
            again = Some(params[i].fit_with(again.take(), &mk_bool_ds(xs, ys, p)).expect("fit_with"));
        }
        let (a, b) = (again.unwrap(), model.unwrap());
        ctx.require(a.z() == b.z() && a.n() == b.n(), "function_of_history", class, || format!("replaying the same history from the same parameters ends in z {:?} n {:?} instead of z {:?} n {:?}", a.z(), a.n(), b.z(), b.n()));
        // the same history through `DatasetView`s of another memory layout (Fortran order, strided, reversed rows
        // / columns, both axes inverted; targets through a reversed view where the rows are): another entry
        // point, same model up to the order of a <= 5-term sum
        let mut viewed: Option<Ftrl<f64>> = None;
        for (i, (xs, ys)) in batches.iter().enumerate() {
            let store = mk_store::<f64>(xs, p, layout);
            let ystore = mk_tstore(ys, layout);
            if let Some(vm) = &viewed {
                // `predict` through the view against `predict` on an owned C-order copy of the same rows
                let pv: Vec<f64> = vm.predict(&mk_view(&store, p, layout)).iter().map(|pr| **pr as f64).collect();
                let po: Vec<f64> = vm.predict(&arr2(xs, p)).iter().map(|pr| **pr as f64).collect();
                ctx.require(pv.len() == po.len() && pv.iter().zip(&po).all(|(a, b)| (a - b).abs() <= 1e-6 * a.abs().max(b.abs())), "probabilities", &format!("ftrl_fit:layout={}", LAYOUTS[layout]), || format!("predict through a {} view {:?}, on the owned copy {:?}", LAYOUTS[layout], pv, po));
            }
            let ds = DatasetView::new(mk_view(&store, p, layout), mk_tview(&ystore, layout));
            viewed = Some(params[i].fit_with(viewed.take(), &ds).expect("fit_with on a view"));
        }
        tag(&format!("ok:ftrl_fit:view_fitted:{}", LAYOUTS[layout]));
        let v = viewed.unwrap();
        ctx.require(near_v(&v.z().to_vec(), &b.z().to_vec(), 1e-12) && near_v(&v.n().to_vec(), &b.n().to_vec(), 1e-12), "function_of_history", &format!("ftrl_fit:layout={}", LAYOUTS[layout]), || format!("the history fed through {} views ends in z {:?} n {:?} instead of z {:?} n {:?}", LAYOUTS[layout], v.z(), v.n(), b.z(), b.n()));
        format!("ok {}", parts.join(" "))
    });
}

/// `Ftrl<f32>`: a seeded `fit_with` history (every memory layout).  Oracle in f64, step by step from the model's
/// own previous state, so the f32 error does not accumulate: one update is the gradient (<= 5 products, <= 6
/// roundings), sigma and the weight (<= 6 more) on quantities of magnitude <= ~50: judged at 2e-5 (1 + |x|);
/// probabilities with the f32 bound of `ftrl_prob_check`
fn op_ftrl_f32_fit(em: &mut Em, hp: [f64; 4], seed: u64, p: usize, batches: &[(Rows, Vec<bool>)], layout: usize) {
    let op = format!(
        "#ftrl_f32_fit hp={} seed={} layout={} x={} y={}",
        list(hp.iter(), |x| hex64(*x)),
        seed,
        LAYOUTS[layout],
        list3(batches.iter().map(|(r, _)| r.iter().map(|x| x.iter())), |x| hex64(*x)),
        list2(batches.iter().map(|(_, l)| l.iter()), |x| (*x as u8).to_string())
    );
    case_t(em, op, "ftrl_f32_fit", |ctx| {
        let hp32: [f64; 4] = [hp[0] as f32 as f64, hp[1] as f32 as f64, hp[2] as f32 as f64, hp[3] as f32 as f64];
        let params = Ftrl::<f32>::params_with_rng(Xoshiro256Plus::seed_from_u64(seed)).alpha(hp[0] as f32).beta(hp[1] as f32).l1_ratio(hp[2] as f32).l2_ratio(hp[3] as f32).check().expect("valid FTRL parameters");
        let w = |v: &Array1<f32>| -> Vec<f64> { v.iter().map(|x| *x as f64).collect() };
        let mut model: Option<Ftrl<f32>> = None;
        for (i, (xs, ys)) in batches.iter().enumerate() {
            let prev = model.clone().unwrap_or_else(|| Ftrl::new(params.clone(), p));
            let (z, n) = (w(prev.z()), w(prev.n()));
            if i == 0 {
                ctx.require(z.iter().all(|v| (0.0..1.0).contains(v)) && n.iter().all(|v| *v == 0.0), "function_of_history", "ftrl_f32_fit", || format!("fresh model z {:?} n {:?}", z, n));
            }
            let store = mk_store::<f32>(xs, p, layout);
            let ystore = mk_tstore(ys, layout);
            let probs: Vec<f32> = prev.predict(&mk_view(&store, p, layout)).iter().map(|pr| **pr).collect();
            ftrl_prob_check(ctx, "ftrl_f32_fit", i, &z, &n, &hp32, xs, &probs, 6e-8);
            let ds = DatasetView::new(mk_view(&store, p, layout), mk_tview(&ystore, layout));
            let m = params.fit_with(model.take(), &ds).expect("fit_with");
            tag(&format!("ok:ftrl_f32_fit:batch_fitted:{}", LAYOUTS[layout]));
            let (wz, wn) = ftrl_expect(&z, &n, &hp32, &probs, xs, ys);
            let (gz, gn) = (w(m.z()), w(m.n()));
            ctx.require(near_v(&gz, &wz, 2e-5) && near_v(&gn, &wn, 2e-5), "recurrence", "ftrl_f32_fit", || format!("step {}: z {:?} n {:?}, recurrence from the previous state gives z {:?} n {:?}", i, gz, gn, wz, wn));
            ctx.require(gn.iter().zip(&n).all(|(a, b)| a >= b), "n_monotone", "ftrl_f32_fit", || format!("step {}: n decreased: {:?} -> {:?}", i, n, gn));
            zero_check(ctx, "ftrl_f32_fit", "after the update", i, &gz, &w(&m.get_weights()), &hp32);
            model = Some(m);
        }
        "-".to_string()
    });
}

/// Hyper-parameters that `FtrlParams::check` accepts although the documented closed form divides by zero:
/// `beta = l2 = 0` on a fresh model (`n = 0`: weight = (±l1 − z)/0 = ∓inf wherever |z| > l1) and `alpha = 0`
/// (sigma = x/0).  The statement's clauses are judged in IEEE arithmetic: the update is still the documented
/// recurrence evaluated on the previous state (inf / NaN compare equal to inf / NaN), a weight is 0 exactly
/// where |z| <= l1.  Probabilities of non-finite logits are not judged (the documented sigmoid has no value).
fn op_ftrl_degenerate(em: &mut Em, hp: [f64; 4], seed: u64, p: usize, batches: &[(Rows, Vec<bool>)]) {
    let op = format!(
        "#ftrl_degenerate hp={} seed={} x={} y={}",
        list(hp.iter(), |x| hex64(*x)),
        seed,
        list3(batches.iter().map(|(r, _)| r.iter().map(|x| x.iter())), |x| hex64(*x)),
        list2(batches.iter().map(|(_, l)| l.iter()), |x| (*x as u8).to_string())
    );
    case_t(em, op, "ftrl_degenerate", |ctx| {
        let params = mk_params!(hp, seed);
        let mut model: Option<Ftrl<f64>> = None;
        for (i, (xs, ys)) in batches.iter().enumerate() {
            let prev = model.clone().unwrap_or_else(|| Ftrl::new(params.clone(), p));
            let (z, n) = (prev.z().to_vec(), prev.n().to_vec());
            let w0 = prev.get_weights().to_vec();
            // only the statement's direction: zero WHEREVER |z| <= l1.  The converse is not promised and is false
            // here: with alpha = 0 the denominator is infinite and every weight is (−)0, also where |z| > l1
            let zero_where_le = |ctx: &mut Ctx, what: &str, z: &[f64], w: &[f64]| {
                for j in 0..z.len() {
                    ctx.require(!(z[j].abs() <= hp[2]) || w[j] == 0.0, "zero_iff_within_l1", "ftrl_degenerate", || format!("step {} ({}): coordinate {}: z {} l1 {} weight {}", i, what, j, z[j], hp[2], w[j]));
                }
            };
            zero_where_le(ctx, "before the update", &z, &w0);
            let probs: Vec<f32> = prev.predict(&arr2(xs, p)).iter().map(|pr| **pr).collect();
            let m = params.fit_with(model.take(), &mk_bool_ds(xs, ys, p)).expect("fit_with");
            let (wz, wn) = ftrl_expect(&z, &n, &hp, &probs, xs, ys);
            let (gz, gn) = (m.z().to_vec(), m.n().to_vec());
            ctx.require(near_v(&gz, &wz, 1e-9) && near_v(&gn, &wn, 1e-9), "recurrence", "ftrl_degenerate", || format!("step {}: z {:?} n {:?}, the recurrence in IEEE arithmetic gives z {:?} n {:?}", i, gz, gn, wz, wn));
            zero_where_le(ctx, "after the update", &gz, &m.get_weights().to_vec());
            tag(if gz.iter().all(|v| v.is_finite()) { "ok:ftrl_degenerate:state_finite" } else { "ok:ftrl_degenerate:state_not_finite" });
            model = Some(m);
        }
        "-".to_string()
    });
}

/// `Ftrl<f32>`: one `update` from a lattice state and `predict`, oracle in f64.  Error bound: the gradient is
/// a sum of <= 6 products of exact f32 values (<= 7 roundings), sigma and the weight take <= 6 more: <= 15
/// roundings of 6e-8 on quantities of magnitude <= ~50: judged at 2e-5 (1 + |x|).
fn op_ftrl_f32(em: &mut Em, hp: [f64; 4], z: &[f64], n: &[f64], probs: &[f32], xs: &Rows, ys: &[bool], wide: &Rows) {
    let p = z.len();
    let op = format!(
        "#ftrl_f32 hp={} z={} n={} probs={} x={} y={} wide={}",
        list(hp.iter(), |x| hex64(*x)),
        list(z.iter(), |x| hex64(*x)),
        list(n.iter(), |x| hex64(*x)),
        list(probs.iter(), |x| hex64(*x as f64)),
        list2(xs.iter().map(|x| x.iter()), |x| hex64(*x)),
        list(ys.iter(), |x| (*x as u8).to_string()),
        list2(wide.iter().map(|x| x.iter()), |x| hex64(*x))
    );
    case_t(em, op, "ftrl_f32", |ctx| {
        let hp32: [f64; 4] = [hp[0] as f32 as f64, hp[1] as f32 as f64, hp[2] as f32 as f64, hp[3] as f32 as f64];
        let arr = |v: &[f64]| serde_json::json!({"v": 1, "dim": [v.len()], "data": v});
        let mut m: Ftrl<f32> = serde_json::from_value(serde_json::json!({"alpha": hp[0], "beta": hp[1], "l1_ratio": hp[2], "l2_ratio": hp[3], "z": arr(z), "n": arr(n)})).expect("Ftrl<f32> deserialises");
        let w0: Vec<f64> = m.get_weights().iter().map(|v| *v as f64).collect();
        zero_check(ctx, "ftrl_f32", "start state", 0, z, &w0, &hp32);
        // predictions of the start state on wide rows (clamp region)
        let a32 = |r: &Rows| Array2::<f32>::from_shape_fn((r.len(), p), |(i, j)| r[i][j] as f32);
        let got: Vec<f32> = m.predict(&a32(wide)).iter().map(|pr| **pr).collect();
        ftrl_prob_check(ctx, "ftrl_f32", 0, z, n, &hp32, wide, &got, 6e-8);
        let ds = Dataset::new(a32(xs), Array1::from(ys.to_vec()));
        let pr: Array1<Pr> = Array1::from(probs.iter().map(|x| Pr::new(*x)).collect::<Vec<_>>());
        m.update(&ds, pr.view());
        tag("ok:ftrl_f32:updated");
        let (wz, wn) = ftrl_expect(z, n, &hp32, probs, xs, ys);
        let (gz, gn): (Vec<f64>, Vec<f64>) = (m.z().iter().map(|v| *v as f64).collect(), m.n().iter().map(|v| *v as f64).collect());
        ctx.require(near_v(&gz, &wz, 2e-5) && near_v(&gn, &wn, 2e-5), "recurrence", "ftrl_f32", || format!("z {:?} n {:?}, recurrence gives z {:?} n {:?}", gz, gn, wz, wn));
        ctx.require(gn.iter().zip(n).all(|(a, b)| a >= b), "n_monotone", "ftrl_f32", || format!("n decreased: {:?} -> {:?}", n, gn));
        let w: Vec<f64> = m.get_weights().iter().map(|v| *v as f64).collect();
        zero_check(ctx, "ftrl_f32", "after the update", 0, &gz, &w, &hp32);
        "-".to_string()
    });
}

pub(super) fn run(em: &mut Em, rng: &mut Rng) {
    let thorough = em.thorough();
    let nft = if thorough { 6000 } else { 800 };
    for i in 0..nft {
        let p = 1 + rng.below(4);
        let mut hp = [*rng.pick(&[0.005, 0.5, 1.0, 2.0]), *rng.pick(&[0.0, 0.5, 1.0]), *rng.pick(&[0.0, 0.25, 0.5, 1.0]), *rng.pick(&[0.0, 0.5, 1.0])];
        // beta = l2 = 0 makes a weight with n = 0 a division by zero in the textbook formula itself: such
        // hyper-parameters are used with strictly positive n only (lattice start states), never with fit_with
        let degenerate = hp[1] == 0.0 && hp[3] == 0.0;
        // lattice state with |z| on, below and above the l1 threshold
        let z: Vec<f64> = (0..p)
            .map(|_| match rng.below(4) {
                0 => hp[2],
                1 => -hp[2],
                _ => rng.range(-16, 16) as f64 / 8.0,
            })
            .collect();
        // beta = l2 = 0: half of the start states keep n >= 1/4, the other half may have n = 0 (the weight is then
        // (±l1 − z)/0 = ∓inf where |z| > l1; both sides evaluate it in IEEE arithmetic) — those go to `ftrl_update` only
        let lo = if degenerate && i % 2 == 0 { 1 } else { 0 };
        let n: Vec<f64> = (0..p).map(|_| (rng.range(lo, 6) * rng.range(lo, 6)) as f64 / 4.0).collect();
        let infinite_weight = degenerate && z.iter().zip(&n).any(|(z, n)| *n == 0.0 && z.abs() > hp[2]);
        let rows = 1 + rng.below(6);
        // scale 1: logits of a few units; 16 / 64: far beyond the +-35 clamp of the sigmoid on both sides
        let scale = *rng.pick(&[1.0, 1.0, 16.0, 64.0]);
        let xs: Rows = (0..rows).map(|_| (0..p).map(|_| rng.range(-3, 3) as f64).collect()).collect();
        let wide: Rows = (0..rows).map(|_| (0..p).map(|_| rng.range(-3, 3) as f64 * scale).collect()).collect();
        let ys: Vec<bool> = (0..rows).map(|_| rng.coin()).collect();
        let probs: Vec<f32> = (0..rows).map(|_| rng.range(0, 16) as f32 / 16.0).collect();
        if degenerate {
            em.count("ftrl:beta=0,l2=0");
        }
        op_ftrl_update(em, hp, &z, &n, &probs, &xs, &ys);
        if infinite_weight {
            em.count("ftrl:beta=0,l2=0,n=0:infinite_weight");
        } else {
            op_ftrl_pred(em, hp, &z, &n, &wide);
            if i % 3 == 0 {
                op_ftrl_f32(em, hp, &z, &n, &probs, &xs, &ys, &wide);
            }
        }
        if degenerate {
            hp[3] = 0.5;
        }
        // full histories from the seeded initial state; every fourth with wide rows (clamped logits)
        let nb = 1 + rng.below(if thorough { 10 } else { 5 });
        let fscale = if i % 4 == 3 { *rng.pick(&[16.0, 64.0]) } else { 1.0 };
        let batches: Vec<(Rows, Vec<bool>)> = (0..nb)
            .map(|_| {
                let r = 1 + rng.below(5);
                ((0..r).map(|_| (0..p).map(|_| rng.range(-3, 3) as f64 * fscale).collect()).collect(), (0..r).map(|_| rng.coin()).collect())
            })
            .collect();
        // every third history: the parameters of the later calls carry other hyper-parameters than the model
        let mut hps = vec![hp; nb];
        if i % 3 == 1 {
            for h in hps.iter_mut().skip(1) {
                *h = [*rng.pick(&[0.005, 0.5, 1.0, 2.0]), *rng.pick(&[0.5, 1.0]), *rng.pick(&[0.0, 0.25, 0.5, 1.0]), *rng.pick(&[0.0, 0.5, 1.0])];
            }
        }
        let seed = rng.next() % 1000;
        op_ftrl_fit(em, &hps, seed, p, &batches, 1 + i % (LAYOUTS.len() - 1));
        if i % 4 == 2 && fscale == 1.0 {
            op_ftrl_f32_fit(em, hp, seed, p, &batches, (i / 4) % LAYOUTS.len());
        }
        if i % 16 == 7 {
            // accepted by `check`, yet the closed form divides by zero: beta = l2 = 0 from a fresh model, alpha = 0
            let dhp = if i % 32 == 7 { [hp[0], 0.0, *rng.pick(&[0.0, 0.25]), 0.0] } else { [0.0, hp[1], hp[2], hp[3]] };
            op_ftrl_degenerate(em, dhp, seed, p, &batches);
        }
    }
}
