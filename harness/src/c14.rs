//! C14 — decision trees: structure walk through the public API (`root_node`, `TreeNode::{split,
//! children, prediction, depth, is_leaf}`, `feature_importance`, `predict`, `num_leaves`,
//! `max_depth`, `features`, `iter_nodes`) compared with the Lean model, and the property's clauses
//! recomputed from first principles on the fitted tree.
//!
//! Inputs are lattice data: features `int / 2^xd` (exact in the feature type, `f64` or `f32`),
//! weights `f32(int / (2^wd * wq))`, limits in quarter units.  With `wq = 1` every weight sum, every
//! `<`/`<=` on weights and every midpoint is exact; only the f32 impurity arithmetic rounds, and the
//! model performs the same f32 operations in the same order (label order of `sorted_frequencies`),
//! so the whole response is compared bit for bit.  `wq = 10` (decimal weights 0.1 … 0.9) probes the
//! region where the running `+=` / `-=` class weights of the sweep are no longer the exact weights of
//! the applied partition.
//!
//! `form` selects the calling form on the Rust side: dataset shape handed to `fit` (7), way `predict`
//! is called (8), memory layout of the fitted records and of the predicted records (9 each: C / Fortran
//! order, negative strides on either or both axes — owned arrays after `invert_axis` and views of them —
//! and a strided window); the model does not depend on it.
//!
//! Features are `int / 2^xd * 2^xe`; the extreme stream uses `xe` at the top of the exponent range
//! (sums of two values overflow) and the integers `±2^62` for `±inf`.  NaN is not generated: it is
//! outside the statement (no order, hence no partition of feature space), and `sort_by` with
//! `partial_cmp(..).unwrap_or(Greater)` is not a total order there.
use crate::util::*;
use linfa::dataset::{AsSingleTargets, CountedTargets, Labels};
use linfa::prelude::*;
use linfa::Label;
use linfa_trees::{DecisionTree, DecisionTreeParams, SplitQuality, TreeNode};
use ndarray::{s, Array1, Array2, ArrayBase, ArrayView2, Axis, Data, Ix2, ShapeBuilder};
use std::cell::RefCell;

pub const N_FORMS: usize = 7 * 8 * 9 * 9;
/// tolerance of `decrease_actual`: the reported decrease went through f32 impurity arithmetic
/// (unit roundoff 6e-8, a handful of operations on values <= log2(6)); the recomputation is f64.
/// Largest deviations observed on the unchanged tree (thorough tier, seeds 1-3): Gini 1.6e-7 with
/// dyadic and 2.7e-7 with decimal weights, entropy 5.3e-7 with dyadic weights; entropy with decimal
/// weights 2.8e-6 (the running `-=` leaves a weight of ~1e-7 instead of 0 for a class that has left
/// the right side, and `-x log2 x` has unbounded slope at 0).  About three times the observed.
fn dec_tol(entropy: bool, dyadic: bool) -> f64 {
    match (entropy, dyadic) {
        (false, true) => 5e-7,
        (false, false) => 1e-6,
        (true, true) => 1.5e-6,
        (true, false) => 1e-5,
    }
}

#[derive(Clone)]
struct Case {
    ft32: bool,
    form: usize,
    entropy: bool,
    md: Option<usize>,
    mws4: u32,
    mwl4: u32,
    mid: f64,
    xd: u32,
    /// features are `int / 2^xd * 2^xe`; the integers `±INF_CODE` stand for `±inf`
    xe: u32,
    xs: Vec<Vec<i64>>,
    ys: Vec<usize>,
    ws: Option<Vec<i64>>,
    wd: u32,
    wq: u32,
    pr: Vec<Vec<i64>>,
    p: usize,
    /// label type: 0 usize ascending, 1 bool, 2 String (reverse alphabetical), 3 usize scrambled
    lt: u8,
}

/// the integer that stands for an infinite feature value
const INF_CODE: i64 = 1 << 62;

/// number of classes the model sees: class indices are `0..k`
fn n_classes(ys: &[usize]) -> usize {
    ys.iter().copied().max().map(|m| m + 1).unwrap_or(0)
}

fn scr(c: usize) -> usize {
    ((c * 5 + 2) % 7) * 11 + 1
}

/// class indices in the order of the label type
fn label_order(lt: u8, k: usize) -> Vec<usize> {
    let mut v: Vec<usize> = (0..k).collect();
    match lt {
        0 | 1 => {}
        2 => v.reverse(),
        _ => v.sort_by_key(|&c| scr(c)),
    }
    v
}

impl Case {
    fn op(&self) -> String {
        let l2 = |v: &Vec<Vec<i64>>| if v.is_empty() { String::new() } else { list2(v.iter().map(|r| r.iter()), |x| x.to_string()) };
        format!(
            "fit ft={} form={} crit={} md={} mws4={} mwl4={} mid={} xd={} xe={} p={} xs={} ys={} lo={} ws={} wd={} wq={} pr={} lt={}",
            if self.ft32 { 32 } else { 64 },
            self.form,
            if self.entropy { "e" } else { "g" },
            self.md.map(|d| d.to_string()).unwrap_or("none".into()),
            self.mws4,
            self.mwl4,
            hex64(self.mid),
            self.xd,
            self.xe,
            self.p,
            l2(&self.xs),
            list(self.ys.iter(), |y| y.to_string()),
            list(label_order(self.lt, n_classes(&self.ys)).iter(), |y| y.to_string()),
            self.ws.as_ref().map(|w| list(w.iter(), |x| x.to_string())).unwrap_or("none".into()),
            self.wd,
            self.wq,
            l2(&self.pr),
            self.lt
        )
    }
    fn val(&self, q: i64) -> f64 {
        if q == INF_CODE {
            f64::INFINITY
        } else if q == -INF_CODE {
            f64::NEG_INFINITY
        } else {
            q as f64 / (1u64 << self.xd) as f64 * (2.0f64).powi(self.xe as i32)
        }
    }
    fn x(&self, i: usize, f: usize) -> f64 {
        self.val(self.xs[i][f])
    }
    /// the weight the dataset holds (an `f32`); a weight vector shorter than the data answers 1.0
    /// beyond its end (`DatasetBase::weight_for`)
    fn w32(&self, i: usize) -> f32 {
        match &self.ws {
            Some(w) if i < w.len() => (w[i] as f64 / ((1u64 << self.wd) as f64 * self.wq as f64)) as f32,
            _ => 1.0,
        }
    }
    fn w(&self, i: usize) -> f64 {
        self.w32(i) as f64
    }
    fn class(&self) -> String {
        format!(
            "crit={};weights={}",
            if self.entropy { "entropy" } else { "gini" },
            match (&self.ws, self.wq) {
                (None, _) => "no",
                (Some(_), 1) => "yes",
                _ => "decimal",
            }
        )
    }
}

fn impurity(entropy: bool, fr: &[f64]) -> f64 {
    let n: f64 = fr.iter().sum();
    if entropy {
        fr.iter().map(|x| x / n).map(|x| if x > 0.0 { -x * x.log2() } else { 0.0 }).sum()
    } else {
        1.0 - fr.iter().map(|x| (x / n) * (x / n)).sum::<f64>()
    }
}

thread_local! {
    static MAX_DEV: RefCell<[f64; 4]> = RefCell::new([0.0; 4]);
}

struct Walk<'a, L> {
    c: &'a Case,
    k: usize,
    mid: f64,
    dec: &'a dyn Fn(&L) -> Option<usize>,
    toks: Vec<String>,
    n_splits: usize,
    n_leaves: usize,
    max_depth: usize,
    feats: Vec<usize>,
    /// leaf prediction reached by every training row (fit-time routing)
    leaf_pred: Vec<Option<usize>>,
    /// the dataset carried feature names `col<j>` (otherwise linfa names them `feature-<j>`)
    named: bool,
}

impl<'a, L: Label> Walk<'a, L> {
    fn freq(&self, rows: &[usize]) -> Vec<f64> {
        let mut f = vec![0.0; self.k];
        for &i in rows {
            f[self.c.ys[i]] += self.c.w(i);
        }
        f
    }
    fn go<F: linfa::Float>(&mut self, ctx: &mut Ctx, node: &TreeNode<F, L>, rows: Vec<usize>, depth: usize) {
        let c = self.c;
        let class = c.class();
        ctx.require(node.depth() == depth, "depth_field", &class, || format!("node at depth {} reports depth {}", depth, node.depth()));
        if let Some(md) = c.md {
            ctx.require(depth <= md, "max_depth", &class, || format!("node at depth {} with max_depth {}", depth, md));
        }
        self.max_depth = self.max_depth.max(depth);
        let ch = node.children();
        let (l, r) = (ch[0].as_ref(), ch[1].as_ref());
        let (f, s, d) = node.split();
        let (s, d) = (s.to_f64().unwrap(), d.to_f64().unwrap());
        let dtok = hex64c(d);
        // `feature_name()`: the name of the split's column for a split node, `None` for a leaf
        let want_name = if node.is_leaf() { None } else { Some(if self.named { format!("col{}", f) } else { format!("feature-{}", f) }) };
        ctx.require(node.feature_name().cloned() == want_name, "feature_name", &class, || format!("node at depth {} splitting on feature {} reports feature_name {:?}, expected {:?}", depth, f, node.feature_name(), want_name));
        if node.is_leaf() {
            self.n_leaves += 1;
            let pred = node.prediction();
            let pi = pred.as_ref().and_then(|p| (self.dec)(p));
            ctx.require(pi.is_some(), "seen_label", &class, || format!("leaf predicts {:?}, not a training label", pred));
            let pidx = pi.unwrap_or(usize::MAX);
            // outside the statement's guard (`min_weight_leaf = 0`) a side of a split may be empty: the
            // one-child node is then compared with the model, not demanded to be absent
            ctx.require((l.is_none() && r.is_none()) || c.mwl4 == 0, "two_children", &class, || format!("leaf-flagged node at depth {} keeps a child (left {}, right {})", depth, l.is_some(), r.is_some()));
            ctx.require(!rows.is_empty(), "leaf_nonempty", &class, || format!("no training row reaches the leaf at depth {}", depth));
            if pi.is_some() && !rows.is_empty() {
                let fr = self.freq(&rows);
                let mx = fr.iter().cloned().fold(f64::MIN, f64::max);
                // decimal weights: the class weights of the code are f32 running sums; allow the same
                // few f32 roundings of the node weight as for `min_weight_leaf`
                let slack = if c.wq == 1 { 0.0 } else { 4.0 * fr.iter().sum::<f64>() * (0.5f64).powi(24) };
                ctx.require(fr[pidx] >= mx - slack, "leaf_mode", &class, || format!("leaf at depth {} predicts class {} with weight {}, class weights {:?}", depth, pidx, fr[pidx], fr));
            }
            for &i in &rows {
                self.leaf_pred[i] = pi;
            }
            if l.is_none() && r.is_none() {
                self.toks.extend(["L".to_string(), pidx.to_string(), node.depth().to_string()]);
            } else {
                let (side, child) = if let Some(x) = l { ("l", x) } else { ("r", r.unwrap()) };
                self.toks.extend(["H".to_string(), f.to_string(), hex64(s), dtok, pidx.to_string(), node.depth().to_string(), side.to_string()]);
                // the kept child is walked for the correspondence only
                let mut sub = Walk { c, k: self.k, mid: self.mid, dec: self.dec, toks: vec![], n_splits: 0, n_leaves: 0, max_depth: 0, feats: vec![], leaf_pred: vec![None; c.xs.len()], named: self.named };
                let mut dummy = Ctx { fails: vec![], trivial: false };
                sub.go(&mut dummy, child, rows.clone(), depth + 1);
                self.toks.extend(sub.toks);
                self.n_leaves += sub.n_leaves;
                self.n_splits += sub.n_splits;
                self.max_depth = self.max_depth.max(sub.max_depth);
                self.feats.extend(sub.feats);
            }
            return;
        }
        self.n_splits += 1;
        self.feats.push(f);
        self.toks.extend(["N".to_string(), f.to_string(), hex64(s), dtok, node.depth().to_string()]);
        ctx.require(l.is_some() && r.is_some(), "two_children", &class, || format!("split node at depth {} lacks a child", depth));
        ctx.require(f < c.p, "feature_in_range", &class, || format!("feature index {} of {}", f, c.p));
        if f >= c.p {
            return;
        }
        let mws = c.mws4 as f64 / 4.0;
        let mwl = c.mwl4 as f64 / 4.0;
        ctx.require(rows.len() as f64 >= mws, "min_weight_split", &class, || format!("split node at depth {} reached by {} rows, min_weight_split {}", depth, rows.len(), mws));
        // rows between threshold and next value would be routed differently from the sweep's
        // partition; a row *on* the threshold is on the left at fit and predict time (`<=`)
        let lrows: Vec<usize> = rows.iter().copied().filter(|&i| c.x(i, f) <= s).collect();
        let rrows: Vec<usize> = rows.iter().copied().filter(|&i| !(c.x(i, f) <= s)).collect();
        let (fp, fl, fr) = (self.freq(&rows), self.freq(&lrows), self.freq(&rrows));
        let (wp, wl, wr): (f64, f64, f64) = (fp.iter().sum(), fl.iter().sum(), fr.iter().sum());
        // dyadic weights: every weight sum is exact, the comparison is exact.  Decimal weights are
        // f32 roundings of k/10; the code's running f32 sums and this f64 sum of the same f32 weights
        // may differ by a few f32 roundings of the node weight: allowance 4 * 2^-24 * total weight
        let slack = if c.wq == 1 { 0.0 } else { 4.0 * wp * (0.5f64).powi(24) };
        ctx.require(wl >= mwl - slack && wr >= mwl - slack, "min_weight_leaf", &class, || format!("split at depth {} leaves weight {} / {} , min_weight_leaf {}", depth, wl, wr, mwl));
        if wl > 0.0 && wr > 0.0 {
            let actual = impurity(c.entropy, &fp) - (wl / wp * impurity(c.entropy, &fl) + wr / wp * impurity(c.entropy, &fr));
            MAX_DEV.with(|m| {
                let mut m = m.borrow_mut();
                let slot = (c.entropy as usize) * 2 + (c.wq != 1) as usize;
                if (actual - d).abs() > m[slot] {
                    m[slot] = (actual - d).abs();
                }
            });
            ctx.require((actual - d).abs() <= dec_tol(c.entropy, c.wq == 1), "decrease_actual", &class, || format!("split at depth {} feature {} threshold {} reports decrease {} but the {} decrease is {}", depth, f, s, d, if c.entropy { "entropy" } else { "gini" }, actual));
        } else {
            // an empty side: `two_children` / `min_weight_leaf` report it when min_weight_leaf > 0;
            // with min_weight_leaf = 0 the statement's "actual decrease" has no defined value
            ctx.require(c.mwl4 == 0, "decrease_actual", &class, || format!("split at depth {} has an empty side (weights {} / {}): no actual decrease exists", depth, wl, wr));
        }
        ctx.require(d >= self.mid, "decrease_ge_min", &class, || format!("split at depth {} reports decrease {} < min_impurity_decrease {}", depth, d, self.mid));
        if let Some(x) = l {
            self.go(ctx, x, lrows, depth + 1);
        }
        if let Some(x) = r {
            self.go(ctx, x, rrows, depth + 1);
        }
    }
}

fn fit_ds<F: linfa::Float, L: Label + std::fmt::Debug, D: Data<Elem = F>, T: AsSingleTargets<Elem = L> + Labels<Elem = L>>(
    params: &DecisionTreeParams<F, L>,
    ds: &DatasetBase<ArrayBase<D, Ix2>, T>,
) -> Result<DecisionTree<F, L>, linfa::Error> {
    params.fit(ds)
}

/// number of memory layouts of a record matrix (see `Laid`)
pub const N_LAYOUTS: usize = 9;
const LAYOUT_NAMES: [&str; N_LAYOUTS] = ["c", "f", "c_rowrev", "f_rowrev", "c_colrev", "f_colrev", "c_bothrev", "f_bothrev", "strided"];

/// the matrix `a` held in one of nine memory layouts; `view()` always shows the logical content `a`.
/// 0 C order, 1 Fortran order; 2/3 C / Fortran storage of the row-reversed data with axis 0 inverted
/// (negative row stride; in Fortran storage every column is contiguous in memory and walked backwards);
/// 4/5 column-reversed data with axis 1 inverted (negative column stride); 6/7 both axes inverted;
/// 8 a (2,2)-strided window of a larger array.  Layouts 0..=7 are *owned* arrays (an owned `Array2` keeps
/// negative strides after `invert_axis`), so they can also be handed over by value.
struct Laid<F> {
    arr: Array2<F>,
    kind: usize,
    p: usize,
}
impl<F: linfa::Float> Laid<F> {
    fn new(a: &Array2<F>, kind: usize) -> Self {
        let (n, p) = a.dim();
        let arr = if kind == 8 {
            let mut big = Array2::from_elem((2 * n + 1, 2 * p + 1), F::cast(-777.0));
            big.slice_mut(s![1..;2, ..2 * p;2]).assign(a);
            big
        } else {
            let (rr, cr) = (kind == 2 || kind == 3 || kind >= 6, kind >= 4);
            let src = |(i, j): (usize, usize)| a[(if rr { n - 1 - i } else { i }, if cr { p - 1 - j } else { j })];
            let mut b: Array2<F> = if kind % 2 == 1 { Array2::from_shape_fn((n, p).f(), src) } else { Array2::from_shape_fn((n, p), src) };
            if rr {
                b.invert_axis(Axis(0));
            }
            if cr {
                b.invert_axis(Axis(1));
            }
            b
        };
        let l = Laid { arr, kind, p };
        assert!(l.view() == a.view(), "layout {} does not show the data", kind);
        l
    }
    fn view(&self) -> ArrayView2<'_, F> {
        if self.kind == 8 {
            self.arr.slice(s![1..;2, ..2 * self.p;2])
        } else {
            self.arr.view()
        }
    }
    /// the owned array in this layout (the strided window has no owned form: its standard copy)
    fn owned(&self) -> Array2<F> {
        if self.kind == 8 {
            self.view().to_owned()
        } else {
            self.arr.clone()
        }
    }
}

fn fit_case<F: linfa::Float, L: Label + Default + std::fmt::Debug + Clone>(c: &Case, ctx: &mut Ctx, stats: &RefCell<Vec<String>>, enc: &dyn Fn(usize) -> L, dec: &dyn Fn(&L) -> Option<usize>) -> String {
    let n = c.xs.len();
    let class = c.class();
    let k = n_classes(&c.ys);
    // form = fit form + 7 * (predict form + 8 * (layout of the fitted records + 9 * layout of the predicted records))
    let (ff, pf, lf, lp) = (c.form % 7, (c.form / 7) % 8, (c.form / 56) % N_LAYOUTS, (c.form / 504) % N_LAYOUTS);
    let recs: Array2<F> = Array2::from_shape_fn((n, c.p), |(i, j)| F::cast(c.x(i, j)));
    let tg: Array1<L> = Array1::from_shape_fn(n, |i| enc(c.ys[i]));
    let wts: Option<Array1<f32>> = c.ws.as_ref().map(|w| Array1::from_shape_fn(w.len(), |i| c.w32(i)));
    let mid_f: F = F::cast(c.mid);
    let params = DecisionTree::<F, L>::params()
        .split_quality(if c.entropy { SplitQuality::Entropy } else { SplitQuality::Gini })
        .max_depth(c.md)
        .min_weight_split(c.mws4 as f32 / 4.0)
        .min_weight_leaf(c.mwl4 as f32 / 4.0)
        .min_impurity_decrease(mid_f);
    // ---- the calling form of `fit`
    macro_rules! with_w {
        ($ds:expr) => {{
            let ds = $ds;
            match &wts {
                Some(w) => ds.with_weights(w.clone()),
                None => ds,
            }
        }};
    }
    let laid = Laid::new(&recs, lf);
    let names: Vec<String> = (0..c.p).map(|j| format!("col{}", j)).collect();
    let fitted = match ff {
        // the owned array in its layout (negative strides included)
        0 => fit_ds(&params, &with_w!(DatasetBase::new(laid.owned(), tg.clone()))),
        // a view of the records, a view of the targets
        1 => fit_ds(&params, &with_w!(DatasetBase::new(laid.view(), tg.view()))),
        2 => {
            // a view of the records and a strided view of the targets (every second entry of a longer array)
            let tg2: Array1<L> = Array1::from_shape_fn(2 * n, |i| if i % 2 == 0 { enc(c.ys[i / 2]) } else { L::default() });
            fit_ds(&params, &with_w!(DatasetBase::new(laid.view(), tg2.slice(s![..;2]))))
        }
        3 => fit_ds(&params, &with_w!(DatasetBase::new(laid.view(), tg.clone()))),
        4 => {
            let ds = with_w!(DatasetBase::new(laid.owned(), tg.clone()));
            fit_ds(&params, &ds.view())
        }
        5 => fit_ds(&params, &with_w!(DatasetBase::new(laid.owned(), tg.clone())).with_feature_names(names)),
        _ => fit_ds(&params, &with_w!(DatasetBase::new(laid.view(), CountedTargets::new(tg.clone())))),
    };
    let tree = match fitted {
        Ok(t) => t,
        Err(e) => return format!("err {:?}", e).replace(' ', "_"),
    };
    let mut w = Walk { c, k, mid: mid_f.to_f64().unwrap(), dec, toks: vec![], n_splits: 0, n_leaves: 0, max_depth: 0, feats: vec![], leaf_pred: vec![None; n], named: ff == 5 };
    w.go(ctx, tree.root_node(), (0..n).collect(), 0);
    // ---- importances
    let imp: Vec<f64> = tree.feature_importance().iter().map(|x| x.to_f64().unwrap()).collect();
    if w.n_splits > 0 {
        let s: f64 = imp.iter().sum();
        let tol = if c.ft32 { 1e-6 } else { 1e-9 };
        ctx.require(imp.iter().all(|x| *x >= 0.0) && (s - 1.0).abs() <= tol, "importances", &class, || format!("importances {:?} (sum {})", imp, s));
    }
    ctx.require(imp.len() == c.p, "importances_len", &class, || format!("{} importances for {} features", imp.len(), c.p));
    // ---- accessors: num_leaves, max_depth, features, iter_nodes against the walk through children()
    let nl = tree.num_leaves();
    ctx.require(nl == w.n_leaves, "num_leaves", &class, || format!("num_leaves() = {} but the tree has {} leaf nodes", nl, w.n_leaves));
    let dmax = tree.max_depth();
    ctx.require(dmax == w.max_depth, "max_depth_accessor", &class, || format!("max_depth() = {} but the deepest node is at depth {}", dmax, w.max_depth));
    if let Some(md) = c.md {
        ctx.require(dmax <= md, "max_depth", &class, || format!("max_depth() = {} with max_depth parameter {}", dmax, md));
    }
    let feats = tree.features();
    let mut wf = w.feats.clone();
    wf.sort();
    wf.dedup();
    // level order by hand
    let mut level: Vec<&TreeNode<F, L>> = vec![tree.root_node()];
    let mut queue_pos = 0;
    while queue_pos < level.len() {
        let nd = level[queue_pos];
        queue_pos += 1;
        for ch in nd.children() {
            if let Some(x) = ch.as_ref() {
                level.push(x);
            }
        }
    }
    // `features()`: the feature index of every split node once, in the order the level order meets them
    let mut first_met: Vec<usize> = vec![];
    for nd in &level {
        if !nd.is_leaf() && !first_met.contains(&nd.split().0) {
            first_met.push(nd.split().0);
        }
    }
    ctx.require(feats == first_met, "features", &class, || format!("features() = {:?} but the level order meets the split features as {:?}", feats, first_met));
    let it: Vec<&TreeNode<F, L>> = tree.iter_nodes().collect();
    ctx.require(it.len() == level.len() && it.iter().zip(level.iter()).all(|(a, b)| std::ptr::eq(*a, *b)), "iter_nodes", &class, || format!("iter_nodes() yields {} nodes in an order that is not the level order of the {} nodes", it.len(), level.len()));
    let bfs = list(it.iter(), |nd| {
        if nd.is_leaf() {
            format!("{}L{}", nd.depth(), nd.prediction().as_ref().and_then(|p| dec(p)).unwrap_or(usize::MAX))
        } else {
            format!("{}N{}", nd.depth(), nd.split().0)
        }
    });
    // ---- prediction of the training rows = prediction of the leaf they were assigned while fitting
    let np = c.pr.len();
    let all: Array2<F> = Array2::from_shape_fn((n + np, c.p), |(i, j)| F::cast(if i < n { c.x(i, j) } else { c.val(c.pr[i - n][j]) }));
    let laid_p = Laid::new(&all, lp);
    let pred: Array1<L> = match pf {
        0 => tree.predict(&laid_p.owned()),
        1 => tree.predict(&laid_p.view()),
        2 => {
            let ds = DatasetBase::new(laid_p.view(), Array1::<usize>::zeros(n + np));
            tree.predict(&ds)
        }
        3 => {
            let out: DatasetBase<Array2<F>, Array1<L>> = tree.predict(laid_p.owned());
            out.targets().clone()
        }
        4 => {
            let ds = DatasetBase::new(laid_p.owned(), Array1::<usize>::zeros(n + np));
            let out: DatasetBase<Array2<F>, Array1<L>> = tree.predict(ds);
            out.targets().clone()
        }
        5 => {
            let out: DatasetBase<ArrayView2<F>, Array1<L>> = tree.predict(laid_p.view());
            out.targets().clone()
        }
        6 => {
            let mut y: Array1<L> = Array1::default(n + np);
            tree.predict_inplace(&laid_p.owned(), &mut y);
            y
        }
        _ => {
            let mut y: Array1<L> = Array1::default(n + np);
            tree.predict_inplace(&laid_p.view(), &mut y);
            y
        }
    };
    let pidx: Vec<Option<usize>> = pred.iter().map(|p| dec(p)).collect();
    ctx.require(pidx.len() == n + np, "predict_len", &class, || format!("{} predictions for {} rows", pidx.len(), n + np));
    for i in 0..n.min(pidx.len()) {
        ctx.require(pidx[i].is_some() && pidx[i] == w.leaf_pred[i], "routing_consistent", &class, || format!("row {} predicted {:?}, the leaf it was assigned while fitting predicts {:?}", i, pidx[i], w.leaf_pred[i]));
    }
    for i in 0..pidx.len() {
        ctx.require(pidx[i].is_some(), "seen_label", &class, || format!("prediction {:?} is not a training label", pred[i]));
    }
    {
        let mut st = stats.borrow_mut();
        let ft = if c.ft32 { "f32" } else { "f64" };
        st.push(format!("fitted:ft={}", ft));
        st.push(format!("fitted:fit_form={}", ff));
        st.push(format!("fitted:predict_form={}", pf));
        st.push(format!("fitted:fit_layout={}", LAYOUT_NAMES[lf]));
        st.push(format!("fitted:predict_layout={}", LAYOUT_NAMES[lp]));
        // the layouts in which a feature column is contiguous in memory but walked backwards
        if lf == 3 || lf == 7 || (c.p == 1 && (lf == 2 || lf == 6)) {
            st.push(format!("fitted:fit_column_backwards;ft={}", ft));
        }
        st.push(format!("fitted:label_type={}", ["usize", "bool", "string", "usize_scrambled"][c.lt as usize]));
        st.push(format!("fitted:weights={}", class.rsplit('=').next().unwrap()));
        st.push(format!("fitted:crit={}", if c.entropy { "entropy" } else { "gini" }));
        st.push(format!("splits:{}", match w.n_splits { 0 => "0", 1..=2 => "1-2", 3..=6 => "3-6", _ => "7+" }));
        if w.n_splits > 0 {
            st.push(format!("split_tree:ft={}", ft));
            st.push(format!("split_tree:crit={};classes={}", if c.entropy { "entropy" } else { "gini" }, if k > 2 { "3+" } else { "2" }));
        }
        st.push(format!("tree_depth:{}", if w.max_depth >= 4 { "4+".to_string() } else { w.max_depth.to_string() }));
        if wf.len() > 1 {
            st.push("features_used:2+".to_string());
        }
        if feats.windows(2).any(|p| p[0] > p[1]) {
            // the returned order differs from the ascending one: the order comparison has teeth
            st.push("features_order:not_ascending".to_string());
        }
        if c.xe > 0 {
            st.push(format!("extreme:fitted;ft={}", ft));
            if w.n_splits > 0 {
                st.push(format!("extreme:split_tree;ft={}", ft));
            }
            // a split whose two neighbouring values have a sum beyond the exponent range, or an infinite threshold
            if w.toks.iter().any(|t| t == &hex64(f64::INFINITY) || t == &hex64(f64::NEG_INFINITY)) {
                st.push("extreme:infinite_threshold".to_string());
            }
        }
        if c.ws.as_ref().map(|w| w.len() < n).unwrap_or(false) {
            st.push("fitted:short_weights".to_string());
        }
        if c.ws.as_ref().map(|w| w.iter().any(|x| *x == 0)).unwrap_or(false) {
            st.push("fitted:zero_weights".to_string());
        }
    }
    format!(
        "ok tree={} imp={} pred={} nl={} dmax={} feats={} bfs={}",
        w.toks.join(","),
        list(imp.iter(), |x| hex64c(*x)),
        list(pidx.iter(), |x| x.map(|v| v.to_string()).unwrap_or("?".into())),
        nl,
        dmax,
        list(feats.iter(), |f| f.to_string()),
        bfs
    )
}

fn fit_lab<F: linfa::Float>(c: &Case, ctx: &mut Ctx, stats: &RefCell<Vec<String>>, seen: &[usize]) -> String {
    let s2 = seen.to_vec();
    match c.lt {
        0 => fit_case::<F, usize>(c, ctx, stats, &|k| k * 7 + 3, &move |l: &usize| if *l >= 3 && (*l - 3) % 7 == 0 && s2.contains(&((*l - 3) / 7)) { Some((*l - 3) / 7) } else { None }),
        1 => fit_case::<F, bool>(c, ctx, stats, &|k| k == 1, &move |l: &bool| if s2.contains(&(*l as usize)) { Some(*l as usize) } else { None }),
        2 => fit_case::<F, String>(c, ctx, stats, &|k| format!("cls-{}", (b'f' - k as u8) as char), &move |l: &String| {
            let b = l.as_bytes();
            if b.len() == 5 && l.starts_with("cls-") && b[4] <= b'f' && s2.contains(&((b'f' - b[4]) as usize)) { Some((b'f' - b[4]) as usize) } else { None }
        }),
        _ => fit_case::<F, usize>(c, ctx, stats, &scr, &move |l: &usize| (0..7).find(|&k| scr(k) == *l).filter(|k| s2.contains(k))),
    }
}

fn run_case(em: &mut Em, c: Case) {
    let n = c.xs.len();
    em.count(&format!("n:{}", if n == 0 { "0" } else if n <= 4 { "1-4" } else if n <= 10 { "5-10" } else if n <= 20 { "11-20" } else { "21+" }));
    let mut dl = c.ys.clone();
    dl.sort();
    dl.dedup();
    em.count(&format!("classes:{}", dl.len()));
    em.count(if c.entropy { "crit:entropy" } else { "crit:gini" });
    em.count(&format!("weights:{}", c.class().rsplit('=').next().unwrap()));
    em.count(&format!("label_type:{}", ["usize", "bool", "string", "usize_scrambled"][c.lt as usize]));
    em.count(&format!("max_depth:{}", c.md.map(|d| if d >= 4 { "4+".to_string() } else { d.to_string() }).unwrap_or("none".into())));
    em.count(&format!("mwl4:{}", c.mwl4));
    em.count(if c.ft32 { "ft:f32" } else { "ft:f64" });
    let op = c.op();
    if std::env::var("C14_DEBUG").map(|v| v == "2").unwrap_or(false) {
        eprintln!("{} {}", em.idx, op);
    }
    let class = c.class();
    let seen: Vec<usize> = dl.clone();
    let demanded = n >= 1 && c.mwl4 > 0;
    let stats: RefCell<Vec<String>> = RefCell::new(vec![]);
    {
        let stats = &stats;
        let body = move |ctx: &mut Ctx| -> String {
            if c.ft32 {
                fit_lab::<f32>(&c, ctx, stats, &seen)
            } else {
                fit_lab::<f64>(&c, ctx, stats, &seen)
            }
        };
        // the property promises a tree for every labelled dataset and positive leaf weight; with
        // min_weight_leaf = 0 (or no rows) the fit may stop at an assert — compared, not demanded
        if demanded {
            em.case_valid(op, &class, body)
        } else {
            em.case(op, body)
        }
    }
    for k in stats.into_inner() {
        em.count(&k);
    }
}

/// streams: 0 lattice, 1 dyadic around the 1e-5 skip, 2 modal ties, 3 empty, 4 neighbouring floats,
/// 5 decimal weights, 6 large (more rows, more features, more distinct values), 7 extreme magnitudes
/// (finite values at the top of the exponent range, whose sums overflow, and infinite values)
fn gen_case(rng: &mut Rng, big: bool, stream: u8) -> Case {
    let ft32 = rng.chance(1, 3);
    let nmax = if stream == 6 { if big { 70 } else { 40 } } else if big { 28 } else { 11 };
    let n = match stream {
        3 => 0,
        6 => 12 + rng.below(nmax - 11),
        _ => 1 + rng.below(nmax),
    };
    let p = if stream == 6 { 1 + rng.below(5) } else { 1 + rng.below(3) };
    let k = 2 + rng.below(5); // 2..6 classes
    let lt = if k == 2 { *rng.pick(&[0u8, 1, 2, 3]) } else { *rng.pick(&[0u8, 2, 3]) };
    let xe: u32 = if stream == 7 { if ft32 { 125 } else { 1021 } } else { 0 };
    let (xd, vals): (u32, Vec<i64>) = match stream {
        // dyadic values around the 1e-5 equal-value skip: one unit = 2^-20 ≈ 9.5e-7
        1 => (20, vec![0, 10, 11, 21, 32, 42, 1 << 20, (1 << 20) + 10, (1 << 20) + 21, -11, -(1 << 19)]),
        // neighbouring floats (f64 at magnitude 2^40, spacing 2^-12; f32 at magnitude 128, spacing
        // 2^-16; both spacings > 1e-5): the midpoint of two neighbours is not representable and
        // rounds onto one of them
        4 => {
            let (xd, b) = if ft32 { (16, 1i64 << 23) } else { (12, 1i64 << 52) };
            (xd, vec![b, b + 1, b + 2, b + 3, b + 5, b + 8, b + 9])
        }
        6 => (0, (-6..=12).collect()),
        // multiples of 2^1021 (f64) / 2^125 (f32): |q| <= 7 is finite, the sum of two values with
        // |q1 + q2| >= 8 overflows; duplicates of +inf and -inf
        7 => (0, vec![-7, -6, -5, -3, -2, 0, 2, 3, 5, 6, 7, -7, 6, INF_CODE, -INF_CODE]),
        _ => {
            let r = *rng.pick(&[2i64, 3, 4, 7]);
            (0, (0..=r).map(|v| v - (r / 3)).collect())
        }
    };
    let xs: Vec<Vec<i64>> = (0..n).map(|_| (0..p).map(|_| *rng.pick(&vals)).collect()).collect();
    // labels: mostly a noisy function of the features so that trees have several levels
    let mode = rng.below(4);
    let ys: Vec<usize> = (0..n)
        .map(|i| match mode {
            0 => rng.below(k),
            1 => ((xs[i][0].rem_euclid(1000) as usize) + if rng.chance(1, 5) { rng.below(k) } else { 0 }) % k,
            2 => (xs[i].iter().fold(0i64, |a, v| a.wrapping_add(*v)).rem_euclid(1000) as usize + if rng.chance(1, 6) { 1 } else { 0 }) % k,
            _ => if xs[i][p - 1] > vals[vals.len() / 2] { rng.below(2) } else { (2 + rng.below(k - 1)) % k },
        })
        .collect();
    let (ws, wd, wq) = if stream == 2 {
        (None, 0, 1) // tie stream: equal weights, duplicates with conflicting labels
    } else if stream == 5 {
        // decimal weights 0.1 .. 0.9 (and a few > 1): not representable, the f32 running sums round
        (Some((0..n).map(|_| *rng.pick(&[1i64, 1, 2, 3, 3, 5, 7, 9, 11, 25])).collect()), 0, 10)
    } else if rng.chance(1, 2) {
        (None, 0, 1)
    } else {
        // dyadic weights; one weighted case in four contains zero weights, one in five a weight vector
        // shorter than the data (`weight_for` answers 1.0 beyond its end)
        let lo = if rng.chance(1, 4) { 0 } else { 1 };
        let len = if n > 1 && rng.chance(1, 5) { 1 + rng.below(n - 1) } else { n };
        (Some((0..len).map(|_| rng.range(lo, 5)).collect()), rng.below(2) as u32, 1)
    };
    // streams 4 and 7 hit repaired defects whose symptom without max_depth is an unbounded recursion (a
    // stack overflow aborts the process): they run with a depth limit, so that a regression is reported by
    // the oracle instead of by an aborted run
    let mut md = if stream == 4 { Some(1 + rng.below(3)) } else if stream == 7 { Some(1 + rng.below(5)) } else { *rng.pick(&[None, None, None, Some(0usize), Some(1), Some(2), Some(3), Some(4), Some(5), Some(6), Some(8)]) };
    let mws4 = *rng.pick(&[8u32, 8, 0, 4, 10, 12, 20]);
    let mwl4 = if rng.chance(1, 25) { 0 } else { *rng.pick(&[4u32, 4, 1, 2, 6, 8, 12]) };
    if mwl4 == 0 && wq != 1 && md.is_none() {
        // min_weight_leaf = 0 (outside the property's guard) with decimal weights: the right side's
        // running weight can end at ~1e-7 instead of 0, the impurity assert passes, the split sends
        // every row left and `fit` recurses on the same rows for ever — a stack overflow aborts the
        // process and cannot be caught in-process.  Such requests get a depth limit.
        md = Some(3);
    }
    let eps = if ft32 { f32::EPSILON as f64 } else { f64::EPSILON };
    let mid = *rng.pick(&[1e-5, 1e-5, eps, 0.01, 0.1, 0.25, 0.3, 0.5]);
    let np = rng.below(4);
    let mut pr: Vec<Vec<i64>> = (0..np).map(|_| (0..p).map(|_| { let v = *rng.pick(&vals); if stream == 4 || v.abs() == INF_CODE { v } else { v + rng.range(-1, 1) } }).collect()).collect();
    if xd == 0 && n > 0 {
        // probes at doubled resolution are not representable with xd = 0; probe the data values and neighbours only
        pr.push(xs[rng.below(n)].clone());
    }
    let form = rng.below(N_FORMS);
    if (2..=7).contains(&((form / 56) % N_LAYOUTS)) && md.is_none() {
        // records with a negative stride: a regression in how linfa reads them (a column read in memory
        // order) produces splits with an empty side, and without a depth limit fit then recurses until the
        // stack overflows, which aborts the run; with the limit the oracle names the failing input
        md = Some(6);
    }
    Case { ft32, form, entropy: rng.chance(2, 5), md, mws4, mwl4, mid, xd, xe, xs, ys, ws, wd, wq, pr, p, lt }
}

pub fn run(em: &mut Em, rng: &mut Rng) {
    let big = em.thorough();
    // fixed corner cases first
    let base = Case { ft32: false, form: 0, entropy: false, md: None, mws4: 8, mwl4: 4, mid: 1e-5, xd: 0, xe: 0, xs: vec![], ys: vec![], ws: None, wd: 0, wq: 1, pr: vec![], p: 1, lt: 0 };
    let mk = |xs: Vec<Vec<i64>>, ys: Vec<usize>| Case { p: xs.first().map(|r| r.len()).unwrap_or(1), xs, ys, ..base.clone() };
    // one row; constant feature; duplicates with conflicting labels; separable; 4-row modal tie
    run_case(em, mk(vec![vec![1]], vec![0]));
    run_case(em, mk(vec![vec![1], vec![1], vec![1]], vec![0, 1, 1]));
    run_case(em, mk(vec![vec![0], vec![0], vec![1], vec![1]], vec![0, 1, 1, 1]));
    run_case(em, mk(vec![vec![0], vec![1], vec![2], vec![3]], vec![0, 0, 1, 1]));
    run_case(em, mk(vec![vec![0], vec![0], vec![1], vec![1]], vec![0, 1, 0, 1]));
    run_case(em, Case { md: Some(0), ..mk(vec![vec![0], vec![1], vec![2], vec![3]], vec![0, 0, 1, 1]) });
    run_case(em, Case { mwl4: 0, ..mk(vec![vec![0, 1], vec![1, 0], vec![2, 3], vec![3, 1], vec![4, 0]], vec![0, 1, 0, 1, 2]) });
    // the 4-row modal tie in every label type (the tie goes to the smaller *label*) and form
    for lt in 0..4u8 {
        for form in (0..N_FORMS).step_by(101) {
            run_case(em, Case { lt, form, ft32: form % 2 == 1, ..mk(vec![vec![0], vec![0], vec![1], vec![1]], vec![0, 1, 0, 1]) });
        }
    }
    // three-way modal tie with six classes, max_depth 0 (one leaf): the smallest label wins
    for lt in [0u8, 2, 3] {
        run_case(em, Case { lt, md: Some(0), ..mk(vec![vec![0], vec![1], vec![2], vec![3], vec![4], vec![5], vec![6]], vec![5, 1, 3, 3, 5, 1, 0]) });
    }
    // witnesses of the two repaired findings (neighbouring doubles at 2^40: the midpoint rounds
    // onto the lower / the upper value), and the same two at magnitude 128 in f32
    let b52 = 1i64 << 52;
    run_case(em, Case { md: Some(1), xd: 12, ..mk(vec![vec![b52], vec![b52], vec![b52 + 1], vec![b52 + 1]], vec![0, 0, 1, 1]) });
    run_case(em, Case { md: Some(1), xd: 12, ..mk(vec![vec![b52 + 1], vec![b52 + 1], vec![b52 + 2], vec![b52 + 2]], vec![0, 0, 1, 1]) });
    let b23 = 1i64 << 23;
    run_case(em, Case { ft32: true, md: Some(1), xd: 16, ..mk(vec![vec![b23], vec![b23], vec![b23 + 1], vec![b23 + 1]], vec![0, 0, 1, 1]) });
    run_case(em, Case { ft32: true, md: Some(1), xd: 16, ..mk(vec![vec![b23 + 1], vec![b23 + 1], vec![b23 + 2], vec![b23 + 2]], vec![0, 0, 1, 1]) });
    // witnesses of the two findings repaired in round 3, f64 and f32: two negative values of very large
    // magnitude (the midpoint overflowed to -inf: every row went right), duplicates of +inf / -inf (not
    // recognised as equal: threshold inf, every row went left / the applied partition was not the scored one)
    for ft32 in [false, true] {
        let xe = if ft32 { 125 } else { 1021 };
        run_case(em, Case { ft32, xe, md: Some(3), ..mk(vec![vec![-6], vec![-6], vec![-5], vec![-5]], vec![0, 0, 1, 1]) });
        run_case(em, Case { ft32, xe, md: Some(3), ..mk(vec![vec![1], vec![INF_CODE], vec![INF_CODE]], vec![0, 0, 1]) });
        run_case(em, Case { ft32, xe, md: Some(3), ..mk(vec![vec![-INF_CODE], vec![-INF_CODE], vec![1], vec![1]], vec![0, 1, 1, 1]) });
        run_case(em, Case { ft32, xe, md: Some(3), ..mk(vec![vec![6], vec![6], vec![7], vec![7]], vec![0, 0, 1, 1]) });
    }
    let total = if big { 48000 } else { 3600 };
    for i in 0..total {
        let stream = match i % 24 {
            0..=7 => 0u8,
            8..=10 => 1,
            11..=13 => 2,
            14..=15 => 5,
            16..=19 => 6,
            20..=21 => 7,
            _ => if i % 240 == 23 { 3 } else { 4 },
        };
        em.count(&format!("stream:{}", ["lattice", "dyadic_eps", "modal_tie", "empty", "adjacent_floats", "decimal_weights", "large", "extreme"][stream as usize]));
        let c = gen_case(rng, big && i % 3 != 0, stream);
        run_case(em, c);
    }
    if std::env::var("C14_DEBUG").is_ok() {
        MAX_DEV.with(|m| eprintln!("C14 max |actual - reported decrease| [gini dyadic, gini decimal, entropy dyadic, entropy decimal] = {:?}", *m.borrow()));
    }
}
