//! C14 — decision trees: structure walk through the public API (`root_node`, `TreeNode::{split,
//! children, prediction, depth, is_leaf}`, `feature_importance`, `predict`) compared with the Lean
//! model, and the property's clauses recomputed from first principles on the fitted tree.
//!
//! Inputs are lattice data: features `int / 2^xd`, weights `int / 2^wd`, limits in quarter
//! units, so every weight sum, every `<`/`<=` on weights and every midpoint is exact; only the f32
//! impurity arithmetic rounds (see Drv/C14.lean for how the comparison handles that).
use crate::util::*;
use linfa::prelude::*;
use linfa::Label;
use linfa_trees::{DecisionTree, SplitQuality, TreeNode};
use ndarray::{Array1, Array2};

#[derive(Clone)]
struct Case {
    entropy: bool,
    md: Option<usize>,
    mws4: u32,
    mwl4: u32,
    mid: f64,
    xd: u32,
    xs: Vec<Vec<i64>>,
    ys: Vec<usize>,
    ws: Option<Vec<i64>>,
    wd: u32,
    pr: Vec<Vec<i64>>,
    p: usize,
    /// label type: 0 usize, 1 bool, 2 String
    lt: u8,
}

impl Case {
    fn op(&self) -> String {
        let l2 = |v: &Vec<Vec<i64>>| if v.is_empty() { String::new() } else { list2(v.iter().map(|r| r.iter()), |x| x.to_string()) };
        format!(
            "fit crit={} md={} mws4={} mwl4={} mid={} xd={} p={} xs={} ys={} ws={} wd={} pr={} lt={}",
            if self.entropy { "e" } else { "g" },
            self.md.map(|d| d.to_string()).unwrap_or("none".into()),
            self.mws4,
            self.mwl4,
            hex64(self.mid),
            self.xd,
            self.p,
            l2(&self.xs),
            list(self.ys.iter(), |y| y.to_string()),
            self.ws.as_ref().map(|w| list(w.iter(), |x| x.to_string())).unwrap_or("none".into()),
            self.wd,
            l2(&self.pr),
            self.lt
        )
    }
    fn x(&self, i: usize, f: usize) -> f64 {
        self.xs[i][f] as f64 / (1u64 << self.xd) as f64
    }
    fn w(&self, i: usize) -> f64 {
        match &self.ws {
            Some(w) => w[i] as f64 / (1u64 << self.wd) as f64,
            None => 1.0,
        }
    }
    fn class(&self) -> String {
        format!("crit={};weights={}", if self.entropy { "entropy" } else { "gini" }, if self.ws.is_some() { "yes" } else { "no" })
    }
}

fn impurity(entropy: bool, fr: &[f64]) -> f64 {
    let n: f64 = fr.iter().sum();
    if entropy {
        fr.iter().map(|x| x / n).map(|x| if x > 0.0 { -x * x.log2() } else { 0.0 }).sum()
    } else {
        1.0 - fr.iter().map(|x| (x / n) * (x / n)).sum::<f64>()
    }
}

struct Walk<'a, L> {
    c: &'a Case,
    k: usize,
    dec: &'a dyn Fn(&L) -> Option<usize>,
    toks: Vec<String>,
    tl: bool,
    has_split: bool,
    /// leaf prediction reached by every training row (fit-time routing)
    leaf_pred: Vec<Option<usize>>,
}

impl<'a, L: Label> Walk<'a, L> {
    fn freq(&self, rows: &[usize]) -> Vec<f64> {
        let mut f = vec![0.0; self.k];
        for &i in rows {
            f[self.c.ys[i]] += self.c.w(i);
        }
        f
    }
    fn go(&mut self, ctx: &mut Ctx, node: &TreeNode<f64, L>, rows: Vec<usize>, depth: usize) {
        let c = self.c;
        let class = c.class();
        ctx.require(node.depth() == depth, "depth_field", &class, || format!("node at depth {} reports depth {}", depth, node.depth()));
        if let Some(md) = c.md {
            ctx.require(depth <= md, "max_depth", &class, || format!("node at depth {} with max_depth {}", depth, md));
        }
        let ch = node.children();
        let (l, r) = (ch[0].as_ref(), ch[1].as_ref());
        let (f, s, d) = node.split();
        let dtok = format!("{}{}", if self.tl { "~" } else { "" }, hex64c(d));
        if node.is_leaf() {
            let pred = node.prediction();
            let pi = pred.as_ref().and_then(|p| (self.dec)(p));
            ctx.require(pi.is_some(), "seen_label", &class, || format!("leaf predicts {:?}, not a training label", pred));
            let pidx = pi.unwrap_or(usize::MAX);
            ctx.require(l.is_none() && r.is_none(), "two_children", &class, || format!("leaf-flagged node at depth {} keeps a child (left {}, right {})", depth, l.is_some(), r.is_some()));
            ctx.require(!rows.is_empty(), "leaf_nonempty", &class, || format!("no training row reaches the leaf at depth {}", depth));
            if pi.is_some() && !rows.is_empty() {
                let fr = self.freq(&rows);
                let mx = fr.iter().cloned().fold(f64::MIN, f64::max);
                ctx.require(fr[pidx] == mx, "leaf_mode", &class, || format!("leaf at depth {} predicts class {} with weight {}, class weights {:?}", depth, pidx, fr[pidx], fr));
            }
            for &i in &rows {
                self.leaf_pred[i] = pi;
            }
            if l.is_none() && r.is_none() {
                self.toks.extend(["L".to_string(), pidx.to_string(), node.depth().to_string()]);
            } else {
                let (side, child) = if let Some(x) = l { ("l", x) } else { ("r", r.unwrap()) };
                self.toks.extend(["H".to_string(), f.to_string(), hex64(s), dtok, pidx.to_string(), node.depth().to_string(), side.to_string()]);
                // the kept child is walked for the correspondence only
                let mut sub = Walk { c, k: self.k, dec: self.dec, toks: vec![], tl: self.tl, has_split: false, leaf_pred: vec![None; c.xs.len()] };
                let mut dummy = Ctx { fails: vec![], trivial: false };
                sub.go(&mut dummy, child, rows.clone(), depth + 1);
                self.toks.extend(sub.toks);
            }
            return;
        }
        self.has_split = true;
        self.toks.extend(["N".to_string(), f.to_string(), hex64(s), dtok, node.depth().to_string()]);
        ctx.require(l.is_some() && r.is_some(), "two_children", &class, || format!("split node at depth {} lacks a child", depth));
        ctx.require(f < c.p, "feature_in_range", &class, || format!("feature index {} of {}", f, c.p));
        if f >= c.p {
            return;
        }
        let mws = c.mws4 as f64 / 4.0;
        let mwl = c.mwl4 as f64 / 4.0;
        ctx.require(rows.len() as f64 >= mws, "min_weight_split", &class, || format!("split node at depth {} reached by {} rows, min_weight_split {}", depth, rows.len(), mws));
        // rows between threshold and next value would be routed differently from the sweep's
        // partition; a row *on* the threshold is on the left at fit and predict time (`<=`)
        let lrows: Vec<usize> = rows.iter().copied().filter(|&i| c.x(i, f) <= s).collect();
        let rrows: Vec<usize> = rows.iter().copied().filter(|&i| !(c.x(i, f) <= s)).collect();
        let (fp, fl, fr) = (self.freq(&rows), self.freq(&lrows), self.freq(&rrows));
        let (wp, wl, wr): (f64, f64, f64) = (fp.iter().sum(), fl.iter().sum(), fr.iter().sum());
        ctx.require(wl >= mwl && wr >= mwl, "min_weight_leaf", &class, || format!("split at depth {} leaves weight {} / {} , min_weight_leaf {}", depth, wl, wr, mwl));
        if wl > 0.0 && wr > 0.0 {
            let actual = impurity(c.entropy, &fp) - (wl / wp * impurity(c.entropy, &fl) + wr / wp * impurity(c.entropy, &fr));
            ctx.require((actual - d).abs() <= 1e-5, "decrease_actual", &class, || format!("split at depth {} feature {} threshold {} reports decrease {} but the {} decrease is {}", depth, f, s, d, if c.entropy { "entropy" } else { "gini" }, actual));
        }
        ctx.require(d >= c.mid, "decrease_ge_min", &class, || format!("split at depth {} reports decrease {} < min_impurity_decrease {}", depth, d, c.mid));
        if let Some(x) = l {
            self.go(ctx, x, lrows, depth + 1);
        }
        if let Some(x) = r {
            self.go(ctx, x, rrows, depth + 1);
        }
    }
}

fn fit_case<L: Label + std::fmt::Debug>(c: &Case, ctx: &mut Ctx, enc: &dyn Fn(usize) -> L, dec: &dyn Fn(&L) -> Option<usize>) -> String {
    let n = c.xs.len();
    let class = c.class();
    let k = c.ys.iter().copied().max().map(|m| m + 1).unwrap_or(0);
    let recs = Array2::from_shape_fn((n, c.p), |(i, j)| c.x(i, j));
    let tg: Array1<L> = Array1::from_shape_fn(n, |i| enc(c.ys[i]));
    let mut ds = DatasetBase::new(recs.clone(), tg);
    if c.ws.is_some() {
        ds = ds.with_weights(Array1::from_shape_fn(n, |i| c.w(i) as f32));
    }
    let params = DecisionTree::<f64, L>::params()
        .split_quality(if c.entropy { SplitQuality::Entropy } else { SplitQuality::Gini })
        .max_depth(c.md)
        .min_weight_split(c.mws4 as f32 / 4.0)
        .min_weight_leaf(c.mwl4 as f32 / 4.0)
        .min_impurity_decrease(c.mid);
    let tree = match params.fit(&ds) {
        Ok(t) => t,
        Err(e) => return format!("err {:?}", e).replace(' ', "_"),
    };
    let mut distinct: Vec<usize> = c.ys.clone();
    distinct.sort();
    distinct.dedup();
    let tl = c.entropy || distinct.len() > 2;
    let mut w = Walk { c, k, dec, toks: vec![], tl, has_split: false, leaf_pred: vec![None; n] };
    w.go(ctx, tree.root_node(), (0..n).collect(), 0);
    // importances
    let imp = tree.feature_importance();
    if w.has_split {
        let s: f64 = imp.iter().sum();
        ctx.require(imp.iter().all(|x| *x >= 0.0) && (s - 1.0).abs() <= 1e-9, "importances", &class, || format!("importances {:?} (sum {})", imp, s));
    }
    ctx.require(imp.len() == c.p, "importances_len", &class, || format!("{} importances for {} features", imp.len(), c.p));
    // prediction of the training rows = prediction of the leaf they were assigned while fitting
    let np = c.pr.len();
    let all = Array2::from_shape_fn((n + np, c.p), |(i, j)| if i < n { c.x(i, j) } else { c.pr[i - n][j] as f64 / (1u64 << c.xd) as f64 });
    let pred = tree.predict(&all);
    let pidx: Vec<Option<usize>> = pred.iter().map(|p| dec(p)).collect();
    for i in 0..n {
        ctx.require(pidx[i].is_some() && pidx[i] == w.leaf_pred[i], "routing_consistent", &class, || format!("row {} predicted {:?}, the leaf it was assigned while fitting predicts {:?}", i, pidx[i], w.leaf_pred[i]));
    }
    for i in 0..n + np {
        ctx.require(pidx[i].is_some(), "seen_label", &class, || format!("prediction {:?} is not a training label", pred[i]));
    }
    format!(
        "ok tree={} imp={} pred={} margin=~{}",
        w.toks.join(","),
        list(imp.iter(), |x| format!("{}{}", if tl { "~" } else { "" }, hex64c(*x))),
        list(pidx.iter(), |x| x.map(|v| v.to_string()).unwrap_or("?".into())),
        hex64(1.0)
    )
}

fn run_case(em: &mut Em, c: Case) {
    let n = c.xs.len();
    em.count(&format!("n:{}", if n == 0 { "0" } else if n <= 4 { "1-4" } else if n <= 10 { "5-10" } else if n <= 20 { "11-20" } else { "21+" }));
    let mut dl = c.ys.clone();
    dl.sort();
    dl.dedup();
    em.count(&format!("classes:{}", dl.len()));
    em.count(if c.entropy { "crit:entropy" } else { "crit:gini" });
    em.count(if c.ws.is_some() { "weights:yes" } else { "weights:no" });
    em.count(&format!("label_type:{}", ["usize", "bool", "string"][c.lt as usize]));
    em.count(&format!("max_depth:{}", c.md.map(|d| if d >= 4 { "4+".to_string() } else { d.to_string() }).unwrap_or("none".into())));
    em.count(&format!("mwl4:{}", c.mwl4));
    let op = c.op();
    let class = c.class();
    let seen: Vec<usize> = dl.clone();
    let demanded = n >= 1 && c.mwl4 > 0;
    let body = move |ctx: &mut Ctx| -> String {
        match c.lt {
            0 => {
                let s2 = seen.clone();
                fit_case::<usize>(&c, ctx, &|k| k * 7 + 3, &move |l: &usize| if *l >= 3 && (*l - 3) % 7 == 0 && s2.contains(&((*l - 3) / 7)) { Some((*l - 3) / 7) } else { None })
            }
            1 => {
                let s2 = seen.clone();
                fit_case::<bool>(&c, ctx, &|k| k == 1, &move |l: &bool| if s2.contains(&(*l as usize)) { Some(*l as usize) } else { None })
            }
            _ => {
                let s2 = seen.clone();
                fit_case::<String>(&c, ctx, &|k| format!("cls-{}", (b'f' - k as u8) as char), &move |l: &String| {
                    let b = l.as_bytes();
                    if b.len() == 5 && l.starts_with("cls-") && b[4] <= b'f' && s2.contains(&((b'f' - b[4]) as usize)) { Some((b'f' - b[4]) as usize) } else { None }
                })
            }
        }
    };
    // the property promises a tree for every labelled dataset and positive leaf weight; with
    // min_weight_leaf = 0 (or no rows) the fit may stop at an assert — compared, not demanded
    if demanded {
        em.case_valid(op, &class, body)
    } else {
        em.case(op, body)
    }
}

fn gen_case(rng: &mut Rng, big: bool, stream: u8) -> Case {
    let nmax = if big { 28 } else { 11 };
    let n = match stream {
        3 => 0,
        _ => 1 + rng.below(nmax),
    };
    let p = 1 + rng.below(3);
    let k = 2 + rng.below(5); // 2..6 classes
    let lt = if k == 2 { *rng.pick(&[0u8, 1, 2]) } else { *rng.pick(&[0u8, 2]) };
    let (xd, vals): (u32, Vec<i64>) = match stream {
        // dyadic values around the 1e-5 equal-value skip: one unit = 2^-20 ≈ 9.5e-7
        1 => (20, vec![0, 10, 11, 21, 32, 42, 1 << 20, (1 << 20) + 10, (1 << 20) + 21, -11, -(1 << 19)]),
        // neighbouring doubles at magnitude 2^40 (spacing 2^-12 > 1e-5): the midpoint of two
        // neighbours is not representable and rounds onto one of them
        4 => (12, vec![1 << 52, (1 << 52) + 1, (1 << 52) + 2, (1 << 52) + 3, (1 << 52) + 5, (1 << 52) + 8, (1 << 52) + 9]),
        _ => {
            let r = *rng.pick(&[2i64, 3, 4, 7]);
            (0, (0..=r).map(|v| v - (r / 3)).collect())
        }
    };
    let xs: Vec<Vec<i64>> = (0..n).map(|_| (0..p).map(|_| *rng.pick(&vals)).collect()).collect();
    // labels: mostly a noisy function of the features so that trees have several levels
    let mode = rng.below(4);
    let ys: Vec<usize> = (0..n)
        .map(|i| match mode {
            0 => rng.below(k),
            1 => ((xs[i][0].rem_euclid(1000) as usize) + if rng.chance(1, 5) { rng.below(k) } else { 0 }) % k,
            2 => (xs[i].iter().sum::<i64>().rem_euclid(1000) as usize + if rng.chance(1, 6) { 1 } else { 0 }) % k,
            _ => if xs[i][p - 1] > vals[vals.len() / 2] { rng.below(2) } else { (2 + rng.below(k - 1)) % k },
        })
        .collect();
    let (ws, wd) = if stream == 2 {
        (None, 0) // tie stream: equal weights, duplicates with conflicting labels
    } else if rng.chance(1, 2) {
        (None, 0)
    } else {
        (Some((0..n).map(|_| rng.range(1, 5)).collect()), rng.below(2) as u32)
    };
    let md = if stream == 4 { Some(1 + rng.below(3)) } else { *rng.pick(&[None, None, Some(0usize), Some(1), Some(2), Some(3), Some(5)]) };
    let mws4 = *rng.pick(&[8u32, 8, 0, 4, 10, 12, 20]);
    let mwl4 = if rng.chance(1, 25) { 0 } else { *rng.pick(&[4u32, 4, 1, 2, 6, 8, 12]) };
    let mid = *rng.pick(&[1e-5, 1e-5, f64::EPSILON, 0.01, 0.1, 0.25, 0.3, 0.5]);
    let np = rng.below(4);
    let mut pr: Vec<Vec<i64>> = (0..np).map(|_| (0..p).map(|_| *rng.pick(&vals) + if stream == 4 { 0 } else { rng.range(-1, 1) }).collect()).collect();
    if xd == 0 && n > 0 {
        // probes at doubled resolution are not representable with xd = 0; probe the data values and neighbours only
        pr.push(xs[rng.below(n)].clone());
    }
    Case { entropy: rng.chance(2, 5), md, mws4, mwl4, mid, xd, xs, ys, ws, wd, pr, p, lt }
}

pub fn run(em: &mut Em, rng: &mut Rng) {
    let big = em.thorough();
    // fixed corner cases first
    let base = Case { entropy: false, md: None, mws4: 8, mwl4: 4, mid: 1e-5, xd: 0, xs: vec![], ys: vec![], ws: None, wd: 0, pr: vec![], p: 1, lt: 0 };
    let mk = |xs: Vec<Vec<i64>>, ys: Vec<usize>| Case { p: xs.first().map(|r| r.len()).unwrap_or(1), xs, ys, ..base.clone() };
    // one row; constant feature; duplicates with conflicting labels; separable; 4-row modal tie
    run_case(em, mk(vec![vec![1]], vec![0]));
    run_case(em, mk(vec![vec![1], vec![1], vec![1]], vec![0, 1, 1]));
    run_case(em, mk(vec![vec![0], vec![0], vec![1], vec![1]], vec![0, 1, 1, 1]));
    run_case(em, mk(vec![vec![0], vec![1], vec![2], vec![3]], vec![0, 0, 1, 1]));
    run_case(em, mk(vec![vec![0], vec![0], vec![1], vec![1]], vec![0, 1, 0, 1]));
    run_case(em, Case { md: Some(0), ..mk(vec![vec![0], vec![1], vec![2], vec![3]], vec![0, 0, 1, 1]) });
    run_case(em, Case { mwl4: 0, ..mk(vec![vec![0, 1], vec![1, 0], vec![2, 3], vec![3, 1], vec![4, 0]], vec![0, 1, 0, 1, 2]) });
    // witnesses of the two repaired findings (neighbouring doubles at 2^40: the midpoint rounds
    // onto the lower / the upper value)
    let b52 = 1i64 << 52;
    run_case(em, Case { md: Some(1), xd: 12, ..mk(vec![vec![b52], vec![b52], vec![b52 + 1], vec![b52 + 1]], vec![0, 0, 1, 1]) });
    run_case(em, Case { md: Some(1), xd: 12, ..mk(vec![vec![b52 + 1], vec![b52 + 1], vec![b52 + 2], vec![b52 + 2]], vec![0, 0, 1, 1]) });
    let total = if big { 40000 } else { 3000 };
    for i in 0..total {
        let stream = match i % 20 {
            0..=11 => 0u8,
            12..=15 => 1,
            16..=18 => 2,
            _ => if i % 200 == 19 { 3 } else { 4 },
        };
        em.count(&format!("stream:{}", ["lattice", "dyadic_eps", "modal_tie", "empty", "adjacent_floats"][stream as usize]));
        let c = gen_case(rng, big && i % 3 != 0, stream);
        run_case(em, c);
    }
}
