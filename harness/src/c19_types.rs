//! C19 — the sweep: instances of every serde type of linfa, f32 and f64.
use super::c19_canon::Norm;
use super::{rt, Sweep};
use crate::util::*;
use linfa::prelude::*;
use linfa::traits::{Fit, Predict, Transformer};
use linfa::{Dataset, DatasetBase, Float, ParamGuard};
use ndarray::{Array1, Array2, ArrayBase, Axis, Data, Dimension};

/// private / helper types that only occur inside another swept type: (type, swept carrier)
pub const NESTED: &[(&str, &str)] = &[
    ("linfa-bayes::GaussianClassInfo", "linfa-bayes::GaussianNb"),
    ("linfa-bayes::MultinomialClassInfo", "linfa-bayes::MultinomialNb"),
    ("linfa-pls::Pls", "linfa-pls::PlsRegression"),
    ("linfa-kernel::KernelInner", "linfa-kernel::KernelBase"),
    ("linfa-preprocessing::Norms", "linfa-preprocessing::NormScaler"),
    ("linfa-preprocessing::SerdeRegex", "linfa-preprocessing::CountVectorizerValidParams"),
];

/// members excluded from serialisation, reviewed by hand: the oracle checks their restored value
/// through accessors (see the carrier's `behav`)
pub const REVIEWED_SKIPS: &[(&str, &[&str])] = &[("linfa::Error", &["NdShape"]), ("linfa-preprocessing::CountVectorizerValidParams", &["tokenizer_function"])];

pub trait Fl: Float + serde::Serialize + serde::de::DeserializeOwned {
    const NAME: &'static str;
}
impl Fl for f32 {
    const NAME: &'static str = "f32";
}
impl Fl for f64 {
    const NAME: &'static str = "f64";
}

pub fn bits<F: Float, S: Data<Elem = F>, D: Dimension>(a: &ArrayBase<S, D>) -> (Vec<usize>, Vec<u64>) {
    (a.shape().to_vec(), a.iter().map(|x| x.to_f64().unwrap().to_bits()).collect())
}
pub fn fb<F: Float>(x: F) -> u64 {
    x.to_f64().unwrap().to_bits()
}

/// require bit-identical arrays
pub fn same_arr<F: Float, S1: Data<Elem = F>, S2: Data<Elem = F>, D: Dimension>(ctx: &mut Ctx, clause: &str, class: &str, what: &str, a: &ArrayBase<S1, D>, b: &ArrayBase<S2, D>) {
    let (x, y) = (bits(a), bits(b));
    ctx.require(x == y, clause, class, || format!("{}: original {:?} restored {:?}", what, a.iter().map(|v| v.to_f64().unwrap()).take(12).collect::<Vec<_>>(), b.iter().map(|v| v.to_f64().unwrap()).take(12).collect::<Vec<_>>()));
}

/// every public image of the value counts: the `Debug` text prints every field, also the ones a
/// hand-written `PartialEq` ignores or a `serde(skip)` silently resets (floats print in shortest
/// round-trip form, so different finite bit patterns print differently)
/// ndarray prints `strides=[..], layout=.. (0x..)` after every array: the memory layout of an array
/// is not part of the value (a column-major original is restored row-major) — dropped; the shape stays
pub fn strip_layout(s: &str) -> String {
    let mut out = String::with_capacity(s.len());
    let mut rest = s;
    while let Some(i) = rest.find(", strides=[") {
        out.push_str(&rest[..i]);
        let tail = &rest[i..];
        let cut = match tail.find(", layout=") {
            Some(j) => match tail[j..].find(')') {
                Some(k) => j + k + 1,
                None => tail.len(),
            },
            None => match tail.find(']') {
                Some(k) => k + 1,
                None => tail.len(),
            },
        };
        rest = &tail[cut..];
    }
    out.push_str(rest);
    out
}

pub fn dbg_same<T: std::fmt::Debug>(ctx: &mut Ctx, class: &str, a: &T, b: &T) {
    let (x, y) = (strip_layout(&format!("{:?}", a)), strip_layout(&format!("{:?}", b)));
    ctx.require(x == y, "accessors", class, || {
        let pos = x.bytes().zip(y.bytes()).position(|(p, q)| p != q).unwrap_or(0);
        let lo = pos.saturating_sub(40);
        let cut = |s: &str| s.chars().skip(lo).take(100).collect::<String>();
        format!("Debug image of the restored value differs at char {}: …{}… vs …{}…", pos, cut(&x), cut(&y))
    });
}

/// `DecisionTree::features()` collects into a fresh `HashSet` on every call: its order changes from call to
/// call on the same tree (C20's subject), it is a set
pub fn sorted(mut v: Vec<usize>) -> Vec<usize> {
    v.sort();
    v
}

/// generic (non-lattice) records: offsets, scales, duplicates
pub fn records<F: Float>(rng: &mut Rng, n: usize, p: usize) -> Array2<F> {
    let scale = [1.0, 1e-3, 1e3, 7.25][rng.below(4)];
    let off = [0.0, 10.0, -3.5][rng.below(3)];
    let mut a = Array2::from_shape_fn((n, p), |_| F::cast((rng.unit() * 2.0 - 1.0) * scale + off));
    if n > 3 && rng.coin() {
        let r = a.row(0).to_owned();
        a.row_mut(n - 1).assign(&r);
    }
    a
}
pub fn lin_targets<F: Float>(rng: &mut Rng, x: &Array2<F>) -> Array1<F> {
    let w: Vec<f64> = (0..x.ncols()).map(|_| rng.unit() * 4.0 - 2.0).collect();
    let noise: Vec<f64> = (0..x.nrows()).map(|_| rng.unit() * 0.1).collect();
    Array1::from_shape_fn(x.nrows(), |i| F::cast(x.row(i).iter().zip(&w).map(|(a, b)| a.to_f64().unwrap() * b).sum::<f64>() + 0.5 + noise[i]))
}

fn linear<F: Fl>(em: &mut Em, rng: &mut Rng, sw: &mut Sweep) {
    use linfa_linear::*;
    let tag = F::NAME;
    for it in 0..2 {
        let (n, p) = (6 + rng.below(10), 1 + rng.below(4));
        let x: Array2<F> = records(rng, n, p);
        let y = lin_targets(rng, &x);
        let fresh: Array2<F> = records(rng, 5, p);
        let ds = Dataset::new(x.clone(), y.clone());
        // parameter set + fitted model
        let params = LinearRegression::new().with_intercept(it == 0);
        let ds2 = ds.clone();
        rt(em, sw, "linfa-linear::LinearRegression", tag, Norm::Exact, &params, &|a, b, ctx, class| {
            ctx.require(a == b || (a != a && super::value_has_nan()), "equal", class, || format!("{:?} vs {:?}", a, b)); dbg_same(ctx, class, a, b);
            refit_same(ctx, class, &|| fp::<FittedLinearRegression<F>, _>(a.fit(&ds2)), &|| fp::<FittedLinearRegression<F>, _>(b.fit(&ds2)));
        });
        let model: FittedLinearRegression<F> = params.fit(&ds).unwrap();
        rt(em, sw, "linfa-linear::FittedLinearRegression", tag, Norm::Exact, &model, &|a, b, ctx, class| {
            ctx.require(a == b || (a != a && super::value_has_nan()), "equal", class, || format!("{:?} vs {:?}", a, b)); dbg_same(ctx, class, a, b);
            same_arr(ctx, "accessors", class, "params", a.params(), b.params());
            ctx.require(fb(a.intercept()) == fb(b.intercept()), "accessors", class, || "intercept".into());
            same_arr(ctx, "predict", class, "predict", &a.predict(&fresh), &b.predict(&fresh));
        });
    }
    for link in [Link::Identity, Link::Log, Link::Logit] {
        rt(em, sw, "linfa-linear::Link", tag, Norm::Exact, &link, &|a, b, ctx, class| {
            ctx.require(a == b || (a != a && super::value_has_nan()), "equal", class, || format!("{:?} vs {:?}", a, b)); dbg_same(ctx, class, a, b);
        });
    }
}


pub static NONDET: std::sync::atomic::AtomicU64 = std::sync::atomic::AtomicU64::new(0);
/// refit comparisons that were really made (coverage floor: the nondeterminism skip must not swallow them)
pub static REFIT_COMPARED: std::sync::atomic::AtomicU64 = std::sync::atomic::AtomicU64::new(0);

/// fingerprint of a fit result: canonical text of the fitted model (all serialised quantities, bit
/// patterns), or the error
pub fn fp<T: serde::Serialize, E: std::fmt::Display>(r: Result<T, E>) -> String {
    match r {
        Ok(m) => super::c19_canon::canon(&m, true, Norm::SortMaps).0,
        Err(e) => format!("err:{}", e),
    }
}

/// per type: (refit comparisons really made, skipped because the original's own fits differ)
pub static REFIT_BY_TYPE: std::sync::Mutex<std::collections::BTreeMap<String, (u64, u64)>> = std::sync::Mutex::new(std::collections::BTreeMap::new());

fn type_of_class(class: &str) -> String {
    let t = class.strip_prefix("type=").unwrap_or(class);
    t.split(":fmt=").next().unwrap_or(t).to_string()
}

pub fn refit_skipped(class: &str) {
    NONDET.fetch_add(1, std::sync::atomic::Ordering::Relaxed);
    REFIT_BY_TYPE.lock().unwrap().entry(type_of_class(class)).or_insert((0, 0)).1 += 1;
}

/// types whose refit is documented / known to differ from fit to fit (no comparison possible): none at the type
/// level — `KMeansInit::KMeansPara` is skipped per instance, the other initialisations of the same type are compared
pub const REVIEWED_NONDET_TYPES: &[&str] = &[];

/// a type whose refit comparisons were ALL skipped as non-deterministic is reported: the skip must not swallow a
/// whole estimator (e.g. a hash-order dependent reduction introduced into its `fit`)
pub fn refit_cover(em: &mut Em) {
    let m = REFIT_BY_TYPE.lock().unwrap().clone();
    for (ty, (cmp, skipped)) in m {
        em.case(format!("#cover refit type={}", ty), |ctx| {
            ctx.require(cmp > 0 || skipped == 0 || REVIEWED_NONDET_TYPES.contains(&ty.as_str()), "refit", &format!("type={}:all_skipped", ty), || {
                format!("{}: all {} refit comparisons were skipped because the original parameters do not refit to the same model twice; restored parameter sets were never compared", ty, skipped)
            });
            "-".into()
        });
    }
}

/// "refit to the same model" presupposes that a parameter set (which holds its generator state) determines the model:
/// when the *original* refits differently from call to call the clause cannot be established for it.  That is
/// reported, not silently skipped — except for the reviewed case (`KMeansInit::KMeansPara`, skipped by its caller).
fn nondet_reported(ctx: &mut Ctx, class: &str) {
    if REVIEWED_NONDET_TYPES.contains(&type_of_class(class).as_str()) {
        return;
    }
    ctx.fail("refit", &format!("{}:original_nondeterministic", class), "the original parameter set does not refit to the same model twice (several fits on the same data differ): the restored one cannot be compared".to_string());
}

/// restored parameters pass/fail validation like the originals and refit to the same model.
/// When fitting the *original* several times already gives different models the comparison is skipped and counted
/// (per type: `refit_cover`).
pub fn refit_same(ctx: &mut Ctx, class: &str, fa: &dyn Fn() -> String, fb_: &dyn Fn() -> String) {
    let (a1, a2, a3) = (fa(), fa(), fa());
    if a1 != a2 || a1 != a3 {
        refit_skipped(class);
        nondet_reported(ctx, class);
        return;
    }
    let b = fb_();
    if a1 != b {
        // a rarely non-deterministic fit passes the screen above with noticeable probability: look again before
        // blaming the round trip (two more fits of the original and one more of the restored value)
        let (a4, a5, b2) = (fa(), fa(), fb_());
        if a4 != a1 || a5 != a1 || b2 != b {
            refit_skipped(class);
            nondet_reported(ctx, class);
            return;
        }
    }
    REFIT_COMPARED.fetch_add(1, std::sync::atomic::Ordering::Relaxed);
    REFIT_BY_TYPE.lock().unwrap().entry(type_of_class(class)).or_insert((0, 0)).0 += 1;
    if a1.starts_with("err:") != b.starts_with("err:") {
        ctx.fail("validate", class, format!("original: {} restored: {}", &a1[..a1.len().min(80)], &b[..b.len().min(80)]));
    } else if a1 != b {
        let pos = a1.bytes().zip(b.bytes()).position(|(x, y)| x != y).unwrap_or(0);
        let lo = pos.saturating_sub(40);
        ctx.fail("refit", class, format!("refitted models differ at char {}: …{}… vs …{}…", pos, &a1[lo..(pos + 40).min(a1.len())], &b[lo..(pos + 40).min(b.len())]));
    }
}

// `==` is demanded "wherever equality is defined": a value holding a NaN is not equal to itself under the
// derived `PartialEq`, so `a == b` is required only when `a == a`; the bit patterns are still compared
// through the canonical text, the Debug image and the accessors
macro_rules! eqb {
    () => {
        &|a, b, ctx: &mut Ctx, class: &str| {
            ctx.require(a == b || (a != a && super::value_has_nan()), "equal", class, || format!("{:?} vs {:?}", a, b));
            dbg_same(ctx, class, a, b);
        }
    };
}

pub fn labels(rng: &mut Rng, n: usize, c: usize) -> Array1<usize> {
    Array1::from_shape_fn(n, |i| if i < c { i } else { rng.below(c) })
}
/// blobs: class-dependent offset so that classifiers have something to learn
pub fn blobs<F: Float>(rng: &mut Rng, n: usize, p: usize, y: &Array1<usize>) -> Array2<F> {
    Array2::from_shape_fn((n, p), |(i, j)| F::cast((y[i] as f64) * 3.0 * (if j % 2 == 0 { 1.0 } else { -1.0 }) + rng.unit() * 2.0 - 1.0))
}

macro_rules! linear2_impl { ($fname:ident, $F:ty) => {
fn $fname(em: &mut Em, rng: &mut Rng, sw: &mut Sweep) {
    type F = $F;
    use linfa_linear::*;
    let tag = F::NAME;
    rt(em, sw, "linfa-linear::IsotonicRegression", tag, Norm::Exact, &IsotonicRegression::new(), eqb!());
    for it in 0..2 {
        let n = 6 + rng.below(10);
        let x: Array2<F> = Array2::from_shape_fn((n, 1), |(i, _)| F::cast(i as f64 * 0.5 + rng.unit() * 0.2));
        let y: Array1<F> = Array1::from_shape_fn(n, |i| F::cast((i as f64).sqrt() + rng.unit() - 0.5));
        let fresh: Array2<F> = Array2::from_shape_fn((7, 1), |(i, _)| F::cast(i as f64 * 0.9 - 1.0));
        let ds = Dataset::new(x.clone(), y.clone());
        let model: FittedIsotonicRegression<F> = IsotonicRegression::new().fit(&ds).unwrap();
        rt(em, sw, "linfa-linear::FittedIsotonicRegression", tag, Norm::Exact, &model, &|a, b, ctx, class| {
            ctx.require(a == b || (a != a && super::value_has_nan()), "equal", class, || format!("{:?} vs {:?}", a, b)); dbg_same(ctx, class, a, b);
            same_arr(ctx, "predict", class, "predict", &a.predict(&fresh), &b.predict(&fresh));
        });
        // Tweedie
        let (n, p) = (8 + rng.below(8), 1 + rng.below(3));
        let x: Array2<F> = Array2::from_shape_fn((n, p), |_| F::cast(rng.unit()));
        let y: Array1<F> = Array1::from_shape_fn(n, |i| F::cast(0.5 + x.row(i).iter().map(|v| *v as f64).sum::<f64>() + rng.unit() * 0.1));
        let fresh: Array2<F> = Array2::from_shape_fn((5, p), |_| F::cast(rng.unit() * 2.0));
        let ds = Dataset::new(x, y);
        let (power, link) = [(0.0, None), (1.0, None), (2.0, Some(Link::Log)), (1.5, None)][(it * 2 + rng.below(2)) % 4];
        let mut pr = TweedieRegressor::<F>::params().power(F::cast(power)).alpha(F::cast([0.0, 0.5][rng.below(2)])).max_iter(30 + rng.below(50)).tol(F::cast(1e-5));
        if let Some(l) = link {
            pr = pr.link(l);
        }
        let vp: TweedieRegressorValidParams<F> = pr.check().unwrap();
        let ds2 = ds.clone();
        rt(em, sw, "linfa-linear::TweedieRegressorValidParams", tag, Norm::Exact, &vp, &|a, b, ctx, class| {
            ctx.require(a == b || (a != a && super::value_has_nan()), "equal", class, || format!("{:?} vs {:?}", a, b)); dbg_same(ctx, class, a, b);
            ctx.require(fb(a.alpha()) == fb(b.alpha()) && fb(a.power()) == fb(b.power()) && a.link() == b.link() && a.max_iter() == b.max_iter() && fb(a.tol()) == fb(b.tol()) && a.fit_intercept() == b.fit_intercept(), "accessors", class, || "parameter accessor differs".into());
            refit_same(ctx, class, &|| fp(a.fit(&ds2)), &|| fp(b.fit(&ds2)));
        });
        if let Ok(model) = vp.fit(&ds) {
            rt(em, sw, "linfa-linear::TweedieRegressor", tag, Norm::Exact, &model, &|a: &TweedieRegressor<F>, b, ctx, class| {
                ctx.require(a == b || (a != a && super::value_has_nan()), "equal", class, || format!("{:?} vs {:?}", a, b)); dbg_same(ctx, class, a, b);
                same_arr(ctx, "predict", class, "predict", &a.predict(&fresh), &b.predict(&fresh));
            });
        }
    }
}
}}
linear2_impl!(linear2_f32, f32);
linear2_impl!(linear2_f64, f64);

fn bayes<F: Fl>(em: &mut Em, rng: &mut Rng, sw: &mut Sweep) {
    use linfa_bayes::*;
    let tag = F::NAME;
    for _ in 0..2 {
        let (n, p, c) = (10 + rng.below(10), 1 + rng.below(3), 2 + rng.below(3));
        let y = labels(rng, n, c);
        let x: Array2<F> = blobs(rng, n, p, &y);
        let fresh: Array2<F> = records(rng, 6, p);
        let ds = Dataset::new(x.clone(), y.clone());
        let vp: GaussianNbValidParams<F, usize> = GaussianNb::params().var_smoothing(F::cast([1e-9, 1e-3, 0.25][rng.below(3)])).check().unwrap();
        let ds2 = ds.clone();
        rt(em, sw, "linfa-bayes::GaussianNbValidParams", tag, Norm::Exact, &vp, &|a, b, ctx, class| {
            ctx.require(a == b || (a != a && super::value_has_nan()), "equal", class, || format!("{:?} vs {:?}", a, b)); dbg_same(ctx, class, a, b);
            ctx.require(fb(a.var_smoothing()) == fb(b.var_smoothing()), "accessors", class, || "var_smoothing".into());
            refit_same(ctx, class, &|| fp(a.fit(&ds2)), &|| fp(b.fit(&ds2)));
        });
        let model: GaussianNb<F, usize> = vp.fit(&ds).unwrap();
        rt(em, sw, "linfa-bayes::GaussianNb", tag, Norm::SortMaps, &model, &|a, b, ctx, class| {
            ctx.require(a == b || (a != a && super::value_has_nan()), "equal", class, || format!("{:?} vs {:?}", a, b));
            // (a degenerate model whose predict panics on NaN scores must do so before and after alike)
            let pa = std::panic::catch_unwind(std::panic::AssertUnwindSafe(|| a.predict(&fresh))).ok();
            let pb = std::panic::catch_unwind(std::panic::AssertUnwindSafe(|| b.predict(&fresh))).ok();
            ctx.require(pa == pb, "predict", class, || "predictions differ".into());
        });
        // multinomial: count features
        let xc: Array2<F> = Array2::from_shape_fn((n, p + 1), |(i, j)| F::cast(((y[i] + j) % 3) as f64 + (rng.below(4) as f64)));
        let freshc: Array2<F> = Array2::from_shape_fn((6, p + 1), |_| F::cast(rng.below(5) as f64));
        let dsc = Dataset::new(xc, y.clone());
        let vp: MultinomialNbValidParams<F, usize> = MultinomialNb::params().alpha(F::cast([1.0, 0.5, 0.01][rng.below(3)])).check().unwrap();
        let ds2 = dsc.clone();
        rt(em, sw, "linfa-bayes::MultinomialNbValidParams", tag, Norm::Exact, &vp, &|a, b, ctx, class| {
            ctx.require(a == b || (a != a && super::value_has_nan()), "equal", class, || format!("{:?} vs {:?}", a, b)); dbg_same(ctx, class, a, b);
            ctx.require(fb(a.alpha()) == fb(b.alpha()), "accessors", class, || "alpha".into());
            refit_same(ctx, class, &|| fp(a.fit(&ds2)), &|| fp(b.fit(&ds2)));
        });
        let model: MultinomialNb<F, usize> = vp.fit(&dsc).unwrap();
        rt(em, sw, "linfa-bayes::MultinomialNb", tag, Norm::SortMaps, &model, &|a, b, ctx, class| {
            ctx.require(a == b || (a != a && super::value_has_nan()), "equal", class, || format!("{:?} vs {:?}", a, b));
            let pa = std::panic::catch_unwind(std::panic::AssertUnwindSafe(|| a.predict(&freshc))).ok();
            let pb = std::panic::catch_unwind(std::panic::AssertUnwindSafe(|| b.predict(&freshc))).ok();
            ctx.require(pa == pb, "predict", class, || "predictions differ".into());
        });
    }
}

fn nn_types<F: Fl>(em: &mut Em, rng: &mut Rng, sw: &mut Sweep) {
    use linfa_nn::distance::*;
    use linfa_nn::*;
    let tag = F::NAME;
    rt(em, sw, "linfa-nn::L1Dist", tag, Norm::Exact, &L1Dist, eqb!());
    rt(em, sw, "linfa-nn::L2Dist", tag, Norm::Exact, &L2Dist, eqb!());
    rt(em, sw, "linfa-nn::LInfDist", tag, Norm::Exact, &LInfDist, eqb!());
    rt(em, sw, "linfa-nn::LinearSearch", tag, Norm::Exact, &LinearSearch, eqb!());
    rt(em, sw, "linfa-nn::KdTree", tag, Norm::Exact, &KdTree, eqb!());
    rt(em, sw, "linfa-nn::BallTree", tag, Norm::Exact, &BallTree, eqb!());
    let pts: Array2<F> = records(rng, 12, 2);
    for c in [CommonNearestNeighbour::LinearSearch, CommonNearestNeighbour::KdTree, CommonNearestNeighbour::BallTree] {
        let pts = pts.clone();
        rt(em, sw, "linfa-nn::CommonNearestNeighbour", tag, Norm::Exact, &c, &|a, b, ctx, class| {
            ctx.require(a == b || (a != a && super::value_has_nan()), "equal", class, || format!("{:?} vs {:?}", a, b)); dbg_same(ctx, class, a, b);
            let (ia, ib) = (a.from_batch(&pts, L2Dist).unwrap(), b.from_batch(&pts, L2Dist).unwrap());
            let q = pts.row(3);
            let ra: Vec<usize> = ia.k_nearest(q, 4).unwrap().into_iter().map(|x| x.1).collect();
            let rb: Vec<usize> = ib.k_nearest(q, 4).unwrap().into_iter().map(|x| x.1).collect();
            ctx.require(ra == rb, "predict", class, || format!("k_nearest {:?} vs {:?}", ra, rb));
        });
    }
    for pw in [1.0, 2.0, 3.5, 0.5] {
        let d = LpDist(F::cast(pw));
        let pts = pts.clone();
        rt(em, sw, "linfa-nn::LpDist", tag, Norm::Exact, &d, &|a, b, ctx, class| {
            ctx.require(a == b || (a != a && super::value_has_nan()), "equal", class, || format!("{:?} vs {:?}", a, b)); dbg_same(ctx, class, a, b);
            ctx.require(fb(a.distance(pts.row(0), pts.row(1))) == fb(b.distance(pts.row(0), pts.row(1))), "predict", class, || "distance differs".into());
        });
    }
}

fn clustering<F: Fl>(em: &mut Em, rng: &mut Rng, sw: &mut Sweep) {
    use linfa_clustering::*;
    use linfa_nn::distance::*;
    use linfa_nn::CommonNearestNeighbour;
    use rand_xoshiro::Xoshiro256Plus;
    use rand::SeedableRng;
    let tag = F::NAME;
    rt(em, sw, "linfa-clustering::Dbscan", tag, Norm::Exact, &Dbscan, eqb!());
    rt(em, sw, "linfa-clustering::Optics", tag, Norm::Exact, &Optics, eqb!());
    rt(em, sw, "linfa-clustering::GmmCovarType", tag, Norm::Exact, &GmmCovarType::Full, eqb!());
    for m in [GmmInitMethod::KMeans, GmmInitMethod::Random] {
        rt(em, sw, "linfa-clustering::GmmInitMethod", tag, Norm::Exact, &m, eqb!());
    }
    for it in 0..2 {
        let (n, p, k) = (14 + rng.below(10), 1 + rng.below(3), 2 + rng.below(2));
        let y = labels(rng, n, k);
        let x: Array2<F> = blobs(rng, n, p, &y);
        let fresh: Array2<F> = records(rng, 6, p);
        let ds = DatasetBase::from(x.clone());
        let seed = rng.next();
        // ---- k-means
        let inits = [KMeansInit::Random, KMeansInit::KMeansPlusPlus, KMeansInit::KMeansPara, KMeansInit::Precomputed(x.slice(ndarray::s![0..k, ..]).to_owned())];
        for init in inits.iter() {
            rt(em, sw, "linfa-clustering::KMeansInit", tag, Norm::Exact, init, eqb!());
        }
        let init = inits[(it * 2 + rng.below(2)) % 4].clone();
        // k-means|| initialisation is documented as non-deterministic: no refit comparison for it
        let para = init == KMeansInit::KMeansPara;
        let params = KMeans::params_with(k, Xoshiro256Plus::seed_from_u64(seed), L2Dist).n_runs(1 + rng.below(3)).tolerance(F::cast(1e-3)).max_n_iterations(20 + rng.below(30) as u64).init_method(init);
        let ds2 = ds.clone();
        let fresh2 = fresh.clone();
        let kbehav = move |ma: &KMeans<F, L2Dist>, mb: &KMeans<F, L2Dist>, ctx: &mut Ctx, class: &str, clause: &str| {
            dbg_same(ctx, class, ma, mb);
            same_arr(ctx, clause, class, "centroids", ma.centroids(), mb.centroids());
            same_arr(ctx, clause, class, "cluster_count", ma.cluster_count(), mb.cluster_count());
            ctx.require(fb(ma.inertia()) == fb(mb.inertia()), clause, class, || "inertia".into());
            ctx.require(ma.predict(&fresh2) == mb.predict(&fresh2), "predict", class, || "predict differs".into());
            same_arr(ctx, "predict", class, "transform", &ma.transform(&fresh2), &mb.transform(&fresh2));
        };
        rt(em, sw, "linfa-clustering::KMeansParams", tag, Norm::Exact, &params, &|a, b, ctx, class| {
            ctx.require(a == b || (a != a && super::value_has_nan()), "equal", class, || format!("{:?} vs {:?}", a, b)); dbg_same(ctx, class, a, b);
            if para {
                refit_skipped(class);
                return;
            }
            refit_same(ctx, class, &|| fp(a.fit(&ds2)), &|| fp(b.fit(&ds2)));
        });
        let bad = KMeans::params_with(0, Xoshiro256Plus::seed_from_u64(seed), L2Dist).tolerance(F::cast(-1.0));
        rt(em, sw, "linfa-clustering::KMeansParams", tag, Norm::Exact, &bad, &|a, b, ctx, class| {
            ctx.require(a.check_ref().is_err() == b.check_ref().is_err(), "validate", class, || "validation verdict differs".into());
        });
        let vp = params.clone().check().unwrap();
        let ds2 = ds.clone();
        rt(em, sw, "linfa-clustering::KMeansValidParams", tag, Norm::Exact, &vp, &|a, b, ctx, class| {
            ctx.require(a == b || (a != a && super::value_has_nan()), "equal", class, || format!("{:?} vs {:?}", a, b)); dbg_same(ctx, class, a, b);
            ctx.require(a.n_runs() == b.n_runs() && fb(a.tolerance()) == fb(b.tolerance()) && a.max_n_iterations() == b.max_n_iterations() && a.n_clusters() == b.n_clusters() && a.init_method() == b.init_method() && a.rng() == b.rng(), "accessors", class, || "accessor differs".into());
            if para {
                refit_skipped(class);
                return;
            }
            refit_same(ctx, class, &|| fp(a.fit(&ds2)), &|| fp(b.fit(&ds2)));
        });
        if let Ok(model) = vp.fit(&ds) {
            let kb = kbehav.clone();
            rt(em, sw, "linfa-clustering::KMeans", tag, Norm::Exact, &model, &|a, b, ctx, class| kb(a, b, ctx, class, "accessors"));
        }
        // ---- Gaussian mixture
        let gp = GaussianMixtureModel::params_with_rng(k, Xoshiro256Plus::seed_from_u64(seed)).n_runs(1 + rng.below(2) as u64).max_n_iterations(20).tolerance(F::cast(1e-3)).reg_covariance(F::cast(1e-4)).init_method([GmmInitMethod::KMeans, GmmInitMethod::Random][it % 2]);
        let ds2 = ds.clone();
        let fresh2 = fresh.clone();
        let gbehav = move |ma: &GaussianMixtureModel<F>, mb: &GaussianMixtureModel<F>, ctx: &mut Ctx, class: &str, clause: &str| {
            ctx.require(ma == mb || (ma != ma && super::value_has_nan()), if clause == "refit" { "refit" } else { "equal" }, class, || "models differ".into());
            dbg_same(ctx, class, ma, mb);
            same_arr(ctx, clause, class, "weights", ma.weights(), mb.weights());
            same_arr(ctx, clause, class, "means", ma.means(), mb.means());
            same_arr(ctx, clause, class, "covariances", ma.covariances(), mb.covariances());
            same_arr(ctx, clause, class, "precisions", ma.precisions(), mb.precisions());
            ctx.require(ma.predict(&fresh2) == mb.predict(&fresh2), "predict", class, || "predict differs".into());
            same_arr(ctx, "predict", class, "predict_proba", &ma.predict_proba(&fresh2), &mb.predict_proba(&fresh2));
        };
        rt(em, sw, "linfa-clustering::GmmParams", tag, Norm::Exact, &gp, &|a, b, ctx, class| {
            ctx.require(a == b || (a != a && super::value_has_nan()), "equal", class, || format!("{:?} vs {:?}", a, b)); dbg_same(ctx, class, a, b);
            refit_same(ctx, class, &|| fp(a.fit(&ds2)), &|| fp(b.fit(&ds2)));
        });
        let badg = GaussianMixtureModel::<F>::params_with_rng(0, Xoshiro256Plus::seed_from_u64(1)).tolerance(F::cast(-1.0));
        rt(em, sw, "linfa-clustering::GmmParams", tag, Norm::Exact, &badg, &|a, b, ctx, class| {
            ctx.require(a.check_ref().is_err() == b.check_ref().is_err(), "validate", class, || "validation verdict differs".into());
        });
        let gvp = gp.clone().check().unwrap();
        let ds2 = ds.clone();
        rt(em, sw, "linfa-clustering::GmmValidParams", tag, Norm::Exact, &gvp, &|a, b, ctx, class| {
            ctx.require(a == b || (a != a && super::value_has_nan()), "equal", class, || format!("{:?} vs {:?}", a, b)); dbg_same(ctx, class, a, b);
            refit_same(ctx, class, &|| fp(a.fit(&ds2)), &|| fp(b.fit(&ds2)));
        });
        if let Ok(model) = gvp.fit(&ds) {
            let gb = gbehav.clone();
            rt(em, sw, "linfa-clustering::GaussianMixtureModel", tag, Norm::Exact, &model, &|a, b, ctx, class| gb(a, b, ctx, class, "accessors"));
        }
        // ---- DBSCAN / OPTICS parameters and OPTICS result
        let nn = [CommonNearestNeighbour::LinearSearch, CommonNearestNeighbour::KdTree, CommonNearestNeighbour::BallTree][rng.below(3)].clone();
        let dvp = Dbscan::params_with::<F, _, _>(2 + rng.below(3), L2Dist, nn.clone()).tolerance(F::cast(1.5)).check().unwrap();
        let x2 = x.clone();
        rt(em, sw, "linfa-clustering::DbscanValidParams", tag, Norm::Exact, &dvp, &|a, b, ctx, class| {
            ctx.require(a == b || (a != a && super::value_has_nan()), "equal", class, || format!("{:?} vs {:?}", a, b)); dbg_same(ctx, class, a, b);
            ctx.require(fb(a.tolerance()) == fb(b.tolerance()) && a.minimum_points() == b.minimum_points() && a.nn_algo() == b.nn_algo() && a.dist_fn() == b.dist_fn(), "accessors", class, || "accessor differs".into());
            refit_same(ctx, class, &|| fp::<_, String>(Ok(a.transform(&x2))), &|| fp::<_, String>(Ok(b.transform(&x2))));
        });
        let dvp1 = Dbscan::params_with::<F, _, _>(3, L1Dist, nn.clone()).tolerance(F::cast(2.0)).check().unwrap();
        let x2 = x.clone();
        rt(em, sw, "linfa-clustering::DbscanValidParams", tag, Norm::Exact, &dvp1, &|a, b, ctx, class| {
            ctx.require(a == b || (a != a && super::value_has_nan()), "equal", class, || format!("{:?} vs {:?}", a, b)); dbg_same(ctx, class, a, b);
            refit_same(ctx, class, &|| fp::<_, String>(Ok(a.transform(&x2))), &|| fp::<_, String>(Ok(b.transform(&x2))));
        });
        let op = Optics::params_with::<F, _, _>(2 + rng.below(3), L2Dist, nn.clone()).tolerance(F::cast([2.0, 100.0][rng.below(2)]));
        let x2 = x.clone();
        rt(em, sw, "linfa-clustering::OpticsParams", tag, Norm::Exact, &op, &|a, b, ctx, class| {
            ctx.require(a == b || (a != a && super::value_has_nan()), "equal", class, || format!("{:?} vs {:?}", a, b)); dbg_same(ctx, class, a, b);
            refit_same(ctx, class, &|| fp(a.transform(x2.view())), &|| fp(b.transform(x2.view())));
        });
        let bado = Optics::params_with::<F, _, _>(1, L2Dist, nn.clone()).tolerance(F::cast(-1.0));
        rt(em, sw, "linfa-clustering::OpticsParams", tag, Norm::Exact, &bado, &|a, b, ctx, class| {
            ctx.require(a.check_ref().is_err() == b.check_ref().is_err(), "validate", class, || "validation verdict differs".into());
        });
        let ovp = op.clone().check().unwrap();
        let x2 = x.clone();
        rt(em, sw, "linfa-clustering::OpticsValidParams", tag, Norm::Exact, &ovp, &|a, b, ctx, class| {
            ctx.require(a == b || (a != a && super::value_has_nan()), "equal", class, || format!("{:?} vs {:?}", a, b)); dbg_same(ctx, class, a, b);
            ctx.require(fb(a.tolerance()) == fb(b.tolerance()) && a.minimum_points() == b.minimum_points() && a.nn_algo() == b.nn_algo() && a.dist_fn() == b.dist_fn(), "accessors", class, || "accessor differs".into());
            refit_same(ctx, class, &|| fp::<_, String>(Ok(a.transform(x2.view()))), &|| fp::<_, String>(Ok(b.transform(x2.view()))));
        });
        {
            let an = ovp.transform(x.view());
            rt(em, sw, "linfa-clustering::OpticsAnalysis", tag, Norm::Exact, &an, &|a: &OpticsAnalysis<F>, b, ctx, class| {
                ctx.require(a == b || (a != a && super::value_has_nan()), "equal", class, || "analysis differs".into()); dbg_same(ctx, class, a, b);
                let key = |o: &OpticsAnalysis<F>| -> Vec<(usize, Option<u64>, Option<u64>)> { o.iter().map(|s| (s.index(), s.core_distance().map(fb), s.reachability_distance().map(fb))).collect() };
                ctx.require(key(a) == key(b), "accessors", class, || "sample accessors differ".into());
            });
            for s in an.iter().take(3) {
                rt(em, sw, "linfa-clustering::Sample", tag, Norm::Exact, s, &|a: &Sample<F>, b, ctx, class| {
                    ctx.require(a == b || (a != a && super::value_has_nan()), "equal", class, || format!("{:?} vs {:?}", a, b));
                    dbg_same(ctx, class, a, b);
                    ctx.require(a.index() == b.index() && a.core_distance().map(fb) == b.core_distance().map(fb) && a.reachability_distance().map(fb) == b.reachability_distance().map(fb), "accessors", class, || "sample accessors differ".into());
                });
            }
        }
    }
}


fn elasticnet<F: Fl>(em: &mut Em, rng: &mut Rng, sw: &mut Sweep) {
    use linfa_elasticnet::*;
    let tag = F::NAME;
    for it in 0..2 {
        let (n, p, t) = (8 + rng.below(8), 1 + rng.below(4), 2 + rng.below(2));
        let x: Array2<F> = records(rng, n, p);
        let y = lin_targets(rng, &x);
        let y2: Array2<F> = Array2::from_shape_fn((n, t), |(i, c)| y[i] * F::cast(c as f64 + 1.0) + F::cast(rng.unit() * 0.1));
        let fresh: Array2<F> = records(rng, 5, p);
        let ds = Dataset::new(x.clone(), y.clone());
        let dsm = Dataset::new(x.clone(), y2);
        let (pen, l1) = [(0.1, 0.5), (0.0, 0.5), (1.0, 1.0), (0.3, 0.0)][(it * 2 + rng.below(2)) % 4];
        let vp = ElasticNet::<F>::params().penalty(F::cast(pen)).l1_ratio(F::cast(l1)).with_intercept(rng.coin()).max_iterations(50 + rng.below(100) as u32).tolerance(F::cast(1e-4)).check().unwrap();
        let ds2 = ds.clone();
        rt(em, sw, "linfa-elasticnet::ElasticNetValidParamsBase", tag, Norm::Exact, &vp, &|a, b, ctx, class| {
            ctx.require(a == b || (a != a && super::value_has_nan()), "equal", class, || format!("{:?} vs {:?}", a, b)); dbg_same(ctx, class, a, b);
            ctx.require(fb(a.penalty()) == fb(b.penalty()) && fb(a.l1_ratio()) == fb(b.l1_ratio()) && a.with_intercept() == b.with_intercept() && a.max_iterations() == b.max_iterations() && fb(a.tolerance()) == fb(b.tolerance()), "accessors", class, || "accessor differs".into());
            refit_same(ctx, class, &|| fp(a.fit(&ds2)), &|| fp(b.fit(&ds2)));
        });
        if let Ok(m) = vp.fit(&ds) {
            rt(em, sw, "linfa-elasticnet::ElasticNet", tag, Norm::Exact, &m, &|a: &ElasticNet<F>, b, ctx, class| {
                dbg_same(ctx, class, a, b);
                same_arr(ctx, "accessors", class, "hyperplane", a.hyperplane(), b.hyperplane());
                ctx.require(fb(a.intercept()) == fb(b.intercept()) && a.n_steps() == b.n_steps() && fb(a.duality_gap()) == fb(b.duality_gap()), "accessors", class, || "accessor differs".into());
                ctx.require(a.z_score().ok().map(|z| bits(&z)) == b.z_score().ok().map(|z| bits(&z)), "accessors", class, || "z_score differs".into());
                same_arr(ctx, "predict", class, "predict", &a.predict(&fresh), &b.predict(&fresh));
            });
        }
        let vpm = MultiTaskElasticNet::<F>::params().penalty(F::cast(pen)).l1_ratio(F::cast(l1)).max_iterations(60).tolerance(F::cast(1e-4)).check().unwrap();
        let ds2 = dsm.clone();
        rt(em, sw, "linfa-elasticnet::ElasticNetValidParamsBase", tag, Norm::Exact, &vpm, &|a, b, ctx, class| {
            ctx.require(a == b || (a != a && super::value_has_nan()), "equal", class, || format!("{:?} vs {:?}", a, b)); dbg_same(ctx, class, a, b);
            refit_same(ctx, class, &|| fp(a.fit(&ds2)), &|| fp(b.fit(&ds2)));
        });
        if let Ok(m) = vpm.fit(&dsm) {
            rt(em, sw, "linfa-elasticnet::MultiTaskElasticNet", tag, Norm::Exact, &m, &|a: &MultiTaskElasticNet<F>, b, ctx, class| {
                dbg_same(ctx, class, a, b);
                same_arr(ctx, "accessors", class, "hyperplane", a.hyperplane(), b.hyperplane());
                same_arr(ctx, "accessors", class, "intercept", a.intercept(), b.intercept());
                ctx.require(a.n_steps() == b.n_steps() && fb(a.duality_gap()) == fb(b.duality_gap()), "accessors", class, || "accessor differs".into());
                same_arr(ctx, "predict", class, "predict", &a.predict(&fresh), &b.predict(&fresh));
            });
        }
    }
    for e in [ElasticNetError::NotEnoughSamples, ElasticNetError::IllConditioned, ElasticNetError::InvalidL1Ratio(1.5), ElasticNetError::InvalidPenalty(-1.0), ElasticNetError::InvalidTolerance(f32::NAN), ElasticNetError::IncorrectTargetShape, ElasticNetError::BaseCrate(linfa::Error::NotEnoughSamples), ElasticNetError::BaseCrate(linfa::Error::Parameters("q".into()))] {
        rt(em, sw, "linfa-elasticnet::ElasticNetError", tag, Norm::Exact, &e, &|a, b, ctx, class| {
            ctx.require(a.to_string() == b.to_string(), "accessors", class, || format!("{} vs {}", a, b));
        });
    }
}

fn ftrl<F: Fl>(em: &mut Em, rng: &mut Rng, sw: &mut Sweep) {
    use linfa::traits::FitWith;
    use linfa_ftrl::*;
    use rand::SeedableRng;
    use rand_xoshiro::Xoshiro256Plus;
    let tag = F::NAME;
    for _ in 0..2 {
        let (n, p) = (10 + rng.below(8), 1 + rng.below(4));
        let yl = labels(rng, n, 2);
        let x: Array2<F> = blobs(rng, n, p, &yl);
        let y: Array1<bool> = yl.mapv(|v| v == 1);
        let fresh: Array2<F> = records(rng, 5, p);
        let ds = Dataset::new(x, y);
        let params = Ftrl::<F>::params_with_rng(Xoshiro256Plus::seed_from_u64(rng.next())).alpha(F::cast(0.1 + rng.unit())).beta(F::cast(rng.unit())).l1_ratio(F::cast(rng.unit())).l2_ratio(F::cast(rng.unit()));
        let ds2 = ds.clone();
        rt(em, sw, "linfa-ftrl::FtrlParams", tag, Norm::Exact, &params, &|a, b, ctx, class| {
            ctx.require(a == b || (a != a && super::value_has_nan()), "equal", class, || format!("{:?} vs {:?}", a, b)); dbg_same(ctx, class, a, b);
            refit_same(ctx, class, &|| fp(a.fit_with(None, &ds2)), &|| fp(b.fit_with(None, &ds2)));
        });
        let bad = Ftrl::<F>::params().alpha(F::cast(-1.0));
        rt(em, sw, "linfa-ftrl::FtrlParams", tag, Norm::Exact, &bad, &|a, b, ctx, class| {
            ctx.require(a.check_ref().is_err() == b.check_ref().is_err(), "validate", class, || "validation verdict differs".into());
        });
        let vp = params.clone().check().unwrap();
        let ds2 = ds.clone();
        rt(em, sw, "linfa-ftrl::FtrlValidParams", tag, Norm::Exact, &vp, &|a, b, ctx, class| {
            ctx.require(a == b || (a != a && super::value_has_nan()), "equal", class, || format!("{:?} vs {:?}", a, b)); dbg_same(ctx, class, a, b);
            ctx.require(fb(a.alpha()) == fb(b.alpha()) && fb(a.beta()) == fb(b.beta()) && fb(a.l1_ratio()) == fb(b.l1_ratio()) && fb(a.l2_ratio()) == fb(b.l2_ratio()) && a.rng() == b.rng(), "accessors", class, || "accessor differs".into());
            refit_same(ctx, class, &|| fp(a.fit_with(None, &ds2)), &|| fp(b.fit_with(None, &ds2)));
        });
        let mut m = vp.fit_with(None, &ds).unwrap();
        m = vp.fit_with(Some(m), &ds).unwrap();
        let ds2 = ds.clone();
        let vp2 = vp.clone();
        rt(em, sw, "linfa-ftrl::Ftrl", tag, Norm::Exact, &m, &|a: &Ftrl<F>, b, ctx, class| {
            dbg_same(ctx, class, a, b);
            same_arr(ctx, "accessors", class, "z", a.z(), b.z());
            same_arr(ctx, "accessors", class, "n", a.n(), b.n());
            same_arr(ctx, "accessors", class, "weights", &a.get_weights(), &b.get_weights());
            ctx.require(fb(a.alpha()) == fb(b.alpha()) && fb(a.beta()) == fb(b.beta()) && fb(a.l1_ratio()) == fb(b.l1_ratio()) && fb(a.l2_ratio()) == fb(b.l2_ratio()), "accessors", class, || "accessor differs".into());
            let (pa, pb): (Array1<linfa::prelude::Pr>, Array1<linfa::prelude::Pr>) = (a.predict(&fresh), b.predict(&fresh));
            ctx.require(pa.iter().map(|x| x.to_bits()).collect::<Vec<_>>() == pb.iter().map(|x| x.to_bits()).collect::<Vec<_>>(), "predict", class, || "predict differs".into());
            // continue training from the restored state
            refit_same(ctx, class, &|| fp(vp2.fit_with(Some(a.clone()), &ds2)), &|| fp(vp2.fit_with(Some(b.clone()), &ds2)));
        });
    }
    for e in [FtrlError::InvalidL1Ratio(2.0), FtrlError::InvalidL2Ratio(-1.0), FtrlError::InvalidAlpha(0.0), FtrlError::InvalidBeta(-0.5), FtrlError::InvalidNFeatures(0), FtrlError::LinfaError(linfa::Error::MismatchedShapes(1, 2))] {
        rt(em, sw, "linfa-ftrl::FtrlError", tag, Norm::Exact, &e, &|a, b, ctx, class| {
            ctx.require(a.to_string() == b.to_string(), "accessors", class, || format!("{} vs {}", a, b));
        });
    }
}

fn ica<F: Fl>(em: &mut Em, rng: &mut Rng, sw: &mut Sweep) {
    use linfa_ica::fast_ica::*;
    use linfa_ica::hyperparams::*;
    let tag = F::NAME;
    for g in [GFunc::Logcosh(1.0), GFunc::Logcosh(1.5), GFunc::Exp, GFunc::Cube] {
        rt(em, sw, "linfa-ica::GFunc", tag, Norm::Exact, &g, eqb!());
    }
    for it in 0..2 {
        let (n, p) = (20 + rng.below(10), 2 + rng.below(2));
        let x: Array2<F> = Array2::from_shape_fn((n, p), |(i, j)| F::cast(((i * (j + 1)) as f64 * 0.37).sin() + rng.unit() * 0.3 + if j == 1 { ((i / 3) % 2) as f64 } else { 0.0 }));
        let fresh: Array2<F> = records(rng, 5, p);
        let ds = DatasetBase::from(x);
        let vp = FastIca::<F>::params().ncomponents(p).gfunc([GFunc::Logcosh(1.0), GFunc::Exp, GFunc::Cube][(it + rng.below(2)) % 3]).max_iter(100).tol(F::cast(1e-3)).random_state(rng.below(1000)).check().unwrap();
        let ds2 = ds.clone();
        rt(em, sw, "linfa-ica::FastIcaValidParams", tag, Norm::Exact, &vp, &|a, b, ctx, class| {
            ctx.require(a == b || (a != a && super::value_has_nan()), "equal", class, || format!("{:?} vs {:?}", a, b)); dbg_same(ctx, class, a, b);
            ctx.require(a.ncomponents() == b.ncomponents() && a.gfunc() == b.gfunc() && a.max_iter() == b.max_iter() && fb(a.tol()) == fb(b.tol()) && a.random_state() == b.random_state(), "accessors", class, || "accessor differs".into());
            refit_same(ctx, class, &|| fp(a.fit(&ds2)), &|| fp(b.fit(&ds2)));
        });
        if let Ok(m) = vp.fit(&ds) {
            rt(em, sw, "linfa-ica::FastIca", tag, Norm::Exact, &m, &|a: &FastIca<F>, b, ctx, class| {
                ctx.require(a == b || (a != a && super::value_has_nan()), "equal", class, || "models differ".into()); dbg_same(ctx, class, a, b);
                same_arr(ctx, "predict", class, "predict", &a.predict(&fresh), &b.predict(&fresh));
            });
        }
    }
}

fn reduction(em: &mut Em, rng: &mut Rng, sw: &mut Sweep) {
    use linfa_reduction::*;
    let tag = "f64";
    for it in 0..3 {
        let (n, p) = (8 + rng.below(10), 2 + rng.below(3));
        let x: Array2<f64> = records(rng, n, p);
        let fresh: Array2<f64> = records(rng, 5, p);
        let ds = DatasetBase::from(x);
        let params = Pca::params(1 + rng.below(p)).whiten(it % 2 == 1);
        let ds2 = ds.clone();
        rt(em, sw, "linfa-reduction::PcaParams", tag, Norm::Exact, &params, &|a, b, ctx, class| {
            ctx.require(a == b || (a != a && super::value_has_nan()), "equal", class, || format!("{:?} vs {:?}", a, b)); dbg_same(ctx, class, a, b);
            refit_same(ctx, class, &|| fp(a.fit(&ds2)), &|| fp(b.fit(&ds2)));
        });
        if let Ok(m) = params.fit(&ds) {
            rt(em, sw, "linfa-reduction::Pca", tag, Norm::Exact, &m, &|a: &Pca<f64>, b, ctx, class| {
                ctx.require(a == b || (a != a && super::value_has_nan()), "equal", class, || "models differ".into()); dbg_same(ctx, class, a, b);
                same_arr(ctx, "accessors", class, "components", a.components(), b.components());
                same_arr(ctx, "accessors", class, "mean", a.mean(), b.mean());
                same_arr(ctx, "accessors", class, "singular_values", a.singular_values(), b.singular_values());
                same_arr(ctx, "accessors", class, "explained_variance", &a.explained_variance(), &b.explained_variance());
                same_arr(ctx, "predict", class, "predict", &a.predict(&fresh), &b.predict(&fresh));
            });
        }
    }
}

fn pls<F: Fl>(em: &mut Em, rng: &mut Rng, sw: &mut Sweep) {
    use linfa_pls::*;
    let tag = F::NAME;
    for it in 0..2 {
        let (n, p, q) = (10 + rng.below(8), 3 + rng.below(2), 2);
        let x: Array2<F> = records(rng, n, p);
        let y: Array2<F> = Array2::from_shape_fn((n, q), |(i, c)| x[(i, c)] * F::cast(2.0) + x[(i, (c + 1) % p)] + F::cast(rng.unit() * 0.1));
        let fresh: Array2<F> = records(rng, 5, p);
        let ds = Dataset::new(x, y);
        let k = 1 + it % 2;
        macro_rules! one {
            ($ty:ident, $id:expr) => {
                if let Ok(m) = $ty::<F>::params(k).scale(rng.coin()).fit(&ds) {
                    let ds3 = ds.clone();
                    rt(em, sw, $id, tag, Norm::Exact, &m, &|a: &$ty<F>, b, ctx, class| {
                        ctx.require(a == b || (a != a && super::value_has_nan()), "equal", class, || "models differ".into()); dbg_same(ctx, class, a, b);
                        same_arr(ctx, "accessors", class, "weights", a.weights().0, b.weights().0);
                        same_arr(ctx, "accessors", class, "loadings", a.loadings().1, b.loadings().1);
                        same_arr(ctx, "accessors", class, "rotations", a.rotations().0, b.rotations().0);
                        same_arr(ctx, "accessors", class, "coefficients", a.coefficients(), b.coefficients());
                        same_arr(ctx, "predict", class, "predict", &a.predict(&fresh), &b.predict(&fresh));
                        let (ta, tb) = (a.transform(ds3.clone()), b.transform(ds3.clone()));
                        same_arr(ctx, "predict", class, "transform records", ta.records(), tb.records());
                        same_arr(ctx, "predict", class, "transform targets", ta.targets(), tb.targets());
                    });
                }
            };
        }
        one!(PlsRegression, "linfa-pls::PlsRegression");
        one!(PlsCanonical, "linfa-pls::PlsCanonical");
        one!(PlsCca, "linfa-pls::PlsCca");
        let sp = PlsSvd::<F>::params(k).scale(it == 0);
        let ds2 = ds.clone();
        rt(em, sw, "linfa-pls::PlsSvdParams", tag, Norm::Exact, &sp, &|a, b, ctx, class| {
            ctx.require(a == b || (a != a && super::value_has_nan()), "equal", class, || format!("{:?} vs {:?}", a, b)); dbg_same(ctx, class, a, b);
            let f = |p: &PlsSvdParams| -> String {
                match Fit::<Array2<F>, Array2<F>, PlsError>::fit(p, &ds2) {
                    Ok(m) => {
                        let t = m.transform(ds2.clone());
                        format!("{:?} {:?} {:?}", bits(m.weights().0), bits(m.weights().1), bits(t.records()))
                    }
                    Err(e) => format!("err:{}", e),
                }
            };
            refit_same(ctx, class, &|| f(a), &|| f(b));
        });
    }
}

fn kernel_svm<F: Fl>(em: &mut Em, rng: &mut Rng, sw: &mut Sweep) {
    use linfa_kernel::*;
    use linfa_svm::*;
    let tag = F::NAME;
    let methods = [KernelMethod::Gaussian(F::cast(0.5 + rng.unit() * 3.0)), KernelMethod::Linear, KernelMethod::Polynomial(F::cast(rng.unit()), F::cast(2.0 + rng.below(2) as f64))];
    let pts: Array2<F> = records(rng, 4, 3);
    for m in methods.iter() {
        let pts = pts.clone();
        rt(em, sw, "linfa-kernel::KernelMethod", tag, Norm::Exact, m, &|a, b, ctx, class| {
            ctx.require(a == b || (a != a && super::value_has_nan()), "equal", class, || format!("{:?} vs {:?}", a, b)); dbg_same(ctx, class, a, b);
            ctx.require(fb(a.distance(pts.row(0), pts.row(1))) == fb(b.distance(pts.row(0), pts.row(1))), "predict", class, || "kernel value differs".into());
        });
    }
    for e in [ExitReason::ReachedThreshold, ExitReason::ReachedIterations] {
        rt(em, sw, "linfa-svm::ExitReason", tag, Norm::Exact, &e, eqb!());
    }
    for it in 0..3 {
        let (n, p) = (12 + rng.below(8), 1 + rng.below(3));
        let yl = labels(rng, n, 2);
        let x: Array2<F> = blobs(rng, n, p, &yl);
        let fresh: Array2<F> = records(rng, 6, p);
        // kernels, dense and sparse
        for kind in [KernelType::Dense, KernelType::Sparse(2 + rng.below(3))] {
            let k: Kernel<F> = Kernel::params().kind(kind).method(methods[it % 3].clone()).transform(&x);
            let rhs: Array2<F> = records(rng, n, 2);
            rt(em, sw, "linfa-kernel::KernelBase", tag, Norm::Exact, &k, &|a: &Kernel<F>, b, ctx, class| {
                ctx.require(a == b || (a != a && super::value_has_nan()), "equal", class, || "kernels differ".into()); dbg_same(ctx, class, a, b);
                ctx.require(a.size() == b.size() && a.is_linear() == b.is_linear(), "accessors", class, || "size / is_linear".into());
                same_arr(ctx, "accessors", class, "diagonal", &a.diagonal(), &b.diagonal());
                same_arr(ctx, "accessors", class, "sum", &a.sum(), &b.sum());
                ctx.require(a.column(1).iter().map(|v| fb(*v)).collect::<Vec<_>>() == b.column(1).iter().map(|v| fb(*v)).collect::<Vec<_>>(), "accessors", class, || "column".into());
                same_arr(ctx, "predict", class, "dot", &a.dot(&rhs.view()), &b.dot(&rhs.view()));
            });
        }
        // classification
        let yb: Array1<bool> = yl.mapv(|v| v == 1);
        let dsb = Dataset::new(x.clone(), yb);
        let cpos = 1.0 + rng.unit() * 5.0;
        let base = || {
            let q = Svm::<F, bool>::params().pos_neg_weights(F::cast(cpos), F::cast(1.0));
            match it % 3 {
                0 => q.gaussian_kernel(F::cast(2.0)),
                1 => q.linear_kernel(),
                _ => q.polynomial_kernel(F::cast(1.0), F::cast(2.0)),
            }
        };
        if let Ok(m) = base().fit(&dsb) {
            let sbehav = |a: &Svm<F, bool>, b: &Svm<F, bool>, ctx: &mut Ctx, class: &str| {
                ctx.require(a == b || (a != a && super::value_has_nan()), "equal", class, || "models differ".into()); dbg_same(ctx, class, a, b);
                ctx.require(a.nsupport() == b.nsupport() && fb(a.rho) == fb(b.rho) && a.alpha.iter().map(|v| fb(*v)).collect::<Vec<_>>() == b.alpha.iter().map(|v| fb(*v)).collect::<Vec<_>>(), "accessors", class, || "alpha / rho / nsupport".into());
                ctx.require(a.to_string() == b.to_string(), "accessors", class, || "Display differs".into());
                let (pa, pb): (Array1<bool>, Array1<bool>) = (a.predict(&fresh), b.predict(&fresh));
                ctx.require(pa == pb, "predict", class, || "predict differs".into());
                for r in fresh.rows() {
                    ctx.require(fb(a.weighted_sum(&r)) == fb(b.weighted_sum(&r)), "predict", class, || "decision value differs".into());
                }
            };
            rt(em, sw, "linfa-svm::Svm", tag, Norm::Exact, &m, &sbehav);
        }
        let dsp = Dataset::new(x.clone(), yl.mapv(|v| v == 1));
        if let Ok(m) = Svm::<F, Pr>::params().gaussian_kernel(F::cast(3.0)).pos_neg_weights(F::cast(2.0), F::cast(2.0)).fit(&dsp) {
            rt(em, sw, "linfa-svm::Svm", tag, Norm::Exact, &m, &|a: &Svm<F, Pr>, b, ctx, class| {
                ctx.require(a == b || (a != a && super::value_has_nan()), "equal", class, || "models differ".into()); dbg_same(ctx, class, a, b);
                let (pa, pb): (Array1<Pr>, Array1<Pr>) = (a.predict(&fresh), b.predict(&fresh));
                ctx.require(pa.iter().map(|x| x.to_bits()).collect::<Vec<_>>() == pb.iter().map(|x| x.to_bits()).collect::<Vec<_>>(), "predict", class, || "probabilities differ".into());
            });
        }
        let h1 = SeparatingHyperplane::Linear(x.row(0).to_owned());
        let h2 = SeparatingHyperplane::WeightedCombination(x.clone());
        for h in [h1, h2] {
            rt(em, sw, "linfa-svm::SeparatingHyperplane", tag, Norm::Exact, &h, eqb!());
        }
    }
}

macro_rules! svm_reg_impl { ($fname:ident, $F:ty) => {
fn $fname(em: &mut Em, rng: &mut Rng, sw: &mut Sweep) {
    use linfa_svm::*;
    type F = $F;
    let tag = F::NAME;
    for it in 0..2 {
        let (n, p) = (12 + rng.below(8), 1 + rng.below(3));
        let x: Array2<F> = records(rng, n, p);
        let y = lin_targets(rng, &x);
        let fresh: Array2<F> = records(rng, 6, p);
        let ds = Dataset::new(x, y);
        let q = if it == 0 { Svm::<F, F>::params().c_svr(10.0, Some(0.1)).linear_kernel() } else { Svm::<F, F>::params().nu_svr(0.5, Some(5.0)).gaussian_kernel(10.0) };
        if let Ok(m) = q.fit(&ds) {
            rt(em, sw, "linfa-svm::Svm", tag, Norm::Exact, &m, &|a: &Svm<F, F>, b, ctx, class| {
                ctx.require(a == b || (a != a && super::value_has_nan()), "equal", class, || "models differ".into()); dbg_same(ctx, class, a, b);
                let (pa, pb): (Array1<F>, Array1<F>) = (a.predict(&fresh), b.predict(&fresh));
                same_arr(ctx, "predict", class, "predict", &pa, &pb);
            });
        }
    }
}}}
svm_reg_impl!(svm_reg_f32, f32);
svm_reg_impl!(svm_reg_f64, f64);


macro_rules! logistic_impl { ($fname:ident, $F:ty) => {
fn $fname(em: &mut Em, rng: &mut Rng, sw: &mut Sweep) {
    use linfa_logistic::*;
    use ndarray::{Ix1, Ix2};
    type F = $F;
    let tag = F::NAME;
    for it in 0..2 {
        let (n, p) = (12 + rng.below(8), 1 + rng.below(3));
        let yl = labels(rng, n, 2);
        let x: Array2<F> = blobs(rng, n, p, &yl);
        let fresh: Array2<F> = records(rng, 6, p);
        // string labels and integer labels
        let ys: Array1<String> = yl.mapv(|v| if v == 1 { "spam".to_string() } else { "ham".to_string() });
        let dss = Dataset::new(x.clone(), ys);
        let init: Option<Array1<F>> = if it == 1 { Some(Array1::from_elem(p + 1, 0.25 as F)) } else { None };
        let mut params: LogisticRegression<F> = LogisticRegression::default().alpha([1.0, 0.0, 0.1][rng.below(3)] as F).max_iterations(20 + rng.below(40) as u64).gradient_tolerance(1e-4 as F);
        if let Some(i) = init.clone() {
            params = params.initial_params(i);
        } else {
            params = params.with_intercept(rng.coin());
        }
        let ds2 = dss.clone();
        rt(em, sw, "linfa-logistic::LogisticRegressionParams", tag, Norm::Exact, &params, &|a, b, ctx, class| {
            ctx.require(a == b || (a != a && super::value_has_nan()), "equal", class, || format!("{:?} vs {:?}", a, b)); dbg_same(ctx, class, a, b);
            refit_same(ctx, class, &|| fp(a.fit(&ds2)), &|| fp(b.fit(&ds2)));
        });
        let bad: LogisticRegression<F> = LogisticRegression::default().alpha(-1.0 as F);
        rt(em, sw, "linfa-logistic::LogisticRegressionParams", tag, Norm::Exact, &bad, &|a, b, ctx, class| {
            ctx.require(a.check_ref().is_err() == b.check_ref().is_err(), "validate", class, || "validation verdict differs".into());
        });
        let vp: ValidLogisticRegression<F> = params.clone().check().unwrap();
        let ds2 = dss.clone();
        rt(em, sw, "linfa-logistic::LogisticRegressionValidParams", tag, Norm::Exact, &vp, &|a, b, ctx, class| {
            ctx.require(a == b || (a != a && super::value_has_nan()), "equal", class, || format!("{:?} vs {:?}", a, b)); dbg_same(ctx, class, a, b);
            refit_same(ctx, class, &|| fp(a.fit(&ds2)), &|| fp(b.fit(&ds2)));
        });
        if let Ok(m) = vp.fit(&dss) {
            let m = if it == 1 { m.set_threshold(0.3 as F) } else { m };
            rt(em, sw, "linfa-logistic::FittedLogisticRegression", tag, Norm::Exact, &m, &|a: &FittedLogisticRegression<F, String>, b, ctx, class| {
                ctx.require(a == b || (a != a && super::value_has_nan()), "equal", class, || "models differ".into()); dbg_same(ctx, class, a, b);
                same_arr(ctx, "accessors", class, "params", a.params(), b.params());
                ctx.require(fb(a.intercept()) == fb(b.intercept()) && a.labels() == b.labels(), "accessors", class, || "intercept / labels".into());
                ctx.require(a.predict(&fresh) == b.predict(&fresh), "predict", class, || "predict differs".into());
                same_arr(ctx, "predict", class, "predict_probabilities", &a.predict_probabilities(&fresh), &b.predict_probabilities(&fresh));
            });
            rt(em, sw, "linfa-logistic::BinaryClassLabels", tag, Norm::Exact, m.labels(), eqb!());
            rt(em, sw, "linfa-logistic::ClassLabel", tag, Norm::Exact, &m.labels().pos, eqb!());
        }
        // multinomial, integer classes
        let c = 3 + rng.below(2);
        let ym = labels(rng, n, c);
        let xm: Array2<F> = blobs(rng, n, p, &ym);
        let dsm = Dataset::new(xm, ym);
        let mut mp: MultiLogisticRegression<F> = MultiLogisticRegression::default().alpha(0.5 as F).max_iterations(30).gradient_tolerance(1e-4 as F);
        if it == 1 {
            mp = mp.initial_params(Array2::from_elem((p + 1, c), 0.125 as F));
        }
        let ds2 = dsm.clone();
        rt(em, sw, "linfa-logistic::LogisticRegressionParams", tag, Norm::Exact, &mp, &|a, b, ctx, class| {
            ctx.require(a == b || (a != a && super::value_has_nan()), "equal", class, || format!("{:?} vs {:?}", a, b)); dbg_same(ctx, class, a, b);
            refit_same(ctx, class, &|| fp(a.fit(&ds2)), &|| fp(b.fit(&ds2)));
        });
        let mvp: ValidMultiLogisticRegression<F> = mp.clone().check().unwrap();
        let ds2 = dsm.clone();
        rt(em, sw, "linfa-logistic::LogisticRegressionValidParams", tag, Norm::Exact, &mvp, &|a, b, ctx, class| {
            ctx.require(a == b || (a != a && super::value_has_nan()), "equal", class, || format!("{:?} vs {:?}", a, b)); dbg_same(ctx, class, a, b);
            refit_same(ctx, class, &|| fp(a.fit(&ds2)), &|| fp(b.fit(&ds2)));
        });
        if let Ok(m) = mvp.fit(&dsm) {
            rt(em, sw, "linfa-logistic::MultiFittedLogisticRegression", tag, Norm::Exact, &m, &|a: &MultiFittedLogisticRegression<F, usize>, b, ctx, class| {
                ctx.require(a == b || (a != a && super::value_has_nan()), "equal", class, || "models differ".into()); dbg_same(ctx, class, a, b);
                same_arr(ctx, "accessors", class, "params", a.params(), b.params());
                same_arr(ctx, "accessors", class, "intercept", a.intercept(), b.intercept());
                ctx.require(a.classes() == b.classes(), "accessors", class, || "classes".into());
                ctx.require(a.predict(&fresh) == b.predict(&fresh), "predict", class, || "predict differs".into());
                same_arr(ctx, "predict", class, "predict_probabilities", &a.predict_probabilities(&fresh), &b.predict_probabilities(&fresh));
            });
        }
        let ap1 = verif_hooks_c19::ArgminParam::<F, Ix1>(x.row(0).to_owned());
        rt(em, sw, "linfa-logistic::ArgminParam", tag, Norm::Exact, &ap1, eqb!());
        let ap2 = verif_hooks_c19::ArgminParam::<F, Ix2>(x.clone());
        rt(em, sw, "linfa-logistic::ArgminParam", tag, Norm::Exact, &ap2, eqb!());
    }
}}}
logistic_impl!(logistic_f32, f32);
logistic_impl!(logistic_f64, f64);

/// what a refitted tree is compared on: structure, splits, leaf predictions and predictions on fresh
/// data.  The modal class stored in *internal* nodes is left out: on a tie it follows hash-map order
/// (C20's subject) and no prediction depends on it; likewise the impurity decrease, whose f32 sums run
/// in hash-map order.
fn tree_fp<F: Fl>(r: linfa_trees::Result<linfa_trees::DecisionTree<F, usize>>, fresh: &Array2<F>) -> String {
    match r {
        Ok(t) => {
            let walk: Vec<(bool, usize, Option<usize>, usize, u64)> = t.iter_nodes().map(|n| (n.is_leaf(), n.depth(), if n.is_leaf() { n.prediction() } else { None }, n.split().0, fb(n.split().1))).collect();
            format!("{:?} {:?}", walk, t.predict(fresh))
        }
        Err(e) => format!("err:{}", e),
    }
}

fn trees<F: Fl>(em: &mut Em, rng: &mut Rng, sw: &mut Sweep) {
    use linfa_trees::*;
    let tag = F::NAME;
    for q in [SplitQuality::Gini, SplitQuality::Entropy] {
        rt(em, sw, "linfa-trees::SplitQuality", tag, Norm::Exact, &q, eqb!());
    }
    for it in 0..3 {
        // it == 0 is the configuration used for the refit comparison: one feature, two separable classes
        // (a single best split, pure leaves), so that the fit does not depend on hash-map order
        let (n, p, c) = if it == 0 { (14 + rng.below(12), 1, 2) } else { (14 + rng.below(12), 1 + rng.below(4), 2 + rng.below(3)) };
        let y = labels(rng, n, c);
        let x: Array2<F> = blobs(rng, n, p, &y);
        let fresh: Array2<F> = records(rng, 8, p);
        let names: Vec<String> = (0..p).map(|j| format!("feat {}", j)).collect();
        // random sample weights: no exact ties between class weights in a leaf (a tie is broken by
        // hash-map order, which is C20's subject, not C19's)
        // the refit comparison needs a fit that does not depend on hash-map order (C20's subject): unit
        // weights (exact sums) and trees grown to pure leaves (no modal-class ties)
        let det = it == 0;
        let w: Array1<f32> = Array1::from_shape_fn(n, |_| if det { 1.0 } else { 0.5 + rng.unit() as f32 });
        let mut ds = Dataset::new(x, y).with_weights(w);
        if it > 0 {
            ds = ds.with_feature_names(names);
        }
        let params = DecisionTree::<F, usize>::params().split_quality([SplitQuality::Gini, SplitQuality::Entropy][it % 2]).max_depth(if det { None } else { [None, Some(2), Some(5)][rng.below(3)] }).min_weight_split(if det { 2.0 } else { 2.0 + rng.below(3) as f32 }).min_weight_leaf(1.0).min_impurity_decrease(F::cast(1e-5));
        let ds2 = ds.clone();
        rt(em, sw, "linfa-trees::DecisionTreeParams", tag, Norm::Exact, &params, &|a, b, ctx, class| {
            ctx.require(a == b || (a != a && super::value_has_nan()), "equal", class, || format!("{:?} vs {:?}", a, b)); dbg_same(ctx, class, a, b);
            if det {
                refit_same(ctx, class, &|| tree_fp(a.fit(&ds2), &fresh), &|| tree_fp(b.fit(&ds2), &fresh));
            }
        });
        let bad = DecisionTree::<F, usize>::params().min_impurity_decrease(F::cast(-1.0));
        rt(em, sw, "linfa-trees::DecisionTreeParams", tag, Norm::Exact, &bad, &|a, b, ctx, class| {
            ctx.require(a.check_ref().is_err() == b.check_ref().is_err(), "validate", class, || "validation verdict differs".into());
        });
        let vp = params.check().unwrap();
        let ds2 = ds.clone();
        rt(em, sw, "linfa-trees::DecisionTreeValidParams", tag, Norm::Exact, &vp, &|a, b, ctx, class| {
            ctx.require(a == b || (a != a && super::value_has_nan()), "equal", class, || format!("{:?} vs {:?}", a, b)); dbg_same(ctx, class, a, b);
            ctx.require(a.split_quality() == b.split_quality() && a.max_depth() == b.max_depth() && a.min_weight_split().to_bits() == b.min_weight_split().to_bits() && a.min_weight_leaf().to_bits() == b.min_weight_leaf().to_bits() && fb(a.min_impurity_decrease()) == fb(b.min_impurity_decrease()), "accessors", class, || "accessor differs".into());
            if det {
                refit_same(ctx, class, &|| tree_fp(a.fit(&ds2), &fresh), &|| tree_fp(b.fit(&ds2), &fresh));
            }
        });
        if let Ok(m) = vp.fit(&ds) {
            rt(em, sw, "linfa-trees::DecisionTree", tag, Norm::Exact, &m, &|a: &DecisionTree<F, usize>, b, ctx, class| {
                ctx.require(a == b || (a != a && super::value_has_nan()), "equal", class, || "trees differ".into()); dbg_same(ctx, class, a, b);
                ctx.require(a.max_depth() == b.max_depth() && a.num_leaves() == b.num_leaves() && a.features() == b.features(), "accessors", class, || "depth / leaves / features".into());
                ctx.require(a.feature_importance().iter().map(|v| fb(*v)).collect::<Vec<_>>() == b.feature_importance().iter().map(|v| fb(*v)).collect::<Vec<_>>(), "accessors", class, || "feature_importance".into());
                let key = |t: &DecisionTree<F, usize>| -> Vec<(bool, usize, Option<usize>, usize, u64, u64, Option<String>)> { t.iter_nodes().map(|n| (n.is_leaf(), n.depth(), n.prediction(), n.split().0, fb(n.split().1), fb(n.split().2), n.feature_name().cloned())).collect() };
                ctx.require(key(a) == key(b), "accessors", class, || "node walk differs".into());
                ctx.require(a.predict(&fresh) == b.predict(&fresh), "predict", class, || "predict differs".into());
            });
            rt(em, sw, "linfa-trees::TreeNode", tag, Norm::Exact, m.root_node(), &|a: &TreeNode<F, usize>, b, ctx, class| {
                ctx.require(a == b || (a != a && super::value_has_nan()), "equal", class, || "nodes differ".into()); dbg_same(ctx, class, a, b);
                ctx.require(a.is_leaf() == b.is_leaf() && a.depth() == b.depth() && a.prediction() == b.prediction() && a.split().0 == b.split().0 && fb(a.split().1) == fb(b.split().1), "accessors", class, || "node accessors".into());
            });
        }
    }
}

fn tok_ws(s: &str) -> Vec<&str> {
    s.split(' ').filter(|t| !t.is_empty()).collect()
}

fn preprocessing<F: Fl>(em: &mut Em, rng: &mut Rng, sw: &mut Sweep) {
    use linfa_preprocessing::linear_scaling::*;
    use linfa_preprocessing::norm_scaling::*;
    use linfa_preprocessing::whitening::*;
    let tag = F::NAME;
    for it in 0..2 {
        let (n, p) = (8 + rng.below(8), 2 + rng.below(3));
        let x: Array2<F> = records(rng, n, p);
        let fresh: Array2<F> = records(rng, 5, p);
        let ds = DatasetBase::from(x.clone());
        let all = [LinearScaler::<F>::standard(), LinearScaler::standard_no_mean(), LinearScaler::standard_no_std(), LinearScaler::min_max(), LinearScaler::min_max_range(F::cast(-2.0), F::cast(3.5)), LinearScaler::max_abs()];
        for sp in all.iter() {
            let ds2 = ds.clone();
            rt(em, sw, "linfa-preprocessing::LinearScalerParams", tag, Norm::Exact, sp, &|a, b, ctx, class| {
                ctx.require(a == b || (a != a && super::value_has_nan()), "equal", class, || format!("{:?} vs {:?}", a, b)); dbg_same(ctx, class, a, b);
                refit_same(ctx, class, &|| fp(a.fit(&ds2)), &|| fp(b.fit(&ds2)));
            });
            if let Ok(m) = sp.fit(&ds) {
                rt(em, sw, "linfa-preprocessing::ScalingMethod", tag, Norm::Exact, m.method(), eqb!());
                let fresh = fresh.clone();
                rt(em, sw, "linfa-preprocessing::LinearScaler", tag, Norm::Exact, &m, &|a: &LinearScaler<F>, b, ctx, class| {
                    ctx.require(a == b || (a != a && super::value_has_nan()), "equal", class, || "scalers differ".into()); dbg_same(ctx, class, a, b);
                    same_arr(ctx, "accessors", class, "offsets", a.offsets(), b.offsets());
                    same_arr(ctx, "accessors", class, "scales", a.scales(), b.scales());
                    ctx.require(a.method() == b.method(), "accessors", class, || "method".into());
                    same_arr(ctx, "predict", class, "transform", &a.transform(fresh.clone()), &b.transform(fresh.clone()));
                });
            }
        }
        for ns in [NormScaler::l1(), NormScaler::l2(), NormScaler::max()] {
            let fresh = fresh.clone();
            rt(em, sw, "linfa-preprocessing::NormScaler", tag, Norm::Exact, &ns, &|a, b, ctx, class| {
                ctx.require(a == b || (a != a && super::value_has_nan()), "equal", class, || format!("{:?} vs {:?}", a, b)); dbg_same(ctx, class, a, b);
                same_arr(ctx, "predict", class, "transform", &a.transform(fresh.clone()), &b.transform(fresh.clone()));
            });
        }
        for (w, wm) in [(Whitener::pca(), WhiteningMethod::Pca), (Whitener::zca(), WhiteningMethod::Zca), (Whitener::cholesky(), WhiteningMethod::Cholesky)] {
            rt(em, sw, "linfa-preprocessing::WhiteningMethod", tag, Norm::Exact, &wm, eqb!());
            let ds2 = ds.clone();
            rt(em, sw, "linfa-preprocessing::Whitener", tag, Norm::Exact, &w, &|a, b, ctx, class| {
                ctx.require(a == b || (a != a && super::value_has_nan()), "equal", class, || format!("{:?} vs {:?}", a, b)); dbg_same(ctx, class, a, b);
                refit_same(ctx, class, &|| fp(a.fit(&ds2)), &|| fp(b.fit(&ds2)));
            });
            if it == 0 || rng.coin() {
                if let Ok(m) = w.fit(&ds) {
                    let fresh = fresh.clone();
                    rt(em, sw, "linfa-preprocessing::FittedWhitener", tag, Norm::Exact, &m, &|a: &FittedWhitener<F>, b, ctx, class| {
                        ctx.require(a == b || (a != a && super::value_has_nan()), "equal", class, || "whiteners differ".into()); dbg_same(ctx, class, a, b);
                        same_arr(ctx, "accessors", class, "transformation_matrix", &a.transformation_matrix(), &b.transformation_matrix());
                        same_arr(ctx, "accessors", class, "mean", &a.mean(), &b.mean());
                        same_arr(ctx, "predict", class, "transform", &a.transform(fresh.clone()), &b.transform(fresh.clone()));
                    });
                }
            }
        }
    }
}

fn text(em: &mut Em, rng: &mut Rng, sw: &mut Sweep) {
    use linfa_preprocessing::tf_idf_vectorization::*;
    use linfa_preprocessing::*;
    let tag = "-";
    let words = ["one", "Two", "three", "four", "ﬁve", "six", "and", "the", "a1"];
    let doc = |rng: &mut Rng| -> String { (0..3 + rng.below(8)).map(|_| *rng.pick(&words)).collect::<Vec<_>>().join([" ", ", ", "  "][rng.below(3)]) };
    // vocabulary order follows hash-map order (differs between two fits of the same parameters):
    // fingerprints are keyed by word
    fn by_word<T: Copy + std::fmt::Debug>(vocab: &[String], m: &sprs::CsMat<T>) -> String {
        let mut cols: Vec<(String, Vec<(usize, String)>)> = vocab.iter().map(|w| (w.clone(), vec![])).collect();
        for (v, (r, c)) in m.iter() {
            cols[c].1.push((r, format!("{:?}", v)));
        }
        for c in cols.iter_mut() {
            c.1.sort();
        }
        cols.sort();
        format!("{:?}", cols)
    }
    let csr = |m: &sprs::CsMat<usize>| -> (Vec<usize>, Vec<usize>, Vec<usize>, (usize, usize)) { (m.indptr().raw_storage().to_vec(), m.indices().to_vec(), m.data().to_vec(), m.shape()) };
    let csrf = |m: &sprs::CsMat<f64>| -> (Vec<usize>, Vec<usize>, Vec<u64>, (usize, usize)) { (m.indptr().raw_storage().to_vec(), m.indices().to_vec(), m.data().iter().map(|v| v.to_bits()).collect(), m.shape()) };
    for it in 0..4 {
        let docs: Array1<String> = Array1::from_shape_fn(5 + rng.below(5), |_| doc(rng));
        let fresh: Array1<String> = Array1::from_shape_fn(4, |_| doc(rng));
        let mut params = CountVectorizer::params().convert_to_lowercase(rng.coin()).normalize(rng.coin()).n_gram_range(1, 1 + rng.below(2)).document_frequency(0.0, [1.0, 0.9][rng.below(2)]).max_features([None, Some(5)][rng.below(2)]);
        if rng.coin() {
            params = params.stopwords(&["the", "and"]);
        }
        let with_fn = it % 2 == 1;
        if with_fn {
            params = params.tokenizer(Tokenizer::Function(tok_ws));
        } else if it == 2 {
            params = params.tokenizer(Tokenizer::Regex(r"\b[a-z]+\b".to_string()));
        }
        let norm = Norm::SortMapsSeqs;
        // parameter sets: the function tokenizer cannot be serialised (reviewed skip): the restored set must refuse
        // to fit silently with a different tokenizer — with a regex tokenizer it must refit identically
        let (d2, f2) = (docs.clone(), fresh.clone());
        let pbehav = move |fit_a: &dyn Fn() -> std::result::Result<CountVectorizer, String>, fit_b: &dyn Fn() -> std::result::Result<CountVectorizer, String>, ctx: &mut Ctx, class: &str| {
            let show = |r: std::result::Result<CountVectorizer, String>| -> String {
                match r {
                    Ok(m) => format!("{:?}", m.transform(&f2).map(|t| by_word(m.vocabulary(), &t)).map_err(|e| e.to_string())),
                    Err(e) => format!("err:{}", e),
                }
            };
            let (ra, rb) = (show(fit_a()), show(fit_b()));
            if with_fn {
                // a function tokenizer cannot be serialised: the restored set must refuse to fit (guard)
                ctx.require(rb.starts_with("err:"), "refit", &format!("{}:tokenizer=function", class), || format!("restored parameter set lost its tokenizer function and silently fits a different model: {} vs {}", &ra[..ra.len().min(120)], &rb[..rb.len().min(120)]));
            } else {
                ctx.require(ra == rb, "refit", class, || format!("refit differs: {} vs {}", &ra[..ra.len().min(120)], &rb[..rb.len().min(120)]));
            }
            let _ = &d2;
        };
        let d3 = docs.clone();
        let pb = pbehav.clone();
        rt(em, sw, "linfa-preprocessing::CountVectorizerParams", tag, norm, &params, &|a, b, ctx, class| {
            pb(&|| a.fit(&d3).map_err(|e| e.to_string()), &|| b.fit(&d3).map_err(|e| e.to_string()), ctx, class);
            if with_fn {
                // … and with the tokenizer set again it refits to the same model
                let b2 = b.clone().tokenizer(Tokenizer::Function(tok_ws));
                let vocab = |r: Result<CountVectorizer>| r.map(|m| { let mut v = m.vocabulary().clone(); v.sort(); v }).map_err(|e| e.to_string());
                ctx.require(vocab(a.fit(&d3)) == vocab(b2.fit(&d3)), "refit", class, || "refit after tokenizer redefinition differs".into());
            }
        });
        let bad = CountVectorizer::params().n_gram_range(2, 1);
        rt(em, sw, "linfa-preprocessing::CountVectorizerParams", tag, norm, &bad, &|a, b, ctx, class| {
            ctx.require(a.check_ref().is_err() == b.check_ref().is_err(), "validate", class, || "validation verdict differs".into());
        });
        let vp = params.clone().check().unwrap();
        let d3 = docs.clone();
        let pb = pbehav.clone();
        rt(em, sw, "linfa-preprocessing::CountVectorizerValidParams", tag, norm, &vp, &|a, b, ctx, class| {
            ctx.require(a.max_features() == b.max_features() && a.convert_to_lowercase() == b.convert_to_lowercase() && a.n_gram_range() == b.n_gram_range() && a.normalize() == b.normalize() && a.document_frequency().0.to_bits() == b.document_frequency().0.to_bits() && a.document_frequency().1.to_bits() == b.document_frequency().1.to_bits() && a.stopwords() == b.stopwords(), "accessors", class, || "accessor differs".into());
            pb(&|| a.fit(&d3).map_err(|e| e.to_string()), &|| b.fit(&d3).map_err(|e| e.to_string()), ctx, class);
        });
        let model = params.fit(&docs).unwrap();
        let f3 = fresh.clone();
        rt(em, sw, "linfa-preprocessing::CountVectorizer", tag, norm, &model, &|a: &CountVectorizer, b, ctx, class| {
            ctx.require(a.vocabulary() == b.vocabulary() && a.nentries() == b.nentries(), "accessors", class, || "vocabulary differs".into());
            let ta = a.transform(&f3).map(|t| csr(&t)).map_err(|e| e.to_string());
            let mut b2 = b.clone();
            if with_fn {
                // by design the restored vectorizer refuses to transform until the tokenizer is set again
                ctx.require(b.transform(&f3).is_err(), "predict", &format!("{}:tokenizer=function", class), || "restored vectorizer transforms although its tokenizer function is gone".into());
                b2.force_tokenizer_function_redefinition(tok_ws);
            }
            let tb = b2.transform(&f3).map(|t| csr(&t)).map_err(|e| e.to_string());
            ctx.require(ta == tb, "predict", class, || format!("transform differs: {:?} vs {:?}", ta, tb));
        });
        // tf-idf
        let method = [TfIdfMethod::Smooth, TfIdfMethod::NonSmooth, TfIdfMethod::Textbook][it % 3].clone();
        rt(em, sw, "linfa-preprocessing::TfIdfMethod", tag, Norm::Exact, &method, eqb!());
        let mut tv = TfIdfVectorizer::default().convert_to_lowercase(rng.coin()).n_gram_range(1, 1 + rng.below(2));
        if with_fn {
            tv = tv.tokenizer(Tokenizer::Function(tok_ws));
        }
        let (d3, f3) = (docs.clone(), fresh.clone());
        rt(em, sw, "linfa-preprocessing::TfIdfVectorizer", tag, norm, &tv, &|a: &TfIdfVectorizer, b, ctx, class| {
            let show = |r: std::result::Result<FittedTfIdfVectorizer, String>| -> String {
                match r {
                    Ok(m) => format!("{:?}", m.transform(&f3).map(|t| by_word(m.vocabulary(), &t.map(|x| x.to_bits()))).map_err(|e| e.to_string())),
                    Err(e) => format!("err:{}", e),
                }
            };
            let (ra, rb) = (show(a.fit(&d3).map_err(|e| e.to_string())), show(b.fit(&d3).map_err(|e| e.to_string())));
            if with_fn {
                ctx.require(rb.starts_with("err:"), "refit", &format!("{}:tokenizer=function", class), || format!("restored parameter set lost its tokenizer function and silently fits a different model: {} vs {}", &ra[..ra.len().min(120)], &rb[..rb.len().min(120)]));
                let rb2 = show(b.clone().tokenizer(Tokenizer::Function(tok_ws)).fit(&d3).map_err(|e| e.to_string()));
                ctx.require(ra == rb2, "refit", class, || "refit after tokenizer redefinition differs".into());
            } else {
                ctx.require(ra == rb, "refit", class, || "refit differs".into());
            }
        });
        let fm = tv.fit(&docs).unwrap();
        let f3 = fresh.clone();
        rt(em, sw, "linfa-preprocessing::FittedTfIdfVectorizer", tag, norm, &fm, &|a: &FittedTfIdfVectorizer, b, ctx, class| {
            ctx.require(a.vocabulary() == b.vocabulary() && a.nentries() == b.nentries() && a.method() == b.method(), "accessors", class, || "vocabulary / method differs".into());
            let ta = a.transform(&f3).map(|t| csrf(&t)).map_err(|e| e.to_string());
            let mut b2 = b.clone();
            if with_fn {
                ctx.require(b.transform(&f3).is_err(), "predict", &format!("{}:tokenizer=function", class), || "restored vectorizer transforms although its tokenizer function is gone".into());
                b2.force_tokenizer_redefinition(tok_ws);
            }
            let tb = b2.transform(&f3).map(|t| csrf(&t)).map_err(|e| e.to_string());
            ctx.require(ta == tb, "predict", class, || format!("transform differs: {:?} vs {:?}", ta, tb));
        });
    }
}

pub fn sweep(em: &mut Em, rng: &mut Rng, sw: &mut Sweep) {
    let reps = if em.thorough() { 6 } else { 1 };
    for r in 0..reps {
        sweep_once(em, rng, sw);
        super::c19_extra::sweep_extra(em, rng, sw, r == 0);
    }
}

fn sweep_once(em: &mut Em, rng: &mut Rng, sw: &mut Sweep) {
    linear::<f32>(em, rng, sw);
    linear::<f64>(em, rng, sw);
    linear2_f32(em, rng, sw);
    linear2_f64(em, rng, sw);
    bayes::<f32>(em, rng, sw);
    bayes::<f64>(em, rng, sw);
    nn_types::<f32>(em, rng, sw);
    nn_types::<f64>(em, rng, sw);
    clustering::<f32>(em, rng, sw);
    clustering::<f64>(em, rng, sw);
    elasticnet::<f32>(em, rng, sw);
    elasticnet::<f64>(em, rng, sw);
    ftrl::<f32>(em, rng, sw);
    ftrl::<f64>(em, rng, sw);
    ica::<f32>(em, rng, sw);
    ica::<f64>(em, rng, sw);
    reduction(em, rng, sw);
    pls::<f32>(em, rng, sw);
    pls::<f64>(em, rng, sw);
    kernel_svm::<f32>(em, rng, sw);
    kernel_svm::<f64>(em, rng, sw);
    svm_reg_f32(em, rng, sw);
    svm_reg_f64(em, rng, sw);
    logistic_f32(em, rng, sw);
    logistic_f64(em, rng, sw);
    trees::<f32>(em, rng, sw);
    trees::<f64>(em, rng, sw);
    preprocessing::<f32>(em, rng, sw);
    preprocessing::<f64>(em, rng, sw);
    text(em, rng, sw);
    // errors
    for e in [linfa::composing::platt_scaling::PlattError::LineSearchNotConverged, linfa::composing::platt_scaling::PlattError::MaxIterReached, linfa::composing::platt_scaling::PlattError::MaxIterZero, linfa::composing::platt_scaling::PlattError::MinStepNegative(-1.5), linfa::composing::platt_scaling::PlattError::SigmaNegative(f32::MIN_POSITIVE), linfa::composing::platt_scaling::PlattError::LinfaError(linfa::Error::NotEnoughSamples), linfa::composing::platt_scaling::PlattError::LinfaError(linfa::Error::Priors("π".into()))] {
        rt(em, sw, "linfa::PlattError", "-", Norm::Exact, &e, &|a, b, ctx, class| {
            ctx.require(a.to_string() == b.to_string(), "accessors", class, || format!("{} vs {}", a, b));
        });
    }
    for e in [linfa::Error::Parameters("bad \"x\"".into()), linfa::Error::Priors("p".into()), linfa::Error::NotConverged(String::new()), linfa::Error::NotEnoughSamples, linfa::Error::MismatchedShapes(3, 70000)] {
        rt(em, sw, "linfa::Error", "-", Norm::Exact, &e, &|a, b, ctx, class| {
            ctx.require(a.to_string() == b.to_string(), "accessors", class, || format!("{} vs {}", a, b));
        });
    }
}
