//! C19 — the sweep: instances of every serde type of linfa, f32 and f64.
use super::c19_canon::Norm;
use super::{rt, Sweep};
use crate::util::*;
use linfa::prelude::*;
use linfa::traits::{Fit, Predict, Transformer};
use linfa::{Dataset, DatasetBase, Float, ParamGuard};
use ndarray::{Array1, Array2, ArrayBase, Axis, Data, Dimension};

/// private / helper types that only occur inside another swept type: (type, swept carrier)
pub const NESTED: &[(&str, &str)] = &[];

/// members excluded from serialisation, reviewed by hand: the oracle checks their restored value
/// through accessors (see the carrier's `behav`)
pub const REVIEWED_SKIPS: &[(&str, &[&str])] = &[("linfa::Error", &["NdShape"]), ("linfa-preprocessing::CountVectorizerValidParams", &["tokenizer_function"])];

pub trait Fl: Float + serde::Serialize + serde::de::DeserializeOwned {
    const NAME: &'static str;
}
impl Fl for f32 {
    const NAME: &'static str = "f32";
}
impl Fl for f64 {
    const NAME: &'static str = "f64";
}

pub fn bits<F: Float, S: Data<Elem = F>, D: Dimension>(a: &ArrayBase<S, D>) -> (Vec<usize>, Vec<u64>) {
    (a.shape().to_vec(), a.iter().map(|x| x.to_f64().unwrap().to_bits()).collect())
}
pub fn fb<F: Float>(x: F) -> u64 {
    x.to_f64().unwrap().to_bits()
}

/// require bit-identical arrays
pub fn same_arr<F: Float, S1: Data<Elem = F>, S2: Data<Elem = F>, D: Dimension>(ctx: &mut Ctx, clause: &str, class: &str, what: &str, a: &ArrayBase<S1, D>, b: &ArrayBase<S2, D>) {
    let (x, y) = (bits(a), bits(b));
    ctx.require(x == y, clause, class, || format!("{}: original {:?} restored {:?}", what, a.iter().map(|v| v.to_f64().unwrap()).take(12).collect::<Vec<_>>(), b.iter().map(|v| v.to_f64().unwrap()).take(12).collect::<Vec<_>>()));
}

/// generic (non-lattice) records: offsets, scales, duplicates
pub fn records<F: Float>(rng: &mut Rng, n: usize, p: usize) -> Array2<F> {
    let scale = [1.0, 1e-3, 1e3, 7.25][rng.below(4)];
    let off = [0.0, 10.0, -3.5][rng.below(3)];
    let mut a = Array2::from_shape_fn((n, p), |_| F::cast((rng.unit() * 2.0 - 1.0) * scale + off));
    if n > 3 && rng.coin() {
        let r = a.row(0).to_owned();
        a.row_mut(n - 1).assign(&r);
    }
    a
}
pub fn lin_targets<F: Float>(rng: &mut Rng, x: &Array2<F>) -> Array1<F> {
    let w: Vec<f64> = (0..x.ncols()).map(|_| rng.unit() * 4.0 - 2.0).collect();
    let noise: Vec<f64> = (0..x.nrows()).map(|_| rng.unit() * 0.1).collect();
    Array1::from_shape_fn(x.nrows(), |i| F::cast(x.row(i).iter().zip(&w).map(|(a, b)| a.to_f64().unwrap() * b).sum::<f64>() + 0.5 + noise[i]))
}

fn linear<F: Fl>(em: &mut Em, rng: &mut Rng, sw: &mut Sweep) {
    use linfa_linear::*;
    let tag = F::NAME;
    for it in 0..2 {
        let (n, p) = (6 + rng.below(10), 1 + rng.below(4));
        let x: Array2<F> = records(rng, n, p);
        let y = lin_targets(rng, &x);
        let fresh: Array2<F> = records(rng, 5, p);
        let ds = Dataset::new(x.clone(), y.clone());
        // parameter set + fitted model
        let params = LinearRegression::new().with_intercept(it == 0);
        let ds2 = ds.clone();
        rt(em, sw, "linfa-linear::LinearRegression", tag, Norm::Exact, &params, &|a, b, ctx, class| {
            ctx.require(a == b, "equal", class, || format!("{:?} vs {:?}", a, b));
            let (ma, mb): (FittedLinearRegression<F>, FittedLinearRegression<F>) = (a.fit(&ds2).unwrap(), b.fit(&ds2).unwrap());
            ctx.require(ma == mb, "refit", class, || format!("refit differs: {:?} vs {:?}", ma, mb));
        });
        let model: FittedLinearRegression<F> = params.fit(&ds).unwrap();
        rt(em, sw, "linfa-linear::FittedLinearRegression", tag, Norm::Exact, &model, &|a, b, ctx, class| {
            ctx.require(a == b, "equal", class, || format!("{:?} vs {:?}", a, b));
            same_arr(ctx, "accessors", class, "params", a.params(), b.params());
            ctx.require(fb(a.intercept()) == fb(b.intercept()), "accessors", class, || "intercept".into());
            same_arr(ctx, "predict", class, "predict", &a.predict(&fresh), &b.predict(&fresh));
        });
    }
    for link in [Link::Identity, Link::Log, Link::Logit] {
        rt(em, sw, "linfa-linear::Link", tag, Norm::Exact, &link, &|a, b, ctx, class| {
            ctx.require(a == b, "equal", class, || format!("{:?} vs {:?}", a, b));
        });
    }
}

pub fn sweep(em: &mut Em, rng: &mut Rng, sw: &mut Sweep) {
    linear::<f32>(em, rng, sw);
    linear::<f64>(em, rng, sw);
    // errors
    for e in [linfa::Error::Parameters("bad \"x\"".into()), linfa::Error::Priors("p".into()), linfa::Error::NotConverged(String::new()), linfa::Error::NotEnoughSamples, linfa::Error::MismatchedShapes(3, 70000)] {
        rt(em, sw, "linfa::Error", "-", Norm::Exact, &e, &|a, b, ctx, class| {
            ctx.require(a.to_string() == b.to_string(), "accessors", class, || format!("{} vs {}", a, b));
        });
    }
}
