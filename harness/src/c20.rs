//! C20 — same data, parameters and seed give bit-identical results on every run.
//!
//! Two kinds of cases:
//!  * correspondence ops (`parfor`, `modal`, `nbargmax`, `labels`, `hier`): the real linfa code for the
//!    disjoint-write parallel loops and for every hash-map fold is run (repeatedly, under rayon pools of
//!    different sizes, with freshly seeded hash maps and permuted insertion orders) and compared with the
//!    Lean model `Model/Determinism.lean` executed under an explicit schedule / iteration order;
//!  * oracle-only runs (`#run …`): every seeded estimator is fitted repeatedly in this process, under
//!    rayon pools of 1,2,3,4,8,16 threads and in freshly spawned child processes (fresh hash seeds);
//!    the bit patterns of all learned quantities and predictions are compared.
//!
//! Child mode: when `VERIF_C20_CHILD=<seed>:<tier>` is set, `run` computes the battery once, prints
//! one line `name<TAB>section<TAB>digest` per learned quantity and exits.
use crate::util::{hex64, list, list2, Em, Rng};
use linfa::prelude::*;
use linfa::traits::{Fit, FitWith, Predict, Transformer};
use linfa::dataset::Labels;
use linfa::DatasetBase;
use ndarray::{Array1, Array2, Axis};
use std::collections::{BTreeMap, HashMap};

#[path = "c20_more.rs"]
mod more;

// ------------------------------------------------------------------------------------------------
// digests

fn fnv(bytes: &[u8]) -> u64 {
    let mut h: u64 = 0xcbf29ce484222325;
    for b in bytes {
        h ^= *b as u64;
        h = h.wrapping_mul(0x100000001b3);
    }
    h
}

/// one learned quantity: name + raw bytes (bit patterns)
type Sections = Vec<(String, Vec<u8>)>;

fn f64s<'a>(it: impl IntoIterator<Item = &'a f64>) -> Vec<u8> {
    it.into_iter().flat_map(|x| x.to_bits().to_le_bytes()).collect()
}
fn f32s<'a>(it: impl IntoIterator<Item = &'a f32>) -> Vec<u8> {
    it.into_iter().flat_map(|x| x.to_bits().to_le_bytes()).collect()
}
fn usizes<'a>(it: impl IntoIterator<Item = &'a usize>) -> Vec<u8> {
    it.into_iter().flat_map(|x| (*x as u64).to_le_bytes()).collect()
}
fn optusizes<'a>(it: impl IntoIterator<Item = &'a Option<usize>>) -> Vec<u8> {
    it.into_iter().flat_map(|x| (x.map(|v| v as i64).unwrap_or(-1)).to_le_bytes()).collect()
}
fn bools<'a>(it: impl IntoIterator<Item = &'a bool>) -> Vec<u8> {
    it.into_iter().map(|x| *x as u8).collect()
}
fn sec(name: &str, bytes: Vec<u8>) -> (String, Vec<u8>) {
    (name.to_string(), bytes)
}
fn digest(s: &Sections) -> Vec<(String, String)> {
    s.iter().map(|(n, b)| (n.clone(), format!("{:016x}/{}", fnv(b), b.len()))).collect()
}

// ------------------------------------------------------------------------------------------------
// data for the estimator battery (deterministic in the data seed)

struct Data {
    /// generic float blobs, large enough that ndarray's parallel Zip is split
    blobs: Array2<f64>,
    /// small blobs for the cubic algorithms
    small: Array2<f64>,
    /// integer lattice with many duplicates and symmetric arrangements: ties are real ties
    lat: Array2<f64>,
    lat_y: Array1<usize>,
    lat_w: Array1<f32>,
    /// non-negative counts
    counts: Array2<f64>,
    /// regression design and targets
    rx: Array2<f64>,
    ry: Array1<f64>,
    ry2: Array2<f64>,
    rb: Array1<bool>,
    rc: Array1<usize>,
    /// queries
    q: Array2<f64>,
    qlat: Array2<f64>,
    texts: Array1<String>,
    /// documents over fixed-width tokens: several new words per document, many equal document frequencies
    tie_texts: Array1<String>,
    nclass: usize,
    /// more than 10 000 rows (a parallel path gated on the number of samples would be taken)
    huge: Array2<f64>,
    /// 12 features: `Pca::params(2)` takes the iterated (LOBPCG) branch, `dim >= 5 * num`
    wide: Array2<f64>,
    /// lattice rows with every feature column present twice (exact score ties between features), many rows
    dup: Array2<f64>,
    dup_y: Array1<usize>,
    dup_w: Array1<f32>,
}

fn normalish(r: &mut Rng) -> f64 {
    (r.unit() + r.unit() + r.unit() + r.unit() - 2.0) * 1.7
}

fn make_data(seed: u64, thorough: bool) -> Data {
    let mut r = Rng::new(seed ^ 0xC20C20);
    let n_big = if thorough { 6000 } else { 2500 };
    let d = 3 + r.below(3);
    let k = 3 + r.below(4);
    let centres: Vec<Vec<f64>> = (0..k).map(|_| (0..d).map(|_| (r.unit() - 0.5) * 20.0).collect()).collect();
    let mut blobs = Array2::zeros((n_big, d));
    for i in 0..n_big {
        let c = &centres[r.below(k)];
        for j in 0..d {
            blobs[[i, j]] = c[j] + normalish(&mut r);
        }
    }
    let n_small = 60 + r.below(40);
    let mut small = Array2::zeros((n_small, 2));
    for i in 0..n_small {
        let c = &centres[r.below(k)];
        for j in 0..2 {
            small[[i, j]] = c[j] + normalish(&mut r) * 0.5;
        }
    }
    // lattice classification data: few distinct rows, labels drawn independently => leaves with ties
    let nclass = 2 + r.below(3);
    let n_lat = 24 + 4 * r.below(10);
    let dl = 1 + r.below(3);
    let mut lat = Array2::zeros((n_lat, dl));
    let mut lat_y = Array1::zeros(n_lat);
    let mut lat_w = Array1::ones(n_lat);
    for i in 0..n_lat {
        for j in 0..dl {
            lat[[i, j]] = r.range(-2, 2) as f64;
        }
        lat_y[i] = r.below(nclass);
        lat_w[i] = *r.pick(&[1.0f32, 1.0, 2.0, 0.5, 0.3, 0.7]);
    }
    // mirror image with the labels cyclically shifted: symmetric class-conditional statistics
    if r.coin() {
        let half = n_lat / 2;
        for i in 0..half {
            for j in 0..dl {
                lat[[half + i, j]] = -lat[[i, j]];
            }
            lat_y[half + i] = (lat_y[i] + 1) % nclass;
        }
    }
    let mut counts = Array2::zeros((n_lat, 3));
    for i in 0..n_lat {
        for j in 0..3 {
            counts[[i, j]] = r.below(4) as f64;
        }
    }
    let half = n_lat / 2;
    for i in 0..half {
        for j in 0..3 {
            counts[[half + i, j]] = counts[[i, 2 - j]];
        }
    }
    let nr = 80 + r.below(60);
    let p = 3 + r.below(3);
    let mut rx = Array2::zeros((nr, p));
    let beta: Vec<f64> = (0..p).map(|_| (r.unit() - 0.5) * 4.0).collect();
    let mut ry = Array1::zeros(nr);
    let mut ry2 = Array2::zeros((nr, 2));
    let mut rb = Array1::from_elem(nr, false);
    let mut rc = Array1::zeros(nr);
    for i in 0..nr {
        let mut s = 0.5;
        for j in 0..p {
            rx[[i, j]] = normalish(&mut r) + j as f64;
            s += beta[j] * rx[[i, j]];
        }
        ry[i] = s + normalish(&mut r) * 0.3;
        ry2[[i, 0]] = ry[i];
        ry2[[i, 1]] = -0.5 * s + normalish(&mut r) * 0.2;
        rb[i] = s + normalish(&mut r) > 0.5;
        rc[i] = ((s + normalish(&mut r)).abs() as usize) % 3;
    }
    let nq = 40;
    let mut q = Array2::zeros((nq, d));
    for i in 0..nq {
        for j in 0..d {
            q[[i, j]] = (r.unit() - 0.5) * 24.0;
        }
    }
    // every lattice point of [-2,2]^dl plus midpoints: queries that sit on decision ties
    let side = 9usize;
    let nql = side.pow(dl as u32).min(200);
    let mut qlat = Array2::zeros((nql, dl));
    for i in 0..nql {
        let mut t = i;
        for j in 0..dl {
            qlat[[i, j]] = (t % side) as f64 * 0.5 - 2.0;
            t /= side;
        }
    }
    let words = ["ab", "cd", "ef", "gh", "ij", "kl", "mn", "op", "qr"];
    let ntext = 12 + r.below(10);
    let texts = Array1::from_vec(
        (0..ntext)
            .map(|_| {
                let len = 1 + r.below(7);
                (0..len).map(|_| *r.pick(&words)).collect::<Vec<_>>().join(" ")
            })
            .collect(),
    );
    let ntie = 4 + r.below(6);
    let nvoc = 5 + r.below(5);
    let tie_texts = Array1::from_vec(
        (0..ntie)
            .map(|_| {
                let len = 2 + r.below(5);
                (0..len).map(|_| format!("w{:02}", r.below(nvoc))).collect::<Vec<_>>().join(" ")
            })
            .collect(),
    );
    let n_huge = if thorough { 40000 } else { 16384 };
    let mut huge = Array2::zeros((n_huge, 3));
    for i in 0..n_huge {
        let c = &centres[r.below(k)];
        for j in 0..3 {
            huge[[i, j]] = c[j] + normalish(&mut r);
        }
    }
    let n_wide = 200 + r.below(100);
    let mut wide = Array2::zeros((n_wide, 12));
    for i in 0..n_wide {
        let a = normalish(&mut r);
        let b = normalish(&mut r);
        for j in 0..12 {
            wide[[i, j]] = a * (j as f64 + 1.0) * 0.3 + b * ((j % 3) as f64 - 1.0) + normalish(&mut r) * 0.4;
        }
    }
    let n_dup = if thorough { 4000 } else { 1500 };
    let mut dup = Array2::zeros((n_dup, 6));
    let mut dup_y = Array1::zeros(n_dup);
    let mut dup_w = Array1::ones(n_dup);
    for i in 0..n_dup {
        for j in 0..3 {
            let v = r.range(-3, 3) as f64;
            dup[[i, j]] = v;
            // the copy sits at another position: features j and 5-j are equal columns
            dup[[i, 5 - j]] = v;
        }
        let s = dup[[i, 0]] + dup[[i, 1]] * 2.0 - dup[[i, 2]];
        dup_y[i] = ((s.abs() as usize) + r.below(2)) % 3;
        dup_w[i] = *r.pick(&[1.0f32, 0.3, 0.7, 0.1, 2.0]);
    }
    Data { blobs, small, lat, lat_y, lat_w, counts, rx, ry, ry2, rb, rc, q, qlat, texts, tie_texts, nclass, huge, wide, dup, dup_y, dup_w }
}

// ------------------------------------------------------------------------------------------------
// the battery: every seeded / deterministic estimator reachable from the harness

struct Item {
    name: &'static str,
    /// uses rayon inside (full pool sweep even in the quick tier)
    parallel: bool,
    f: fn(&Data) -> Sections,
}

fn it_kmeans_pp(d: &Data) -> Sections {
    use linfa_clustering::KMeans;
    let ds = DatasetBase::from(d.blobs.clone());
    // default parameters: default seed (Xoshiro256Plus 42), k-means++ init
    let params = KMeans::params(4).max_n_iterations(30).n_runs(2).tolerance(1e-4);
    let m = params.fit(&ds).unwrap();
    vec![
        sec("centroids", f64s(m.centroids().iter())),
        sec("inertia", f64s([m.inertia()].iter())),
        sec("cluster_count", f64s(m.cluster_count().iter())),
        sec("predict_train", usizes(m.predict(&d.blobs).iter())),
        sec("predict_query", usizes(m.predict(&d.q).iter())),
    ]
}
fn it_kmeans_random(d: &Data) -> Sections {
    use linfa_clustering::{KMeans, KMeansInit};
    use rand_xoshiro::rand_core::SeedableRng;
    let ds = DatasetBase::from(d.blobs.clone());
    let rng = rand_xoshiro::Xoshiro256Plus::seed_from_u64(7);
    let m = KMeans::params_with_rng(5, rng).init_method(KMeansInit::Random).max_n_iterations(20).n_runs(3).tolerance(1e-3).fit(&ds).unwrap();
    vec![
        sec("centroids", f64s(m.centroids().iter())),
        sec("inertia", f64s([m.inertia()].iter())),
        sec("predict_train", usizes(m.predict(&d.blobs).iter())),
    ]
}
fn it_kmeans_l1(d: &Data) -> Sections {
    use linfa_clustering::KMeans;
    use linfa_nn::distance::L1Dist;
    use rand_xoshiro::rand_core::SeedableRng;
    let ds = DatasetBase::from(d.blobs.clone());
    let rng = rand_xoshiro::Xoshiro256Plus::seed_from_u64(11);
    let m = KMeans::params_with(3, rng, L1Dist).max_n_iterations(15).n_runs(1).fit(&ds).unwrap();
    vec![sec("centroids", f64s(m.centroids().iter())), sec("inertia", f64s([m.inertia()].iter())), sec("predict_query", usizes(m.predict(&d.q).iter()))]
}
fn it_kmeans_incr(d: &Data) -> Sections {
    use linfa_clustering::KMeans;
    let params = KMeans::params(3).tolerance(1e-3);
    let mut model = None;
    let n = d.blobs.nrows();
    let bs = n / 5;
    for b in 0..5 {
        let batch = d.blobs.slice(ndarray::s![b * bs..(b + 1) * bs, ..]).to_owned();
        let ds = DatasetBase::from(batch);
        model = Some(match params.fit_with(model, &ds) {
            Ok(m) => m,
            Err(e) => match e {
                linfa_clustering::IncrKMeansError::NotConverged(m) => m,
                linfa_clustering::IncrKMeansError::InvalidParams(_) => panic!("invalid"),
                _ => panic!("other"),
            },
        });
    }
    let m = model.unwrap();
    vec![sec("centroids", f64s(m.centroids().iter())), sec("cluster_count", f64s(m.cluster_count().iter())), sec("predict_query", usizes(m.predict(&d.q).iter()))]
}
fn it_gmm(d: &Data) -> Sections {
    use linfa_clustering::GaussianMixtureModel;
    let n = d.blobs.nrows().min(800);
    let ds = DatasetBase::from(d.blobs.slice(ndarray::s![..n, ..]).to_owned());
    let m = GaussianMixtureModel::params(3).n_runs(2).max_n_iterations(25).tolerance(1e-3).fit(&ds).unwrap();
    vec![
        sec("weights", f64s(m.weights().iter())),
        sec("means", f64s(m.means().iter())),
        sec("covariances", f64s(m.covariances().iter())),
        sec("predict_query", usizes(m.predict(&d.q).iter())),
    ]
}
fn it_dbscan(d: &Data) -> Sections {
    use linfa_clustering::Dbscan;
    let a = Dbscan::params(3).tolerance(1.0).transform(&d.small).unwrap();
    let b = Dbscan::params(2).tolerance(1.0).transform(&d.lat).unwrap();
    vec![sec("labels_small", optusizes(a.iter())), sec("labels_lattice", optusizes(b.iter()))]
}
fn it_optics(d: &Data) -> Sections {
    use linfa_clustering::Optics;
    let a = Optics::params(3).tolerance(2.0).transform(d.small.view()).unwrap();
    let b = Optics::params(2).tolerance(1.5).transform(d.lat.view()).unwrap();
    let dump = |an: &linfa_clustering::OpticsAnalysis<f64>| {
        let mut v = vec![];
        for s in an.iter() {
            v.extend((s.index() as u64).to_le_bytes());
            v.extend(s.reachability_distance().unwrap_or(f64::INFINITY).to_bits().to_le_bytes());
            v.extend(s.core_distance().unwrap_or(f64::INFINITY).to_bits().to_le_bytes());
        }
        v
    };
    vec![sec("order_small", dump(&a)), sec("order_lattice", dump(&b))]
}
fn it_hier(d: &Data) -> Sections {
    use linfa_hierarchical::HierarchicalCluster;
    use linfa_kernel::{Kernel, KernelMethod};
    let mut out = vec![];
    for (nm, data, nc) in [("small", &d.small, 3usize), ("lattice", &d.lat, 4usize)] {
        let kernel = Kernel::params().method(KernelMethod::Gaussian(2.0)).transform(data.view());
        let res = HierarchicalCluster::default().num_clusters(nc).transform(kernel).unwrap();
        out.push(sec(&format!("labels_{}", nm), usizes(res.targets().iter())));
    }
    let kernel = Kernel::params().method(KernelMethod::Gaussian(2.0)).transform(d.small.view());
    let res = HierarchicalCluster::default().max_distance(0.5).transform(kernel).unwrap();
    out.push(sec("labels_maxdist", usizes(res.targets().iter())));
    out
}
fn tree_sections(m: &linfa_trees::DecisionTree<f64, usize>, d: &Data) -> Sections {
    let mut nodes = vec![];
    for n in m.iter_nodes() {
        nodes.extend((n.depth() as u64).to_le_bytes());
        nodes.push(n.is_leaf() as u8);
        if !n.is_leaf() {
            let (f, v, imp) = n.split();
            nodes.extend((f as u64).to_le_bytes());
            nodes.extend(v.to_bits().to_le_bytes());
            nodes.extend(imp.to_bits().to_le_bytes());
        }
        if let Some(p) = n.prediction() {
            nodes.extend((p as u64).to_le_bytes());
        }
    }
    vec![
        sec("nodes", nodes),
        sec("feature_importance", f64s(m.feature_importance().iter())),
        sec("predict_train", usizes(m.predict(&d.lat).iter())),
        sec("predict_query", usizes(m.predict(&d.qlat).iter())),
    ]
}
fn it_tree_gini(d: &Data) -> Sections {
    use linfa_trees::{DecisionTree, SplitQuality};
    let ds = Dataset::new(d.lat.clone(), d.lat_y.clone());
    let m = DecisionTree::params().split_quality(SplitQuality::Gini).max_depth(Some(3)).fit(&ds).unwrap();
    tree_sections(&m, d)
}
fn it_tree_entropy_w(d: &Data) -> Sections {
    use linfa_trees::{DecisionTree, SplitQuality};
    let ds = Dataset::new(d.lat.clone(), d.lat_y.clone()).with_weights(d.lat_w.clone());
    let m = DecisionTree::params().split_quality(SplitQuality::Entropy).max_depth(Some(4)).min_weight_leaf(1.0).fit(&ds).unwrap();
    tree_sections(&m, d)
}
fn it_gnb(d: &Data) -> Sections {
    use linfa_bayes::GaussianNb;
    let ds = Dataset::new(d.lat.clone(), d.lat_y.clone());
    let m = GaussianNb::params().fit(&ds).unwrap();
    vec![sec("predict_train", usizes(m.predict(&d.lat).iter())), sec("predict_query", usizes(m.predict(&d.qlat).iter()))]
}
fn it_mnb(d: &Data) -> Sections {
    use linfa_bayes::MultinomialNb;
    let ds = Dataset::new(d.counts.clone(), d.lat_y.clone());
    let m = MultinomialNb::params().fit(&ds).unwrap();
    vec![sec("predict_train", usizes(m.predict(&d.counts).iter()))]
}
fn it_pca(d: &Data) -> Sections {
    use linfa_reduction::Pca;
    let n = d.blobs.nrows().min(500);
    let ds = DatasetBase::from(d.blobs.slice(ndarray::s![..n, ..]).to_owned());
    let m = Pca::params(2).fit(&ds).unwrap();
    let mw = Pca::params(2).whiten(true).fit(&ds).unwrap();
    vec![
        sec("components", f64s(m.components().iter())),
        sec("mean", f64s(m.mean().iter())),
        sec("singular_values", f64s(m.singular_values().iter())),
        sec("explained_variance", f64s(m.explained_variance().iter())),
        sec("embed_query", f64s(m.predict(&d.q).iter())),
        sec("embed_query_whitened", f64s(mw.predict(&d.q).iter())),
    ]
}
fn it_randproj(d: &Data) -> Sections {
    use linfa_reduction::random_projection::{GaussianRandomProjection, SparseRandomProjection};
    let n = d.blobs.nrows().min(300);
    let ds = DatasetBase::from(d.blobs.slice(ndarray::s![..n, ..]).to_owned());
    let g = GaussianRandomProjection::<f64>::params().target_dim(2).fit(&ds).unwrap();
    let s = SparseRandomProjection::<f64>::params().target_dim(2).fit(&ds).unwrap();
    vec![sec("gaussian_query", f64s(g.transform(&d.q).iter())), sec("sparse_query", f64s(s.transform(&d.q).iter()))]
}
fn it_ica(d: &Data) -> Sections {
    use linfa_ica::fast_ica::{FastIca, GFunc};
    let n = d.blobs.nrows().min(400);
    let ds = DatasetBase::from(d.blobs.slice(ndarray::s![..n, ..]).to_owned());
    let m = FastIca::params().ncomponents(2).gfunc(GFunc::Logcosh(1.0)).max_iter(50).random_state(42).fit(&ds).unwrap();
    vec![sec("sources_query", f64s(m.predict(&d.q).iter()))]
}
fn it_ftrl(d: &Data) -> Sections {
    use linfa_ftrl::Ftrl;
    let ds = Dataset::new(d.rx.clone(), d.rb.clone());
    let params = Ftrl::params().alpha(0.05).beta(1.0).l1_ratio(0.01).l2_ratio(0.5);
    let m = params.fit_with(None, &ds).unwrap();
    let m2 = params.fit_with(Some(m.clone()), &ds).unwrap();
    vec![
        sec("z", f64s(m.z().iter())),
        sec("n", f64s(m.n().iter())),
        sec("z_second_pass", f64s(m2.z().iter())),
        sec("predict", f32s(m2.predict(&d.rx).iter().map(|p| &**p))),
    ]
}
fn it_linear(d: &Data) -> Sections {
    use linfa_linear::{LinearRegression, TweedieRegressor};
    let ds = Dataset::new(d.rx.clone(), d.ry.clone());
    let m = LinearRegression::default().fit(&ds).unwrap();
    let ypos = d.ry.mapv(|v| v.abs() + 0.1);
    let dsp = Dataset::new(d.rx.clone(), ypos);
    let t = TweedieRegressor::params().power(0.).alpha(0.1).max_iter(30).fit(&dsp).unwrap();
    vec![
        sec("ols_params", f64s(m.params().iter())),
        sec("ols_intercept", f64s([m.intercept()].iter())),
        sec("ols_predict", f64s(m.predict(&d.rx).iter())),
        sec("tweedie_coef", f64s(t.coef.iter())),
        sec("tweedie_intercept", f64s([t.intercept].iter())),
    ]
}
fn it_elasticnet(d: &Data) -> Sections {
    use linfa_elasticnet::{ElasticNet, MultiTaskElasticNet};
    let ds = Dataset::new(d.rx.clone(), d.ry.clone());
    let m = ElasticNet::params().penalty(0.1).l1_ratio(0.5).fit(&ds).unwrap();
    let ds2 = Dataset::new(d.rx.clone(), d.ry2.clone());
    let mt = MultiTaskElasticNet::params().penalty(0.1).l1_ratio(0.7).fit(&ds2).unwrap();
    vec![
        sec("hyperplane", f64s(m.hyperplane().iter())),
        sec("intercept", f64s([m.intercept()].iter())),
        sec("duality_gap", f64s([m.duality_gap()].iter())),
        sec("mt_hyperplane", f64s(mt.hyperplane().iter())),
        sec("mt_intercept", f64s(mt.intercept().iter())),
    ]
}
fn it_logistic(d: &Data) -> Sections {
    use linfa_logistic::{LogisticRegression, MultiLogisticRegression};
    let ds = Dataset::new(d.rx.clone(), d.rb.clone());
    let mut out = vec![];
    // a fit error (e.g. a failed line search) is a result like any other: it must be the same every run
    match LogisticRegression::default().max_iterations(40).fit(&ds) {
        Ok(m) => {
            out.push(sec("params", f64s(m.params().iter())));
            out.push(sec("intercept", f64s([m.intercept()].iter())));
            out.push(sec("predict", bools(m.predict(&d.rx).iter())));
        }
        Err(e) => out.push(sec("binary_error", format!("{:?}", e).into_bytes())),
    }
    let dsm = Dataset::new(d.rx.clone(), d.rc.clone());
    match MultiLogisticRegression::default().max_iterations(40).fit(&dsm) {
        Ok(mm) => {
            out.push(sec("multi_params", f64s(mm.params().iter())));
            out.push(sec("multi_intercept", f64s(mm.intercept().iter())));
            out.push(sec("multi_predict", usizes(mm.predict(&d.rx).iter())));
        }
        Err(e) => out.push(sec("multi_error", format!("{:?}", e).into_bytes())),
    }
    out
}
fn it_svm(d: &Data) -> Sections {
    use linfa_svm::Svm;
    let ds = Dataset::new(d.rx.clone(), d.rb.clone());
    let m = Svm::<f64, bool>::params().gaussian_kernel(5.0).pos_neg_weights(1.0, 1.0).fit(&ds).unwrap();
    let dr = Dataset::new(d.rx.clone(), d.ry.clone());
    let r = Svm::<f64, f64>::params().c_svr(10.0, Some(0.1)).linear_kernel().fit(&dr).unwrap();
    vec![
        sec("alpha", f64s(m.alpha.iter())),
        sec("rho", f64s([m.rho].iter())),
        sec("predict", bools(m.predict(&d.rx).iter())),
        sec("svr_alpha", f64s(r.alpha.iter())),
        sec("svr_predict", f64s(r.predict(&d.rx).iter())),
    ]
}
fn it_pls(d: &Data) -> Sections {
    use linfa_pls::PlsRegression;
    let ds = Dataset::new(d.rx.clone(), d.ry2.clone());
    let m = PlsRegression::params(2).scale(true).max_iterations(100).fit(&ds).unwrap();
    vec![sec("coefficients", f64s(m.coefficients().iter())), sec("predict", f64s(m.predict(&d.rx).iter()))]
}
fn it_preproc(d: &Data) -> Sections {
    use linfa_preprocessing::linear_scaling::LinearScaler;
    use linfa_preprocessing::norm_scaling::NormScaler;
    use linfa_preprocessing::whitening::Whitener;
    let ds = DatasetBase::from(d.rx.clone());
    let s = LinearScaler::standard().fit(&ds).unwrap();
    let mm = LinearScaler::min_max().fit(&ds).unwrap();
    let w = Whitener::pca().fit(&ds).unwrap();
    let wc = Whitener::cholesky().fit(&ds).unwrap();
    vec![
        sec("standard", f64s(s.transform(d.rx.clone()).iter())),
        sec("minmax", f64s(mm.transform(d.rx.clone()).iter())),
        sec("l2norm", f64s(NormScaler::l2().transform(d.rx.clone()).iter())),
        sec("whiten_pca", f64s(w.transform(d.rx.clone()).iter())),
        sec("whiten_cholesky", f64s(wc.transform(d.rx.clone()).iter())),
    ]
}
/// vocabularies compared as word -> column maps (the statement says so): for every word, in sorted
/// word order, the contents of its column
fn it_countvec(d: &Data) -> Sections {
    use linfa_preprocessing::CountVectorizer;
    use linfa_preprocessing::tf_idf_vectorization::TfIdfVectorizer;
    let cv = CountVectorizer::params().n_gram_range(1, 2).fit(&d.texts).unwrap();
    let dense = cv.transform(&d.texts).unwrap().to_dense();
    let mut by_word: BTreeMap<String, Vec<usize>> = BTreeMap::new();
    for (j, w) in cv.vocabulary().iter().enumerate() {
        by_word.insert(w.clone(), dense.column(j).to_vec());
    }
    let mut bytes = vec![];
    for (w, col) in &by_word {
        bytes.extend(w.as_bytes());
        bytes.push(0);
        bytes.extend(usizes(col.iter()));
    }
    let tf = TfIdfVectorizer::default().fit(&d.texts).unwrap();
    let tdense = tf.transform(&d.texts).unwrap().to_dense();
    let mut by_word_t: BTreeMap<String, Vec<f64>> = BTreeMap::new();
    for (j, w) in tf.vocabulary().iter().enumerate() {
        by_word_t.insert(w.clone(), tdense.column(j).to_vec());
    }
    let mut tbytes = vec![];
    for (w, col) in &by_word_t {
        tbytes.extend(w.as_bytes());
        tbytes.push(0);
        tbytes.extend(f64s(col.iter()));
    }
    vec![sec("count_columns_by_word", bytes), sec("tfidf_columns_by_word", tbytes)]
}
fn it_dataset(d: &Data) -> Sections {
    use rand::SeedableRng;
    let ds = Dataset::new(d.rx.clone(), d.ry.clone());
    let mut rng = rand::rngs::SmallRng::seed_from_u64(42);
    let sh = ds.shuffle(&mut rng);
    let corr = Dataset::new(d.rx.clone(), d.ry.clone()).pearson_correlation();
    let dsl = Dataset::new(d.lat.clone(), d.lat_y.clone());
    let mut labels = dsl.labels();
    labels.sort_unstable();
    vec![sec("shuffle", f64s(sh.records().iter())), sec("pearson", f64s(corr.get_coeffs().iter())), sec("labels_sorted", usizes(labels.iter()))]
}

fn it_diffusion(d: &Data) -> Sections {
    use linfa_kernel::{Kernel, KernelMethod, KernelType};
    use linfa_reduction::DiffusionMap;
    let kernel = Kernel::params().kind(KernelType::Sparse(6)).method(KernelMethod::Gaussian(2.0)).transform(d.small.view());
    let m = DiffusionMap::<f64>::params(2).steps(1).transform(&kernel).unwrap();
    let kd = Kernel::params().method(KernelMethod::Gaussian(2.0)).transform(d.small.view());
    let md = DiffusionMap::<f64>::params(2).steps(2).transform(&kd).unwrap();
    vec![sec("embedding_sparse", f64s(m.embedding().iter())), sec("embedding_dense", f64s(md.embedding().iter())), sec("eigvals", f64s(md.eigvals().iter()))]
}

fn battery() -> Vec<Item> {
    vec![
        Item { name: "kmeans_pp_default_seed", parallel: true, f: it_kmeans_pp },
        Item { name: "kmeans_random_init", parallel: true, f: it_kmeans_random },
        Item { name: "kmeans_l1", parallel: true, f: it_kmeans_l1 },
        Item { name: "kmeans_incremental", parallel: true, f: it_kmeans_incr },
        Item { name: "gmm", parallel: true, f: it_gmm },
        Item { name: "dbscan", parallel: false, f: it_dbscan },
        Item { name: "optics", parallel: false, f: it_optics },
        Item { name: "hierarchical", parallel: false, f: it_hier },
        Item { name: "tree_gini", parallel: false, f: it_tree_gini },
        Item { name: "tree_entropy_weighted", parallel: false, f: it_tree_entropy_w },
        Item { name: "gaussian_nb", parallel: false, f: it_gnb },
        Item { name: "multinomial_nb", parallel: false, f: it_mnb },
        Item { name: "pca", parallel: false, f: it_pca },
        Item { name: "random_projection", parallel: false, f: it_randproj },
        Item { name: "diffusion_map", parallel: false, f: it_diffusion },
        Item { name: "fast_ica_seeded", parallel: false, f: it_ica },
        Item { name: "ftrl", parallel: false, f: it_ftrl },
        Item { name: "linear", parallel: false, f: it_linear },
        Item { name: "elasticnet", parallel: false, f: it_elasticnet },
        Item { name: "logistic", parallel: false, f: it_logistic },
        Item { name: "svm", parallel: false, f: it_svm },
        Item { name: "pls", parallel: false, f: it_pls },
        Item { name: "preprocessing", parallel: false, f: it_preproc },
        Item { name: "vectorizers", parallel: false, f: it_countvec },
        Item { name: "dataset_utils", parallel: false, f: it_dataset },
    ]
    .into_iter()
    .chain(more::items())
    .collect()
}

fn data_seeds(seed: u64, thorough: bool) -> Vec<u64> {
    let n = if thorough { 30 } else { 5 };
    (0..n).map(|i| seed.wrapping_mul(1000).wrapping_add(i)).collect()
}

type Digests = BTreeMap<String, Vec<(String, String)>>;

fn run_item_safe(item: &Item, d: &Data) -> Vec<(String, String)> {
    match std::panic::catch_unwind(std::panic::AssertUnwindSafe(|| (item.f)(d))) {
        Ok(s) => digest(&s),
        Err(_) => vec![("panic".to_string(), "panic".to_string())],
    }
}

fn child_main(spec: &str) -> ! {
    let mut it = spec.split(':');
    let seed: u64 = it.next().unwrap().parse().unwrap();
    let thorough = it.next() == Some("thorough");
    let items = battery();
    let mut out = String::new();
    out.push_str(&format!("#cores\t{}\t-\n", std::thread::available_parallelism().map(|n| n.get()).unwrap_or(0)));
    for ds in data_seeds(seed, thorough) {
        let d = make_data(ds, thorough);
        for item in &items {
            if std::env::var("VERIF_C20_TRACE").is_ok() {
                eprintln!("item {} data {}", item.name, ds);
            }
            for (s, dg) in run_item_safe(item, &d) {
                out.push_str(&format!("{}@{}\t{}\t{}\n", item.name, ds, s, dg));
            }
        }
    }
    print!("{}", out);
    std::process::exit(0)
}

/// the CPUs this process may run on (`Cpus_allowed_list` of /proc/self/status), empty when unknown
fn allowed_cpus() -> Vec<usize> {
    let mut out = vec![];
    if let Ok(st) = std::fs::read_to_string("/proc/self/status") {
        for line in st.lines() {
            if let Some(rest) = line.strip_prefix("Cpus_allowed_list:") {
                for part in rest.trim().split(',') {
                    let mut it = part.split('-');
                    if let (Some(a), b) = (it.next().and_then(|x| x.trim().parse::<usize>().ok()), it.next().and_then(|x| x.trim().parse::<usize>().ok())) {
                        for c in a..=b.unwrap_or(a) {
                            out.push(c);
                        }
                    }
                }
            }
        }
    }
    out
}

/// CPU set of child `i`: children 0, 3, 6 … are pinned to ONE cpu, children 1, 4, 7 … to three, the
/// others inherit the parent's set.  `std::thread::available_parallelism()` / `num_cpus` follow the
/// affinity mask, so code that chunks its work by the core count (not by rayon's pool) sees 1, 3 and
/// all cores.  `None` when `taskset` or the cpu list is not available.
fn child_cpu_set(i: usize) -> Option<String> {
    let cpus = allowed_cpus();
    if cpus.len() < 4 || !std::path::Path::new("/usr/bin/taskset").exists() {
        return None;
    }
    match i % 3 {
        0 => Some(format!("{}", cpus[i % cpus.len()])),
        1 => Some(format!("{},{},{}", cpus[0], cpus[1], cpus[2])),
        _ => None,
    }
}

fn spawn_children(seed: u64, thorough: bool, start: usize, n: usize) -> Vec<std::process::Child> {
    let exe = std::env::current_exe().expect("current_exe");
    let tmp = std::env::temp_dir().join(format!("c20_child_{}", std::process::id()));
    (start..start + n)
        .map(|i| {
            let mut cmd = match child_cpu_set(i) {
                Some(set) => {
                    let mut c = std::process::Command::new("/usr/bin/taskset");
                    c.arg("-c").arg(set).arg(&exe);
                    c
                }
                None => std::process::Command::new(&exe),
            };
            cmd
                .args(["C20", if thorough { "thorough" } else { "quick" }, &seed.to_string(), tmp.to_str().unwrap()])
                .env("VERIF_C20_CHILD", format!("{}:{}", seed, if thorough { "thorough" } else { "quick" }))
                .env("VERIF_C20_CHILD_NO", i.to_string())
                // children alternate between a narrow and the default pool: fresh process AND other pool size
                .env("RAYON_NUM_THREADS", ["1", "3", "4", "2", "8", "16", "5", "6"][i % 8])
                .stdout(std::process::Stdio::piped())
                .stderr(std::process::Stdio::null())
                .spawn()
                .expect("spawn child")
        })
        .collect()
}

fn collect_child(c: std::process::Child) -> Digests {
    let out = c.wait_with_output().expect("child output");
    let mut m: Digests = BTreeMap::new();
    for line in String::from_utf8_lossy(&out.stdout).lines() {
        let p: Vec<&str> = line.split('\t').collect();
        if p.len() == 3 {
            m.entry(p[0].to_string()).or_default().push((p[1].to_string(), p[2].to_string()));
        }
    }
    m
}

/// first learned quantity that differs: (its name, description)
fn first_diff(a: &[(String, String)], b: &[(String, String)]) -> Option<(String, String)> {
    for (x, y) in a.iter().zip(b.iter()) {
        if x != y {
            return Some((x.0.clone(), format!("{}: {} vs {}", x.0, x.1, y.1)));
        }
    }
    if a.len() != b.len() {
        return Some(("section_count".to_string(), format!("sections {} vs {}", a.len(), b.len())));
    }
    None
}

fn estimator_runs(em: &mut Em, seed: u64) {
    let thorough = em.thorough();
    let n_children = if thorough { 8 } else { 3 };
    // at most 3 children at a time
    let mut child_digests: Vec<Digests> = vec![];
    let mut launched = 0;
    while launched < n_children {
        let batch = (n_children - launched).min(3);
        for c in spawn_children(seed, thorough, launched, batch) {
            child_digests.push(collect_child(c));
        }
        launched += batch;
    }
    // how many cores each child saw (1 / 3 / all when the affinity could be restricted)
    let child_cores: Vec<String> = child_digests.iter().map(|c| c.get("#cores").and_then(|v| v.first()).map(|x| x.0.clone()).unwrap_or("?".to_string())).collect();
    for c in &child_cores {
        em.count(&format!("children:cores={}", if c == "1" { "one" } else if c == "3" { "three" } else { "inherited" }));
    }
    let items = battery();
    let pools_all = [1usize, 2, 3, 4, 8, 16];
    let pools_few = [1usize, 4];
    let repeats = if thorough { 4 } else { 2 };
    for ds in data_seeds(seed, thorough) {
        let d = make_data(ds, thorough);
        for item in &items {
            let key = format!("{}@{}", item.name, ds);
            let class = format!("est={}", item.name);
            let op = format!("#run est={} data={} tier={}", item.name, ds, if thorough { "thorough" } else { "quick" });
            // every item under every pool size, in both tiers (a loop parallelised tomorrow is not marked `parallel` today)
            let _ = (&pools_few, item.parallel);
            let pools: &[usize] = &pools_all;
            let children: Vec<Option<Vec<(String, String)>>> = child_digests.iter().map(|c| c.get(&key).cloned()).collect();
            em.count(&format!("est:{}", item.name));
            let wanted = em.only.map(|o| o == em.idx).unwrap_or(true);
            let base = if wanted { run_item_safe(item, &d) } else { vec![] };
            if wanted && base.first().map(|x| x.0 == "panic").unwrap_or(true) {
                em.count(&format!("est_panicked:{}", item.name));
            }
            if wanted && base.iter().any(|x| x.0.ends_with("error")) {
                em.count(&format!("est_fit_error:{}", item.name));
            }
            // coverage floor: learned quantities actually compared (sections that are neither a panic nor an error)
            if wanted {
                let good = base.iter().filter(|x| x.0 != "panic" && !x.0.ends_with("error")).count() as u64;
                em.count_n(&format!("est_sections:{}", item.name), good);
                // the same in units of comparisons actually made (sections x (repeats + pools + children)):
                // large enough for the floor formula of `check` to notice a partial loss
                em.count_n(&format!("est_compared:{}", item.name), good * (repeats + pools_all.len() + child_digests.len()) as u64);
            }
            em.case(op, |ctx| {
                // a panic / fit error is not a determinism failure (it must merely be the same on every run);
                // such cases are marked trivial so that they do not count as coverage
                if base.first().map(|x| x.0 == "panic").unwrap_or(true) {
                    ctx.mark_trivial();
                }
                for r in 0..repeats {
                    let again = run_item_safe(item, &d);
                    if let Some((sname, df)) = first_diff(&base, &again) {
                        ctx.fail("repeat_in_process", &format!("{}:{}", class, sname), format!("run {} differs from the first run: {}", r + 2, df));
                        break;
                    }
                }
                for &t in pools {
                    let pool = rayon::ThreadPoolBuilder::new().num_threads(t).build().expect("pool");
                    let res = pool.install(|| run_item_safe(item, &d));
                    if let Some((sname, df)) = first_diff(&base, &res) {
                        ctx.fail("thread_pool", &format!("{}:{}", class, sname), format!("pool of {} threads differs from the default pool: {}", t, df));
                        break;
                    }
                }
                for (i, c) in children.iter().enumerate() {
                    match c {
                        None => ctx.fail("fresh_process", &format!("{}:no_result", class), format!("child process {} produced no result", i)),
                        Some(cd) => {
                            if let Some((sname, df)) = first_diff(&base, cd) {
                                ctx.fail("fresh_process", &format!("{}:{}", class, sname), format!("fresh process {} ({} cores visible) differs: {}", i, child_cores[i], df));
                                break;
                            }
                        }
                    }
                }
                "-".to_string()
            });
        }
    }
}

// ------------------------------------------------------------------------------------------------
// correspondence: disjoint-write parallel loops (k-means updaters)

/// run one of the three real updaters on lattice data in the scalar type `F`, under the metric `D`
fn run_updater<F: linfa::Float, D: linfa_nn::distance::Distance<F>>(dist: &D, which: &str, threads: usize, cents: &[Vec<i64>], obs: &[Vec<i64>], d: usize) -> (Vec<usize>, Vec<i64>) {
    use linfa_clustering::verif_hooks_c20 as hk;
    let (k, n) = (cents.len(), obs.len());
    let c = Array2::from_shape_fn((k, d), |(i, j)| F::cast(cents[i][j] as f64));
    let o = Array2::from_shape_fn((n, d), |(i, j)| F::cast(obs[i][j] as f64));
    let pool = rayon::ThreadPoolBuilder::new().num_threads(threads).build().expect("pool");
    pool.install(|| {
        // sentinels: cells the loop fails to write stay visible
        let mut m = Array1::from_elem(n, usize::MAX);
        let mut ds = Array1::from_elem(n, F::cast(-1.0));
        match which {
            "memb" => hk::update_cluster_memberships(dist, &c, &o, &mut m),
            "dist" => hk::update_min_dists(dist, &c, &o, &mut ds),
            _ => hk::update_memberships_and_dists(dist, &c, &o, &mut m, &mut ds),
        }
        (m.to_vec(), ds.iter().map(|x| x.to_f64().unwrap() as i64).collect())
    })
}

fn run_updater_dyn(scalar: &str, metric: &str, which: &str, threads: usize, cents: &[Vec<i64>], obs: &[Vec<i64>], d: usize) -> (Vec<usize>, Vec<i64>) {
    use linfa_nn::distance::{L1Dist, L2Dist};
    match (scalar, metric) {
        ("f64", "l2") => run_updater::<f64, _>(&L2Dist, which, threads, cents, obs, d),
        ("f64", _) => run_updater::<f64, _>(&L1Dist, which, threads, cents, obs, d),
        (_, "l2") => run_updater::<f32, _>(&L2Dist, which, threads, cents, obs, d),
        _ => run_updater::<f32, _>(&L1Dist, which, threads, cents, obs, d),
    }
}

fn lattice_dist(metric: &str, a: &[i64], b: &[i64]) -> i64 {
    if metric == "l2" {
        a.iter().zip(b.iter()).map(|(x, y)| (x - y) * (x - y)).sum()
    } else {
        a.iter().zip(b.iter()).map(|(x, y)| (x - y).abs()).sum()
    }
}

fn parfor_cases(em: &mut Em, rng: &mut Rng) {
    let n_cases = if em.thorough() { 600 } else { 120 };
    for ci in 0..n_cases {
        // sizes on both sides of the point where ndarray/rayon start splitting; two cases of the quick
        // tier (ten of the thorough one) have more than 10 000 rows
        let n = match ci % 4 {
            0 => rng.below(6),
            1 => 1 + rng.below(40),
            2 => 100 + rng.below(400),
            _ if ci % 60 == 3 => 10_001 + rng.below(2000),
            _ => 1000 + rng.below(if em.thorough() { 9000 } else { 2000 }),
        };
        let d = 1 + rng.below(3);
        let k = 1 + rng.below(5);
        let obs: Vec<Vec<i64>> = (0..n).map(|_| (0..d).map(|_| rng.range(-6, 6)).collect()).collect();
        // duplicates among centroids: argmin ties are real ties (first minimum wins)
        let mut cents: Vec<Vec<i64>> = (0..k).map(|_| (0..d).map(|_| rng.range(-6, 6)).collect()).collect();
        if k > 1 && rng.chance(1, 3) {
            let a = rng.below(k);
            let b = rng.below(k);
            cents[a] = cents[b].clone();
        }
        let threads = *rng.pick(&[1usize, 2, 3, 4, 8, 16]);
        let metric = *rng.pick(&["l2", "l2", "l1"]);
        let scalar = *rng.pick(&["f64", "f64", "f32"]);
        // below the task level: the model executes an interleaving of compute / write events
        let events = n <= 500 && rng.chance(1, 3);
        let which = if events { "both" } else { *rng.pick(&["memb", "dist", "both"]) };
        // the schedule the MODEL executes: a random permutation of the tasks (rayon's real schedule is
        // whatever the pool does; the theorem says it cannot matter)
        let mut sched: Vec<usize> = (0..n).collect();
        rng.shuffle(&mut sched);
        if events {
            // computes in the order of one permutation, each write at a random later position:
            // every task computes before it writes, otherwise the events interleave freely
            let mut evs: Vec<usize> = vec![];
            let mut pending: Vec<usize> = vec![];
            for &t in &sched {
                evs.push(2 * t);
                pending.push(t);
                while !pending.is_empty() && rng.coin() {
                    let j = rng.below(pending.len());
                    evs.push(2 * pending.swap_remove(j) + 1);
                }
            }
            rng.shuffle(&mut pending);
            for t in pending {
                evs.push(2 * t + 1);
            }
            sched = evs;
        }
        let op = format!(
            "parfor which={} metric={} mode={} scalar={} threads={} n={} d={} k={} cents={} obs={} sched={}",
            which,
            metric,
            if events { "events" } else { "tasks" },
            scalar,
            threads,
            n,
            d,
            k,
            list2(cents.iter().map(|r| r.iter()), |x| x.to_string()),
            list2(obs.iter().map(|r| r.iter()), |x| x.to_string()),
            list(sched.iter(), |x| x.to_string())
        );
        em.count(&format!("parfor:threads={}", threads));
        em.count(&format!("parfor:n={}", if n < 100 { "small" } else if n < 1000 { "mid" } else if n <= 10_000 { "large" } else { "over_10000" }));
        em.count(&format!("parfor:metric={}", metric));
        em.count(&format!("parfor:scalar={}", scalar));
        em.count(if events { "parfor:mode=events" } else { "parfor:mode=tasks" });
        let class = format!("which={}:{}:{}", which, metric, scalar);
        em.case_valid(op, &class, |ctx| {
            let (m, ds) = run_updater_dyn(scalar, metric, which, threads, &cents, &obs, d);
            // oracle: first-principles nearest centroid per row + schedule independence across pools
            for i in 0..n {
                let mut best = (0usize, i64::MAX);
                for (ci, cc) in cents.iter().enumerate() {
                    let dd = lattice_dist(metric, cc, &obs[i]);
                    if dd < best.1 {
                        best = (ci, dd);
                    }
                }
                if which != "dist" {
                    ctx.require(m[i] == best.0, "disjoint_write_result", &class, || format!("row {} membership {} expected {}", i, m[i], best.0));
                }
                if which != "memb" {
                    ctx.require(ds[i] == best.1, "disjoint_write_result", &class, || format!("row {} dist {} expected {}", i, ds[i], best.1));
                }
            }
            for t in [1usize, 2, 3, 4, 8, 16] {
                if t == threads {
                    continue;
                }
                let (m2, ds2) = run_updater_dyn(scalar, metric, which, t, &cents, &obs, d);
                ctx.require(m2 == m && ds2 == ds, "schedule_independent", &class, || format!("pool {} vs pool {} differ", t, threads));
            }
            let total: i64 = ds.iter().sum();
            let mstr = if which == "dist" { "-".to_string() } else { list(m.iter(), |x| x.to_string()) };
            let dstr = if which == "memb" { "-".to_string() } else { list(ds.iter(), |x| x.to_string()) };
            let sum = if which == "memb" { "-".to_string() } else { total.to_string() };
            format!("ok m={} d={} sum={}", mstr, dstr, sum)
        });
    }
}

/// correspondence: the reduction after the join as it runs inside the real fits.
/// `form=fit_with`: `KMeansValidParams::fit_with(None, ·)` with precomputed centroids on lattice data:
/// `inertia() * n` is `dists.sum()` of the assignment to the given centroids, `cluster_count()` the
/// histogram of the memberships.  `form=fit`: the data are symmetric pairs around well-separated
/// centroids, so one iteration of `fit` leaves the centroids where they are (m_k-means update
/// `(c + sum) / (count + 1)`, exact) and `inertia() * n` is the `dists.sum()` that ends the restart.
fn fitsum_cases(em: &mut Em, rng: &mut Rng) {
    use linfa_clustering::{IncrKMeansError, KMeans, KMeansInit};
    use linfa_nn::distance::{L1Dist, L2Dist};
    use rand_xoshiro::rand_core::SeedableRng;
    let n_cases = if em.thorough() { 300 } else { 60 };
    for ci in 0..n_cases {
        let form = if ci % 3 == 2 { "fit" } else { "fit_with" };
        let d = 1 + rng.below(3);
        let k = 1 + rng.below(4);
        let metric = *rng.pick(&["l2", "l2", "l1"]);
        let scalar = *rng.pick(&["f64", "f64", "f32"]);
        let threads = *rng.pick(&[1usize, 2, 3, 4, 8, 16]);
        let big = ci % 10 == 1;
        let (cents, obs): (Vec<Vec<i64>>, Vec<Vec<i64>>) = if form == "fit_with" {
            let n = if scalar == "f32" {
                if big { 16384 } else { *rng.pick(&[1usize, 2, 64, 256, 1024, 4096]) }
            } else if big {
                10_001 + rng.below(3000)
            } else {
                *rng.pick(&[1usize, 2, 7, 64, 300, 1024, 2500])
            };
            let cents = (0..k).map(|_| (0..d).map(|_| rng.range(-6, 6)).collect()).collect();
            (cents, (0..n).map(|_| (0..d).map(|_| rng.range(-6, 6)).collect()).collect())
        } else {
            // centroids 32 apart on the first axis, offsets within +-3: every row is nearest to its own centroid
            let cents: Vec<Vec<i64>> = (0..k).map(|c| (0..d).map(|j| if j == 0 { 32 * c as i64 - 40 } else { rng.range(-8, 8) }).collect()).collect();
            let pairs = if scalar == "f32" {
                if big { 8192 } else { 1usize << rng.below(9) }
            } else if big {
                5001 + rng.below(1000)
            } else {
                1 + rng.below(300)
            };
            let mut obs = vec![];
            for _ in 0..pairs {
                let c = rng.below(k);
                let off: Vec<i64> = (0..d).map(|_| rng.range(-3, 3)).collect();
                obs.push((0..d).map(|j| cents[c][j] + off[j]).collect());
                obs.push((0..d).map(|j| cents[c][j] - off[j]).collect());
            }
            rng.shuffle(&mut obs);
            (cents, obs)
        };
        let n = obs.len();
        let mut sched: Vec<usize> = (0..n).collect();
        rng.shuffle(&mut sched);
        let op = format!(
            "fitsum form={} metric={} scalar={} threads={} n={} d={} k={} cents={} obs={} sched={}",
            form,
            metric,
            scalar,
            threads,
            n,
            d,
            k,
            list2(cents.iter().map(|r| r.iter()), |x| x.to_string()),
            list2(obs.iter().map(|r| r.iter()), |x| x.to_string()),
            list(sched.iter(), |x| x.to_string())
        );
        em.count(&format!("fitsum:form={}", form));
        em.count(&format!("fitsum:n={}", if n > 10_000 { "over_10000" } else { "upto_10000" }));
        em.count(&format!("fitsum:scalar={}", scalar));
        // first principles: sum of the distances to the nearest given centroid, rows per centroid
        let mut want = 0i64;
        let mut cnt = vec![0i64; k];
        for o in &obs {
            let mut best = (0usize, i64::MAX);
            for (ci, cc) in cents.iter().enumerate() {
                let dd = lattice_dist(metric, cc, o);
                if dd < best.1 {
                    best = (ci, dd);
                }
            }
            want += best.1;
            cnt[best.0] += 1;
        }
        // f32: inertia = S / n is rounded to 24 bits; S is recovered only when it survives that
        let exact = scalar == "f64" || (want < (1 << 22) && n.is_power_of_two());
        em.count(if exact { "fitsum:sum_compared" } else { "fitsum:sum_not_recoverable_f32" });
        let class = format!("fitsum:{}:{}:{}", form, metric, scalar);
        em.case_valid(op, &class, |ctx| {
            // (cluster counts, inertia * n, centroids) of one real fit under a pool
            macro_rules! real {
                ($F:ty, $dist:expr, $threads:expr) => {{
                    let c = Array2::from_shape_fn((k, d), |(i, j)| cents[i][j] as $F);
                    let o = Array2::from_shape_fn((n, d), |(i, j)| obs[i][j] as $F);
                    let ds = DatasetBase::from(o);
                    let rg = rand_xoshiro::Xoshiro256Plus::seed_from_u64(1);
                    let p = KMeans::params_with(k, rg, $dist).init_method(KMeansInit::Precomputed(c)).n_runs(1).max_n_iterations(1).tolerance(1e-2);
                    let pool = rayon::ThreadPoolBuilder::new().num_threads($threads).build().expect("pool");
                    pool.install(|| {
                        let m = if form == "fit_with" {
                            match p.fit_with(None, &ds) {
                                Ok(m) => Some(m),
                                Err(IncrKMeansError::NotConverged(m)) => Some(m),
                                Err(_) => None,
                            }
                        } else {
                            p.fit(&ds).ok()
                        };
                        m.map(|m| {
                            let total = (m.inertia() as f64) * n as f64;
                            (
                                m.cluster_count().iter().map(|x| *x as i64).collect::<Vec<i64>>(),
                                total,
                                m.centroids().iter().map(|x| *x as f64).collect::<Vec<f64>>(),
                            )
                        })
                    })
                }};
            }
            let run = |t: usize| match (scalar, metric) {
                ("f64", "l2") => real!(f64, L2Dist, t),
                ("f64", _) => real!(f64, L1Dist, t),
                (_, "l2") => real!(f32, L2Dist, t),
                _ => real!(f32, L1Dist, t),
            };
            let r = match run(threads) {
                Some(r) => r,
                None => {
                    ctx.fail("no_error", &class, "fit with precomputed centroids on lattice data failed".to_string());
                    return "err".to_string();
                }
            };
            for t in [1usize, 4, 16] {
                if t != threads {
                    let r2 = run(t);
                    ctx.require(r2.as_ref().map(|x| (x.0.clone(), x.1.to_bits(), x.2.iter().map(|v| v.to_bits()).collect::<Vec<u64>>())) == Some((r.0.clone(), r.1.to_bits(), r.2.iter().map(|v| v.to_bits()).collect::<Vec<u64>>())), "schedule_independent", &class, || format!("pool {} vs pool {}: inertia / counts / centroids differ", t, threads));
                }
            }
            let got = r.1.round() as i64;
            if exact {
                ctx.require(got == want, "reduction_after_join", &class, || format!("inertia * n = {} ({}), sum of nearest distances {}", r.1, got, want));
            }
            ctx.require(r.0 == cnt, "reduction_after_join", &class, || format!("cluster counts {:?}, rows nearest to each centroid {:?}", r.0, cnt));
            if form == "fit" {
                // the generator's promise (fixed point of the centroid update); if it failed the case says nothing
                let fixed = r.2.iter().zip(cents.iter().flatten()).all(|(a, b)| *a == *b as f64);
                ctx.require(fixed, "generator_fixed_point", &class, || "centroids moved: the symmetric data are not a fixed point".to_string());
                // `fit` counts the memberships of the best run
            }
            format!("ok count={} sum={}", list(r.0.iter(), |x| x.to_string()), if exact { got } else { want })
        });
    }
}

/// correspondence: ONE parameter object fitted on data sets A, B, A, … one after another, compared
/// with the model's `fitSession` over the table of first fits (row 0: fresh objects with the same
/// seed, row 1: fresh objects with another seed — the results do depend on the generator).
fn fitseq_cases(em: &mut Em, rng: &mut Rng) {
    use rand_xoshiro::rand_core::SeedableRng;
    use rand_xoshiro::Xoshiro256Plus;
    let n_cases = if em.thorough() { 60 } else { 15 };
    for ci in 0..n_cases {
        let est = ["kmeans_pp", "kmeans_random", "gmm", "gaussian_projection", "sparse_projection"][ci % 5];
        let seeds = [rng.next(), rng.next()];
        let dseed = rng.next() % 100000;
        let nd = 2 + rng.below(2);
        let seq: Vec<usize> = (0..3 + rng.below(3)).map(|i| if i == 0 { 0 } else { rng.below(nd) }).collect();
        let mut r = Rng::new(dseed);
        let datas: Vec<Array2<f64>> = (0..nd).map(|j| Array2::from_shape_fn((150 + 30 * j, 3), |_| (r.unit() - 0.5) * (6.0 + j as f64))).collect();
        // digest of one fit of the parameter object `p` on data set `j`; an error is a result too
        fn dg(bits: Vec<u64>) -> u64 {
            let bytes: Vec<u8> = bits.iter().flat_map(|b| b.to_le_bytes()).collect();
            fnv(&bytes) >> 12
        }
        let fit_all = |seed: u64, order: &[usize], one_object: bool| -> Vec<u64> {
            use linfa_clustering::{GaussianMixtureModel, KMeans, KMeansInit};
            use linfa_reduction::random_projection::{GaussianRandomProjection, SparseRandomProjection};
            let g = Xoshiro256Plus::seed_from_u64(seed);
            let bits = |a: &Array2<f64>| a.iter().map(|v| v.to_bits()).collect::<Vec<u64>>();
            macro_rules! session {
                ($mk:expr, $p:ident, $x:ident, $body:expr) => {{
                    let mut $p = $mk;
                    let mut out: Vec<u64> = vec![];
                    for &j in order {
                        if !one_object {
                            $p = $mk;
                        }
                        let $x = &datas[j];
                        out.push($body);
                    }
                    out
                }};
            }
            match est {
                "kmeans_pp" | "kmeans_random" => session!(
                    KMeans::params_with_rng(3, g.clone()).init_method(if est == "kmeans_pp" { KMeansInit::KMeansPlusPlus } else { KMeansInit::Random }).n_runs(2).max_n_iterations(10),
                    p,
                    x,
                    match p.fit(&DatasetBase::from(x.clone())) {
                        Ok(m) => dg(bits(m.centroids())),
                        Err(_) => 1,
                    }
                ),
                "gmm" => session!(
                    GaussianMixtureModel::params_with_rng(2, g.clone()).max_n_iterations(10).n_runs(1),
                    p,
                    x,
                    match p.fit(&DatasetBase::from(x.clone())) {
                        Ok(m) => dg(bits(m.means())),
                        Err(_) => 1,
                    }
                ),
                "gaussian_projection" => session!(
                    GaussianRandomProjection::<f64>::params_with_rng(g.clone()).target_dim(2),
                    p,
                    x,
                    match p.fit(&DatasetBase::from(x.clone())) {
                        Ok(m) => dg(bits(&m.transform(x))),
                        Err(_) => 1,
                    }
                ),
                _ => session!(
                    SparseRandomProjection::<f64>::params_with_rng(g.clone()).target_dim(2),
                    p,
                    x,
                    match p.fit(&DatasetBase::from(x.clone())) {
                        Ok(m) => dg(bits(&m.transform(x))),
                        Err(_) => 1,
                    }
                ),
            }
        };
        // the table is part of the request: built from FRESH parameter objects, one per fit
        let all: Vec<usize> = (0..nd).collect();
        let table: Vec<Vec<u64>> = seeds.iter().map(|s| fit_all(*s, &all, false)).collect();
        let ok_fits = table[0].iter().filter(|x| **x != 1).count();
        em.count_n(&format!("fitseq_fitted:{}", est), seq.iter().filter(|j| table[0][**j] != 1).count() as u64);
        if table[0] != table[1] {
            em.count("fitseq:result_depends_on_seed");
        }
        let _ = ok_fits;
        let op = format!("fitseq est={} seed={} data={} table={} seq={}", est, seeds[0], dseed, list2(table.iter().map(|r| r.iter()), |x| x.to_string()), list(seq.iter(), |x| x.to_string()));
        let class = format!("est={}", est);
        em.case_valid(op, &class, |ctx| {
            let got = fit_all(seeds[0], &seq, true);
            let want: Vec<u64> = seq.iter().map(|j| table[0][*j]).collect();
            ctx.require(got == want, "rng_cloned_per_fit", &class, || format!("one parameter object fitted on the data sets {:?} returns {:?}, first fits with fresh objects {:?}", seq, got, want));
            format!("ok {}", list(got.iter(), |x| x.to_string()))
        });
    }
}

// ------------------------------------------------------------------------------------------------
// correspondence: hash-map folds

fn modal_cases(em: &mut Em, rng: &mut Rng) {
    use linfa_trees::verif_hooks_c20 as hk;
    let n_cases = if em.thorough() { 4000 } else { 600 };
    for _ in 0..n_cases {
        let k = 1 + rng.below(6);
        // distinct keys, in a random insertion order
        let mut keys: Vec<usize> = (0..12).collect();
        rng.shuffle(&mut keys);
        keys.truncate(k);
        // few distinct dyadic frequencies => many ties for the maximum
        let freqs: Vec<f32> = (0..k).map(|_| *rng.pick(&[0.0f32, 0.5, 1.0, 1.0, 2.0, 2.0, 2.5, 3.0])).collect();
        let maxf = freqs.iter().cloned().fold(f32::MIN, f32::max);
        let nmax = freqs.iter().filter(|f| **f == maxf).count();
        em.count(&format!("modal:ties={}", nmax.min(3)));
        let op = format!("modal keys={} freqs={}", list(keys.iter(), |x| x.to_string()), list(freqs.iter(), |x| format!("{}", (*x * 2.0) as i64)));
        let class = if nmax > 1 { "modal:tie" } else { "modal:unique_max" };
        em.case_valid(op, class, |ctx| {
            let mut results = vec![];
            // fresh maps (fresh hash seeds), forward and reversed insertion orders
            for rep in 0..8 {
                let mut m: HashMap<usize, f32> = HashMap::new();
                if rep % 2 == 0 {
                    for (k, f) in keys.iter().zip(freqs.iter()) {
                        m.insert(*k, *f);
                    }
                } else {
                    for (k, f) in keys.iter().zip(freqs.iter()).rev() {
                        m.insert(*k, *f);
                    }
                }
                results.push(hk::find_modal_class(&m));
            }
            let r0 = results[0];
            ctx.require(results.iter().all(|r| *r == r0), "hash_order_independent", class, || format!("find_modal_class returned {:?} on 8 equal maps", results));
            let f0 = keys.iter().position(|k| *k == r0).map(|i| freqs[i]);
            ctx.require(f0 == Some(maxf), "modal_is_max", class, || format!("returned {} with frequency {:?}, maximum {}", r0, f0, maxf));
            // the statement promises the same class on every run, not a particular tie-break: with tied
            // maxima only the frequency of the returned class is compared with the model
            if nmax > 1 {
                format!("ok tie max={}", (f0.unwrap_or(-1.0) * 2.0) as i64)
            } else {
                format!("ok {}", r0)
            }
        });
    }
}

/// oracle-only: the f32 reductions over the class-frequency map (impurities) give the same bits
/// whatever the map's iteration order
fn impurity_cases(em: &mut Em, rng: &mut Rng) {
    use linfa_trees::verif_hooks_c20 as hk;
    let n_cases = if em.thorough() { 3000 } else { 400 };
    for _ in 0..n_cases {
        let k = 2 + rng.below(6);
        let mut keys: Vec<usize> = (0..12).collect();
        rng.shuffle(&mut keys);
        keys.truncate(k);
        // sums of weights such as 0.3, 0.7, 1.0: not dyadic, so the order of an f32 sum shows
        let freqs: Vec<f32> = (0..k).map(|_| (0..1 + rng.below(5)).map(|_| *rng.pick(&[0.3f32, 0.7, 1.0, 0.1, 2.0])).sum::<f32>()).collect();
        em.count(&format!("impurity:classes={}", k.min(4)));
        let op = format!("#impurity keys={} freqs={}", list(keys.iter(), |x| x.to_string()), list(freqs.iter(), |x| crate::util::hex32(*x)));
        let class = if k >= 3 { "impurity:classes>=3" } else { "impurity:classes=2" };
        em.case_valid(op, class, |ctx| {
            let mut g = vec![];
            let mut e = vec![];
            for rep in 0..12 {
                let mut m: HashMap<usize, f32> = HashMap::new();
                let mut idx: Vec<usize> = (0..k).collect();
                idx.rotate_left(rep % k);
                if rep % 2 == 1 {
                    idx.reverse();
                }
                for i in idx {
                    m.insert(keys[i], freqs[i]);
                }
                g.push(hk::gini_impurity(&m).to_bits());
                e.push(hk::entropy(&m).to_bits());
            }
            ctx.require(g.iter().all(|x| *x == g[0]), "hash_order_independent", &format!("{}:gini", class), || format!("gini impurity bits {:x?} on 12 equal maps", g));
            ctx.require(e.iter().all(|x| *x == e[0]), "hash_order_independent", &format!("{}:entropy", class), || format!("entropy bits {:x?} on 12 equal maps", e));
            "-".to_string()
        });
    }
}

fn nb_cases(em: &mut Em, rng: &mut Rng) {
    use linfa_bayes::verif_hooks_c20 as hk;
    let n_cases = if em.thorough() { 3000 } else { 400 };
    for _ in 0..n_cases {
        let k = 1 + rng.below(5);
        let n = rng.below(7);
        let mut classes: Vec<usize> = (0..10).collect();
        rng.shuffle(&mut classes);
        classes.truncate(k);
        let jll: Vec<Vec<f64>> = (0..k).map(|_| (0..n).map(|_| -(rng.below(4) as f64) * 0.5).collect()).collect();
        let mut tie = false;
        for i in 0..n {
            let mx = (0..k).map(|c| jll[c][i]).fold(f64::MIN, f64::max);
            if (0..k).filter(|c| jll[*c][i] == mx).count() > 1 {
                tie = true;
            }
        }
        em.count(if tie { "nb:tie" } else { "nb:unique_max" });
        let op = format!("nbargmax classes={} jll={}", list(classes.iter(), |x| x.to_string()), list2(jll.iter().map(|r| r.iter()), |x| hex64(*x)));
        let class = if tie { "nb:tie" } else { "nb:unique_max" };
        em.case_valid(op, class, |ctx| {
            let mut results = vec![];
            for rep in 0..8 {
                if rep % 2 == 0 {
                    results.push(hk::predict_from_jll(&classes, &jll));
                } else {
                    let c2: Vec<usize> = classes.iter().rev().cloned().collect();
                    let j2: Vec<Vec<f64>> = jll.iter().rev().cloned().collect();
                    results.push(hk::predict_from_jll(&c2, &j2));
                }
            }
            let r0 = results[0].clone();
            ctx.require(results.iter().all(|r| *r == r0), "hash_order_independent", class, || format!("predictions {:?} on 8 equal class tables", results));
            for i in 0..n {
                let mx = (0..k).map(|c| jll[c][i]).fold(f64::MIN, f64::max);
                let pi = classes.iter().position(|c| *c == r0[i]);
                ctx.require(pi.map(|p| jll[p][i]) == Some(mx), "argmax_is_max", class, || format!("sample {} predicted {} which is not a maximiser", i, r0[i]));
            }
            // a sample whose maximum is attained by several classes: any of them, but the same on every
            // run (checked above); compared with the model as `t`
            let toks: Vec<String> = (0..n)
                .map(|i| {
                    let mx = (0..k).map(|c| jll[c][i]).fold(f64::MIN, f64::max);
                    if (0..k).filter(|c| jll[*c][i] == mx).count() > 1 { "t".to_string() } else { r0[i].to_string() }
                })
                .collect();
            format!("ok {}", toks.join(","))
        });
    }
}

fn labels_cases(em: &mut Em, rng: &mut Rng) {
    let n_cases = if em.thorough() { 2000 } else { 300 };
    for _ in 0..n_cases {
        let n = rng.below(12);
        let t = 1 + rng.below(3);
        let n2 = rng.below(8);
        let a: Vec<Vec<usize>> = (0..n).map(|_| (0..t).map(|_| rng.below(7)).collect()).collect();
        let b: Vec<usize> = (0..n2).map(|_| rng.below(9)).collect();
        // ground truth for the first target column (confusion matrix: linfa itself sorts the combined labels);
        // few distinct values so that the two-class reversal is met
        let span = *rng.pick(&[1usize, 2, 2, 3, 9]);
        let g: Vec<usize> = (0..n).map(|i| if rng.coin() { a[i][0] % span } else { rng.below(span) }).collect();
        em.count(&format!("labels:targets={}", t));
        let op = format!("labels t={} a={} b={} g={}", t, list2(a.iter().map(|r| r.iter()), |x| x.to_string()), list(b.iter(), |x| x.to_string()), list(g.iter(), |x| x.to_string()));
        em.case_valid(op, "labels", |ctx| {
            let ta = Array2::from_shape_fn((n, t), |(i, j)| a[i][j]);
            let tb = Array1::from_vec(b.clone());
            let mut first: Option<(Vec<usize>, Vec<usize>)> = None;
            for _ in 0..4 {
                let mut l = ta.labels();
                l.sort_unstable();
                let mut c = ta.combined_labels(&tb);
                c.sort_unstable();
                match &first {
                    None => first = Some((l, c)),
                    Some(f) => ctx.require(f.0 == l && f.1 == c, "hash_order_independent", "labels", || "sorted label lists differ between calls".to_string()),
                }
            }
            let (l, c) = first.unwrap();
            // the sort linfa itself performs: members of the confusion matrix of column 0 against `g`
            let col0 = Array1::from_shape_fn(n, |i| a[i][0]);
            let tg = Array1::from_vec(g.clone());
            let mut cms: Vec<Vec<usize>> = vec![];
            for _ in 0..4 {
                match col0.confusion_matrix(&tg) {
                    Ok(cm) => cms.push(linfa::metrics::verif_hooks_c05::cm_members(&cm).to_vec()),
                    Err(_) => cms.push(vec![usize::MAX]),
                }
            }
            ctx.require(cms.iter().all(|x| *x == cms[0]), "hash_order_independent", "labels", || format!("confusion-matrix members differ between calls: {:?}", cms));
            let mut el: Vec<usize> = a.iter().flatten().cloned().collect();
            el.sort_unstable();
            el.dedup();
            ctx.require(l == el, "labels_are_the_set", "labels", || format!("{:?} vs {:?}", l, el));
            format!("ok labels={} combined={} cm={}", list(l.iter(), |x| x.to_string()), list(c.iter(), |x| x.to_string()), list(cms[0].iter(), |x| x.to_string()))
        });
    }
}

fn hier_cases(em: &mut Em, rng: &mut Rng) {
    use linfa_hierarchical::{HierarchicalCluster, Method};
    use linfa_kernel::{Kernel, KernelMethod};
    let n_cases = if em.thorough() { 1500 } else { 250 };
    for _ in 0..n_cases {
        let n = 2 + rng.below(if em.thorough() { 14 } else { 9 });
        let d = 1 + rng.below(2);
        let pts: Vec<Vec<i64>> = (0..n).map(|_| (0..d).map(|_| rng.range(0, 5)).collect()).collect();
        let (mname, method) = *rng.pick(&[("single", Method::Single), ("complete", Method::Complete), ("average", Method::Average), ("ward", Method::Ward)]);
        let by_dist = rng.chance(1, 3);
        let nc = rng.below(n + 2);
        let dis = *rng.pick(&[0.0f64, 0.05, 0.1, 0.2, 0.45, 0.8, 1.25, 3.0]);
        let x = Array2::from_shape_fn((n, d), |(i, j)| pts[i][j] as f64);
        let kernel = Kernel::params().method(KernelMethod::Gaussian(10.0)).transform(x.view());
        let steps = linfa_hierarchical::verif_hooks_c20::linkage_steps(&kernel, method);
        em.count(&format!("hier:method={}", mname));
        em.count(if by_dist { "hier:stop=distance" } else { "hier:stop=num_clusters" });
        let op = format!(
            "hier n={} stop={} steps={} diss={}",
            n,
            if by_dist { format!("dist:{}", hex64(dis)) } else { format!("num:{}", nc) },
            list2(steps.iter().map(|s| [s.0, s.1]), |x| x.to_string()),
            list(steps.iter(), |s| hex64(s.2))
        );
        let class = format!("hier:{}", if by_dist { "distance" } else { "num_clusters" });
        let invalid = !by_dist && nc == 0;
        em.case(op, |ctx| {
            let mut first: Option<Vec<usize>> = None;
            for _ in 0..6 {
                let kernel = Kernel::params().method(KernelMethod::Gaussian(10.0)).transform(x.view());
                let p = HierarchicalCluster::default().with_method(method);
                let p = if by_dist { p.max_distance(dis) } else { p.num_clusters(nc) };
                let res = match p.transform(kernel) {
                    Ok(r) => r,
                    Err(_) => {
                        ctx.require(invalid, "no_error", &class, || "valid stopping condition rejected".to_string());
                        return "err".to_string();
                    }
                };
                let l = res.targets().clone();
                match &first {
                    None => first = Some(l),
                    Some(f) => {
                        if *f != l {
                            ctx.fail("hash_order_independent", &class, format!("two runs label the same partition differently: {:?} vs {:?}", f, l));
                            break;
                        }
                    }
                }
            }
            let l = first.unwrap();
            // ids are 0..c-1 and numbered by first appearance (= by smallest member)
            let mut seen = 0usize;
            let mut canon = true;
            for &v in &l {
                if v > seen {
                    canon = false;
                }
                if v == seen {
                    seen += 1;
                }
            }
            // the numbering of the clusters is not promised by the statement (only that it is the same on
            // every run): the partition is compared with the model up to renaming (ids renumbered by first
            // appearance); whether the implementation's own numbering is already that one is only counted
            let _ = canon;
            let mut ren: Vec<(usize, usize)> = vec![];
            let canonical: Vec<usize> = l
                .iter()
                .map(|v| match ren.iter().find(|r| r.0 == *v) {
                    Some(r) => r.1,
                    None => {
                        ren.push((*v, ren.len()));
                        ren.len() - 1
                    }
                })
                .collect();
            format!("ok {}", list(canonical.iter(), |x| x.to_string()))
        });
    }
}

fn rng_clone_cases(em: &mut Em, rng: &mut Rng) {
    use linfa_clustering::{GaussianMixtureModel, KMeans, KMeansInit};
    use rand_xoshiro::rand_core::SeedableRng;
    let n_cases = if em.thorough() { 40 } else { 10 };
    for _ in 0..n_cases {
        let seed = rng.next();
        let dseed = rng.next() % 100000;
        let init = *rng.pick(&["random", "pp"]);
        let op = format!("#rng_clone seed={} data={} init={}", seed, dseed, init);
        em.case_valid(op, "rng_clone", |ctx| {
            let mut r = Rng::new(dseed);
            let x = Array2::from_shape_fn((300, 2), |_| (r.unit() - 0.5) * 10.0);
            let ds = DatasetBase::from(x);
            let g = rand_xoshiro::Xoshiro256Plus::seed_from_u64(seed);
            // ONE parameter object fitted three times: the generator inside must not advance
            let params = KMeans::params_with_rng(3, g.clone()).init_method(if init == "random" { KMeansInit::Random } else { KMeansInit::KMeansPlusPlus }).n_runs(2).max_n_iterations(20);
            let a = params.fit(&ds).unwrap();
            let b = params.fit(&ds).unwrap();
            let c = params.fit(&ds).unwrap();
            let same = |p: &KMeans<f64, _>, q: &KMeans<f64, _>| p.centroids().iter().zip(q.centroids().iter()).all(|(u, v)| u.to_bits() == v.to_bits()) && p.inertia().to_bits() == q.inertia().to_bits();
            ctx.require(same(&a, &b) && same(&a, &c), "rng_cloned_per_fit", "est=kmeans", || "fitting one parameter object repeatedly gives different models".to_string());
            let gp = GaussianMixtureModel::params_with_rng(2, g).max_n_iterations(15).n_runs(2);
            let ga = gp.fit(&ds).unwrap();
            let gb = gp.fit(&ds).unwrap();
            ctx.require(ga.means().iter().zip(gb.means().iter()).all(|(u, v)| u.to_bits() == v.to_bits()), "rng_cloned_per_fit", "est=gmm", || "fitting one GMM parameter object twice gives different means".to_string());
            "-".to_string()
        });
    }
}

pub fn run(em: &mut Em, rng: &mut Rng) {
    if let Ok(spec) = std::env::var("VERIF_C20_CHILD") {
        child_main(&spec);
    }
    let seed = rng.next() % 1_000_000;
    parfor_cases(em, rng);
    fitsum_cases(em, rng);
    fitseq_cases(em, rng);
    modal_cases(em, rng);
    impurity_cases(em, rng);
    nb_cases(em, rng);
    labels_cases(em, rng);
    hier_cases(em, rng);
    rng_clone_cases(em, rng);
    more::vocab_cases(em, rng);
    more::rng_clone_more(em, rng);
    estimator_runs(em, seed);
}
