//! C16 — scalers and whiteners: `LinearScaler` (standard / min-max / max-abs), `NormScaler`,
//! `Whitener` (PCA / ZCA / Cholesky) on arrays and datasets.
//!
//! Correspondence ops (f64, bit patterns in the request): `std`, `minmax`, `maxabs`, `norm`,
//! `whiten` (the whitening matrix found by the real SVD / Cholesky travels in the request and is
//! validated by its contract here), `ds` (metadata pass-through).  The same generic bodies run on
//! f32 as oracle-only `#…32` cases.  The oracle recomputes the postconditions of the statement from
//! first principles (two-pass statistics in f64) on the transformed *training* data, and row-wise
//! action on the second matrix (selection / reordering / one row at a time, bit-exact).
use crate::util::*;
use linfa::dataset::DatasetBase;
use linfa::traits::{Fit, Transformer};
use linfa::Float;
use linfa_preprocessing::linear_scaling::{LinearScaler, LinearScalerParams, ScalingMethod};
use linfa_preprocessing::norm_scaling::NormScaler;
use linfa_preprocessing::whitening::{FittedWhitener, Whitener};
use linfa_preprocessing::PreprocessingError;
use ndarray::{Array1, Array2, Axis};
use std::panic::{catch_unwind, AssertUnwindSafe};

type Mat = Vec<Vec<f64>>;

fn to_arr<F: Float>(m: &Mat, p: usize) -> Array2<F> {
    Array2::from_shape_fn((m.len(), p), |(i, j)| F::cast(m[i][j]))
}
fn to_mat<F: Float>(a: &Array2<F>) -> Mat {
    a.rows().into_iter().map(|r| r.iter().map(|x| x.to_f64().unwrap()).collect()).collect()
}
fn show_mat(m: &Mat) -> String {
    list2(m.iter().map(|r| r.iter()), |x| hex64(*x))
}
fn show_mat_c(m: &Mat, approx: bool) -> String {
    list2(m.iter().map(|r| r.iter()), |x| if approx { format!("~{}", hex64c(*x)) } else { hex64c(*x) })
}
fn err_name(e: &PreprocessingError) -> &'static str {
    match e {
        PreprocessingError::NotEnoughSamples => "NotEnoughSamples",
        PreprocessingError::FlippedMinMaxRange => "FlippedMinMaxRange",
        PreprocessingError::LinalgError(_) => "Linalg",
        _ => "Other",
    }
}
fn column(m: &Mat, j: usize) -> Vec<f64> {
    m.iter().map(|r| r[j]).collect()
}
/// two-pass statistics in f64: (mean, population sd, min, max, max |x|, all equal)
fn stats(c: &[f64]) -> (f64, f64, f64, f64, f64, bool) {
    let n = c.len() as f64;
    let m = c.iter().sum::<f64>() / n;
    let v = c.iter().map(|x| (x - m) * (x - m)).sum::<f64>() / n;
    let mn = c.iter().cloned().fold(f64::INFINITY, f64::min);
    let mx = c.iter().cloned().fold(f64::NEG_INFINITY, f64::max);
    let ma = c.iter().fold(0.0f64, |a, x| a.max(x.abs()));
    (m, v.sqrt(), mn, mx, ma, c.iter().all(|x| *x == c[0]))
}
fn same_bits(a: &[f64], b: &[f64]) -> bool {
    a.len() == b.len() && a.iter().zip(b).all(|(x, y)| x.to_bits() == y.to_bits() || (x.is_nan() && y.is_nan()))
}

// ---------------------------------------------------------------- generators

#[derive(Clone, Copy, PartialEq)]
enum Stream {
    Lattice,
    Generic,
}

/// one column of `n` values. `eps` is the machine epsilon of the carrier the matrix is meant for.
fn gen_column(rng: &mut Rng, n: usize, stream: Stream, eps: f64, em: &mut Em) -> Vec<f64> {
    let kind = rng.below(if stream == Stream::Lattice { 7 } else { 11 });
    match kind {
        0 => {
            em.count("col:constant");
            let c = *rng.pick(&[0.0, 0.0, 1.0, -3.0, 0.25, 1024.0, 7.5]);
            vec![c; n]
        }
        1 => {
            em.count("col:two_valued");
            let a = rng.range(-8, 8) as f64 / 4.0;
            let b = rng.range(-8, 8) as f64 / 4.0;
            (0..n).map(|_| if rng.coin() { a } else { b }).collect()
        }
        2 => {
            em.count("col:int_offset");
            let off = *rng.pick(&[0.0, 100.0, -1024.0, 4096.0]);
            (0..n).map(|_| off + rng.range(-8, 8) as f64).collect()
        }
        3..=6 => {
            em.count("col:quarters");
            (0..n).map(|_| rng.range(-32, 32) as f64 / 4.0).collect()
        }
        7 => {
            em.count("col:sub_eps");
            // non-constant, spread far below the machine epsilon of the carrier
            let unit = eps / 16.0;
            (0..n).map(|_| rng.range(-3, 3) as f64 * unit).collect()
        }
        8 => {
            em.count("col:constant_generic");
            let c = *rng.pick(&[0.1, -1e6 - 0.3, 3.3e-6, 1e6 + 0.1]);
            vec![c; n]
        }
        _ => {
            em.count("col:generic");
            let off = *rng.pick(&[0.0, 0.0, 1e6, -1e6, 1e3]);
            let sc = *rng.pick(&[1e-6, 1.0, 1.0, 1e6, 1e-3]);
            (0..n).map(|_| if rng.chance(1, 40) { -0.0 } else { off + sc * (2.0 * rng.unit() - 1.0) }).collect()
        }
    }
}

/// columns whose sd / range / max-abs sit within a factor 4 of the guard's epsilon would make the
/// constant-feature decision hang on rounding: they are replaced (counted), never compared
fn near_eps(c: &[f64], eps: f64) -> bool {
    if c.is_empty() {
        return false;
    }
    let (_, sd, mn, mx, ma, _) = stats(c);
    let near = |v: f64| v > eps / 4.0 && v < eps * 4.0;
    near(sd) || near(mx - mn) || near(ma)
}

fn gen_matrix(rng: &mut Rng, n: usize, p: usize, stream: Stream, eps: f64, em: &mut Em) -> Mat {
    let mut cols: Vec<Vec<f64>> = vec![];
    for _ in 0..p {
        let mut c = gen_column(rng, n, stream, eps, em);
        if near_eps(&c, eps) {
            em.count("col:near_eps_replaced");
            c = (0..n).map(|_| rng.range(-32, 32) as f64 / 4.0).collect();
        }
        cols.push(c);
    }
    let mut m: Mat = (0..n).map(|i| (0..p).map(|j| cols[j][i]).collect()).collect();
    if n >= 2 && rng.chance(1, 4) {
        em.count("row:all_zero");
        let i = rng.below(n);
        m[i] = vec![0.0; p];
    }
    if n >= 2 && rng.chance(1, 5) {
        em.count("row:duplicate");
        let (i, j) = (rng.below(n), rng.below(n));
        m[i] = m[j].clone();
    }
    // the zero / duplicate row may have pushed a column next to the guard
    for j in 0..p {
        if near_eps(&column(&m, j), eps) {
            em.count("col:near_eps_replaced");
            for r in m.iter_mut() {
                r[j] = rng.range(-32, 32) as f64 / 4.0;
            }
        }
    }
    m
}

fn gen_shape(rng: &mut Rng, big: bool) -> (usize, usize) {
    let n = if rng.chance(1, 25) {
        0
    } else if big && rng.chance(1, 6) {
        rng.range(9, 40) as usize
    } else {
        rng.range(1, 9) as usize
    };
    let p = if rng.chance(1, 40) { 0 } else { rng.range(1, 5) as usize };
    (n, p)
}

/// row selections for the row-wise oracle: a permutation with repetitions
fn gen_sel(rng: &mut Rng, n: usize) -> Vec<usize> {
    if n == 0 {
        return vec![];
    }
    let k = rng.below(n + 2);
    (0..k).map(|_| rng.below(n)).collect()
}

// ---------------------------------------------------------------- linear scalers

#[derive(Clone, Copy, PartialEq, Debug)]
enum Lin {
    Std(bool, bool),
    MinMax(f64, f64),
    MaxAbs,
}
impl Lin {
    fn name(&self) -> &'static str {
        match self {
            Lin::Std(..) => "std",
            Lin::MinMax(..) => "minmax",
            Lin::MaxAbs => "maxabs",
        }
    }
    fn params<F: Float>(&self) -> LinearScalerParams<F> {
        match *self {
            Lin::Std(true, true) => LinearScaler::standard(),
            Lin::Std(false, true) => LinearScaler::standard_no_mean(),
            Lin::Std(true, false) => LinearScaler::standard_no_std(),
            Lin::Std(a, b) => LinearScalerParams::new(ScalingMethod::Standard(a, b)),
            Lin::MinMax(lo, hi) if lo == 0.0 && hi == 1.0 => LinearScaler::min_max(),
            Lin::MinMax(lo, hi) => LinearScaler::min_max_range(F::cast(lo), F::cast(hi)),
            Lin::MaxAbs => LinearScaler::max_abs(),
        }
    }
}

fn spread_class(all_equal_or_zero: bool, v: f64, eps: f64) -> &'static str {
    if all_equal_or_zero {
        "constant"
    } else if v <= eps {
        "sub_eps"
    } else {
        "regular"
    }
}

/// the statement's postconditions on the transformed training data (`yf` = transform(fit data))
fn oracle_lin(ctx: &mut Ctx, tag: &str, lin: Lin, fit: &Mat, p: usize, yf: &Mat, e: f64) {
    let n = fit.len();
    if n == 0 {
        return;
    }
    for j in 0..p {
        let c = column(fit, j);
        let y = column(yf, j);
        let (m, sd, mn, mx, ma, alleq) = stats(&c);
        let (ym, ysd, ymn, ymx, yma, _) = stats(&y);
        let nn = n as f64;
        match lin {
            Lin::Std(wm, ws) => {
                let cls = spread_class(alleq, sd, e);
                let class = format!("{}:wm={}:ws={}:column={}", tag, wm as u8, ws as u8, cls);
                if alleq {
                    // constant columns are only centred
                    let want = if wm { 0.0 } else { c[0] };
                    let tol = 4.0 * (nn + 2.0) * e * c[0].abs();
                    ctx.require(y.iter().all(|v| (v - want).abs() <= tol), "constant_only_centred", &class, || format!("column {} constant {:e}: output {:?}, want {:e} (tol {:e})", j, c[0], y, want, tol));
                    continue;
                }
                let s_exp = if ws && cls == "regular" { 1.0 / sd } else { 1.0 };
                if wm {
                    let tol = 16.0 * e * (ma + m.abs()) * s_exp + f64::MIN_POSITIVE;
                    ctx.require(ym.abs() <= tol, "standard_zero_mean", &class, || format!("column {}: mean of output {:e} (tol {:e}); input {:?}", j, ym, tol, c));
                } else {
                    let tol = 16.0 * e * (ma + m.abs()) * (1.0 + s_exp) + f64::MIN_POSITIVE;
                    ctx.require((ym - m).abs() <= tol, "no_mean_keeps_mean", &class, || format!("column {}: mean of output {:e}, of input {:e} (tol {:e})", j, ym, m, tol));
                }
                if ws {
                    // conditioning of x - mean, plus (no-mean variant) the rounding of `+ offset`
                    let tol = 64.0 * e * (1.0 + (ma + m.abs()) / sd) + if wm { 0.0 } else { 64.0 * e * m.abs() };
                    if tol < 0.25 {
                        ctx.require((ysd * ysd - 1.0).abs() <= tol, "standard_unit_var", &class, || format!("column {}: variance of output {:e} (tol {:e}); input {:?}", j, ysd * ysd, tol, c));
                    }
                } else {
                    let tol = 64.0 * e * (sd * sd + (ma + m.abs()) * sd);
                    ctx.require((ysd * ysd - sd * sd).abs() <= tol, "no_std_keeps_spread", &class, || format!("column {}: variance of output {:e}, of input {:e} (tol {:e})", j, ysd * ysd, sd * sd, tol));
                }
            }
            Lin::MinMax(lo, hi) => {
                let cls = spread_class(alleq, mx - mn, e);
                let class = format!("{}:column={}", tag, cls);
                if alleq {
                    continue;
                }
                let tol = 8.0 * e * (lo.abs() + hi.abs() + (hi - lo));
                ctx.require((ymn - lo).abs() <= tol && (ymx - hi).abs() <= tol, "minmax_range_attained", &class, || {
                    format!("column {}: output spans [{:e}, {:e}], requested [{:e}, {:e}] (tol {:e}); input {:?}", j, ymn, ymx, lo, hi, tol, c)
                });
            }
            Lin::MaxAbs => {
                let cls = spread_class(ma == 0.0, ma, e);
                let class = format!("{}:column={}", tag, cls);
                if ma == 0.0 {
                    continue;
                }
                ctx.require((yma - 1.0).abs() <= 4.0 * e, "maxabs_one", &class, || format!("column {}: max |output| {:e}; input {:?}", j, yma, c));
            }
        }
    }
}

/// transform(x[sel]) = transform(x)[sel], and each row alone maps to the same row (bit-exact)
fn oracle_rowwise<F: Float>(ctx: &mut Ctx, class: &str, x: &Array2<F>, y: &Array2<F>, sel: &[usize], exact: bool, tr: &dyn Fn(Array2<F>) -> Array2<F>) {
    if x.nrows() == 0 || x.ncols() == 0 {
        return;
    }
    let cmp = |a: &[f64], b: &[f64]| -> bool {
        if exact {
            same_bits(a, b)
        } else {
            a.len() == b.len() && a.iter().zip(b).all(|(u, v)| (u - v).abs() <= 1e-9 * (1.0 + u.abs().max(v.abs())) || (u.is_nan() && v.is_nan()) || u == v)
        }
    };
    let ym = to_mat(y);
    if !sel.is_empty() {
        let xs = x.select(Axis(0), sel);
        let ys = to_mat(&tr(xs));
        let ok = ys.len() == sel.len() && sel.iter().enumerate().all(|(k, &i)| cmp(&ys[k], &ym[i]));
        ctx.require(ok, "rowwise_selection", class, || format!("transform(x[sel]) differs from transform(x)[sel], sel {:?}", sel));
    }
    for i in 0..x.nrows().min(4) {
        let one = x.select(Axis(0), &[i]);
        let yo = to_mat(&tr(one));
        ctx.require(yo.len() == 1 && cmp(&yo[0], &ym[i]), "rowwise_single", class, || format!("row {} transformed alone differs from the row of the batch result", i));
    }
}

struct LinOut {
    offsets: Vec<f64>,
    scales: Vec<f64>,
    y: Mat,
}

/// fit on `fit`, check the postconditions on transform(fit), transform `x` (last: may panic)
fn run_lin<F: Float>(ctx: &mut Ctx, tag: &str, lin: Lin, fit: &Mat, pf: usize, x: &Mat, px: usize, sel: &[usize]) -> Result<LinOut, &'static str> {
    let e = F::epsilon().to_f64().unwrap();
    let fa: Array2<F> = to_arr(fit, pf);
    let ds = DatasetBase::from(fa.clone());
    let res = lin.params::<F>().fit(&ds);
    if fit.is_empty() {
        ctx.require(matches!(res, Err(PreprocessingError::NotEnoughSamples)), "empty_rejected", tag, || "fit on a dataset without samples did not return NotEnoughSamples".to_string());
    }
    let sc = match res {
        Err(e) => return Err(err_name(&e)),
        Ok(sc) => sc,
    };
    let yf = sc.transform(fa.clone());
    oracle_lin(ctx, tag, lin, &to_mat(&fa), pf, &to_mat(&yf), e);
    let offsets = sc.offsets().iter().map(|v| v.to_f64().unwrap()).collect();
    let scales = sc.scales().iter().map(|v| v.to_f64().unwrap()).collect();
    let xa: Array2<F> = to_arr(x, px);
    let y = sc.transform(xa.clone());
    oracle_rowwise(ctx, tag, &xa, &y, sel, true, &|a| sc.transform(a));
    Ok(LinOut { offsets, scales, y: to_mat(&y) })
}

fn op_lin(em: &mut Em, rng: &mut Rng, lin: Lin, stream: Stream, f32_too: bool) {
    let big = em.thorough();
    let (nf, p) = gen_shape(rng, big);
    // ndarray sums a single contiguous column with an 8-way unrolled kernel: with n >= 8 its
    // rounding differs from the sequential model unless the sums are exact (lattice values)
    let stream = if p == 1 && nf >= 8 && matches!(lin, Lin::Std(..)) { Stream::Lattice } else { stream };
    let fit = gen_matrix(rng, nf, p, stream, f64::EPSILON, em);
    let px = if rng.chance(1, 25) { p + 1 } else { p };
    let nx = if rng.chance(1, 12) { 0 } else { rng.range(1, 6) as usize };
    let x = if px == p && rng.chance(1, 4) { fit.clone() } else { gen_matrix(rng, nx, px, stream, f64::EPSILON, em) };
    let sel = gen_sel(rng, x.len());
    em.count(if stream == Stream::Lattice { "stream:lattice" } else { "stream:generic" });
    let head = match lin {
        Lin::Std(wm, ws) => format!("std wm={} ws={}", wm as u8, ws as u8),
        Lin::MinMax(lo, hi) => format!("minmax lo={} hi={}", hex64(lo), hex64(hi)),
        Lin::MaxAbs => "maxabs".to_string(),
    };
    let op = format!("{} pf={} fit={} px={} x={}", head, p, show_mat(&fit), px, show_mat(&x));
    let approx = matches!(lin, Lin::Std(..));
    let tag = lin.name().to_string();
    let flipped = matches!(lin, Lin::MinMax(lo, hi) if lo > hi);
    let promised = nf > 0 && (px == p || x.is_empty() || px == 0) && !flipped;
    let body = |ctx: &mut Ctx| match run_lin::<f64>(ctx, &tag, lin, &fit, p, &x, px, &sel) {
        Err(name) => format!("err {}", name),
        Ok(o) => format!(
            "ok off={} sc={} y={}",
            list(o.offsets.iter(), |v| hex64c(*v)),
            list(o.scales.iter(), |v| if approx { format!("~{}", hex64c(*v)) } else { hex64c(*v) }),
            show_mat_c(&o.y, approx)
        ),
    };
    if promised {
        em.case_valid(op, &tag, body);
    } else {
        em.case(op, body);
    }
    if f32_too {
        // same shapes on f32 (values regenerated for the f32 epsilon), oracle only
        let fit32 = gen_matrix(rng, nf, p, stream, f32::EPSILON as f64, em);
        let x32 = gen_matrix(rng, nx, p, stream, f32::EPSILON as f64, em);
        let fit32: Mat = fit32.iter().map(|r| r.iter().map(|v| *v as f32 as f64).collect()).collect();
        // rounding to f32 can move a column next to the f32 guard
        if (0..p).any(|j| near_eps(&column(&fit32, j), f32::EPSILON as f64)) {
            em.count("f32:near_eps_skipped");
            return;
        }
        let sel32 = gen_sel(rng, x32.len());
        let tag32 = format!("{}32", lin.name());
        let op32 = format!("#{}32 {} nf={} p={} fit={}", lin.name(), head, nf, p, show_mat(&fit32));
        let body32 = |ctx: &mut Ctx| match run_lin::<f32>(ctx, &tag32, lin, &fit32, p, &x32, p, &sel32) {
            Err(name) => format!("err {}", name),
            Ok(_) => "ok".to_string(),
        };
        if nf > 0 && !flipped {
            em.case_valid(op32, &tag32, body32);
        } else {
            em.case(op32, body32);
        }
    }
}

fn gen_range(rng: &mut Rng) -> (f64, f64) {
    match rng.below(8) {
        0 | 1 => (0.0, 1.0),
        2 => (-1.0, 1.0),
        3 => (5.0, 10.0),
        4 => (2.5, 2.5),
        5 => (1.0, 0.0), // flipped: error
        6 => (-1e3, 1e-3),
        _ => {
            let a = rng.range(-16, 16) as f64 / 4.0;
            let b = a + rng.range(0, 32) as f64 / 8.0;
            (a, b)
        }
    }
}

// ---------------------------------------------------------------- norm scaler

fn norm_scaler(kind: &str) -> NormScaler {
    match kind {
        "l1" => NormScaler::l1(),
        "l2" => NormScaler::l2(),
        _ => NormScaler::max(),
    }
}

fn run_norm<F: Float>(ctx: &mut Ctx, tag: &str, kind: &str, x: &Mat, p: usize, sel: &[usize]) -> Mat {
    let e = F::epsilon().to_f64().unwrap();
    let xa: Array2<F> = to_arr(x, p);
    let sc = norm_scaler(kind);
    let y: Array2<F> = sc.transform(xa.clone());
    let xm = to_mat(&xa);
    let ym = to_mat(&y);
    for (i, (r, o)) in xm.iter().zip(ym.iter()).enumerate() {
        let zero = r.iter().all(|v| *v == 0.0);
        let class = format!("{}:kind={}:row={}", tag, kind, if zero { "zero" } else { "nonzero" });
        ctx.require(o.iter().all(|v| v.is_finite()), "norm_finite", &class, || format!("row {} = {:?} is mapped to {:?}", i, r, o));
        if !zero {
            let nrm = match kind {
                "l1" => o.iter().map(|v| v.abs()).sum::<f64>(),
                "l2" => o.iter().map(|v| v * v).sum::<f64>().sqrt(),
                _ => o.iter().fold(0.0f64, |a, v| a.max(v.abs())),
            };
            let tol = 4.0 * (p as f64 + 2.0) * e;
            ctx.require((nrm - 1.0).abs() <= tol, "norm_unit", &class, || format!("row {} = {:?}: output norm {:e} (tol {:e})", i, r, nrm, tol));
        }
    }
    oracle_rowwise(ctx, &format!("{}:kind={}", tag, kind), &xa, &y, sel, true, &|a| sc.transform(a));
    ym
}

fn op_norm(em: &mut Em, rng: &mut Rng, stream: Stream, f32_too: bool) {
    let kind = *rng.pick(&["l1", "l2", "max"]);
    let (n, p) = gen_shape(rng, em.thorough());
    let x = gen_matrix(rng, n, p, stream, f64::EPSILON, em);
    let sel = gen_sel(rng, n);
    em.count(&format!("norm:{}", kind));
    let op = format!("norm kind={} x={}", kind, show_mat(&x));
    em.case_valid(op, &format!("norm:kind={}", kind), |ctx| {
        let y = run_norm::<f64>(ctx, "norm", kind, &x, p, &sel);
        format!("ok y={}", show_mat_c(&y, false))
    });
    if f32_too {
        let x32 = gen_matrix(rng, n, p, stream, f32::EPSILON as f64, em);
        let sel32 = gen_sel(rng, n);
        let op32 = format!("#norm32 kind={} x={}", kind, show_mat(&x32));
        em.case_valid(op32, &format!("norm32:kind={}", kind), |ctx| {
            run_norm::<f32>(ctx, "norm32", kind, &x32, p, &sel32);
            "ok".to_string()
        });
    }
}

// ---------------------------------------------------------------- whitening

fn whitener(method: &str) -> Whitener {
    match method {
        "pca" => Whitener::pca(),
        "zca" => Whitener::zca(),
        _ => Whitener::cholesky(),
    }
}

/// eigenvalues of a small symmetric matrix (cyclic Jacobi), for the rank / conditioning class
fn sym_eigvals(a: &Mat) -> Vec<f64> {
    let p = a.len();
    let mut a = a.clone();
    for _ in 0..60 {
        let mut off = 0.0;
        for i in 0..p {
            for j in 0..p {
                if i != j {
                    off += a[i][j] * a[i][j];
                }
            }
        }
        if off == 0.0 {
            break;
        }
        for i in 0..p {
            for j in (i + 1)..p {
                if a[i][j] == 0.0 {
                    continue;
                }
                let theta = (a[j][j] - a[i][i]) / (2.0 * a[i][j]);
                let t = theta.signum() / (theta.abs() + (theta * theta + 1.0).sqrt());
                let t = if theta == 0.0 { 1.0 } else { t };
                let c = 1.0 / (t * t + 1.0).sqrt();
                let s = t * c;
                for k in 0..p {
                    let (aki, akj) = (a[k][i], a[k][j]);
                    a[k][i] = c * aki - s * akj;
                    a[k][j] = s * aki + c * akj;
                }
                for k in 0..p {
                    let (aik, ajk) = (a[i][k], a[j][k]);
                    a[i][k] = c * aik - s * ajk;
                    a[j][k] = s * aik + c * ajk;
                }
            }
        }
    }
    (0..p).map(|i| a[i][i]).collect()
}

/// sample covariance (divisor n-1), two-pass in f64
fn cov(m: &Mat, p: usize) -> Mat {
    let n = m.len() as f64;
    let means: Vec<f64> = (0..p).map(|j| column(m, j).iter().sum::<f64>() / n).collect();
    (0..p).map(|a| (0..p).map(|b| m.iter().map(|r| (r[a] - means[a]) * (r[b] - means[b])).sum::<f64>() / (n - 1.0)).collect()).collect()
}

fn gen_whiten_matrix(rng: &mut Rng, n: usize, p: usize, stream: Stream, em: &mut Em) -> Mat {
    let (off, sc) = if stream == Stream::Lattice { (0.0, 1.0) } else { (*rng.pick(&[0.0, 10.0, 1e3]), *rng.pick(&[1e-3, 1.0, 1.0, 30.0, 1e3])) };
    let mut m: Mat = (0..n)
        .map(|_| (0..p).map(|_| if stream == Stream::Lattice { rng.range(-16, 16) as f64 / 2.0 } else { off + sc * (2.0 * rng.unit() - 1.0) }).collect())
        .collect();
    if n >= 1 && p >= 1 && rng.chance(1, 8) {
        em.count("whiten:constant_column");
        let j = rng.below(p);
        let c = m[0][j];
        for r in m.iter_mut() {
            r[j] = c;
        }
    }
    if n >= 2 && rng.chance(1, 10) {
        em.count("whiten:zero_row");
        let i = rng.below(n);
        m[i] = vec![0.0; p];
    }
    m
}

fn fit_whitener(method: &str, fit: &Mat, p: usize) -> Result<Result<FittedWhitener<f64>, PreprocessingError>, ()> {
    let fa: Array2<f64> = to_arr(fit, p);
    let ds = DatasetBase::from(fa);
    catch_unwind(AssertUnwindSafe(|| whitener(method).fit(&ds))).map_err(|_| ())
}

fn op_whiten(em: &mut Em, rng: &mut Rng, stream: Stream) {
    let mut method = *rng.pick(&["pca", "zca", "chol"]);
    let p = rng.range(1, 4) as usize;
    let n = match rng.below(12) {
        0 => 0,
        1 => rng.range(1, p as i64) as usize, // n <= p: rank deficient
        _ => p + 1 + rng.below(if em.thorough() { 30 } else { 8 }),
    };
    if n == 1 && method != "pca" {
        // outside the property (fewer than two rows) and not runnable: the covariance is 0/0 = NaN and
        // linfa-linalg's SVD does not terminate on a NaN matrix (ZCA; Cholesky goes through invc)
        em.count("whiten:n1_zca_chol_not_run");
        method = "pca";
    }
    // single contiguous column with n >= 8: see op_lin
    let stream = if p == 1 && n >= 8 { Stream::Lattice } else { stream };
    let fit = gen_whiten_matrix(rng, n, p, stream, em);
    let nx = if rng.chance(1, 10) { 0 } else { rng.range(1, 5) as usize };
    let x = if rng.chance(1, 4) { fit.clone() } else { gen_whiten_matrix(rng, nx, p, stream, em) };
    let sel = gen_sel(rng, x.len());
    em.count(&format!("whiten:{}", method));
    // conditioning class from the data
    let (full_rank, cond) = if n >= 2 && p >= 1 {
        let ev = sym_eigvals(&cov(&fit, p));
        let (lo, hi) = (ev.iter().cloned().fold(f64::INFINITY, f64::min), ev.iter().cloned().fold(0.0f64, f64::max));
        // rank relative to the magnitude of the data: a constant column at 1e3 leaves a rounding residue in
        // the two-pass covariance that must not count as variance
        let ma = fit.iter().flatten().fold(0.0f64, |a, v| a.max(v.abs()));
        let cond = if lo > 0.0 { hi / lo + 1e7 * ma / lo.sqrt() * f64::EPSILON } else { f64::INFINITY };
        (n > p && lo > 1e-9 * hi && lo > 1e-20 * ma * ma && lo > 0.0, cond)
    } else {
        (false, f64::INFINITY)
    };
    em.count(if full_rank { "whiten:full_rank" } else { "whiten:rank_deficient" });
    // the external factorisation's result goes into the request
    let pre = fit_whitener(method, &fit, p);
    let w: Option<Mat> = match &pre {
        Ok(Ok(fw)) => Some(to_mat(&fw.transformation_matrix().to_owned())),
        _ => None,
    };
    let w_ok = w.as_ref().map_or(false, |w| w.iter().flatten().all(|v| v.is_finite()) && w.iter().all(|r| r.len() == p));
    let class = format!("whiten:method={}:{}", method, if full_rank { "full_rank" } else { "rank_deficient" });
    if n > 0 && !w_ok {
        // factorisation failed / non-finite / reduced shape: outside the model; only the promise on
        // full-rank data is checked
        em.count("whiten:no_usable_matrix");
        let op = format!("#whiten_nomatrix method={} pf={} fit={}", method, p, show_mat(&fit));
        em.case(op, |ctx| {
            ctx.require(!full_rank, "whiten_identity_cov", &class, || format!("no finite p x p whitening matrix on full-rank data (cond {:e})", cond));
            "-".to_string()
        });
        return;
    }
    let wm = w.unwrap_or_default();
    let op = format!("whiten method={} pf={} fit={} x={} W={}", method, p, show_mat(&fit), show_mat(&x), show_mat(&wm));
    let body = |ctx: &mut Ctx| {
        let res = fit_whitener(method, &fit, p).unwrap_or_else(|_| panic!("fit panicked"));
        if fit.is_empty() {
            ctx.require(matches!(res, Err(PreprocessingError::NotEnoughSamples)), "empty_rejected", "whiten", || "fit on a dataset without samples did not return NotEnoughSamples".to_string());
        }
        let fw = match res {
            Err(e) => return format!("err {}", err_name(&e)),
            Ok(fw) => fw,
        };
        ctx.require(to_mat(&fw.transformation_matrix().to_owned()).iter().flatten().zip(wm.iter().flatten()).all(|(a, b)| a.to_bits() == b.to_bits()), "deterministic_fit", &class, || "two fits on the same data gave different matrices".to_string());
        let fa: Array2<f64> = to_arr(&fit, p);
        if full_rank {
            let yf = to_mat(&fw.transform(fa.clone()));
            let c = cov(&yf, p);
            let tol = 1e-9 * cond.max(1.0);
            let mut worst = 0.0f64;
            for a in 0..p {
                for b in 0..p {
                    worst = worst.max((c[a][b] - if a == b { 1.0 } else { 0.0 }).abs());
                }
            }
            ctx.require(worst <= tol, "whiten_identity_cov", &class, || format!("covariance of the whitened training data deviates from I by {:e} (tol {:e}, cond {:e})", worst, tol, cond));
        }
        let xa: Array2<f64> = to_arr(&x, p);
        let y = fw.transform(xa.clone());
        oracle_rowwise(ctx, &class, &xa, &y, &sel, false, &|a| fw.transform(a));
        // the products differ from the model only by the summation order of the matrix kernel:
        // backward-error scale kappa = p * max|W| * max|x - mean| (same operations on both sides)
        let wmax = wm.iter().flatten().fold(0.0f64, |a, v| if a < v.abs() { v.abs() } else { a });
        let mut cmax = 0.0f64;
        for r in x.iter() {
            for (v, m) in r.iter().zip(fw.mean().iter()) {
                let c = (v - m).abs();
                if cmax < c {
                    cmax = c;
                }
            }
        }
        let kappa = (p as f64) * wmax * cmax;
        let kappa = if kappa > 0.0 { kappa } else { 1.0 };
        let yk: Mat = to_mat(&y).iter().map(|r| r.iter().map(|v| v / kappa).collect()).collect();
        format!("ok mean={} kappa={} y={}", list(fw.mean().iter(), |v| hex64c(*v)), hex64c(kappa), show_mat_c(&yk, true))
    };
    if n > 0 {
        em.case_valid(op, &class, body);
    } else {
        em.case(op, body);
    }
}

// ---------------------------------------------------------------- dataset forms

fn op_ds(em: &mut Em, rng: &mut Rng) {
    let kind = *rng.pick(&["std", "minmax", "maxabs", "norm", "pca", "zca", "chol"]);
    let whiten = matches!(kind, "pca" | "zca" | "chol");
    let p = rng.range(1, 4) as usize;
    let n = if whiten { p + 2 + rng.below(6) } else { rng.range(1, 8) as usize };
    let t = rng.range(1, 3) as usize;
    let recs: Mat = (0..n).map(|_| (0..p).map(|_| rng.range(-16, 16) as f64 / 2.0).collect()).collect();
    let with_w = rng.coin();
    let with_fn = rng.chance(2, 3);
    let with_tn = rng.chance(2, 3);
    let tg: Vec<Vec<u64>> = (0..n).map(|i| (0..t).map(|c| (1000 + i * t + c) as u64).collect()).collect();
    let w: Vec<u64> = if with_w { (0..n).map(|i| (i + 1) as u64).collect() } else { vec![] };
    let fnm: Vec<u64> = if with_fn { (0..p).map(|j| (100 + j) as u64).collect() } else { vec![] };
    let tn: Vec<u64> = if with_tn { (0..t).map(|c| (200 + c) as u64).collect() } else { vec![] };
    em.count(&format!("ds:{}", kind));
    let op = format!(
        "ds kind={} pout={} t={} tg={} w={} fn={} tn={} fpanic=0",
        kind,
        p,
        t,
        list2(tg.iter().map(|r| r.iter()), |v| v.to_string()),
        list(w.iter(), |v| v.to_string()),
        list(fnm.iter(), |v| v.to_string()),
        list(tn.iter(), |v| v.to_string())
    );
    let class = format!("ds:kind={}", kind);
    em.case_valid(op, &class, |ctx| {
        let ra: Array2<f64> = to_arr(&recs, p);
        let ta = Array2::from_shape_fn((n, t), |(i, c)| tg[i][c] as f64);
        let mk = || {
            let mut d = DatasetBase::new(ra.clone(), ta.clone());
            if with_w {
                d = d.with_weights(Array1::from_iter(w.iter().map(|v| *v as f32)));
            }
            d.with_feature_names(fnm.iter().map(|v| v.to_string()).collect::<Vec<_>>()).with_target_names(tn.iter().map(|v| v.to_string()).collect::<Vec<_>>())
        };
        let ds = mk();
        // dataset form and array form of the same fitted transform
        let (out, arr) = match kind {
            "std" | "minmax" | "maxabs" => {
                let lin = match kind {
                    "std" => Lin::Std(true, true),
                    "minmax" => Lin::MinMax(-1.0, 3.0),
                    _ => Lin::MaxAbs,
                };
                let sc = lin.params::<f64>().fit(&ds).unwrap();
                (sc.transform(mk()), sc.transform(ra.clone()))
            }
            "norm" => (NormScaler::l2().transform(mk()), NormScaler::l2().transform(ra.clone())),
            _ => {
                let fw = whitener(kind).fit(&ds).unwrap();
                (fw.transform(mk()), fw.transform(ra.clone()))
            }
        };
        let otg: Vec<Vec<u64>> = out.targets().rows().into_iter().map(|r| r.iter().map(|v| *v as u64).collect()).collect();
        let ow: Vec<u64> = out.weights().map(|w| w.iter().map(|v| *v as u64).collect()).unwrap_or_default();
        let ofn: Vec<String> = out.feature_names().to_vec();
        let otn: Vec<String> = out.target_names().to_vec();
        ctx.require(otg == tg, "metadata_passthrough", &class, || format!("targets changed: {:?}", otg));
        ctx.require(ow == w, "metadata_passthrough", &class, || format!("weights changed: {:?} -> {:?}", w, ow));
        ctx.require(ofn == fnm.iter().map(|v| v.to_string()).collect::<Vec<_>>(), "metadata_passthrough", &class, || format!("feature names changed: {:?}", ofn));
        ctx.require(otn == tn.iter().map(|v| v.to_string()).collect::<Vec<_>>(), "metadata_passthrough", &class, || format!("target names changed: {:?}", otn));
        let same = to_mat(out.records()).iter().zip(to_mat(&arr).iter()).all(|(a, b)| same_bits(a, b)) && out.records().dim() == arr.dim();
        ctx.require(same, "dataset_equals_array_form", &class, || "records of the transformed dataset differ from the array transform".to_string());
        format!("ok tg={} w={} fn={} tn={}", list2(otg.iter().map(|r| r.iter()), |v| v.to_string()), list(ow.iter(), |v| v.to_string()), ofn.join(","), otn.join(","))
    });
}

// ---------------------------------------------------------------- fixed witnesses

fn witnesses(em: &mut Em) {
    // DESIGN section 8 #12: all-zero row through the norm scaler
    let x: Mat = vec![vec![0.0, 0.0], vec![3.0, 4.0]];
    for kind in ["l1", "l2", "max"] {
        let xx = x.clone();
        em.case_valid(format!("norm kind={} x={}", kind, show_mat(&xx)), &format!("norm:kind={}", kind), |ctx| {
            let y = run_norm::<f64>(ctx, "norm", kind, &xx, 2, &[1, 0, 0]);
            format!("ok y={}", show_mat_c(&y, false))
        });
    }
    // sub-epsilon columns (non-constant, treated as constant by the guards)
    let tiny: Mat = vec![vec![1e-17], vec![2e-17], vec![3e-17]];
    for lin in [Lin::Std(true, true), Lin::MinMax(0.0, 1.0), Lin::MaxAbs] {
        let head = match lin {
            Lin::Std(wm, ws) => format!("std wm={} ws={}", wm as u8, ws as u8),
            Lin::MinMax(lo, hi) => format!("minmax lo={} hi={}", hex64(lo), hex64(hi)),
            Lin::MaxAbs => "maxabs".to_string(),
        };
        let approx = matches!(lin, Lin::Std(..));
        let t2 = tiny.clone();
        em.case_valid(format!("{} pf=1 fit={} px=1 x={}", head, show_mat(&t2), show_mat(&t2)), lin.name(), |ctx| match run_lin::<f64>(ctx, lin.name(), lin, &t2, 1, &t2, 1, &[2, 0]) {
            Err(name) => format!("err {}", name),
            Ok(o) => format!(
                "ok off={} sc={} y={}",
                list(o.offsets.iter(), |v| hex64c(*v)),
                list(o.scales.iter(), |v| if approx { format!("~{}", hex64c(*v)) } else { hex64c(*v) }),
                show_mat_c(&o.y, approx)
            ),
        });
    }
}

pub fn run(em: &mut Em, rng: &mut Rng) {
    witnesses(em);
    let scale = if em.thorough() { 12 } else { 1 };
    for i in 0..(420 * scale) {
        let stream = if i % 3 == 2 { Stream::Generic } else { Stream::Lattice };
        let f32_too = i % 4 == 0;
        let (wm, ws) = (i % 2 == 0, (i / 2) % 2 == 0);
        op_lin(em, rng, Lin::Std(wm, ws), stream, f32_too);
        let (lo, hi) = gen_range(rng);
        op_lin(em, rng, Lin::MinMax(lo, hi), stream, f32_too);
        op_lin(em, rng, Lin::MaxAbs, stream, f32_too);
        op_norm(em, rng, stream, f32_too);
    }
    for i in 0..(300 * scale) {
        op_whiten(em, rng, if i % 2 == 0 { Stream::Lattice } else { Stream::Generic });
    }
    for _ in 0..(150 * scale) {
        op_ds(em, rng);
    }
}
