//! C16 — scalers and whiteners: `LinearScaler` (standard / min-max / max-abs), `NormScaler`,
//! `Whitener` (PCA / ZCA / Cholesky) on arrays and datasets.
//!
//! Correspondence ops (f64, bit patterns in the request): `std`, `minmax`, `maxabs`, `norm`,
//! `whiten` (the whitening matrix found by the real SVD / Cholesky travels in the request and is
//! validated by its contract here), `ds` (metadata pass-through).  The same generic bodies run on
//! f32 as oracle-only `#…32` cases.  The oracle recomputes the postconditions of the statement from
//! first principles (two-pass statistics in f64) on the transformed *training* data, and row-wise
//! action on the second matrix (selection / reordering / one row at a time, bit-exact).
use crate::util::*;
use linfa::dataset::DatasetBase;
use linfa::traits::{Fit, Transformer};
use linfa::Float;
use linfa_preprocessing::linear_scaling::{LinearScaler, LinearScalerParams, ScalingMethod};
use linfa_preprocessing::norm_scaling::NormScaler;
use linfa_preprocessing::whitening::{FittedWhitener, Whitener, WhiteningMethod};
use linfa_preprocessing::PreprocessingError;
use ndarray::{s, Array1, Array2, Axis, ShapeBuilder};
use std::cell::RefCell;
use std::panic::{catch_unwind, AssertUnwindSafe};

/// outcome keys collected inside a case closure (which cannot reach `Em`), counted after the case
type Tally = RefCell<Vec<String>>;
fn tally(t: &Tally, key: &str) {
    t.borrow_mut().push(key.to_string());
}
thread_local! {
    /// all tallied keys of the run, for the mask / skip ceilings judged at the end
    static TOTALS: RefCell<std::collections::BTreeMap<String, u64>> = RefCell::new(Default::default());
}
fn flush(em: &mut Em, t: &Tally) {
    for k in t.borrow_mut().drain(..) {
        em.count(&k);
        TOTALS.with(|m| *m.borrow_mut().entry(k).or_insert(0) += 1);
    }
}

/// Ceilings on what the run did NOT judge: columns / rows / fits whose clause is masked by an open finding
/// (`sub_eps`, `sq_overflow`, `range_overflow`, `sq_underflow`, `floor=hit`) or skipped as ill-conditioned, as a
/// share of everything the family decided.  The classes are computed from the *inputs*, so a change of linfa
/// cannot move a case into them; what can is a change of the generator or of the class computation - this case
/// then fails (oracle-only, clause `mask_ceiling`), like a coverage floor in the other direction.
fn ceilings(em: &mut Em) {
    let tot = TOTALS.with(|m| m.borrow().clone());
    let sum = |pred: &dyn Fn(&str) -> bool| -> u64 { tot.iter().filter(|(k, _)| pred(k)).map(|(_, v)| *v).sum() };
    let masked_key = |k: &str| k.ends_with(":sub_eps") || k.ends_with(":sq_overflow") || k.ends_with(":sq_underflow") || k.ends_with(":range_overflow");
    // (family, predicate on the key, ceiling in percent)
    let fams: [(&str, Box<dyn Fn(&str) -> bool>, u64); 5] = [
        ("std", Box::new(|k: &str| k.contains(":std:unit_var") || k.contains(":std32:unit_var")), 15),
        ("minmax", Box::new(|k: &str| k.contains(":range:")), 10),
        ("maxabs", Box::new(|k: &str| k.contains(":maxabs:")), 10),
        ("norm_l2", Box::new(|k: &str| k.contains(":unit:l2:")), 30),
        ("whiten", Box::new(|k: &str| k.contains(":identity_cov")), 40),
    ];
    let mut rows = vec![];
    for (name, fam, pct) in fams.iter() {
        let all = sum(&|k| (k.starts_with("judged:") || k.starts_with("skipped:") || k.starts_with("masked:")) && fam(k));
        let out = sum(&|k| fam(k) && (k.starts_with("skipped:") || k.starts_with("masked:") || (k.starts_with("judged:") && masked_key(k))));
        rows.push((*name, all, out, *pct));
    }
    let op = format!("#ceilings {}", rows.iter().map(|(n, a, o, p)| format!("{}={}/{}<={}%", n, o, a, p)).collect::<Vec<_>>().join(" "));
    em.case(op, |ctx| {
        for (name, all, out, pct) in rows.iter() {
            ctx.require(out * 100 <= all * pct, "mask_ceiling", &format!("family={}", name), || format!("{} of {} decided cases of family {} are masked by an open finding or skipped as ill-conditioned (ceiling {} %)", out, all, name, pct));
        }
        "-".to_string()
    });
}

/// memory layout of a record matrix handed to linfa: C order, Fortran order, or a strided window
/// (every other row, inner columns) of a larger C-order array whose other cells are NaN
#[derive(Clone, Copy, PartialEq, Debug)]
enum Lay {
    C,
    F,
    S,
}
impl Lay {
    fn tag(&self) -> &'static str {
        match self {
            Lay::C => "C",
            Lay::F => "F",
            Lay::S => "S",
        }
    }
}
fn gen_lay(rng: &mut Rng) -> Lay {
    match rng.below(4) {
        0 | 1 => Lay::C,
        2 => Lay::F,
        _ => Lay::S,
    }
}
/// the NaN-padded backing store of a strided window; `window(..)` is the n x p matrix
fn backing<F: Float>(m: &Mat, p: usize) -> Array2<F> {
    let n = m.len();
    let mut b = Array2::from_elem((2 * n + 1, p + 2), F::nan());
    for i in 0..n {
        for j in 0..p {
            b[(2 * i + 1, j + 1)] = F::cast(m[i][j]);
        }
    }
    b
}
/// owned array in the requested layout (S: owned, non-contiguous strides via `slice_move`)
fn to_arr_lay<F: Float>(m: &Mat, p: usize, lay: Lay) -> Array2<F> {
    let n = m.len();
    match lay {
        Lay::C => to_arr(m, p),
        Lay::F => Array2::from_shape_fn((n, p).f(), |(i, j)| F::cast(m[i][j])),
        Lay::S => backing::<F>(m, p).slice_move(s![1..(2 * n + 1);2, 1..(p + 1)]),
    }
}

type Mat = Vec<Vec<f64>>;

fn to_arr<F: Float>(m: &Mat, p: usize) -> Array2<F> {
    Array2::from_shape_fn((m.len(), p), |(i, j)| F::cast(m[i][j]))
}
fn to_mat<F: Float>(a: &Array2<F>) -> Mat {
    a.rows().into_iter().map(|r| r.iter().map(|x| x.to_f64().unwrap()).collect()).collect()
}
fn show_mat(m: &Mat) -> String {
    list2(m.iter().map(|r| r.iter()), |x| hex64(*x))
}
fn show_mat_c(m: &Mat, approx: bool) -> String {
    list2(m.iter().map(|r| r.iter()), |x| if approx { format!("~{}", hex64c(*x)) } else { hex64c(*x) })
}
fn err_name(e: &PreprocessingError) -> &'static str {
    match e {
        PreprocessingError::NotEnoughSamples => "NotEnoughSamples",
        PreprocessingError::FlippedMinMaxRange => "FlippedMinMaxRange",
        PreprocessingError::LinalgError(_) => "Linalg",
        _ => "Other",
    }
}
fn column(m: &Mat, j: usize) -> Vec<f64> {
    m.iter().map(|r| r[j]).collect()
}
/// two-pass statistics in f64: (mean, population sd, min, max, max |x|, all equal).  Columns of extreme
/// magnitude are first scaled by a power of two (exact), so that the squares neither overflow nor underflow.
fn stats(c: &[f64]) -> (f64, f64, f64, f64, f64, bool) {
    let ma0 = c.iter().fold(0.0f64, |a, x| a.max(x.abs()));
    let k = if ma0.is_finite() && ma0 > 0.0 && (ma0 > 1e100 || ma0 < 1e-100) { -(ma0.log2().floor() as i32) } else { 0 };
    // two exact steps: 2^k itself may be out of range for |k| > 1023
    let (k1, k2) = (k / 2, k - k / 2);
    let sc = |x: f64| x * 2f64.powi(k1) * 2f64.powi(k2);
    let un = |x: f64| x * 2f64.powi(-k1) * 2f64.powi(-k2);
    let c: Vec<f64> = c.iter().map(|x| sc(*x)).collect();
    let n = c.len() as f64;
    let m = c.iter().sum::<f64>() / n;
    let v = c.iter().map(|x| (x - m) * (x - m)).sum::<f64>() / n;
    let mn = c.iter().cloned().fold(f64::INFINITY, f64::min);
    let mx = c.iter().cloned().fold(f64::NEG_INFINITY, f64::max);
    let ma = c.iter().fold(0.0f64, |a, x| a.max(x.abs()));
    (un(m), un(v.sqrt()), un(mn), un(mx), un(ma), c.iter().all(|x| *x == c[0]))
}
fn same_bits(a: &[f64], b: &[f64]) -> bool {
    a.len() == b.len() && a.iter().zip(b).all(|(x, y)| x.to_bits() == y.to_bits() || (x.is_nan() && y.is_nan()))
}

// ---------------------------------------------------------------- generators

#[derive(Clone, Copy, PartialEq)]
enum Stream {
    Lattice,
    Generic,
}

/// one column of `n` values. `eps` is the machine epsilon of the carrier the matrix is meant for.
fn gen_column(rng: &mut Rng, n: usize, stream: Stream, eps: f64, em: &mut Em) -> Vec<f64> {
    let kind = rng.below(if stream == Stream::Lattice { 7 } else { 14 });
    match kind {
        0 => {
            em.count("col:constant");
            let c = *rng.pick(&[0.0, 0.0, 1.0, -3.0, 0.25, 1024.0, 7.5]);
            vec![c; n]
        }
        1 => {
            em.count("col:two_valued");
            let a = rng.range(-8, 8) as f64 / 4.0;
            let b = rng.range(-8, 8) as f64 / 4.0;
            (0..n).map(|_| if rng.coin() { a } else { b }).collect()
        }
        2 => {
            em.count("col:int_offset");
            let off = *rng.pick(&[0.0, 100.0, -1024.0, 4096.0]);
            (0..n).map(|_| off + rng.range(-8, 8) as f64).collect()
        }
        3..=6 => {
            em.count("col:quarters");
            (0..n).map(|_| rng.range(-32, 32) as f64 / 4.0).collect()
        }
        7 => {
            em.count("col:sub_eps");
            // non-constant, spread far below the machine epsilon of the carrier
            let unit = eps / 16.0;
            (0..n).map(|_| rng.range(-3, 3) as f64 * unit).collect()
        }
        8 => {
            em.count("col:constant_generic");
            let c = *rng.pick(&[0.1, -1e6 - 0.3, 3.3e-6, 1e6 + 0.1]);
            vec![c; n]
        }
        11 | 12 => {
            // "badly scaled" but well inside the guard: spreads between 16 eps and 2^30 eps, no offset
            // (audit item 1: a loosened constant-column guard would swallow these)
            em.count("col:small_scale");
            let k = *rng.pick(&[4i32, 6, 8, 12, 16, 20, 24, 30]);
            let sc = eps * 2f64.powi(k);
            (0..n).map(|_| sc * (2.0 * rng.unit() - 1.0)).collect()
        }
        13 => {
            // finite, far beyond sqrt(MAX) of the carrier (audit 2, item 3): the squares inside ndarray's
            // Welford variance overflow; sums of up to 80 such values stay finite
            em.count("col:huge");
            let m = if eps > 1e-10 { *rng.pick(&[1e20, 1e30, 1e35]) } else { *rng.pick(&[1e155, 1e200, 1e300]) };
            (0..n).map(|_| rng.range(-32, 32) as f64 / 4.0 * m).collect()
        }
        _ => {
            em.count("col:generic");
            let off = *rng.pick(&[0.0, 0.0, 1e6, -1e6, 1e3]);
            let sc = *rng.pick(&[1e-6, 1.0, 1.0, 1e6, 1e-3]);
            (0..n).map(|_| if rng.chance(1, 40) { -0.0 } else { off + sc * (2.0 * rng.unit() - 1.0) }).collect()
        }
    }
}

/// columns whose sd / range / max-abs sit within a factor 4 of the guard's epsilon would make the
/// constant-feature decision hang on rounding: they are replaced (counted), never compared
fn near_eps(c: &[f64], eps: f64) -> bool {
    if c.is_empty() {
        return false;
    }
    let (_, sd, mn, mx, ma, _) = stats(c);
    let near = |v: f64| v > eps / 4.0 && v < eps * 4.0;
    near(sd) || near(mx - mn) || near(ma)
}

fn gen_matrix(rng: &mut Rng, n: usize, p: usize, stream: Stream, eps: f64, em: &mut Em) -> Mat {
    let mut cols: Vec<Vec<f64>> = vec![];
    for _ in 0..p {
        let mut c = gen_column(rng, n, stream, eps, em);
        if near_eps(&c, eps) {
            em.count("col:near_eps_replaced");
            c = (0..n).map(|_| rng.range(-32, 32) as f64 / 4.0).collect();
        }
        cols.push(c);
    }
    let mut m: Mat = (0..n).map(|i| (0..p).map(|j| cols[j][i]).collect()).collect();
    if n >= 2 && rng.chance(1, 4) {
        em.count("row:all_zero");
        let i = rng.below(n);
        m[i] = vec![0.0; p];
    }
    if n >= 2 && rng.chance(1, 5) {
        em.count("row:duplicate");
        let (i, j) = (rng.below(n), rng.below(n));
        m[i] = m[j].clone();
    }
    // the zero / duplicate row may have pushed a column next to the guard
    for j in 0..p {
        if near_eps(&column(&m, j), eps) {
            em.count("col:near_eps_replaced");
            for r in m.iter_mut() {
                r[j] = rng.range(-32, 32) as f64 / 4.0;
            }
        }
    }
    m
}

fn gen_shape(rng: &mut Rng, big: bool) -> (usize, usize) {
    let n = if rng.chance(1, 25) {
        0
    } else if big && rng.chance(1, 6) {
        rng.range(9, 40) as usize
    } else if rng.chance(1, 25) {
        // audit 2, item 5: far beyond the unit tests' sizes also in the quick tier (a size-gated path)
        rng.range(25, 80) as usize
    } else if rng.chance(1, 10) {
        // beyond ndarray's 8-way unrolling also in the quick tier
        rng.range(9, 24) as usize
    } else {
        rng.range(1, 9) as usize
    };
    let p = if rng.chance(1, 40) {
        0
    } else if rng.chance(1, 30) {
        rng.range(9, 20) as usize
    } else if rng.chance(1, 10) {
        rng.range(5, 8) as usize
    } else {
        rng.range(1, 5) as usize
    };
    (n, p)
}

/// row selections for the row-wise oracle: a permutation with repetitions
fn gen_sel(rng: &mut Rng, n: usize) -> Vec<usize> {
    if n == 0 {
        return vec![];
    }
    let k = rng.below(n + 2);
    (0..k).map(|_| rng.below(n)).collect()
}

// ---------------------------------------------------------------- linear scalers

#[derive(Clone, Copy, PartialEq, Debug)]
enum Lin {
    Std(bool, bool),
    MinMax(f64, f64),
    MaxAbs,
}
impl Lin {
    fn name(&self) -> &'static str {
        match self {
            Lin::Std(..) => "std",
            Lin::MinMax(..) => "minmax",
            Lin::MaxAbs => "maxabs",
        }
    }
    fn method<F: Float>(&self) -> ScalingMethod<F> {
        match *self {
            Lin::Std(a, b) => ScalingMethod::Standard(a, b),
            Lin::MinMax(lo, hi) => ScalingMethod::MinMax(F::cast(lo), F::cast(hi)),
            Lin::MaxAbs => ScalingMethod::MaxAbs,
        }
    }
    /// has a dedicated constructor function (`Standard(false,false)` has none)
    fn has_ctor(&self) -> bool {
        !matches!(self, Lin::Std(false, false))
    }
    /// `via`: "ctor" = the constructor function, "new" = `LinearScalerParams::new(method)`,
    /// "setter" = some *other* constructor followed by the `method(..)` setter
    fn params<F: Float>(&self, via: &str) -> LinearScalerParams<F> {
        match via {
            "ctor" => match *self {
                Lin::Std(true, true) => LinearScaler::standard(),
                Lin::Std(false, true) => LinearScaler::standard_no_mean(),
                Lin::Std(true, false) => LinearScaler::standard_no_std(),
                Lin::Std(false, false) => unreachable!(),
                Lin::MinMax(lo, hi) if lo == 0.0 && hi == 1.0 => LinearScaler::min_max(),
                Lin::MinMax(lo, hi) => LinearScaler::min_max_range(F::cast(lo), F::cast(hi)),
                Lin::MaxAbs => LinearScaler::max_abs(),
            },
            "new" => LinearScalerParams::new(self.method()),
            _ => {
                let other: LinearScalerParams<F> = if matches!(self, Lin::MaxAbs) { LinearScaler::standard() } else { LinearScaler::max_abs() };
                other.method(self.method())
            }
        }
    }
}
fn gen_via(rng: &mut Rng, lin: Lin) -> &'static str {
    if !lin.has_ctor() {
        return *rng.pick(&["new", "setter"]);
    }
    *rng.pick(&["ctor", "ctor", "new", "setter"])
}

fn spread_class(all_equal_or_zero: bool, v: f64, eps: f64) -> &'static str {
    if all_equal_or_zero {
        "constant"
    } else if v <= eps {
        "sub_eps"
    } else {
        "regular"
    }
}

/// the statement's postconditions on the transformed training data (`yf` = transform(fit data))
fn oracle_lin(ctx: &mut Ctx, tag: &str, lin: Lin, fit: &Mat, p: usize, yf: &Mat, e: f64, fmax: f64, t: &Tally) {
    let n = fit.len();
    if n == 0 {
        return;
    }
    for j in 0..p {
        let c = column(fit, j);
        let y = column(yf, j);
        let (m, sd, mn, mx, ma, alleq) = stats(&c);
        let (ym, ysd, ymn, ymx, yma, _) = stats(&y);
        let nn = n as f64;
        match lin {
            Lin::Std(wm, ws) => {
                // deviations from the mean beyond sqrt(MAX)/32 of the carrier: the squares in ndarray's Welford
                // recurrence overflow, the standard deviation is +inf and the scale 1/inf = 0 (open finding)
                let dev = c.iter().fold(0.0f64, |a, x| a.max((x - m).abs()));
                let cls = if !alleq && dev > fmax.sqrt() / 32.0 { "sq_overflow" } else { spread_class(alleq, sd, e) };
                let class = format!("{}:wm={}:ws={}:column={}", tag, wm as u8, ws as u8, cls);
                if alleq {
                    // constant columns are only centred
                    let want = if wm { 0.0 } else { c[0] };
                    let tol = 4.0 * (nn + 2.0) * e * c[0].abs();
                    ctx.require(y.iter().all(|v| (v - want).abs() <= tol), "constant_only_centred", &class, || format!("column {} constant {:e}: output {:?}, want {:e} (tol {:e})", j, c[0], y, want, tol));
                    continue;
                }
                let s_exp = if ws && cls != "sub_eps" { 1.0 / sd } else { 1.0 };
                if wm {
                    let tol = 16.0 * e * (ma + m.abs()) * s_exp + f64::MIN_POSITIVE;
                    ctx.require(ym.abs() <= tol, "standard_zero_mean", &class, || format!("column {}: mean of output {:e} (tol {:e}); input {:?}", j, ym, tol, c));
                } else {
                    let tol = 16.0 * e * (ma + m.abs()) * (1.0 + s_exp) + f64::MIN_POSITIVE;
                    ctx.require((ym - m).abs() <= tol, "no_mean_keeps_mean", &class, || format!("column {}: mean of output {:e}, of input {:e} (tol {:e})", j, ym, m, tol));
                }
                if ws {
                    // conditioning of x - mean, plus (no-mean variant) the rounding of `+ offset`
                    let tol = 64.0 * e * (1.0 + (ma + m.abs()) / sd) + if wm { 0.0 } else { 64.0 * e * m.abs() };
                    if tol >= 0.25 {
                        // the column's offset/spread ratio leaves no significant digits in the carrier
                        tally(t, &format!("skipped:{}:unit_var:ill_conditioned", tag));
                    } else {
                        tally(t, &format!("judged:{}:unit_var:{}", tag, cls));
                        if cls == "regular" {
                            tally(t, &format!("cov:judged:{}:unit_var", tag));
                        }
                        ctx.require((ysd * ysd - 1.0).abs() <= tol, "standard_unit_var", &class, || format!("column {}: variance of output {:e} (tol {:e}); input {:?}", j, ysd * ysd, tol, c));
                    }
                } else if cls == "sq_overflow" {
                    // the same bound divided by 2 sd (the variances themselves are out of range in f64)
                    let tol = 32.0 * e * (sd + ma + m.abs());
                    ctx.require((ysd - sd).abs() <= tol, "no_std_keeps_spread", &class, || format!("column {}: sd of output {:e}, of input {:e} (tol {:e})", j, ysd, sd, tol));
                } else {
                    let tol = 64.0 * e * (sd * sd + (ma + m.abs()) * sd);
                    ctx.require((ysd * ysd - sd * sd).abs() <= tol, "no_std_keeps_spread", &class, || format!("column {}: variance of output {:e}, of input {:e} (tol {:e})", j, ysd * ysd, sd * sd, tol));
                }
            }
            Lin::MinMax(lo, hi) => {
                // max - min beyond MAX of the carrier: 1 / inf = 0 and (x - min) * 0 with x - min = inf is NaN (open finding)
                let cls = if !alleq && !((mx - mn) <= fmax) { "range_overflow" } else { spread_class(alleq, mx - mn, e) };
                let class = format!("{}:column={}", tag, cls);
                if alleq {
                    // the statement is silent on constant columns (the model / correspondence pins `lo`)
                    continue;
                }
                tally(t, &format!("judged:{}:range:{}", tag, cls));
                if cls == "regular" {
                    tally(t, &format!("cov:judged:{}:range", tag));
                }
                let tol = 8.0 * e * (lo.abs() + hi.abs() + (hi - lo));
                ctx.require((ymn - lo).abs() <= tol && (ymx - hi).abs() <= tol, "minmax_range_attained", &class, || {
                    format!("column {}: output spans [{:e}, {:e}], requested [{:e}, {:e}] (tol {:e}); input {:?}", j, ymn, ymx, lo, hi, tol, c)
                });
            }
            Lin::MaxAbs => {
                let cls = spread_class(ma == 0.0, ma, e);
                let class = format!("{}:column={}", tag, cls);
                if ma == 0.0 {
                    continue;
                }
                tally(t, &format!("judged:{}:maxabs:{}", tag, cls));
                if cls == "regular" {
                    tally(t, &format!("cov:judged:{}:maxabs", tag));
                }
                ctx.require((yma - 1.0).abs() <= 4.0 * e, "maxabs_one", &class, || format!("column {}: max |output| {:e}; input {:?}", j, yma, c));
            }
        }
    }
}

/// transform(x[sel]) = transform(x)[sel], and each row alone maps to the same row (bit-exact)
fn oracle_rowwise<F: Float>(ctx: &mut Ctx, class: &str, x: &Array2<F>, y: &Array2<F>, sel: &[usize], exact: bool, tr: &dyn Fn(Array2<F>) -> Array2<F>) {
    // not exact (whitening): the matrix kernel may sum in an order that depends on the batch size
    let rel = if F::epsilon().to_f64().unwrap() > 1e-10 { 1e-3 } else { 1e-9 };
    if x.nrows() == 0 || x.ncols() == 0 {
        return;
    }
    let cmp = |a: &[f64], b: &[f64]| -> bool {
        if exact {
            same_bits(a, b)
        } else {
            a.len() == b.len() && a.iter().zip(b).all(|(u, v)| (u - v).abs() <= rel * (1.0 + u.abs().max(v.abs())) || (u.is_nan() && v.is_nan()) || u == v)
        }
    };
    let ym = to_mat(y);
    if !sel.is_empty() {
        let xs = x.select(Axis(0), sel);
        let ys = to_mat(&tr(xs));
        let ok = ys.len() == sel.len() && sel.iter().enumerate().all(|(k, &i)| cmp(&ys[k], &ym[i]));
        ctx.require(ok, "rowwise_selection", class, || format!("transform(x[sel]) differs from transform(x)[sel], sel {:?}", sel));
    }
    for i in 0..x.nrows() {
        let one = x.select(Axis(0), &[i]);
        let yo = to_mat(&tr(one));
        ctx.require(yo.len() == 1 && cmp(&yo[0], &ym[i]), "rowwise_single", class, || format!("row {} transformed alone differs from the row of the batch result", i));
    }
}

struct LinOut {
    offsets: Vec<f64>,
    scales: Vec<f64>,
    y: Mat,
}

/// one request's calling form: constructor / `new` / setter, layouts of the fit and the transform matrix
#[derive(Clone, Copy)]
struct Form {
    via: &'static str,
    layf: Lay,
    layx: Lay,
    /// the dataset handed to `fit` carries sample weights (1, 2, .., 5, 1, ..): the fit must not depend on them
    wts: bool,
}
fn fit_weights(n: usize) -> Vec<u64> {
    (0..n).map(|i| (i % 5 + 1) as u64).collect()
}
impl Form {
    fn toks(&self) -> String {
        format!("via={} layf={} layx={}", self.via, self.layf.tag(), self.layx.tag())
    }
    /// the weights token of the request (empty = no weights)
    fn wtok(&self, n: usize) -> String {
        format!("wts={}", if self.wts { list(fit_weights(n).iter(), |v| v.to_string()) } else { String::new() })
    }
}
/// `DatasetBase::from(records)`, with the sample weights of the form
fn fit_dataset<R: ndarray::Data<Elem = F>, F: Float>(recs: ndarray::ArrayBase<R, ndarray::Ix2>, form: Form) -> DatasetBase<ndarray::ArrayBase<R, ndarray::Ix2>, Array1<()>> {
    let n = recs.nrows();
    let ds = DatasetBase::from(recs);
    if form.wts {
        ds.with_weights(Array1::from_iter(fit_weights(n).into_iter().map(|v| v as f32)))
    } else {
        ds
    }
}

fn fit_lin<F: Float>(lin: Lin, form: Form, fit: &Mat, pf: usize) -> Result<LinearScaler<F>, PreprocessingError> {
    let params = lin.params::<F>(form.via);
    match form.layf {
        Lay::S => {
            // a view: `Fit` is implemented for every `Data` storage
            let b = backing::<F>(fit, pf);
            let v = b.slice(s![1..(2 * fit.len() + 1);2, 1..(pf + 1)]);
            params.fit(&fit_dataset(v, form))
        }
        lay => params.fit(&fit_dataset(to_arr_lay::<F>(fit, pf, lay), form)),
    }
}

/// the fitted map recomputed cell by cell from the public accessors `offsets()`, `scales()`, `method()`
/// (statement: "a fixed affine map applied row by row - identical on unseen data"); tolerance = a few
/// roundings of the magnitudes involved, not bit equality
fn oracle_affine<F: Float>(ctx: &mut Ctx, class: &str, lin: Lin, sc: &LinearScaler<F>, x: &Mat, y: &Mat, e: f64) {
    ctx.require(*sc.method() == lin.method::<F>(), "fixed_affine_map", class, || format!("method() reports {} for a scaler fitted as {:?}", sc.method(), lin));
    let tiny = 4.0 * F::min_positive_value().to_f64().unwrap();
    // evaluated in the carrier, so that an intermediate overflow (x - offset, or the product) is the same event
    // on both sides; non-finite values must then agree as such
    let f = |v: F| v.to_f64().unwrap();
    for (i, (r, o)) in x.iter().zip(y.iter()).enumerate() {
        for j in 0..r.len().min(sc.offsets().len()) {
            let (off, scl) = (sc.offsets()[j], sc.scales()[j]);
            let core = (F::cast(r[j]) - off) * scl;
            let (want, mag) = match sc.method() {
                ScalingMethod::Standard(false, _) => (f(core + off), f(core).abs() + f(off).abs()),
                ScalingMethod::MinMax(lo, hi) => (f(core * (*hi - *lo) + *lo), f(core * (*hi - *lo)).abs() + f(*lo).abs()),
                _ => (f(core), f(core).abs()),
            };
            let tol = 8.0 * e * mag + tiny;
            let ok = if want.is_nan() || o[j].is_nan() {
                want.is_nan() && o[j].is_nan()
            } else if want.is_infinite() || o[j].is_infinite() {
                want == o[j]
            } else {
                (o[j] - want).abs() <= tol
            };
            ctx.require(ok, "fixed_affine_map", class, || format!("cell ({}, {}): transform gives {:e}, (x - offset) * scale [...] from the accessors gives {:e} (tol {:e})", i, j, o[j], want, tol));
        }
    }
}

/// fit on `fit`, check the postconditions on transform(fit), transform `x` (last: may panic)
fn run_lin<F: Float>(ctx: &mut Ctx, tag: &str, lin: Lin, form: Form, fit: &Mat, pf: usize, x: &Mat, px: usize, sel: &[usize], t: &Tally) -> Result<LinOut, &'static str> {
    let e = F::epsilon().to_f64().unwrap();
    let res = fit_lin::<F>(lin, form, fit, pf);
    if fit.is_empty() {
        ctx.require(matches!(res, Err(PreprocessingError::NotEnoughSamples)), "empty_rejected", tag, || "fit on a dataset without samples did not return NotEnoughSamples".to_string());
    }
    let sc = match res {
        Err(e) => return Err(err_name(&e)),
        Ok(sc) => sc,
    };
    tally(t, &format!("fitted:{}:via={}:layf={}", tag, form.via, form.layf.tag()));
    // coarse totals: the keys the coverage floors are put on (the fine ones above are too small to be stable)
    tally(t, &format!("cov:fit:{}", tag));
    tally(t, &format!("cov:via={}", form.via));
    tally(t, &format!("cov:layf={}", form.layf.tag()));
    let fa: Array2<F> = to_arr_lay(fit, pf, form.layf);
    let fm = to_mat(&fa);
    let yf = sc.transform(fa);
    oracle_lin(ctx, tag, lin, &fm, pf, &to_mat(&yf), e, F::max_value().to_f64().unwrap(), t);
    let offsets = sc.offsets().iter().map(|v| v.to_f64().unwrap()).collect();
    let scales = sc.scales().iter().map(|v| v.to_f64().unwrap()).collect();
    let xa: Array2<F> = to_arr_lay(x, px, form.layx);
    let xm = to_mat(&xa);
    let y = sc.transform(xa.clone());
    tally(t, &format!("transformed:{}:layx={}", tag, form.layx.tag()));
    tally(t, &format!("cov:layx={}", form.layx.tag()));
    let ym = to_mat(&y);
    if px == pf {
        oracle_affine(ctx, tag, lin, &sc, &xm, &ym, e);
    }
    oracle_rowwise(ctx, tag, &xa, &y, sel, true, &|a| sc.transform(a));
    Ok(LinOut { offsets, scales, y: ym })
}

fn op_lin(em: &mut Em, rng: &mut Rng, lin: Lin, stream: Stream, f32_too: bool) {
    let big = em.thorough();
    let (nf, p) = gen_shape(rng, big);
    let form = Form { via: gen_via(rng, lin), layf: gen_lay(rng), layx: gen_lay(rng), wts: rng.chance(1, 3) };
    // ndarray sums a contiguous column (a single column, or any column of a Fortran-order matrix) with an
    // 8-way unrolled kernel: with n >= 8 its rounding differs from the sequential model unless the sums
    // are exact (lattice values)
    let unrolled = nf >= 8 && (p == 1 || form.layf == Lay::F);
    let stream = if unrolled && matches!(lin, Lin::Std(..)) { Stream::Lattice } else { stream };
    let mut fit = gen_matrix(rng, nf, p, stream, f64::EPSILON, em);
    // min-max only: a column spanning more than MAX of the carrier (max - min overflows); audit 2, item 3
    let full_range = matches!(lin, Lin::MinMax(..)) && stream == Stream::Generic && nf >= 2 && p >= 1 && rng.chance(1, 10);
    let full_col = rng.below(p.max(1));
    let inject_full_range = |m: &mut Mat, top: f64, rng: &mut Rng| {
        for (i, r) in m.iter_mut().enumerate() {
            r[full_col] = match i {
                0 => top,
                1 => -top,
                _ => *rng.pick(&[0.5, -0.5, 0.25, 1.0, 0.0]) * top,
            };
        }
    };
    if full_range {
        em.count("col:full_range");
        inject_full_range(&mut fit, 1.5e308, rng);
    }
    let px = if rng.chance(1, 25) { p + 1 } else { p };
    // unseen batches larger than the training data too (audit 2, item 5: size-gated paths)
    let nx = if rng.chance(1, 12) {
        0
    } else if rng.chance(1, 10) {
        rng.range(7, 48) as usize
    } else {
        rng.range(1, 6) as usize
    };
    let x = if px == p && rng.chance(1, 4) { fit.clone() } else { gen_matrix(rng, nx, px, stream, f64::EPSILON, em) };
    let sel = gen_sel(rng, x.len());
    em.count(if stream == Stream::Lattice { "stream:lattice" } else { "stream:generic" });
    let head = match lin {
        Lin::Std(wm, ws) => format!("std wm={} ws={}", wm as u8, ws as u8),
        Lin::MinMax(lo, hi) => format!("minmax lo={} hi={}", hex64(lo), hex64(hi)),
        Lin::MaxAbs => "maxabs".to_string(),
    };
    if form.wts {
        em.count("fit:weighted_dataset");
    }
    let op = format!("{} {} {} pf={} fit={} px={} x={}", head, form.toks(), form.wtok(nf), p, show_mat(&fit), px, show_mat(&x));
    let approx = matches!(lin, Lin::Std(..));
    let tag = lin.name().to_string();
    let flipped = matches!(lin, Lin::MinMax(lo, hi) if lo > hi);
    let promised = nf > 0 && (px == p || x.is_empty() || px == 0) && !flipped;
    let t: Tally = RefCell::new(vec![]);
    let body = |ctx: &mut Ctx| match run_lin::<f64>(ctx, &tag, lin, form, &fit, p, &x, px, &sel, &t) {
        Err(name) => format!("err {}", name),
        Ok(o) => format!(
            "ok off={} sc={} y={}",
            list(o.offsets.iter(), |v| hex64c(*v)),
            list(o.scales.iter(), |v| if approx { format!("~{}", hex64c(*v)) } else { hex64c(*v) }),
            show_mat_c(&o.y, approx)
        ),
    };
    if promised {
        em.case_valid(op, &tag, body);
    } else {
        em.case(op, body);
    }
    flush(em, &t);
    if f32_too {
        // same shapes on f32 (values regenerated for the f32 epsilon), oracle only
        let mut fit32 = gen_matrix(rng, nf, p, stream, f32::EPSILON as f64, em);
        if full_range {
            inject_full_range(&mut fit32, 3e38, rng);
        }
        let x32 = gen_matrix(rng, nx, p, stream, f32::EPSILON as f64, em);
        let fit32: Mat = fit32.iter().map(|r| r.iter().map(|v| *v as f32 as f64).collect()).collect();
        // rounding to f32 can move a column next to the f32 guard
        if (0..p).any(|j| near_eps(&column(&fit32, j), f32::EPSILON as f64)) {
            em.count("f32:near_eps_skipped");
            return;
        }
        let sel32 = gen_sel(rng, x32.len());
        let tag32 = format!("{}32", lin.name());
        let op32 = format!("#{}32 {} {} {} nf={} p={} fit={}", lin.name(), head, form.toks(), form.wtok(nf), nf, p, show_mat(&fit32));
        let body32 = |ctx: &mut Ctx| match run_lin::<f32>(ctx, &tag32, lin, form, &fit32, p, &x32, p, &sel32, &t) {
            Err(name) => format!("err {}", name),
            Ok(_) => "ok".to_string(),
        };
        if nf > 0 && !flipped {
            em.case_valid(op32, &tag32, body32);
        } else {
            em.case(op32, body32);
        }
        flush(em, &t);
    }
}

fn gen_range(rng: &mut Rng) -> (f64, f64) {
    match rng.below(8) {
        0 | 1 => (0.0, 1.0),
        2 => (-1.0, 1.0),
        3 => (5.0, 10.0),
        4 => (2.5, 2.5),
        5 => (1.0, 0.0), // flipped: error
        6 => (-1e3, 1e-3),
        _ => {
            let a = rng.range(-16, 16) as f64 / 4.0;
            let b = a + rng.range(0, 32) as f64 / 8.0;
            (a, b)
        }
    }
}

// ---------------------------------------------------------------- norm scaler

fn norm_scaler(kind: &str) -> NormScaler {
    match kind {
        "l1" => NormScaler::l1(),
        "l2" => NormScaler::l2(),
        _ => NormScaler::max(),
    }
}

/// class of a row for the norm scaler. The L2 norm squares the entries: rows whose largest entry is
/// beyond sqrt(MAX)/32 or below 32 sqrt(MIN_POSITIVE) of the carrier lose the squares to overflow /
/// underflow (open findings); every other non-zero row must come out with unit norm.
fn row_class<F: Float>(kind: &str, r: &[f64]) -> &'static str {
    let ma = r.iter().fold(0.0f64, |a, v| a.max(v.abs()));
    if ma == 0.0 {
        return "zero";
    }
    if kind == "l2" {
        let hi = F::max_value().to_f64().unwrap().sqrt() / 32.0;
        let lo = F::min_positive_value().to_f64().unwrap().sqrt() * 32.0;
        if ma > hi {
            return "sq_overflow";
        }
        if ma < lo {
            return "sq_underflow";
        }
    }
    "nonzero"
}

fn run_norm<F: Float>(ctx: &mut Ctx, tag: &str, kind: &str, x: &Mat, p: usize, lay: Lay, sel: &[usize], t: &Tally) -> Mat {
    let e = F::epsilon().to_f64().unwrap();
    let xa: Array2<F> = to_arr_lay(x, p, lay);
    let sc = norm_scaler(kind);
    let y: Array2<F> = sc.transform(xa.clone());
    let xm = to_mat(&xa);
    let ym = to_mat(&y);
    for (i, (r, o)) in xm.iter().zip(ym.iter()).enumerate() {
        let rc = row_class::<F>(kind, r);
        let class = format!("{}:kind={}:row={}", tag, kind, rc);
        ctx.require(o.iter().all(|v| v.is_finite()), "norm_finite", &class, || format!("row {} = {:?} is mapped to {:?}", i, r, o));
        if rc != "zero" {
            // outputs are at most 1 in magnitude: their norm is safe to compute directly in f64
            let nrm = match kind {
                "l1" => o.iter().map(|v| v.abs()).sum::<f64>(),
                "l2" => o.iter().map(|v| v * v).sum::<f64>().sqrt(),
                _ => o.iter().fold(0.0f64, |a, v| a.max(v.abs())),
            };
            let tol = 4.0 * (p as f64 + 2.0) * e;
            tally(t, &format!("judged:{}:unit:{}:{}", tag, kind, rc));
            if rc == "nonzero" {
                tally(t, &format!("cov:judged:{}:unit:{}", tag, kind));
            }
            ctx.require((nrm - 1.0).abs() <= tol, "norm_unit", &class, || format!("row {} = {:?}: output norm {:e} (tol {:e})", i, r, nrm, tol));
        }
    }
    oracle_rowwise(ctx, &format!("{}:kind={}", tag, kind), &xa, &y, sel, true, &|a| sc.transform(a));
    tally(t, &format!("cov:norm:lay={}", lay.tag()));
    ym
}

/// rows of magnitude 1e+-200 (f32: 1e25 / 1e-30): every entry finite, squares out of range
fn gen_extreme_rows(rng: &mut Rng, n: usize, p: usize, f32_carrier: bool) -> Mat {
    (0..n)
        .map(|_| {
            let m = if f32_carrier { *rng.pick(&[1e25, 1e-30, 1.0]) } else { *rng.pick(&[1e200, 1e-200, 1e150, 1.0]) };
            if rng.chance(1, 6) {
                vec![0.0; p]
            } else {
                (0..p).map(|_| rng.range(-32, 32) as f64 / 4.0 * m).collect()
            }
        })
        .collect()
}

fn op_norm(em: &mut Em, rng: &mut Rng, stream: Stream, f32_too: bool) {
    let kind = *rng.pick(&["l1", "l2", "max"]);
    let (n, p) = gen_shape(rng, em.thorough());
    let lay = gen_lay(rng);
    let extreme = rng.chance(1, 6);
    let x = if extreme { gen_extreme_rows(rng, n, p, false) } else { gen_matrix(rng, n, p, stream, f64::EPSILON, em) };
    let sel = gen_sel(rng, n);
    em.count(&format!("norm:{}", kind));
    if extreme {
        em.count("norm:extreme_magnitude");
    }
    let op = format!("norm kind={} lay={} x={}", kind, lay.tag(), show_mat(&x));
    let t: Tally = RefCell::new(vec![]);
    em.case_valid(op, &format!("norm:kind={}", kind), |ctx| {
        let y = run_norm::<f64>(ctx, "norm", kind, &x, p, lay, &sel, &t);
        format!("ok y={}", show_mat_c(&y, false))
    });
    flush(em, &t);
    if f32_too {
        let x32 = if extreme { gen_extreme_rows(rng, n, p, true) } else { gen_matrix(rng, n, p, stream, f32::EPSILON as f64, em) };
        let sel32 = gen_sel(rng, n);
        let op32 = format!("#norm32 kind={} lay={} x={}", kind, lay.tag(), show_mat(&x32));
        em.case_valid(op32, &format!("norm32:kind={}", kind), |ctx| {
            run_norm::<f32>(ctx, "norm32", kind, &x32, p, lay, &sel32, &t);
            "ok".to_string()
        });
        flush(em, &t);
    }
}

// ---------------------------------------------------------------- whitening

/// `via`: "ctor" = `Whitener::pca()/zca()/cholesky()`, "setter" = another constructor followed by `method(..)`
fn whitener(method: &str, via: &str) -> Whitener {
    if via == "setter" {
        return match method {
            "pca" => Whitener::zca().method(WhiteningMethod::Pca),
            "zca" => Whitener::cholesky().method(WhiteningMethod::Zca),
            _ => Whitener::pca().method(WhiteningMethod::Cholesky),
        };
    }
    match method {
        "pca" => Whitener::pca(),
        "zca" => Whitener::zca(),
        _ => Whitener::cholesky(),
    }
}

/// eigenvalues of a small symmetric matrix (cyclic Jacobi), for the rank / conditioning class
fn sym_eigvals(a: &Mat) -> Vec<f64> {
    let p = a.len();
    let mut a = a.clone();
    for _ in 0..60 {
        let mut off = 0.0;
        for i in 0..p {
            for j in 0..p {
                if i != j {
                    off += a[i][j] * a[i][j];
                }
            }
        }
        if off == 0.0 {
            break;
        }
        for i in 0..p {
            for j in (i + 1)..p {
                if a[i][j] == 0.0 {
                    continue;
                }
                let theta = (a[j][j] - a[i][i]) / (2.0 * a[i][j]);
                let t = theta.signum() / (theta.abs() + (theta * theta + 1.0).sqrt());
                let t = if theta == 0.0 { 1.0 } else { t };
                let c = 1.0 / (t * t + 1.0).sqrt();
                let s = t * c;
                for k in 0..p {
                    let (aki, akj) = (a[k][i], a[k][j]);
                    a[k][i] = c * aki - s * akj;
                    a[k][j] = s * aki + c * akj;
                }
                for k in 0..p {
                    let (aik, ajk) = (a[i][k], a[j][k]);
                    a[i][k] = c * aik - s * ajk;
                    a[j][k] = s * aik + c * ajk;
                }
            }
        }
    }
    (0..p).map(|i| a[i][i]).collect()
}

/// sample covariance (divisor n-1), two-pass in f64
fn cov(m: &Mat, p: usize) -> Mat {
    let n = m.len() as f64;
    let means: Vec<f64> = (0..p).map(|j| column(m, j).iter().sum::<f64>() / n).collect();
    (0..p).map(|a| (0..p).map(|b| m.iter().map(|r| (r[a] - means[a]) * (r[b] - means[b])).sum::<f64>() / (n - 1.0)).collect()).collect()
}

/// `small`: restrict scales to what survives rounding to f32
fn gen_whiten_matrix(rng: &mut Rng, n: usize, p: usize, stream: Stream, small: bool, extreme: Option<f64>, em: &mut Em) -> Mat {
    let offs: &[f64] = if extreme.is_some() { &[0.0] } else if small { &[0.0, 10.0] } else { &[0.0, 10.0, 1e3] };
    let one = [extreme.unwrap_or(1.0)];
    let scs: &[f64] = if extreme.is_some() { &one } else if small { &[1e-2, 1.0, 1.0, 30.0] } else { &[1e-6, 1e-3, 1.0, 1.0, 30.0, 1e3] };
    // one (offset, scale) for the whole matrix, or (generic stream, half of the cases) one per column:
    // the statement's "offset and badly scaled columns" inside one matrix
    let per_column = stream == Stream::Generic && p >= 2 && rng.coin();
    let common = (*rng.pick(offs), *rng.pick(scs));
    let cs: Vec<(f64, f64)> = (0..p).map(|_| if per_column { (*rng.pick(offs), *rng.pick(scs)) } else { common }).collect();
    if per_column {
        em.count("whiten:per_column_scales");
    }
    let mut m: Mat = (0..n)
        .map(|_| (0..p).map(|j| if stream == Stream::Lattice { rng.range(-16, 16) as f64 / 2.0 } else { cs[j].0 + cs[j].1 * (2.0 * rng.unit() - 1.0) }).collect())
        .collect();
    if stream == Stream::Generic && p >= 2 && rng.chance(1, 3) {
        // correlated columns: column j gets a share of column j-1 (in units of its own scale)
        em.count("whiten:correlated_columns");
        let c = *rng.pick(&[0.5, -0.9, 0.99]);
        for r in m.iter_mut() {
            for j in 1..p {
                r[j] += c * (r[j - 1] - cs[j - 1].0) / cs[j - 1].1 * cs[j].1;
            }
        }
    }
    if n >= 1 && p >= 1 && rng.chance(1, 8) {
        em.count("whiten:constant_column");
        let j = rng.below(p);
        let c = m[0][j];
        for r in m.iter_mut() {
            r[j] = c;
        }
    }
    if n >= 2 && rng.chance(1, 10) {
        em.count("whiten:zero_row");
        let i = rng.below(n);
        m[i] = vec![0.0; p];
    }
    m
}

fn fit_whitener<F: Float>(method: &str, form: Form, fit: &Mat, p: usize) -> Result<Result<FittedWhitener<F>, PreprocessingError>, ()> {
    catch_unwind(AssertUnwindSafe(|| match form.layf {
        Lay::S => {
            let b = backing::<F>(fit, p);
            let v = b.slice(s![1..(2 * fit.len() + 1);2, 1..(p + 1)]);
            whitener(method, form.via).fit(&fit_dataset(v, form))
        }
        lay => whitener(method, form.via).fit(&fit_dataset(to_arr_lay::<F>(fit, p, lay), form)),
    }))
    .map_err(|_| ())
}

/// rank / conditioning class of the training data from its two-pass covariance (in f64)
fn whiten_conditioning(fit: &Mat, n: usize, p: usize) -> (bool, f64, f64, f64) {
    if n >= 2 && p >= 1 {
        let ev = sym_eigvals(&cov(fit, p));
        let (lo, hi) = (ev.iter().cloned().fold(f64::INFINITY, f64::min), ev.iter().cloned().fold(0.0f64, f64::max));
        // rank relative to the magnitude of the data: a constant column at 1e3 leaves a rounding residue in
        // the two-pass covariance that must not count as variance
        let ma = fit.iter().flatten().fold(0.0f64, |a, v| a.max(v.abs()));
        let cond = if lo > 0.0 { hi / lo + ma * ma / lo } else { f64::INFINITY };
        (n > p && lo > 1e-9 * hi && lo > 1e-20 * ma * ma && lo > 0.0, cond, lo, hi)
    } else {
        (false, f64::INFINITY, 0.0, 0.0)
    }
}

/// class suffix of the absolute `1e-8` floors (open findings): PCA clamps the singular values of the centred
/// data, `sqrt((n-1) lambda)`, from below; ZCA clamps `1/sqrt(lambda)` from below.  Computed from the two-pass
/// covariance eigenvalues of the training data, whatever its magnitude.
fn floor_class(method: &str, n: usize, lo: f64, hi: f64) -> &'static str {
    let hit = match method {
        "pca" => ((n as f64 - 1.0) * lo).sqrt() < 1e-8,
        "zca" => 1.0 / hi.sqrt() < 1e-8,
        _ => false,
    };
    if hit {
        ":floor=hit"
    } else {
        ""
    }
}

/// the centred records exactly as `Whitener::fit` builds them (`records - &mean`, same layout / storage)
fn centred(fit: &Mat, p: usize, lay: Lay) -> Array2<f64> {
    match lay {
        Lay::S => {
            let b = backing::<f64>(fit, p);
            let v = b.slice(s![1..(2 * fit.len() + 1);2, 1..(p + 1)]);
            let mean = v.mean_axis(Axis(0)).unwrap();
            &v - &mean
        }
        lay => {
            let a = to_arr_lay::<f64>(fit, p, lay);
            let mean = a.mean_axis(Axis(0)).unwrap();
            &a - &mean
        }
    }
}

/// everything the oracle judges on one fitted whitener; returns (mean, y scaled entry-wise by its
/// backward-error scale sum_i |x_i - mean_i| |W_ai|)
fn judge_whitener<F: Float>(ctx: &mut Ctx, class: &str, tag: &str, method: &str, fw: &FittedWhitener<F>, fit: &Mat, x: &Mat, p: usize, form: Form, full_rank: bool, cond: f64, sel: &[usize], t: &Tally) -> (Vec<f64>, Mat) {
    let e = F::epsilon().to_f64().unwrap();
    let fa: Array2<F> = to_arr_lay(fit, p, form.layf);
    if full_rank {
        let yf = to_mat(&fw.transform(fa));
        let c = cov(&yf, p);
        // forward error of the factorisations: SVD of the centred data ~ sqrt(cond), covariance route ~ cond
        // (cond includes the offset: max|x|^2 / smallest eigenvalue)
        let tol = 128.0 * e * cond.max(1.0) * cond.max(1.0).sqrt() + 65536.0 * e; // cond^1.5: a sweep (seed 32) showed 8e-5 for ZCA at cond 3.5e7, 80 times the cond-linear bound
        let mut worst = 0.0f64;
        for a in 0..p {
            for b in 0..p {
                worst = worst.max((c[a][b] - if a == b { 1.0 } else { 0.0 }).abs());
            }
        }
        if class.ends_with(":floor=hit") {
            tally(t, &format!("masked:{}:identity_cov:{}:floor_hit", tag, method));
        }
        if tol < 0.05 {
            if !class.ends_with(":floor=hit") {
                tally(t, &format!("judged:{}:identity_cov:{}", tag, method));
                tally(t, &(if tag == "whiten" { format!("cov:judged:whiten:identity_cov:{}", method) } else { format!("cov:judged:{}:identity_cov", tag) }));
            }
            tally(t, &format!("margin:{}:{}:1e{}", tag, method, (worst / tol).max(1e-9).log10().ceil() as i64));
            ctx.require(worst <= tol, "whiten_identity_cov", class, || format!("covariance of the whitened training data deviates from I by {:e} (tol {:e}, cond {:e})", worst, tol, cond));
        } else {
            tally(t, &format!("skipped:{}:identity_cov:ill_conditioned", tag));
        }
    }
    if full_rank && p >= 2 && 128.0 * e * cond < 0.05 {
        // the requested method is the one that was run (constructor or setter): each method's matrix has its
        // defining shape - PCA: mutually orthogonal rows (scaled right singular vectors), ZCA: symmetric,
        // Cholesky: triangular
        let w = to_mat(&fw.transformation_matrix().to_owned());
        let rown: Vec<f64> = w.iter().map(|r| r.iter().map(|v| v * v).sum::<f64>().sqrt()).collect();
        let wmax = w.iter().flatten().fold(0.0f64, |a, v| a.max(v.abs()));
        let mut dev = 0.0f64;
        for a in 0..p {
            for b in 0..p {
                if a == b {
                    continue;
                }
                let d = match method {
                    "pca" => (0..p).map(|k| w[a][k] * w[b][k]).sum::<f64>().abs() / (rown[a] * rown[b]),
                    "zca" => (w[a][b] - w[b][a]).abs() / wmax,
                    // Cholesky: triangular; which triangle is not part of the statement (L^-1 of Sigma = L L^T
                    // whitens as well as the upper factor of Sigma^-1): judged below as min(lower part, upper part)
                    _ => 0.0,
                };
                dev = dev.max(d);
            }
        }
        if method == "chol" {
            let part = |lower: bool| -> f64 {
                let mut m = 0.0f64;
                for a in 0..p {
                    for b in 0..p {
                        if (lower && a > b) || (!lower && a < b) {
                            m = m.max(w[a][b].abs() / wmax);
                        }
                    }
                }
                m
            };
            dev = part(true).min(part(false));
        }
        let tol = 128.0 * e * cond.max(1.0) * cond.max(1.0).sqrt() + 65536.0 * e; // cond^1.5: a sweep (seed 32) showed 8e-5 for ZCA at cond 3.5e7, 80 times the cond-linear bound
        tally(t, &format!("judged:{}:method_shape:{}", tag, method));
        tally(t, &format!("cov:judged:{}:method_shape", tag));
        tally(t, &format!("shape_margin:{}:{}:1e{}", tag, method, (dev / tol).max(1e-9).log10().ceil() as i64));
        ctx.require(dev <= tol, "whitening_method_shape", class, || format!("the matrix of method {} deviates from the method's shape (orthogonal rows / symmetric / upper triangular) by {:e} (tol {:e})", method, dev, tol));
    }
    let xa: Array2<F> = to_arr_lay(x, p, form.layx);
    let xm = to_mat(&xa);
    let y = fw.transform(xa.clone());
    tally(t, &format!("transformed:{}:{}:layx={}", tag, method, form.layx.tag()));
    if tag == "whiten" {
        // (the f32 twin's per-layout counts are below 25: evidence only, no floor)
        tally(t, &format!("cov:{}:layx={}", tag, form.layx.tag()));
    }
    oracle_rowwise(ctx, class, &xa, &y, sel, false, &|a| fw.transform(a));
    // the fixed affine map from the accessors: y = (x - mean()) . transformation_matrix()^T
    let mean: Vec<f64> = fw.mean().iter().map(|v| v.to_f64().unwrap()).collect();
    let w = to_mat(&fw.transformation_matrix().to_owned());
    let ym = to_mat(&y);
    let mut yk: Mat = vec![];
    for (i, r) in xm.iter().enumerate() {
        let mut row = vec![];
        for (a, wr) in w.iter().enumerate() {
            let mut scale = 0.0f64;
            let mut want = 0.0f64;
            for j in 0..p {
                scale += (r[j] - mean[j]).abs() * wr[j].abs();
                want += (r[j] - mean[j]) * wr[j];
            }
            let tol = 8.0 * (p as f64 + 2.0) * e * scale + 4.0 * F::min_positive_value().to_f64().unwrap();
            ctx.require((ym[i][a] - want).abs() <= tol, "fixed_affine_map", class, || format!("cell ({}, {}): transform gives {:e}, (x - mean) . W^T from the accessors gives {:e} (tol {:e})", i, a, ym[i][a], want, tol));
            row.push(if scale > 0.0 { ym[i][a] / scale } else { ym[i][a] });
        }
        yk.push(row);
    }
    (mean, yk)
}

/// `forced`: (method, magnitude) of the extreme-scale probes
fn op_whiten(em: &mut Em, rng: &mut Rng, stream: Stream, f32_too: bool, forced: Option<(&'static str, f64)>) {
    let mut method = *rng.pick(&["pca", "zca", "chol"]);
    if let Some((m, _)) = forced {
        method = m;
    }
    let p = if forced.is_some() {
        rng.range(1, 3) as usize
    } else if rng.chance(1, 10) {
        rng.range(4, 6) as usize
    } else {
        rng.range(1, 4) as usize
    };
    let n = match if forced.is_some() { 2 } else { rng.below(12) } {
        0 => 0,
        1 => rng.range(1, p as i64) as usize, // n <= p: rank deficient
        // the probes stay below ndarray's 8-way unrolling (generic values, exact means)
        _ if forced.is_some() => p + 1 + rng.below(4),
        _ => p + 1 + rng.below(if em.thorough() { 30 } else { 12 }),
    };
    if n == 1 && method != "pca" {
        // outside the property (fewer than two rows) and not runnable: the covariance is 0/0 = NaN and
        // linfa-linalg's SVD does not terminate on a NaN matrix (ZCA; Cholesky goes through invc)
        em.count("whiten:n1_zca_chol_not_run");
        method = "pca";
    }
    let form = Form { via: *rng.pick(&["ctor", "ctor", "setter"]), layf: gen_lay(rng), layx: gen_lay(rng), wts: rng.chance(1, 3) };
    // contiguous columns with n >= 8: see op_lin
    let stream = if n >= 8 && (p == 1 || form.layf == Lay::F) { Stream::Lattice } else { stream };
    // whole matrix of magnitude 1e-10 or 1e9 (finite, full rank): the absolute 1e-8 floors of the PCA / ZCA branches
    let extreme = forced.map(|(_, v)| v);
    let fit = gen_whiten_matrix(rng, n, p, stream, false, extreme, em);
    let nx = if rng.chance(1, 10) { 0 } else { rng.range(1, 5) as usize };
    let x = if rng.chance(1, 4) { fit.clone() } else { gen_whiten_matrix(rng, nx, p, stream, false, extreme, em) };
    let sel = gen_sel(rng, x.len());
    em.count(&format!("whiten:{}", method));
    let (full_rank, cond, ev_lo, ev_hi) = whiten_conditioning(&fit, n, p);
    em.count(if full_rank { "whiten:full_rank" } else { "whiten:rank_deficient" });
    if form.wts {
        em.count("fit:weighted_dataset");
    }
    // the external factorisation's result goes into the request
    let pre = fit_whitener::<f64>(method, form, &fit, p);
    let w: Option<Mat> = match &pre {
        Ok(Ok(fw)) => Some(to_mat(&fw.transformation_matrix().to_owned())),
        _ => None,
    };
    let w_ok = w.as_ref().map_or(false, |w| w.iter().flatten().all(|v| v.is_finite()) && w.iter().all(|r| r.len() == p));
    let scale_class = if full_rank { floor_class(method, n, ev_lo, ev_hi) } else { "" };
    if let Some(v) = extreme {
        em.count(&format!("whiten:probe_magnitude={:e}", v));
    }
    if !scale_class.is_empty() {
        em.count(&format!("whiten:{}{}", method, scale_class));
    }
    let class = format!("whiten:method={}:{}{}", method, if full_rank { "full_rank" } else { "rank_deficient" }, scale_class);
    let t: Tally = RefCell::new(vec![]);
    if n > 0 && !w_ok {
        // factorisation failed / non-finite / reduced shape: outside the model; only the promise on
        // full-rank data is checked
        em.count("whiten:no_usable_matrix");
        let op = format!("#whiten_nomatrix method={} {} {} pf={} fit={}", method, form.toks(), form.wtok(n), p, show_mat(&fit));
        // its own class: a fit that stops producing a matrix is never covered by the floor findings
        let class_nm = format!("{}:nomatrix", class);
        em.case(op, |ctx| {
            ctx.require(!full_rank, "whiten_identity_cov", &class_nm, || format!("no finite p x p whitening matrix on full-rank data (cond {:e})", cond));
            "-".to_string()
        });
    } else {
        let wm = w.unwrap_or_default();
        // PCA: the model assembles the matrix itself from the result of the external `svd(false, true)` of the
        // centred records (hook `svd_s_vt`: the call `Whitener::fit` makes); ZCA / Cholesky: the matrix travels
        let factors = if method == "pca" && n > 0 {
            match linfa_preprocessing::verif_hooks_c16::svd_s_vt(centred(&fit, p, form.layf)) {
                Some((sv, vt)) => format!("s={} vt={}", list(sv.iter(), |v| hex64(*v)), show_mat(&to_mat(&vt))),
                None => "s= vt=".to_string(),
            }
        } else if method == "pca" {
            "s= vt=".to_string()
        } else {
            format!("W={}", show_mat(&wm))
        };
        let op = format!("whiten method={} {} {} pf={} fit={} x={} {}", method, form.toks(), form.wtok(n), p, show_mat(&fit), show_mat(&x), factors);
        let body = |ctx: &mut Ctx| {
            let res = fit_whitener::<f64>(method, form, &fit, p).unwrap_or_else(|_| panic!("fit panicked"));
            if fit.is_empty() {
                ctx.require(matches!(res, Err(PreprocessingError::NotEnoughSamples)), "empty_rejected", "whiten", || "fit on a dataset without samples did not return NotEnoughSamples".to_string());
            }
            let fw = match res {
                Err(e) => return format!("err {}", err_name(&e)),
                Ok(fw) => fw,
            };
            tally(&t, &format!("fitted:whiten:{}:via={}:layf={}", method, form.via, form.layf.tag()));
            tally(&t, &format!("cov:fit:whiten:{}", method));
            tally(&t, &format!("cov:whiten:via={}", form.via));
            tally(&t, &format!("cov:whiten:layf={}", form.layf.tag()));
            ctx.require(to_mat(&fw.transformation_matrix().to_owned()).iter().flatten().zip(wm.iter().flatten()).all(|(a, b)| a.to_bits() == b.to_bits()), "deterministic_fit", &class, || "two fits on the same data gave different matrices".to_string());
            let (mean, yk) = judge_whitener::<f64>(ctx, &class, "whiten", method, &fw, &fit, &x, p, form, full_rank, cond, &sel, &t);
            // the products differ from the model only by the summation order of the matrix kernel: every
            // entry is divided by its own backward-error scale (same operations on both sides)
            let wtok = if method == "pca" { format!(" W={}", show_mat_c(&to_mat(&fw.transformation_matrix().to_owned()), false)) } else { String::new() };
            format!("ok mean={}{} y={}", list(mean.iter(), |v| hex64c(*v)), wtok, show_mat_c(&yk, true))
        };
        if n > 0 {
            em.case_valid(op, &class, body);
        } else {
            em.case(op, body);
        }
    }
    flush(em, &t);
    if f32_too && n >= 2 {
        // the same generic code instantiated at f32 (oracle only): the 1e-8 floors, the casts of n - 1
        let r32 = |m: &Mat| -> Mat { m.iter().map(|r| r.iter().map(|v| *v as f32 as f64).collect()).collect() };
        let fit32 = r32(&gen_whiten_matrix(rng, n, p, stream, true, None, em));
        let x32 = r32(&gen_whiten_matrix(rng, nx, p, stream, true, None, em));
        let sel32 = gen_sel(rng, x32.len());
        let (fr, cond32, lo32, hi32) = whiten_conditioning(&fit32, n, p);
        let class32 = format!("whiten32:method={}:{}{}", method, if fr { "full_rank" } else { "rank_deficient" }, if fr { floor_class(method, n, lo32, hi32) } else { "" });
        let op32 = format!("#whiten32 method={} {} {} pf={} fit={}", method, form.toks(), form.wtok(n), p, show_mat(&fit32));
        // a promise (n >= 2): a panic of the f32 fit's transform is an oracle failure (audit 2, item 6)
        em.case_valid(op32, &class32, |ctx| {
            let fw = match fit_whitener::<f32>(method, form, &fit32, p) {
                Ok(Ok(fw)) => fw,
                _ => {
                    // f32 carrier: full rank in f64 statistics but numerically singular in f32 is possible only
                    // for cond beyond 1/eps32
                    ctx.require(!fr || cond32 * (f32::EPSILON as f64) * 128.0 >= 0.05, "whiten_identity_cov", &class32, || format!("no whitening matrix on full-rank f32 data (cond {:e})", cond32));
                    return "-".to_string();
                }
            };
            let usable = fw.transformation_matrix().iter().all(|v| v.is_finite()) && fw.transformation_matrix().dim() == (p, p);
            if !usable {
                ctx.require(!fr || cond32 * (f32::EPSILON as f64) * 128.0 >= 0.05, "whiten_identity_cov", &class32, || format!("no finite p x p whitening matrix on full-rank f32 data (cond {:e})", cond32));
                return "-".to_string();
            }
            tally(&t, &format!("fitted:whiten32:{}", method));
            tally(&t, "cov:fit:whiten32");
            judge_whitener::<f32>(ctx, &class32, "whiten32", method, &fw, &fit32, &x32, p, form, fr, cond32, &sel32, &t);
            "-".to_string()
        });
        flush(em, &t);
    }
}

// ---------------------------------------------------------------- dataset forms

/// what the dataset form returned: targets, weights, names, records
struct DsOut {
    tg: Vec<Vec<u64>>,
    w: Vec<u64>,
    fnm: Vec<String>,
    tn: Vec<String>,
    recs: Mat,
}
fn ds_out<F: Float>(out: &DatasetBase<Array2<F>, Array2<f64>>) -> DsOut {
    DsOut {
        tg: out.targets().rows().into_iter().map(|r| r.iter().map(|v| *v as u64).collect()).collect(),
        w: out.weights().map(|w| w.iter().map(|v| *v as u64).collect()).unwrap_or_default(),
        fnm: out.feature_names().to_vec(),
        tn: out.target_names().to_vec(),
        recs: to_mat(out.records()),
    }
}
fn ds_out_view<F: Float>(out: &DatasetBase<Array2<F>, ndarray::ArrayView2<f64>>) -> DsOut {
    DsOut {
        tg: out.targets().rows().into_iter().map(|r| r.iter().map(|v| *v as u64).collect()).collect(),
        w: out.weights().map(|w| w.iter().map(|v| *v as u64).collect()).unwrap_or_default(),
        fnm: out.feature_names().to_vec(),
        tn: out.target_names().to_vec(),
        recs: to_mat(out.records()),
    }
}

/// dataset form and array form of one fitted transform, on the carrier `F`; `view`: the dataset handed
/// to `transform` is `DatasetBase<ArrayView2, ArrayView2>` (records copied by `to_owned` inside)
fn ds_forms<F: Float>(kind: &str, variant: usize, recs: &Mat, p: usize, lay: Lay, ta: &Array2<f64>, w: &[u64], fnm: &[u64], tn: &[u64], view: bool) -> (DsOut, Mat) {
    let ra: Array2<F> = to_arr_lay(recs, p, lay);
    let mk = || {
        let mut d = DatasetBase::new(ra.clone(), ta.clone());
        if !w.is_empty() {
            d = d.with_weights(Array1::from_iter(w.iter().map(|v| *v as f32)));
        }
        d.with_feature_names(fnm.iter().map(|v| v.to_string()).collect::<Vec<_>>()).with_target_names(tn.iter().map(|v| v.to_string()).collect::<Vec<_>>())
    };
    let ds = mk();
    macro_rules! both {
        ($tr:expr) => {{
            let tr = $tr;
            let arr = to_mat(&tr.transform(ra.clone()));
            if view {
                let d = mk();
                (ds_out_view::<F>(&tr.transform(d.view())), arr)
            } else {
                (ds_out::<F>(&tr.transform(mk())), arr)
            }
        }};
    }
    match kind {
        "std" | "minmax" | "maxabs" => {
            let lin = match (kind, variant % 4) {
                ("std", v) => Lin::Std(v % 2 == 0, v / 2 == 0),
                ("minmax", 0) => Lin::MinMax(0.0, 1.0),
                ("minmax", _) => Lin::MinMax(-1.0, 3.0),
                _ => Lin::MaxAbs,
            };
            both!(lin.params::<F>("new").fit(&ds).unwrap())
        }
        "norm" => both!(norm_scaler(["l1", "l2", "max"][variant % 3])),
        _ => both!(whitener(kind, "ctor").fit(&ds).unwrap()),
    }
}

fn op_ds(em: &mut Em, rng: &mut Rng) {
    let kind = *rng.pick(&["std", "minmax", "maxabs", "norm", "pca", "zca", "chol"]);
    let whiten = matches!(kind, "pca" | "zca" | "chol");
    let p = rng.range(1, 4) as usize;
    let n = if whiten { p + 2 + rng.below(6) } else { rng.range(1, 8) as usize };
    let t = rng.range(1, 3) as usize;
    let variant = rng.below(12);
    let f32c = rng.chance(1, 3);
    let view = rng.chance(1, 3);
    let lay = gen_lay(rng);
    let recs: Mat = (0..n).map(|_| (0..p).map(|_| rng.range(-16, 16) as f64 / 2.0).collect()).collect();
    let with_w = rng.coin();
    let with_fn = rng.chance(2, 3);
    let with_tn = rng.chance(2, 3);
    let tg: Vec<Vec<u64>> = (0..n).map(|i| (0..t).map(|c| (1000 + i * t + c) as u64).collect()).collect();
    let w: Vec<u64> = if with_w { (0..n).map(|i| (i + 1) as u64).collect() } else { vec![] };
    let fnm: Vec<u64> = if with_fn { (0..p).map(|j| (100 + j) as u64).collect() } else { vec![] };
    let tn: Vec<u64> = if with_tn { (0..t).map(|c| (200 + c) as u64).collect() } else { vec![] };
    em.count(&format!("ds:{}", kind));
    em.count(&format!("ds:carrier={}:view={}", if f32c { "f32" } else { "f64" }, view as u8));
    let op = format!(
        "ds kind={} var={} carrier={} view={} lay={} pout={} t={} tg={} w={} fn={} tn={} fpanic=0",
        kind,
        variant,
        if f32c { "f32" } else { "f64" },
        view as u8,
        lay.tag(),
        p,
        t,
        list2(tg.iter().map(|r| r.iter()), |v| v.to_string()),
        list(w.iter(), |v| v.to_string()),
        list(fnm.iter(), |v| v.to_string()),
        list(tn.iter(), |v| v.to_string())
    );
    let class = format!("ds:kind={}", kind);
    let t_: Tally = RefCell::new(vec![]);
    em.case_valid(op, &class, |ctx| {
        let ta = Array2::from_shape_fn((n, t), |(i, c)| tg[i][c] as f64);
        let (out, arr) = if f32c { ds_forms::<f32>(kind, variant, &recs, p, lay, &ta, &w, &fnm, &tn, view) } else { ds_forms::<f64>(kind, variant, &recs, p, lay, &ta, &w, &fnm, &tn, view) };
        tally(&t_, &format!("ds_ok:{}", kind));
        tally(&t_, "cov:ds_ok");
        ctx.require(out.tg == tg, "metadata_passthrough", &class, || format!("targets changed: {:?}", out.tg));
        ctx.require(out.w == w, "metadata_passthrough", &class, || format!("weights changed: {:?} -> {:?}", w, out.w));
        ctx.require(out.fnm == fnm.iter().map(|v| v.to_string()).collect::<Vec<_>>(), "metadata_passthrough", &class, || format!("feature names changed: {:?}", out.fnm));
        ctx.require(out.tn == tn.iter().map(|v| v.to_string()).collect::<Vec<_>>(), "metadata_passthrough", &class, || format!("target names changed: {:?}", out.tn));
        // same fitted transform, same records: the statement's "fixed map" (whitening: up to the matrix kernel's
        // summation order, which may depend on the memory layout `to_owned` produces)
        let tol = if whiten { if f32c { 1e-3 } else { 1e-9 } } else { 0.0 };
        let same = out.recs.len() == arr.len()
            && out.recs.iter().zip(arr.iter()).all(|(a, b)| a.len() == b.len() && a.iter().zip(b).all(|(u, v)| u.to_bits() == v.to_bits() || (u - v).abs() <= tol * (1.0 + u.abs().max(v.abs()))));
        ctx.require(same, "dataset_equals_array_form", &class, || "records of the transformed dataset differ from the array transform".to_string());
        format!("ok tg={} w={} fn={} tn={}", list2(out.tg.iter().map(|r| r.iter()), |v| v.to_string()), list(out.w.iter(), |v| v.to_string()), out.fnm.join(","), out.tn.join(","))
    });
    flush(em, &t_);
}

// ---------------------------------------------------------------- fixed witnesses

fn witnesses(em: &mut Em) {
    // DESIGN section 8 #12: all-zero row through the norm scaler
    let x: Mat = vec![vec![0.0, 0.0], vec![3.0, 4.0]];
    for kind in ["l1", "l2", "max"] {
        let xx = x.clone();
        em.case_valid(format!("norm kind={} lay=C x={}", kind, show_mat(&xx)), &format!("norm:kind={}", kind), |ctx| {
            let y = run_norm::<f64>(ctx, "norm", kind, &xx, 2, Lay::C, &[1, 0, 0], &RefCell::new(vec![]));
            format!("ok y={}", show_mat_c(&y, false))
        });
    }
    // sub-epsilon columns (non-constant, treated as constant by the guards)
    let tiny: Mat = vec![vec![1e-17], vec![2e-17], vec![3e-17]];
    for lin in [Lin::Std(true, true), Lin::MinMax(0.0, 1.0), Lin::MaxAbs] {
        let head = match lin {
            Lin::Std(wm, ws) => format!("std wm={} ws={}", wm as u8, ws as u8),
            Lin::MinMax(lo, hi) => format!("minmax lo={} hi={}", hex64(lo), hex64(hi)),
            Lin::MaxAbs => "maxabs".to_string(),
        };
        let approx = matches!(lin, Lin::Std(..));
        let t2 = tiny.clone();
        let form = Form { via: "ctor", layf: Lay::C, layx: Lay::C, wts: false };
        em.case_valid(format!("{} {} {} pf=1 fit={} px=1 x={}", head, form.toks(), form.wtok(3), show_mat(&t2), show_mat(&t2)), lin.name(), |ctx| match run_lin::<f64>(ctx, lin.name(), lin, form, &t2, 1, &t2, 1, &[2, 0], &RefCell::new(vec![])) {
            Err(name) => format!("err {}", name),
            Ok(o) => format!(
                "ok off={} sc={} y={}",
                list(o.offsets.iter(), |v| hex64c(*v)),
                list(o.scales.iter(), |v| if approx { format!("~{}", hex64c(*v)) } else { hex64c(*v) }),
                show_mat_c(&o.y, approx)
            ),
        });
    }
}

pub fn run(em: &mut Em, rng: &mut Rng) {
    witnesses(em);
    let scale = if em.thorough() { 12 } else { 1 };
    for i in 0..(420 * scale) {
        let stream = if i % 3 == 2 { Stream::Generic } else { Stream::Lattice };
        let f32_too = i % 4 == 0;
        let (wm, ws) = (i % 2 == 0, (i / 2) % 2 == 0);
        op_lin(em, rng, Lin::Std(wm, ws), stream, f32_too);
        let (lo, hi) = gen_range(rng);
        op_lin(em, rng, Lin::MinMax(lo, hi), stream, f32_too);
        op_lin(em, rng, Lin::MaxAbs, stream, f32_too);
        op_norm(em, rng, stream, f32_too);
    }
    for i in 0..(300 * scale) {
        op_whiten(em, rng, if i % 2 == 0 { Stream::Lattice } else { Stream::Generic }, i % 3 == 0, None);
    }
    for _ in 0..(4 * scale) {
        for method in ["pca", "zca", "chol"] {
            // 1e-10 / 1e9: beyond the absolute floors (open findings); 1e-6 .. 1e6: well inside, must whiten
            // 1e-7 / 3e7: just inside the floors (singular values resp. 1/sqrt(eigenvalue) between 1e-8 and 1e-7)
            for mag in [1e-10, 1e9, 1e-7, 1e-6, 1e-5, 1e6, 3e7] {
                op_whiten(em, rng, Stream::Generic, false, Some((method, mag)));
            }
        }
    }
    for _ in 0..(150 * scale) {
        op_ds(em, rng);
    }
    ceilings(em);
}
