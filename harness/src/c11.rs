//! C11 — least-squares estimators: elastic net / lasso / ridge (single and multi-task) and OLS.
//!
//! Correspondence ops (model = `Model/LeastSquares.lean`, bit-exact unless marked `~`):
//!   gap   duality_gap            (hook)      cd    coordinate_descent (hook)
//!   fit   ElasticNet::fit        (public)    obj   the documented objective (harness' own formula)
//!   bst   block_soft_thresholding(hook)      gapm  duality_gap_mtl (hook, `~`)
//!   bcd   block_coordinate_descent (hook, tol = 0 so the sweep count is fixed, `~`)
//! Oracle-only ops (`#enet`, `#ols`, `#mtl`): the certificates of the property recomputed from first
//! principles on models fitted through the public API on offset / scaled / constant-column /
//! collinear-but-regularised designs.
use crate::util::*;
use linfa::traits::Fit;
use linfa::Dataset;
use linfa_elasticnet::verif_hooks_c11 as hk;
use linfa_elasticnet::{ElasticNet, MultiTaskElasticNet};
use linfa_linear::LinearRegression;
use ndarray::{Array1, Array2};

#[path = "c11x.rs"]
mod x;

fn canon(x: f64) -> f64 {
    x + 0.0
}
fn sh(x: f64) -> String {
    hex64c(canon(x))
}
fn sht(x: f64) -> String {
    format!("~{}", hex64c(canon(x)))
}
fn rows_hex(x: &Array2<f64>) -> String {
    list2(x.rows().into_iter().map(|r| r.to_vec()), |v| hex64(v))
}
fn vec_hex(v: &Array1<f64>) -> String {
    list(v.iter().copied(), hex64)
}

// ------------------------------------------------------------------ first-principles pieces

fn matvec(x: &Array2<f64>, w: &[f64]) -> Vec<f64> {
    (0..x.nrows()).map(|i| (0..x.ncols()).map(|j| x[[i, j]] * w[j]).sum::<f64>()).collect()
}
fn col(x: &Array2<f64>, j: usize) -> Vec<f64> {
    (0..x.nrows()).map(|i| x[[i, j]]).collect()
}
fn dot(a: &[f64], b: &[f64]) -> f64 {
    a.iter().zip(b).map(|(x, y)| x * y).sum()
}
/// n-scaled objective ½‖y − Xw − b‖² + l1‖w‖₁ + ½ l2‖w‖²  (= n × the documented objective)
fn objective(x: &Array2<f64>, y: &[f64], w: &[f64], b: f64, l1: f64, l2: f64) -> f64 {
    let xw = matvec(x, w);
    let sq: f64 = y.iter().zip(&xw).map(|(yi, xi)| (yi - xi - b) * (yi - xi - b)).sum();
    0.5 * sq + l1 * w.iter().map(|v| v.abs()).sum::<f64>() + 0.5 * l2 * dot(w, w)
}
/// the duality gap of `algorithm.rs` written out naively (y = centred target, r = y − Xw)
fn gap_naive(x: &Array2<f64>, y: &[f64], w: &[f64], r: &[f64], l1: f64, l2: f64) -> f64 {
    let dn = dual_norm(x, w, r, l2);
    gap_with_const(y, w, r, l1, l2, if dn > l1 { l1 / dn } else { 1.0 })
}
fn dual_norm(x: &Array2<f64>, w: &[f64], r: &[f64], l2: f64) -> f64 {
    (0..x.ncols()).map(|j| (dot(&col(x, j), r) - l2 * w[j]).abs()).fold(0.0, f64::max)
}
fn gap_with_const(y: &[f64], w: &[f64], r: &[f64], l1: f64, l2: f64, c: f64) -> f64 {
    let rn = dot(r, r);
    let wn = dot(w, w);
    0.5 * rn * (1.0 + c * c) + l1 * w.iter().map(|v| v.abs()).sum::<f64>() - c * dot(r, y) + 0.5 * l2 * (1.0 + c * c) * wn
}
/// reference solver: cyclic coordinate descent on *centred* columns, tight tolerance.
/// Only ever used as a candidate `w'` / `b'`, so its precision cannot cause a false alarm.
fn ref_enet(x: &Array2<f64>, y: &[f64], l1: f64, l2: f64, icpt: bool) -> (Vec<f64>, f64) {
    let (n, p) = x.dim();
    let ym = if icpt { y.iter().sum::<f64>() / n as f64 } else { 0.0 };
    let xm: Vec<f64> = (0..p).map(|j| if icpt { col(x, j).iter().sum::<f64>() / n as f64 } else { 0.0 }).collect();
    let cols: Vec<Vec<f64>> = (0..p).map(|j| col(x, j).iter().map(|v| v - xm[j]).collect()).collect();
    let nrm: Vec<f64> = cols.iter().map(|c| dot(c, c)).collect();
    let mut r: Vec<f64> = y.iter().map(|v| v - ym).collect();
    let ynorm = dot(&r, &r).sqrt().max(1e-300);
    let mut w = vec![0.0; p];
    for _ in 0..20000 {
        let mut moved: f64 = 0.0;
        for j in 0..p {
            if nrm[j] + l2 <= 0.0 || nrm[j] == 0.0 {
                continue;
            }
            let old = w[j];
            let tmp = dot(&cols[j], &r) + nrm[j] * old;
            let new = tmp.signum() * (tmp.abs() - l1).max(0.0) / (nrm[j] + l2);
            if new != old {
                for i in 0..n {
                    r[i] -= (new - old) * cols[j][i];
                }
                w[j] = new;
            }
            moved = moved.max((new - old).abs() * nrm[j].sqrt());
        }
        if moved <= 1e-15 * ynorm {
            break;
        }
    }
    let b = if icpt { ym - dot(&xm, &w) } else { 0.0 };
    (w, b)
}

/// "iteration budgets large enough to converge", made measurable without the solver under test: the number of
/// sweeps an independent cyclic coordinate descent (started at 0, same coordinate order, no skip rules, f64)
/// needs until its objective is within `target` of the optimum `pstar`; `None` if more than `cap`.
fn ref_sweeps_enet(x: &Array2<f64>, y: &[f64], l1: f64, l2: f64, pstar: f64, target: f64, cap: u32) -> Option<u32> {
    let (n, p) = x.dim();
    let cols: Vec<Vec<f64>> = (0..p).map(|j| col(x, j)).collect();
    let nrm: Vec<f64> = cols.iter().map(|c| dot(c, c)).collect();
    let mut r: Vec<f64> = y.to_vec();
    let mut w = vec![0.0; p];
    for k in 1..=cap {
        for j in 0..p {
            if nrm[j] == 0.0 {
                continue;
            }
            let old = w[j];
            let tmp = dot(&cols[j], &r) + nrm[j] * old;
            let new = tmp.signum() * (tmp.abs() - l1).max(0.0) / (nrm[j] + l2);
            if new != old {
                for i in 0..n {
                    r[i] -= (new - old) * cols[j][i];
                }
                w[j] = new;
            }
        }
        let pk = 0.5 * dot(&r, &r) + l1 * w.iter().map(|v| v.abs()).sum::<f64>() + 0.5 * l2 * dot(&w, &w);
        if pk - pstar <= target {
            return Some(k);
        }
    }
    None
}

pub(crate) struct EnetCase {
    pub x: Array2<f64>,
    pub y: Array1<f64>,
    pub l1r: f64,
    pub pen: f64,
    pub tol: f64,
    pub max: u32,
    pub icpt: bool,
    /// relative slack of the recomputations: 1e-9 for f64, 2e-3 for f32 fits (values widened to f64)
    pub rel: f64,
}

fn uncentred(x: &Array2<f64>) -> bool {
    let n = x.nrows() as f64;
    (0..x.ncols()).any(|j| {
        let c = col(x, j);
        let m = c.iter().sum::<f64>() / n;
        let s = c.iter().map(|v| v.abs()).fold(0.0, f64::max);
        m.abs() > 1e-12 * s.max(1e-300)
    })
}

/// The property's predicate on one fitted elastic net (w, b, gap, steps).
///
/// What is judged when (all of it follows from the statement and from `gap_bounds_suboptimality`):
/// * `break_only_below_tolerance` — the loop was left before the budget ran out (`steps < max`), so the
///   reported gap must be `< tol·‖y‖²` ("KKT up to the stated tolerance");
/// * `gap_nonneg`, `coef_suboptimality_le_gap`, `intercept_jointly_optimal` — whenever the gap was
///   evaluated at all (`max ≥ 2`: it is evaluated at sweep `max − 1` at the latest).  A gap evaluated at an
///   earlier iterate still bounds the suboptimality of the returned one, because a coordinate sweep never
///   raises the objective — so ridge / unpenalised fits, which practically never reach `gap < tol‖y‖²`,
///   are judged too;
/// * `gap_is_gap_of_result` — when the loop broke (the gap is then the gap of the returned point);
/// * `zero_below_l1_threshold` — when it broke on the coefficient-change test (`steps < max − 1`).
pub(crate) fn oracle_enet(ctx: &mut Ctx, em_counts: &mut Vec<String>, c: &EnetCase, w: &[f64], b: f64, gap: f64, steps: u32, kind: &str) {
    let (n, p) = c.x.dim();
    let nf = n as f64;
    let l1 = c.l1r * c.pen * nf;
    let l2 = (1.0 - c.l1r) * c.pen * nf;
    let y: Vec<f64> = c.y.to_vec();
    let yc: Vec<f64> = y.iter().map(|v| v - b).collect();
    let s = dot(&yc, &yc);
    let cen = if c.icpt && uncentred(&c.x) { "uncentred" } else { "centred" };
    let class = format!("{}:features={}", kind, cen);
    ctx.require(w.iter().all(|v| v.is_finite()) && b.is_finite() && gap.is_finite(), "finite", &class, || format!("w={:?} b={} gap={}", w, b, gap));
    if !(w.iter().all(|v| v.is_finite()) && gap.is_finite()) {
        return;
    }
    let broke = steps < c.max;
    if broke {
        // the only `break` of the loop is guarded by `gap < tol·‖y‖²`
        ctx.require(gap < c.tol * s * (1.0 + 1e3 * c.rel) + 1e-300 || s == 0.0, "break_only_below_tolerance", &class, || format!("stopped after {} < {} sweeps with gap {} >= tol*|y|^2 = {}", steps, c.max, gap, c.tol * s));
    }
    let converged = broke && gap < c.tol * s;
    em_counts.push(if converged { format!("{}:converged:{}", kind, cen) } else { format!("{}:nonconverged", kind) });
    if c.max < 2 {
        // a budget of one sweep never evaluates the gap (the reported value is the initial `1 + tol`)
        em_counts.push(format!("{}:gap_never_evaluated", kind));
        return;
    }
    em_counts.push(format!("{}:judged:{}", kind, if c.l1r * c.pen == 0.0 { "l1=0" } else { "l1>0" }));
    let xw = matvec(&c.x, w);
    let r: Vec<f64> = yc.iter().zip(&xw).map(|(a, b)| a - b).collect();
    let slack = c.rel * s + 1e-12;
    // (1) the reported gap is the gap of the returned point
    // With l1 = 0 the formula is discontinuous at Xᵀr − l2·w = 0 (scaling constant 0 vs 1): when the
    // implementation's running residual is exactly stationary and the recomputed one is so only up
    // to rounding, either branch is the gap of the result.
    if broke {
        let g2 = gap_naive(&c.x, &yc, w, &r, l1, l2);
        let xscale: f64 = (0..p).map(|j| dot(&col(&c.x, j), &col(&c.x, j)).sqrt()).fold(0.0, f64::max);
        let near_stationary = l1 == 0.0 && dual_norm(&c.x, w, &r, l2) <= 1e3 * c.rel * xscale * (s.sqrt() + 1e-300);
        let g1 = gap_with_const(&yc, w, &r, l1, l2, 1.0);
        // the running residual drifts from y − Xw by rounding of the updates `r ± w_j·x_j`: the recomputed gap
        // is allowed `rel·(‖y‖² + ‖y‖·Σ|w_j|‖x_j‖)` (the second term only matters on badly conditioned designs)
        let wx: f64 = (0..p).map(|j| w[j].abs() * dot(&col(&c.x, j), &col(&c.x, j)).sqrt()).sum();
        // ... and the rescaling constant l1/‖Xᵀr − l2·w‖∞ moves with the residual by a relative
        // `max‖x_j‖·δr / max(‖Xᵀr − l2 w‖∞, l1)`, which multiplies terms of size ‖y‖² (capped at 1: on designs
        // where this sensitivity is of order one the recomputation decides nothing)
        let sens = (xscale * c.rel * wx / dual_norm(&c.x, w, &r, l2).max(l1).max(1e-300)).min(1.0);
        let close = |a: f64, b: f64| (a - b).abs() <= c.rel * (s + s.sqrt() * wx) + sens * s + 1e-9 * b.abs() + 1e-12;
        ctx.require(close(gap, g2) || (near_stationary && close(gap, g1)), "gap_is_gap_of_result", &class, || format!("reported gap {} but recomputed {}", gap, g2));
    }
    // (2) non-negative
    ctx.require(gap >= -slack, "gap_nonneg", &class, || format!("gap {}", gap));
    // (3) no perturbation of the coefficients lowers the objective by more than the gap
    let p0 = objective(&c.x, &y, w, b, l1, l2);
    let (wr, _) = ref_enet(&c.x, &yc, l1, l2, false);
    let mut cands: Vec<Vec<f64>> = vec![wr];
    for j in 0..p {
        for d in [1e-1, 1e-3, 1e-6] {
            for sgn in [-1.0, 1.0] {
                let mut v = w.to_vec();
                v[j] += sgn * d * (w[j].abs() + 1.0);
                cands.push(v);
            }
        }
        let mut v = w.to_vec();
        v[j] = 0.0;
        cands.push(v);
    }
    for v in &cands {
        let pv = objective(&c.x, &y, v, b, l1, l2);
        if !(p0 - pv <= gap.max(0.0) + slack + 1e-12 * p0.abs()) {
            ctx.fail("coef_suboptimality_le_gap", &class, format!("P(w)={} P(w')={} gap={} w={:?} w'={:?}", p0, pv, gap, w, v));
            break;
        }
    }
    // (3b) "a point that satisfies the optimality conditions up to the stated tolerance ... all iteration budgets
    // large enough to converge": whenever the budget is ten times what an independent cyclic descent needs to
    // come within tol·‖y‖²/10 of the optimum, the returned point must be within tol·‖y‖² of it — measured on the
    // objective itself, not on the reported gap (so ridge / unpenalised fits, whose reported gap is P(w), and
    // fits that silently used up their budget are judged too)
    let pstar = objective(&c.x, &y, &cands[0], b, l1, l2).min(p0);
    if s > 0.0 {
        if let Some(k) = ref_sweeps_enet(&c.x, &yc, l1, l2, pstar, 0.1 * c.tol * s, (c.max / 10).min(2000)) {
            if c.max >= 10 * k + 10 {
                em_counts.push(format!("{}:budget_judged:{}", kind, if c.l1r * c.pen == 0.0 { "l1=0" } else { "l1>0" }));
                ctx.require(p0 - pstar <= c.tol * s * (1.0 + 1e-6) + 1e-12 * p0.abs(), "suboptimality_within_tolerance", &class, || {
                    format!("P(w)-P*={} > tol*|y|^2={} after {} of {} sweeps although an independent descent is within tol*|y|^2/10 after {} sweeps; w={:?} w*={:?}", p0 - pstar, c.tol * s, steps, c.max, k, w, cands[0])
                });
            }
        }
    }
    // (4) jointly in the intercept
    if c.icpt {
        let bstar = (0..n).map(|i| y[i] - xw[i]).sum::<f64>() / nf;
        let loss_b = 0.5 * nf * (b - bstar) * (b - bstar);
        let (wj, bj) = ref_enet(&c.x, &y, l1, l2, true);
        let pj = objective(&c.x, &y, &wj, bj, l1, l2);
        let worst = loss_b.max(p0 - pj);
        // the open finding is exactly "the intercept is the target mean": any other intercept on
        // un-centred features is a different defect and gets its own class
        let ymean = y.iter().sum::<f64>() / nf;
        let ysc = y.iter().map(|v| v.abs()).fold(0.0, f64::max);
        // ... and the listed finding explains exactly one amount: the distance between the best point WITH the
        // intercept held at the target mean (`pstar`, the reference optimum for the returned b) and the joint
        // optimum.  A pair (w, b = ȳ) that is worse than that by more than the reported gap is something else
        // (class `…:b=ymean:excess`, not listed)
        let is_mean = (b - ymean).abs() <= 1e3 * c.rel * 1e-3 * (ysc + 1e-300);
        let explained = (pstar - pj).max(0.0);
        let excess = worst > explained + gap.max(0.0) + slack + 1e-9 * p0.abs();
        let class4 = if cen == "uncentred" { format!("{}:b={}", class, if !is_mean { "other" } else if excess { "ymean:excess" } else { "ymean" }) } else { class.clone() };
        if cen != "uncentred" {
            em_counts.push(format!("{}:joint_judged_unmasked", kind));
        }
        ctx.require(worst <= gap.max(0.0) + slack + 1e-12 * p0.abs(), "intercept_jointly_optimal", &class4, || {
            format!("objective can be lowered by {} (intercept alone: {}) but gap={}; b={} best b for w={} joint optimum b={} w={:?} vs w={:?}", worst, loss_b, gap, b, bstar, bj, wj, w)
        });
    }
    // (5) coefficients under the l1 threshold are exactly zero
    let wmax = w.iter().map(|v| v.abs()).fold(0.0, f64::max);
    if c.max >= 2 && steps < c.max - 1 && wmax > 1e-12 {
        let thr = nf * c.l1r * c.pen;
        for j in 0..p {
            if w[j] == 0.0 {
                continue;
            }
            let cj = col(&c.x, j);
            let tmp = dot(&cj, &r) + dot(&cj, &cj) * w[j];
            let cross: f64 = (0..p).filter(|k| *k != j).map(|k| dot(&cj, &col(&c.x, k)).abs()).sum();
            let sl = c.tol * wmax * cross + c.rel * (tmp.abs() + thr) + 1e-300;
            ctx.require(tmp.abs() >= thr - sl, "zero_below_l1_threshold", &class, || format!("w[{}]={} although |x_j.r_j|={} < n*l1_ratio*penalty={}", j, w[j], tmp.abs(), thr));
        }
    }
}

// ------------------------------------------------------------------ generators

fn pick_f(rng: &mut Rng, xs: &[f64]) -> f64 {
    *rng.pick(xs)
}

/// small-integer design; `kind` 0 centred-symmetric, 1 plain, 2 offset, 3 constant column, 4 collinear, 5 zero column
fn gen_design(rng: &mut Rng, n: usize, p: usize, kind: usize) -> Array2<f64> {
    let mut x = Array2::<f64>::zeros((n, p));
    match kind {
        0 => {
            // rows come in ± pairs (plus a zero row if n is odd): every column sums to exactly 0
            for i in 0..n / 2 {
                for j in 0..p {
                    let v = rng.range(-4, 4) as f64;
                    x[[2 * i, j]] = v;
                    x[[2 * i + 1, j]] = -v;
                }
            }
        }
        _ => {
            for i in 0..n {
                for j in 0..p {
                    x[[i, j]] = rng.range(-4, 4) as f64;
                }
            }
        }
    }
    match kind {
        2 => {
            for j in 0..p {
                if j == 0 || rng.coin() {
                    let off = *rng.pick(&[3.0, 10.0, 100.0, -25.0]);
                    for i in 0..n {
                        x[[i, j]] += off;
                    }
                }
            }
        }
        3 => {
            let j = rng.below(p);
            let cst = *rng.pick(&[1.0, 2.0, -3.0, 0.5]);
            for i in 0..n {
                x[[i, j]] = cst;
            }
        }
        4 if p >= 3 => {
            for i in 0..n {
                x[[i, p - 1]] = x[[i, 0]] + x[[i, 1]];
            }
        }
        5 => {
            let j = rng.below(p);
            for i in 0..n {
                x[[i, j]] = 0.0;
            }
        }
        _ => {}
    }
    x
}

fn gen_target(rng: &mut Rng, x: &Array2<f64>, integer: bool) -> Array1<f64> {
    let (n, p) = x.dim();
    let beta: Vec<f64> = (0..p).map(|_| if rng.chance(1, 3) { 0.0 } else { rng.range(-3, 3) as f64 }).collect();
    let b0 = rng.range(-5, 5) as f64;
    let xw = matvec(x, &beta);
    Array1::from_shape_fn(n, |i| {
        let noise = if integer { rng.range(-2, 2) as f64 } else { (rng.unit() - 0.5) * 2.0 };
        xw[i] + b0 + noise
    })
}

fn scale_columns(rng: &mut Rng, x: &mut Array2<f64>) {
    for j in 0..x.ncols() {
        let k = rng.range(-3, 3);
        let f = 10f64.powi(k as i32);
        for i in 0..x.nrows() {
            x[[i, j]] *= f;
        }
    }
}

const L1RS: [f64; 6] = [0.0, 0.25, 0.5, 0.9, 1.0, 1.0];
const PENS: [f64; 8] = [0.0, 0.001, 0.01, 0.125, 0.3, 1.0, 2.5, 10.0];
const TOLS: [f64; 4] = [1e-4, 1e-6, 1e-9, 1e-2];

// ------------------------------------------------------------------ ops

fn op_gap(em: &mut Em, rng: &mut Rng) {
    let nmax = if rng.chance(1, 4) { 20 } else { 7 };
    let n = 1 + rng.below(nmax);
    let pmax = if rng.chance(1, 5) { 10 } else { 4 };
    let p = 1 + rng.below(pmax);
    let kind = rng.below(6);
    let x = gen_design(rng, n, p, kind);
    let ints = rng.coin();
    let mk = |rng: &mut Rng, len: usize| Array1::from_shape_fn(len, |_| if ints { rng.range(-5, 5) as f64 } else { (rng.unit() - 0.5) * 8.0 });
    let y = mk(rng, n);
    let mut w = mk(rng, p);
    for j in 0..p {
        if rng.chance(1, 3) {
            w[j] = 0.0;
        }
    }
    let r = if rng.coin() {
        // the true residual
        let xw = matvec(&x, &w.to_vec());
        Array1::from_shape_fn(n, |i| y[i] - xw[i])
    } else {
        mk(rng, n)
    };
    let l1r = pick_f(rng, &L1RS);
    let pen = pick_f(rng, &PENS);
    em.count(&format!("gap:p{}", if p == 1 { "=1" } else { ">1" }));
    em.count(&format!("gap:n{}", if n >= 8 { ">=8" } else { "<8" }));
    let op = format!("gap X={} y={} w={} r={} l1r={} pen={}", rows_hex(&x), vec_hex(&y), vec_hex(&w), vec_hex(&r), hex64(l1r), hex64(pen));
    em.case(op, |ctx| {
        let g = hk::duality_gap(x.view(), y.view(), w.view(), r.view(), l1r, pen);
        let nf = n as f64;
        let g2 = gap_naive(&x, &y.to_vec(), &w.to_vec(), &r.to_vec(), l1r * pen * nf, (1.0 - l1r) * pen * nf);
        let sc = dot(&y.to_vec(), &y.to_vec()) + dot(&r.to_vec(), &r.to_vec()) + g2.abs() + 1.0;
        ctx.require((g - g2).abs() <= 1e-9 * sc * (1.0 + pen * nf * (1.0 + dot(&w.to_vec(), &w.to_vec()))), "gap_formula", "gap", || format!("duality_gap={} naive={}", g, g2));
        format!("ok {}", sh(g))
    });
}

fn gen_enet_case(rng: &mut Rng, big: bool, lattice_y: bool) -> (EnetCase, usize) {
    let p = 1 + rng.below(if big { 6 } else { 4 });
    let n = p + 1 + rng.below(if big { 30 } else { 10 });
    let kind = rng.below(6);
    let x = gen_design(rng, n, p, kind);
    let y = gen_target(rng, &x, lattice_y);
    let mut l1r = pick_f(rng, &L1RS);
    let mut pen = pick_f(rng, &PENS);
    if kind == 4 && (pen == 0.0 || l1r == 1.0) {
        // collinear designs only with an l2 part ("collinear-but-regularised")
        pen = 0.3;
        l1r = 0.5;
    }
    let tol = pick_f(rng, &TOLS);
    let max = *rng.pick(&[1u32, 2, 3, 5, 50, 1000, 1000, 20000, 20000]);
    (EnetCase { x, y, l1r, pen, tol, max, icpt: rng.chance(2, 3), rel: 1e-9 }, kind)
}

fn kind_name(k: usize) -> &'static str {
    ["symmetric", "plain", "offset", "constcol", "collinear", "zerocol"][k]
}

fn op_cd(em: &mut Em, rng: &mut Rng) {
    let big = rng.chance(1, 4);
    let lat = rng.coin();
    let (c, kind) = gen_enet_case(rng, big, lat);
    em.count(&format!("cd:design={}", kind_name(kind)));
    let op = format!("cd X={} y={} tol={} max={} l1r={} pen={}", rows_hex(&c.x), vec_hex(&c.y), hex64(c.tol), c.max, hex64(c.l1r), hex64(c.pen));
    let mut counts = vec![];
    em.case_valid(op, "cd", |ctx| {
        let (w, g, s) = hk::coordinate_descent(c.x.view(), c.y.view(), c.tol, c.max, c.l1r, c.pen);
        // as called by `fit` without intercept
        let c0 = EnetCase { x: c.x.clone(), y: c.y.clone(), icpt: false, ..c };
        oracle_enet(ctx, &mut counts, &c0, &w.to_vec(), 0.0, g, s, "cd");
        format!("ok w={} gap={} steps={}", list(w.iter().copied(), sh), sh(g), s)
    });
    for k in counts {
        em.count(&k);
    }
}

fn op_fit(em: &mut Em, rng: &mut Rng) {
    // integer targets: the mean is exact whatever the summation order of `mean_axis`
    let big = rng.chance(1, 4);
    let (c, kind) = gen_enet_case(rng, big, true);
    em.count(&format!("fit:design={}", kind_name(kind)));
    em.count(&format!("fit:icpt={}", c.icpt as u8));
    let op = format!("fit X={} y={} tol={} max={} l1r={} pen={} icpt={}", rows_hex(&c.x), vec_hex(&c.y), hex64(c.tol), c.max, hex64(c.l1r), hex64(c.pen), c.icpt as u8);
    let mut counts = vec![];
    em.case_valid(op, "fit", |ctx| {
        let ds = Dataset::new(c.x.clone(), c.y.clone());
        let m = ElasticNet::params().penalty(c.pen).l1_ratio(c.l1r).tolerance(c.tol).max_iterations(c.max).with_intercept(c.icpt).fit(&ds);
        match m {
            Err(e) => {
                ctx.fail("fit_ok", "fit", format!("{:?}", e));
                format!("err {:?}", e)
            }
            Ok(m) => {
                let w = m.hyperplane().to_vec();
                oracle_enet(ctx, &mut counts, &c, &w, m.intercept(), m.duality_gap(), m.n_steps(), "enet");
                format!("ok b={} w={} gap={} steps={}", sh(m.intercept()), list(w.iter().copied(), sh), sh(m.duality_gap()), m.n_steps())
            }
        }
    });
    for k in counts {
        em.count(&k);
    }
}

fn op_obj(em: &mut Em, rng: &mut Rng) {
    let n = 1 + rng.below(9);
    let p = 1 + rng.below(4);
    let kind = rng.below(6);
    let x = gen_design(rng, n, p, kind);
    let y = Array1::from_shape_fn(n, |_| rng.range(-6, 6) as f64);
    let w = Array1::from_shape_fn(p, |_| rng.range(-8, 8) as f64 / 4.0);
    let b = rng.range(-8, 8) as f64 / 2.0;
    let l1r = *rng.pick(&[0.0, 0.25, 0.5, 1.0]);
    let pen = *rng.pick(&[0.0, 0.125, 0.5, 2.0]);
    let op = format!("obj X={} y={} w={} b={} l1r={} pen={}", rows_hex(&x), vec_hex(&y), vec_hex(&w), hex64(b), hex64(l1r), hex64(pen));
    em.case(op, |_ctx| {
        let nf = n as f64;
        let o = objective(&x, &y.to_vec(), &w.to_vec(), b, l1r * pen * nf, (1.0 - l1r) * pen * nf);
        let s = 2.0 * objective(&x, &y.to_vec(), &w.to_vec(), b, 0.0, 0.0);
        format!("ok obj={} sse={}", sh(o), sh(s))
    });
}

fn op_bst(em: &mut Em, rng: &mut Rng) {
    let tmax = if rng.chance(1, 5) { 12 } else { 4 };
    let t = 1 + rng.below(tmax);
    let mode = rng.below(4);
    let x = Array1::from_shape_fn(t, |_| match mode {
        0 => 0.0,
        1 => rng.range(-4, 4) as f64,
        _ => (rng.unit() - 0.5) * 6.0,
    });
    let nrm = x.dot(&x).sqrt();
    let thr = match rng.below(5) {
        0 => 0.0,
        1 => nrm,
        2 => nrm * 2.0,
        _ => rng.unit() * 4.0,
    };
    em.count(&format!("bst:thr{}", if thr == 0.0 { "=0" } else if thr == nrm { "=norm" } else { "other" }));
    let class = format!("bst:threshold={},norm={}", if thr == 0.0 { "0" } else { "pos" }, if nrm == 0.0 { "0" } else { "pos" });
    let op = format!("bst x={} thr={}", vec_hex(&x), hex64(thr));
    em.case_valid(op, &class, |ctx| {
        let out = hk::block_soft_thresholding(x.view(), thr);
        // prox of thr·‖·‖₂ : (1 − thr/‖x‖)₊ x, and 0 at x = 0
        let ok = out.iter().zip(x.iter()).all(|(o, xi)| {
            let want = if nrm <= thr { 0.0 } else { xi * (1.0 - thr / nrm) };
            o.is_finite() && (o - want).abs() <= 1e-12 * (1.0 + xi.abs())
        });
        ctx.require(ok, "block_soft_is_prox", &class, || format!("x={:?} thr={} -> {:?}", x.to_vec(), thr, out.to_vec()));
        format!("ok {}", list(out.iter().copied(), sh))
    });
}

fn gen_mtl(rng: &mut Rng, lattice: bool) -> (Array2<f64>, Array2<f64>, usize) {
    let p = 1 + rng.below(4);
    let n = p + 1 + rng.below(8);
    let t = 1 + rng.below(3);
    let kind = rng.below(6);
    let x = gen_design(rng, n, p, kind);
    let mut y = Array2::<f64>::zeros((n, t));
    for k in 0..t {
        let yk = gen_target(rng, &x, lattice);
        for i in 0..n {
            y[[i, k]] = yk[i];
        }
    }
    (x, y, kind)
}

fn dual_norm_mtl(x: &Array2<f64>, w: &Array2<f64>, r: &Array2<f64>, l2: f64) -> f64 {
    let (n, p) = x.dim();
    let t = r.ncols();
    let mut dn: f64 = 0.0;
    for j in 0..p {
        let mut s = 0.0;
        for k in 0..t {
            let v: f64 = (0..n).map(|i| x[[i, j]] * r[[i, k]]).sum::<f64>() - l2 * w[[j, k]];
            s += v * v;
        }
        dn = dn.max(s.sqrt());
    }
    dn
}
fn gap_mtl_const(y: &Array2<f64>, w: &Array2<f64>, r: &Array2<f64>, l1: f64, l2: f64, c: f64) -> f64 {
    let (p, t) = w.dim();
    let rn: f64 = r.iter().map(|v| v * v).sum();
    let wn: f64 = w.iter().map(|v| v * v).sum();
    let l21: f64 = (0..p).map(|j| (0..t).map(|k| w[[j, k]] * w[[j, k]]).sum::<f64>().sqrt()).sum();
    let ry: f64 = r.iter().zip(y.iter()).map(|(a, b)| a * b).sum();
    0.5 * rn * (1.0 + c * c) + l1 * l21 - c * ry + 0.5 * l2 * (1.0 + c * c) * wn
}
fn gap_mtl_naive(x: &Array2<f64>, y: &Array2<f64>, w: &Array2<f64>, r: &Array2<f64>, l1: f64, l2: f64) -> f64 {
    let dn = dual_norm_mtl(x, w, r, l2);
    gap_mtl_const(y, w, r, l1, l2, if dn > l1 { l1 / dn } else { 1.0 })
}

fn objective_mtl(x: &Array2<f64>, y: &Array2<f64>, w: &Array2<f64>, b: &[f64], l1: f64, l2: f64) -> f64 {
    let (n, p) = x.dim();
    let t = y.ncols();
    let mut sq = 0.0;
    for i in 0..n {
        for k in 0..t {
            let e = y[[i, k]] - (0..p).map(|j| x[[i, j]] * w[[j, k]]).sum::<f64>() - b[k];
            sq += e * e;
        }
    }
    let l21: f64 = (0..p).map(|j| (0..t).map(|k| w[[j, k]] * w[[j, k]]).sum::<f64>().sqrt()).sum();
    0.5 * sq + l1 * l21 + 0.5 * l2 * w.iter().map(|v| v * v).sum::<f64>()
}

fn op_gapm(em: &mut Em, rng: &mut Rng) {
    let (x, y, _) = gen_mtl(rng, true);
    let (n, p) = x.dim();
    let t = y.ncols();
    let w = Array2::from_shape_fn((p, t), |_| if rng.chance(1, 4) { 0.0 } else { rng.range(-4, 4) as f64 });
    let r = if rng.coin() { &y - &x.dot(&w) } else { Array2::from_shape_fn((n, t), |_| rng.range(-5, 5) as f64) };
    let l1r = *rng.pick(&[0.0, 0.25, 0.5, 1.0]);
    let pen = *rng.pick(&[0.0, 0.125, 0.5, 2.0, 8.0]);
    let op = format!("gapm t={} X={} Y={} W={} R={} l1r={} pen={}", t, rows_hex(&x), rows_hex(&y), rows_hex(&w), rows_hex(&r), hex64(l1r), hex64(pen));
    em.case(op, |ctx| {
        let g = hk::duality_gap_mtl(x.view(), y.view(), w.view(), r.view(), l1r, pen);
        let nf = n as f64;
        let g2 = gap_mtl_naive(&x, &y, &w, &r, l1r * pen * nf, (1.0 - l1r) * pen * nf);
        ctx.require((g - g2).abs() <= 1e-9 * (1.0 + g2.abs() + y.iter().map(|v| v * v).sum::<f64>()), "gap_formula", "gapm", || format!("duality_gap_mtl={} naive={}", g, g2));
        format!("ok {}", sht(g))
    });
}

fn op_bcd(em: &mut Em, rng: &mut Rng) {
    let lat = rng.coin();
    let (x, y, kind) = gen_mtl(rng, lat);
    let t = y.ncols();
    let l1r = *rng.pick(&[0.0, 0.25, 0.5, 1.0]);
    let pen = *rng.pick(&[0.0, 0.125, 0.5, 2.0]);
    let max = 1 + rng.below(6) as u32;
    em.count(&format!("bcd:design={}", kind_name(kind)));
    let class = format!("bcd:l1={}", if l1r * pen == 0.0 { "0" } else { "pos" });
    // tol = -1: `gap < -‖Y‖²` never holds, so exactly `max` sweeps are made on both sides (the
    // sweep count of a tolerance-compared run must not hang on a float comparison)
    let op = format!("bcd t={} X={} Y={} tol={} max={} l1r={} pen={}", t, rows_hex(&x), rows_hex(&y), hex64(-1.0), max, hex64(l1r), hex64(pen));
    em.case_valid(op, &class, |ctx| {
        let (w, g, s) = hk::block_coordinate_descent(x.view(), y.view(), -1.0, max, l1r, pen);
        ctx.require(w.iter().all(|v| v.is_finite()), "finite", &class, || format!("coefficients {:?}", w));
        // with l1 = 0 the gap formula is discontinuous at Xᵀr − l2·w = 0 (constant 0 or 1), a float tie
        // after a tolerance-compared descent: the value is then not compared here (the formula itself is
        // compared exactly, both branches, by `gapm`)
        let gs = if l1r * pen == 0.0 { "-".to_string() } else { sht(g) };
        format!("ok w={} gap={} steps={}", list2(w.rows().into_iter().map(|r| r.to_vec()), sht), gs, s)
    });
}

// ------------------------------------------------------------------ oracle-only streams

fn op_enet_oracle(em: &mut Em, rng: &mut Rng) {
    let (mut c, kind) = gen_enet_case(rng, true, false);
    c.max = *rng.pick(&[1000u32, 20000, 100000]);
    let scaled = rng.chance(1, 3);
    if scaled {
        scale_columns(rng, &mut c.x);
    }
    em.count(&format!("enet:design={}{}", kind_name(kind), if scaled { "+scaled" } else { "" }));
    let op = format!("#enet X={} y={} tol={} max={} l1r={} pen={} icpt={}", rows_hex(&c.x), vec_hex(&c.y), hex64(c.tol), c.max, hex64(c.l1r), hex64(c.pen), c.icpt as u8);
    let mut counts = vec![];
    em.case_valid(op, "enet", |ctx| {
        let ds = Dataset::new(c.x.clone(), c.y.clone());
        match ElasticNet::params().penalty(c.pen).l1_ratio(c.l1r).tolerance(c.tol).max_iterations(c.max).with_intercept(c.icpt).fit(&ds) {
            Err(e) => ctx.fail("fit_ok", "enet", format!("{:?}", e)),
            Ok(m) => oracle_enet(ctx, &mut counts, &c, &m.hyperplane().to_vec(), m.intercept(), m.duality_gap(), m.n_steps(), "enet"),
        }
        "-".to_string()
    });
    for k in counts {
        em.count(&k);
    }
}

fn op_ols_oracle(em: &mut Em, rng: &mut Rng) {
    let p = 1 + rng.below(5);
    let n = p + 2 + rng.below(25);
    let kind = *rng.pick(&[0usize, 1, 1, 2, 2]);
    let mut x = gen_design(rng, n, p, kind);
    let scaled = rng.chance(1, 3);
    if scaled {
        scale_columns(rng, &mut x);
    }
    let lat = rng.coin();
    let y = gen_target(rng, &x, lat);
    let icpt = rng.chance(2, 3);
    // full column rank of [X 1] (resp. X) is part of the quantifier: decide it exactly on the integer design
    let xi = gen_rank_matrix(&x, icpt);
    if !full_rank(xi) {
        em.count("ols:rank_deficient_skipped");
        return;
    }
    em.count(&format!("ols:design={}{}", kind_name(kind), if scaled { "+scaled" } else { "" }));
    let class = format!("ols:icpt={}", icpt as u8);
    let op = format!("#ols X={} y={} icpt={}", rows_hex(&x), vec_hex(&y), icpt as u8);
    let mut fitted = false;
    em.case_valid(op, &class, |ctx| {
        let ds = Dataset::new(x.clone(), y.clone());
        match LinearRegression::new().with_intercept(icpt).fit(&ds) {
            Err(e) => ctx.fail("fit_ok", &class, format!("{:?}", e)),
            Ok(m) => {
                fitted = true;
                let w = m.params().to_vec();
                let b = m.intercept();
                let yv = y.to_vec();
                let xw = matvec(&x, &w);
                let r: Vec<f64> = (0..n).map(|i| yv[i] - xw[i] - b).collect();
                let ynorm = dot(&yv, &yv).sqrt().max(1e-300);
                for j in 0..p {
                    let cj = col(&x, j);
                    let cn = dot(&cj, &cj).sqrt();
                    ctx.require(dot(&cj, &r).abs() <= 1e-8 * cn * ynorm, "residual_orthogonal_to_columns", &class, || format!("x_{}.r = {} (|x_j|={} |y|={})", j, dot(&cj, &r), cn, ynorm));
                }
                if icpt {
                    ctx.require(r.iter().sum::<f64>().abs() <= 1e-8 * (n as f64).sqrt() * ynorm, "residual_orthogonal_to_ones", &class, || format!("sum r = {}", r.iter().sum::<f64>()));
                } else {
                    ctx.require(b == 0.0, "no_intercept", &class, || format!("b={}", b));
                }
                let s0 = dot(&r, &r);
                for j in 0..=p {
                    for d in [1e-2, 1e-5] {
                        for sg in [-1.0, 1.0] {
                            let mut v = w.clone();
                            let mut bb = b;
                            if j < p {
                                v[j] += sg * d * (w[j].abs() + 1.0);
                            } else if icpt {
                                bb += sg * d * (b.abs() + 1.0);
                            }
                            let s1 = 2.0 * objective(&x, &yv, &v, bb, 0.0, 0.0);
                            ctx.require(s0 <= s1 + 1e-9 * (s0 + ynorm * ynorm * 1e-3), "no_smaller_sse", &class, || format!("sse {} > perturbed {}", s0, s1));
                        }
                    }
                }
            }
        }
        "-".to_string()
    });
    if fitted {
        em.count("ols:fitted");
    }
}

/// exact rank test over the rationals on the unscaled integer pattern is not available after scaling;
/// use a pivoted elimination in f64 on column-normalised data with a generous threshold
fn gen_rank_matrix(x: &Array2<f64>, icpt: bool) -> Vec<Vec<f64>> {
    let (n, p) = x.dim();
    let mut cols: Vec<Vec<f64>> = (0..p).map(|j| col(x, j)).collect();
    if icpt {
        cols.push(vec![1.0; n]);
    }
    for c in cols.iter_mut() {
        let s = dot(c, c).sqrt();
        if s > 0.0 {
            for v in c.iter_mut() {
                *v /= s;
            }
        }
    }
    cols
}
fn full_rank(mut cols: Vec<Vec<f64>>) -> bool {
    // modified Gram–Schmidt; rank-deficient if some column loses (almost) all its norm
    let m = cols.len();
    for a in 0..m {
        let na = dot(&cols[a], &cols[a]).sqrt();
        if na < 1e-6 {
            return false;
        }
        let ca: Vec<f64> = cols[a].iter().map(|v| v / na).collect();
        for b in a + 1..m {
            let d = dot(&ca, &cols[b]);
            for i in 0..ca.len() {
                cols[b][i] -= d * ca[i];
            }
        }
    }
    true
}

/// reference solver for the multi-task problem: cyclic block coordinate descent written from the
/// definition of the group prox, on centred columns / targets when `icpt`.  Only a candidate `(W', b')`.
pub(crate) fn ref_mtl(x: &Array2<f64>, y: &Array2<f64>, l1: f64, l2: f64, icpt: bool) -> (Array2<f64>, Vec<f64>) {
    let (n, p) = x.dim();
    let t = y.ncols();
    let nf = n as f64;
    let ym: Vec<f64> = (0..t).map(|k| if icpt { (0..n).map(|i| y[[i, k]]).sum::<f64>() / nf } else { 0.0 }).collect();
    let xm: Vec<f64> = (0..p).map(|j| if icpt { col(x, j).iter().sum::<f64>() / nf } else { 0.0 }).collect();
    let cols: Vec<Vec<f64>> = (0..p).map(|j| col(x, j).iter().map(|v| v - xm[j]).collect()).collect();
    let nrm: Vec<f64> = cols.iter().map(|c| dot(c, c)).collect();
    let mut r: Vec<Vec<f64>> = (0..t).map(|k| (0..n).map(|i| y[[i, k]] - ym[k]).collect()).collect();
    let ynorm = r.iter().map(|c| dot(c, c)).sum::<f64>().sqrt().max(1e-300);
    let mut w = Array2::<f64>::zeros((p, t));
    for _ in 0..20000 {
        let mut moved: f64 = 0.0;
        for j in 0..p {
            if nrm[j] == 0.0 {
                continue;
            }
            let tmp: Vec<f64> = (0..t).map(|k| dot(&cols[j], &r[k]) + nrm[j] * w[[j, k]]).collect();
            let nt = dot(&tmp, &tmp).sqrt();
            for k in 0..t {
                let new = if nt <= l1 { 0.0 } else { tmp[k] * (1.0 - l1 / nt) / (nrm[j] + l2) };
                let old = w[[j, k]];
                if new != old {
                    for i in 0..n {
                        r[k][i] -= (new - old) * cols[j][i];
                    }
                    w[[j, k]] = new;
                }
                moved = moved.max((new - old).abs() * nrm[j].sqrt());
            }
        }
        if moved <= 1e-15 * ynorm {
            break;
        }
    }
    let b: Vec<f64> = (0..t).map(|k| if icpt { ym[k] - (0..p).map(|j| xm[j] * w[[j, k]]).sum::<f64>() } else { 0.0 }).collect();
    (w, b)
}

/// multi-task counterpart of `ref_sweeps_enet` (objective of the problem without intercept on `y`)
fn ref_sweeps_mtl(x: &Array2<f64>, y: &Array2<f64>, l1: f64, l2: f64, pstar: f64, target: f64, cap: u32) -> Option<u32> {
    let (n, p) = x.dim();
    let t = y.ncols();
    let cols: Vec<Vec<f64>> = (0..p).map(|j| col(x, j)).collect();
    let nrm: Vec<f64> = cols.iter().map(|c| dot(c, c)).collect();
    let mut r: Vec<Vec<f64>> = (0..t).map(|k| (0..n).map(|i| y[[i, k]]).collect()).collect();
    let mut w = Array2::<f64>::zeros((p, t));
    for it in 1..=cap {
        for j in 0..p {
            if nrm[j] == 0.0 {
                continue;
            }
            let tmp: Vec<f64> = (0..t).map(|k| dot(&cols[j], &r[k]) + nrm[j] * w[[j, k]]).collect();
            let nt = dot(&tmp, &tmp).sqrt();
            for k in 0..t {
                let new = if nt <= l1 { 0.0 } else { tmp[k] * (1.0 - l1 / nt) / (nrm[j] + l2) };
                let old = w[[j, k]];
                if new != old {
                    for i in 0..n {
                        r[k][i] -= (new - old) * cols[j][i];
                    }
                    w[[j, k]] = new;
                }
            }
        }
        let sq: f64 = r.iter().map(|c| dot(c, c)).sum();
        let l21: f64 = (0..p).map(|j| (0..t).map(|k| w[[j, k]] * w[[j, k]]).sum::<f64>().sqrt()).sum();
        let pk = 0.5 * sq + l1 * l21 + 0.5 * l2 * w.iter().map(|v| v * v).sum::<f64>();
        if pk - pstar <= target {
            return Some(it);
        }
    }
    None
}

pub(crate) struct MtlCase {
    pub x: Array2<f64>,
    pub y: Array2<f64>,
    pub l1r: f64,
    pub pen: f64,
    pub tol: f64,
    pub max: u32,
    pub icpt: bool,
    pub rel: f64,
}

/// The property's predicate on one fitted multi-task elastic net — same clauses, same conditions as
/// `oracle_enet`, with the group penalty `‖W‖₂,₁`.
pub(crate) fn oracle_mtl(ctx: &mut Ctx, counts: &mut Vec<String>, c: &MtlCase, w: &Array2<f64>, b: &[f64], gap: f64, steps: u32) {
    let (x, y) = (&c.x, &c.y);
    let (n, p) = x.dim();
    let t = y.ncols();
    let cen = if c.icpt && uncentred(x) { "uncentred" } else { "centred" };
    let class = format!("mtl:features={}", cen);
    let class_fin = format!("mtl:l1={}", if c.l1r * c.pen == 0.0 { "0" } else { "pos" });
    let fin = w.iter().all(|v| v.is_finite()) && gap.is_finite() && b.iter().all(|v| v.is_finite());
    ctx.require(fin, "finite", &class_fin, || format!("W={:?} b={:?} gap={}", w, b, gap));
    if !fin {
        return;
    }
    ctx.require(w.dim() == (p, t) && b.len() == t, "shape", &class, || format!("W is {:?}, b has {} entries for p={} t={}", w.dim(), b.len(), p, t));
    if w.dim() != (p, t) || b.len() != t {
        return;
    }
    let nf = n as f64;
    let (l1, l2) = (c.l1r * c.pen * nf, (1.0 - c.l1r) * c.pen * nf);
    let yc = Array2::from_shape_fn((n, t), |(i, k)| y[[i, k]] - b[k]);
    let s: f64 = yc.iter().map(|v| v * v).sum();
    let broke = steps < c.max;
    if broke {
        ctx.require(gap < c.tol * s * (1.0 + 1e3 * c.rel) + 1e-300 || s == 0.0, "break_only_below_tolerance", &class, || format!("stopped after {} < {} sweeps with gap {} >= tol*|Y|^2 = {}", steps, c.max, gap, c.tol * s));
    }
    let converged = broke && gap < c.tol * s;
    counts.push(if converged { format!("mtl:converged:{}", cen) } else { "mtl:nonconverged".to_string() });
    if c.max < 2 {
        counts.push("mtl:gap_never_evaluated".to_string());
        return;
    }
    counts.push(format!("mtl:judged:{}", if l1 == 0.0 { "l1=0" } else { "l1>0" }));
    let r = &yc - &x.dot(w);
    let slack = c.rel * s + 1e-12;
    if broke {
        let g2 = gap_mtl_naive(x, &yc, w, &r, l1, l2);
        // l1 = 0: same discontinuity of the formula as in the single-task oracle
        let xscale: f64 = (0..p).map(|j| dot(&col(x, j), &col(x, j)).sqrt()).fold(0.0, f64::max);
        let near_stationary = l1 == 0.0 && dual_norm_mtl(x, w, &r, l2) <= 1e3 * c.rel * xscale * (s.sqrt() + 1e-300);
        let g1 = gap_mtl_const(&yc, w, &r, l1, l2, 1.0);
        let wx: f64 = (0..p).map(|j| (0..t).map(|k| w[[j, k]] * w[[j, k]]).sum::<f64>().sqrt() * dot(&col(x, j), &col(x, j)).sqrt()).sum();
        let sens = (xscale * c.rel * wx / dual_norm_mtl(x, w, &r, l2).max(l1).max(1e-300)).min(1.0);
        let close = |a: f64, b: f64| (a - b).abs() <= c.rel * (s + s.sqrt() * wx) + sens * s + 1e-9 * b.abs() + 1e-12;
        ctx.require(close(gap, g2) || (near_stationary && close(gap, g1)), "gap_is_gap_of_result", &class, || format!("reported {} recomputed {}", gap, g2));
    }
    ctx.require(gap >= -slack, "gap_nonneg", &class, || format!("gap {}", gap));
    let p0 = objective_mtl(x, y, w, b, l1, l2);
    let bound = gap.max(0.0) + slack + 1e-12 * p0.abs();
    // candidates: the optimum of an independent solver for the same intercepts (this is what exposes a
    // feature row wrongly held at zero: no single-entry move lowers the objective there), then
    // single-entry moves and zeroed rows
    let (wr, _) = ref_mtl(x, &yc, l1, l2, false);
    let pr = objective_mtl(x, y, &wr, b, l1, l2);
    ctx.require(p0 - pr <= bound, "coef_suboptimality_le_gap", &class, || format!("P(W)={} but the reference solver reaches {} (gap={}); W={:?} W'={:?}", p0, pr, gap, w, wr));
    'outer: for j in 0..p {
        for k in 0..t {
            for d in [-1e-1, 1e-1, -1e-3, 1e-3, -1e-6, 1e-6] {
                let mut v = w.clone();
                v[[j, k]] += d * (w[[j, k]].abs() + 1.0);
                let pv = objective_mtl(x, y, &v, b, l1, l2);
                if !(p0 - pv <= bound) {
                    ctx.fail("coef_suboptimality_le_gap", &class, format!("P(W)={} P(W')={} gap={}", p0, pv, gap));
                    break 'outer;
                }
            }
        }
        let mut v = w.clone();
        for k in 0..t {
            v[[j, k]] = 0.0;
        }
        let pv = objective_mtl(x, y, &v, b, l1, l2);
        if !(p0 - pv <= bound) {
            ctx.fail("coef_suboptimality_le_gap", &class, format!("P(W)={} P(W with row {} zeroed)={} gap={}", p0, j, pv, gap));
            break;
        }
    }
    // "up to the stated tolerance, for budgets large enough to converge" — as in the single-task oracle
    let pstar = pr.min(p0);
    if s > 0.0 {
        if let Some(k) = ref_sweeps_mtl(x, &yc, l1, l2, pstar, 0.1 * c.tol * s, (c.max / 10).min(2000)) {
            if c.max >= 10 * k + 10 {
                counts.push(format!("mtl:budget_judged:{}", if l1 == 0.0 { "l1=0" } else { "l1>0" }));
                ctx.require(p0 - pstar <= c.tol * s * (1.0 + 1e-6) + 1e-12 * p0.abs(), "suboptimality_within_tolerance", &class, || {
                    format!("P(W)-P*={} > tol*|Y|^2={} after {} of {} sweeps although an independent descent is within tol*|Y|^2/10 after {} sweeps; W={:?} W*={:?}", p0 - pstar, c.tol * s, steps, c.max, k, w, wr)
                });
            }
        }
    }
    if c.icpt {
        let xw = x.dot(w);
        let mut loss = 0.0;
        let mut is_mean = true;
        for k in 0..t {
            let bs = (0..n).map(|i| y[[i, k]] - xw[[i, k]]).sum::<f64>() / nf;
            loss += 0.5 * nf * (b[k] - bs) * (b[k] - bs);
            let ymean = (0..n).map(|i| y[[i, k]]).sum::<f64>() / nf;
            let ysc = (0..n).map(|i| y[[i, k]].abs()).fold(0.0, f64::max);
            is_mean &= (b[k] - ymean).abs() <= c.rel * (ysc + 1e-300);
        }
        let (wj, bj) = ref_mtl(x, y, l1, l2, true);
        let pj = objective_mtl(x, y, &wj, &bj, l1, l2);
        let worst = loss.max(p0 - pj);
        let explained = (pstar - pj).max(0.0);
        let excess = worst > explained + bound + 1e-9 * p0.abs();
        let class4 = if cen == "uncentred" { format!("{}:b={}", class, if !is_mean { "other" } else if excess { "ymean:excess" } else { "ymean" }) } else { class.clone() };
        if cen != "uncentred" {
            counts.push("mtl:joint_judged_unmasked".to_string());
        }
        ctx.require(worst <= bound, "intercept_jointly_optimal", &class4, || format!("the objective can be lowered by {} (intercepts alone: {}) but gap={}; b={:?} joint optimum b={:?}", worst, loss, gap, b, bj));
    }
    // feature rows under the group threshold are exactly zero
    let wmax = (0..p).map(|j| (0..t).map(|k| w[[j, k]] * w[[j, k]]).sum::<f64>().sqrt()).fold(0.0, f64::max);
    if steps < c.max - 1 && wmax > 1e-12 {
        let thr = nf * c.l1r * c.pen;
        for j in 0..p {
            if (0..t).all(|k| w[[j, k]] == 0.0) {
                continue;
            }
            let cj = col(x, j);
            let nj = dot(&cj, &cj);
            let tmp: Vec<f64> = (0..t).map(|k| (0..n).map(|i| cj[i] * r[[i, k]]).sum::<f64>() + nj * w[[j, k]]).collect();
            let nt = dot(&tmp, &tmp).sqrt();
            let cross: f64 = (0..p).filter(|k| *k != j).map(|k| dot(&cj, &col(x, k)).abs()).sum();
            let sl = c.tol * wmax * cross * (t as f64).sqrt() + c.rel * (nt + thr) + 1e-300;
            ctx.require(nt >= thr - sl, "zero_below_l1_threshold", &class, || format!("row {} of W = {:?} although |x_j.R_j|_2={} < n*l1_ratio*penalty={}", j, w.row(j).to_vec(), nt, thr));
        }
    }
}

fn op_mtl_oracle(em: &mut Em, rng: &mut Rng) {
    let lat = rng.coin();
    let (mut x, y, kind) = gen_mtl(rng, lat);
    let scaled = rng.chance(1, 4);
    if scaled {
        scale_columns(rng, &mut x);
    }
    let t = y.ncols();
    let mut l1r = pick_f(rng, &L1RS);
    let mut pen = pick_f(rng, &PENS);
    if kind == 4 && (pen == 0.0 || l1r == 1.0) {
        pen = 0.3;
        l1r = 0.5;
    }
    let tol = pick_f(rng, &TOLS);
    let max = *rng.pick(&[1000u32, 20000]);
    let icpt = rng.chance(2, 3);
    em.count(&format!("mtl:design={}{}", kind_name(kind), if scaled { "+scaled" } else { "" }));
    em.count(&format!("mtl:l1={}", if l1r * pen == 0.0 { "0" } else { "pos" }));
    let op = format!("#mtl t={} X={} Y={} tol={} max={} l1r={} pen={} icpt={}", t, rows_hex(&x), rows_hex(&y), hex64(tol), max, hex64(l1r), hex64(pen), icpt as u8);
    let c = MtlCase { x, y, l1r, pen, tol, max, icpt, rel: 1e-9 };
    let mut counts = vec![];
    em.case_valid(op, "mtl", |ctx| {
        let ds = Dataset::new(c.x.clone(), c.y.clone());
        match MultiTaskElasticNet::params().penalty(pen).l1_ratio(l1r).tolerance(tol).max_iterations(max).with_intercept(icpt).fit(&ds) {
            Err(e) => ctx.fail("fit_ok", "mtl", format!("{:?}", e)),
            Ok(m) => oracle_mtl(ctx, &mut counts, &c, m.hyperplane(), &m.intercept().to_vec(), m.duality_gap(), m.n_steps()),
        }
        "-".to_string()
    });
    for k in counts {
        em.count(&k);
    }
}

/// the probe of DESIGN section 8 #9, kept as a fixed first case
fn op_witness(em: &mut Em) {
    let x = Array2::from_shape_fn((6, 2), |(i, j)| if j == 0 { 10.0 + i as f64 } else { [3.0, 1.0, 4.0, 1.0, 5.0, 9.0][i] });
    let y = Array1::from_shape_fn(6, |i| 2.0 * x[[i, 0]] - x[[i, 1]] + 3.0);
    let c = EnetCase { x, y, l1r: 0.5, pen: 0.0, tol: 1e-4, max: 100000, icpt: true, rel: 1e-9 };
    let op = format!("#enet X={} y={} tol={} max={} l1r={} pen={} icpt=1", rows_hex(&c.x), vec_hex(&c.y), hex64(c.tol), c.max, hex64(c.l1r), hex64(c.pen));
    let mut counts = vec![];
    em.case_valid(op, "enet", |ctx| {
        let ds = Dataset::new(c.x.clone(), c.y.clone());
        let m = ElasticNet::params().penalty(c.pen).l1_ratio(c.l1r).tolerance(c.tol).max_iterations(c.max).with_intercept(true).fit(&ds).unwrap();
        oracle_enet(ctx, &mut counts, &c, &m.hyperplane().to_vec(), m.intercept(), m.duality_gap(), m.n_steps(), "enet");
        "-".to_string()
    });
    for k in counts {
        em.count(&k);
    }
}

/// the input of theorem `fit_intercept_not_joint_witness` (Props/C11.lean), replayed on the real code
fn op_witness_lean(em: &mut Em) {
    let c = EnetCase { x: Array2::from_shape_fn((3, 1), |(i, _)| (i + 1) as f64), y: Array1::from_shape_fn(3, |i| (i + 1) as f64), l1r: 0.5, pen: 0.0, tol: 1e-4, max: 10, icpt: true, rel: 1e-9 };
    let op = format!("fit X={} y={} tol={} max={} l1r={} pen={} icpt=1", rows_hex(&c.x), vec_hex(&c.y), hex64(c.tol), c.max, hex64(c.l1r), hex64(c.pen));
    let mut counts = vec![];
    em.case_valid(op, "fit", |ctx| {
        let ds = Dataset::new(c.x.clone(), c.y.clone());
        let m = ElasticNet::params().penalty(c.pen).l1_ratio(c.l1r).tolerance(c.tol).max_iterations(c.max).with_intercept(true).fit(&ds).unwrap();
        let w = m.hyperplane().to_vec();
        oracle_enet(ctx, &mut counts, &c, &w, m.intercept(), m.duality_gap(), m.n_steps(), "enet");
        format!("ok b={} w={} gap={} steps={}", sh(m.intercept()), list(w.iter().copied(), sh), sh(m.duality_gap()), m.n_steps())
    });
    for k in counts {
        em.count(&k);
    }
}

pub fn run(em: &mut Em, rng: &mut Rng) {
    let f = if em.thorough() { 12 } else { 1 };
    op_witness(em);
    op_witness_lean(em);
    for _ in 0..400 * f {
        op_gap(em, rng);
    }
    for _ in 0..700 * f {
        op_cd(em, rng);
    }
    for _ in 0..500 * f {
        op_fit(em, rng);
    }
    for _ in 0..200 * f {
        op_obj(em, rng);
    }
    for _ in 0..250 * f {
        op_bst(em, rng);
    }
    for _ in 0..250 * f {
        op_gapm(em, rng);
    }
    for _ in 0..250 * f {
        op_bcd(em, rng);
    }
    for _ in 0..400 * f {
        op_enet_oracle(em, rng);
    }
    for _ in 0..300 * f {
        op_ols_oracle(em, rng);
    }
    for _ in 0..250 * f {
        op_mtl_oracle(em, rng);
    }
    x::run(em, rng);
}
