//! C15 — incremental fitting: Gaussian / multinomial naive Bayes (`fit_with` batch by batch vs one
//! `fit`, vs the textbook estimates), mini-batch k-means (`fit_with` recurrence, convergence flag),
//! FTRL (`update` / `fit_with` recurrence, exact zeros).
//!
//! One request line carries the whole batch history; the response lists the state after every batch.
//! Inputs are lattice values (small integers / dyadic rationals) so sums are exact in f64 whatever
//! the reduction order; the only `~` tokens are values that went through ndarray's Welford variance
//! (fused multiply-add), libm (`ln`, `exp`) or a dot product of non-lattice values.
use crate::util::*;
use linfa::dataset::Pr;
use linfa::prelude::*;
use linfa_bayes::{GaussianNb, MultinomialNb};
use linfa_clustering::{IncrKMeansError, KMeans, KMeansInit};
use linfa_ftrl::Ftrl;
use linfa_nn::distance::L2Dist;
use ndarray::{Array1, Array2};
use rand_xoshiro::rand_core::SeedableRng;
use rand_xoshiro::Xoshiro256Plus;
use std::collections::BTreeMap;

type Rows = Vec<Vec<f64>>;
type Hist = Vec<(Rows, Vec<usize>)>;

fn arr2(rows: &Rows, p: usize) -> Array2<f64> {
    Array2::from_shape_fn((rows.len(), p), |(i, j)| rows[i][j])
}
fn tf(x: f64) -> String {
    format!("~{}", hex64c(x))
}
fn hist_x(h: &Hist) -> String {
    list3(h.iter().map(|(r, _)| r.iter().map(|x| x.iter())), |x| hex64(*x))
}
fn hist_y(h: &Hist) -> String {
    list2(h.iter().map(|(_, l)| l.iter()), |x| x.to_string())
}
fn near(a: f64, b: f64, tol: f64) -> bool {
    if a.is_nan() || b.is_nan() {
        return a.is_nan() && b.is_nan();
    }
    if a.is_infinite() || b.is_infinite() {
        return a == b;
    }
    (a - b).abs() <= tol * (1.0 + a.abs().max(b.abs()))
}
fn near_v(a: &[f64], b: &[f64], tol: f64) -> bool {
    a.len() == b.len() && a.iter().zip(b).all(|(x, y)| near(*x, *y, tol))
}
/// per-class statistics: (count, prior, first vector, second vector)
type NbState = BTreeMap<usize, (usize, f64, Vec<f64>, Vec<f64>)>;

/// The naive-Bayes models keep their statistics private; they are read through the public serde
/// implementation (bincode, so that infinities and NaN survive).  Layout: map length, then per
/// class `key, class_count, prior, array, array`; an `Array1` is `v: u8, dim: [u64; 1], data: seq`.
fn nb_state<M: serde::Serialize>(m: &M) -> NbState {
    let bytes = bincode::serialize(m).expect("model serialises");
    let mut pos = 0usize;
    let mut u64_ = |pos: &mut usize| {
        let v = u64::from_le_bytes(bytes[*pos..*pos + 8].try_into().unwrap());
        *pos += 8;
        v
    };
    let mut out = BTreeMap::new();
    let nclass = u64_(&mut pos);
    for _ in 0..nclass {
        let key = u64_(&mut pos) as usize;
        let cnt = u64_(&mut pos) as usize;
        let prior = f64::from_bits(u64_(&mut pos));
        let mut arr = |pos: &mut usize| -> Vec<f64> {
            assert_eq!(bytes[*pos], 1, "ndarray serde version");
            *pos += 1;
            let dim = u64::from_le_bytes(bytes[*pos..*pos + 8].try_into().unwrap());
            let len = u64::from_le_bytes(bytes[*pos + 8..*pos + 16].try_into().unwrap());
            assert_eq!(dim, len);
            *pos += 16;
            (0..len)
                .map(|_| {
                    let v = f64::from_bits(u64::from_le_bytes(bytes[*pos..*pos + 8].try_into().unwrap()));
                    *pos += 8;
                    v
                })
                .collect()
        };
        let a = arr(&mut pos);
        let b = arr(&mut pos);
        out.insert(key, (cnt, prior, a, b));
    }
    assert_eq!(pos, bytes.len(), "whole model consumed");
    out
}
fn show_state(s: &NbState, a: &str, b: &str) -> String {
    if s.is_empty() {
        return "-".into();
    }
    s.iter().map(|(c, (n, pr, v1, v2))| format!("c={}/n={}/pr={}/{}={}/{}={}", c, n, hex64c(*pr), a, list(v1.iter(), |x| hex64c(*x)), b, list(v2.iter(), |x| tf(*x)))).collect::<Vec<_>>().join(";")
}
fn concat(h: &Hist) -> (Rows, Vec<usize>) {
    let mut r = vec![];
    let mut l = vec![];
    for (a, b) in h {
        r.extend(a.iter().cloned());
        l.extend(b.iter().cloned());
    }
    (r, l)
}
fn col_var(rows: &[&Vec<f64>], j: usize) -> (f64, f64) {
    let n = rows.len() as f64;
    let mean = rows.iter().map(|r| r[j]).sum::<f64>() / n;
    let var = rows.iter().map(|r| (r[j] - mean) * (r[j] - mean)).sum::<f64>() / n;
    (mean, var)
}

// ---------------------------------------------------------------- Gaussian NB

fn gnb_textbook(rows: &Rows, labels: &[usize], p: usize, vs: f64) -> NbState {
    let all: Vec<&Vec<f64>> = rows.iter().collect();
    let maxvar = (0..p).map(|j| col_var(&all, j).1).fold(f64::NEG_INFINITY, f64::max);
    let eps = vs * maxvar;
    let mut out = BTreeMap::new();
    let mut classes: Vec<usize> = labels.to_vec();
    classes.sort();
    classes.dedup();
    for c in classes {
        let rc: Vec<&Vec<f64>> = rows.iter().zip(labels).filter(|(_, l)| **l == c).map(|(r, _)| r).collect();
        let mv: Vec<(f64, f64)> = (0..p).map(|j| col_var(&rc, j)).collect();
        out.insert(c, (rc.len(), rc.len() as f64 / rows.len() as f64, mv.iter().map(|x| x.0).collect(), mv.iter().map(|x| x.1 + eps).collect()));
    }
    out
}

const TOL: f64 = 1e-10;

fn cmp_states(ctx: &mut Ctx, what: &str, got: &NbState, want: &NbState, kind: &str, var_class: &str, exact_second: bool) {
    let keys_ok = got.keys().collect::<Vec<_>>() == want.keys().collect::<Vec<_>>();
    ctx.require(keys_ok, "counts_priors", kind, || format!("{}: classes {:?}, textbook {:?}", what, got.keys().collect::<Vec<_>>(), want.keys().collect::<Vec<_>>()));
    if !keys_ok {
        return;
    }
    for (c, (n, pr, v1, v2)) in got {
        let (wn, wpr, w1, w2) = &want[c];
        ctx.require(n == wn && pr == wpr, "counts_priors", kind, || format!("{}: class {} count {} prior {}, textbook {} / {}", what, c, n, pr, wn, wpr));
        if exact_second {
            // multinomial: first vector = additive counts (exact), second = smoothed log-frequencies
            ctx.require(v1 == w1, "feature_counts", kind, || format!("{}: class {} feature counts {:?}, textbook {:?}", what, c, v1, w1));
            ctx.require(near_v(v2, w2, TOL), "log_prob", kind, || format!("{}: class {} log-frequencies {:?}, textbook {:?}", what, c, v2, w2));
        } else {
            ctx.require(near_v(v1, w1, TOL), "mean_replay", kind, || format!("{}: class {} mean {:?}, textbook {:?}", what, c, v1, w1));
            ctx.require(near_v(v2, w2, TOL), "var_replay", var_class, || format!("{}: class {} variance {:?}, textbook (per-class variance + var_smoothing*max variance of the whole data) {:?}", what, c, v2, w2));
        }
    }
}

fn gnb_class(vs: f64, nb: usize) -> String {
    format!("gnb:var_smoothing={}:batches={}", if vs == 0.0 { "zero" } else { "positive" }, if nb <= 1 { "single" } else { "multi" })
}

fn gnb_run(h: &Hist, p: usize, vs: f64) -> Result<(Vec<NbState>, Option<GaussianNb<f64, usize>>), String> {
    let params = GaussianNb::<f64, usize>::params().var_smoothing(vs).check().map_err(|e| e.to_string())?;
    let mut model: Option<GaussianNb<f64, usize>> = None;
    let mut states = vec![];
    for (rows, labels) in h {
        let ds = Dataset::new(arr2(rows, p), Array1::from(labels.clone()));
        model = params.fit_with(model, &ds).map_err(|e| e.to_string())?;
        states.push(nb_state(model.as_ref().unwrap()));
    }
    Ok((states, model))
}

fn op_gnb(em: &mut Em, h: &Hist, p: usize, vs: f64) {
    let op = format!("gnb vs={} p={} x={} y={}", hex64(vs), p, hist_x(h), hist_y(h));
    let valid = p > 0 && h.iter().all(|(r, _)| !r.is_empty());
    let body = |ctx: &mut Ctx| {
        let (states, _) = match gnb_run(h, p, vs) {
            Ok(x) => x,
            Err(_) => return "err".to_string(),
        };
        let (rows, labels) = concat(h);
        let want = gnb_textbook(&rows, &labels, p, vs);
        let params = GaussianNb::<f64, usize>::params().var_smoothing(vs).check().unwrap();
        let ds = Dataset::new(arr2(&rows, p), Array1::from(labels.clone()));
        let batch = nb_state(&params.fit(&ds).expect("batch fit"));
        cmp_states(ctx, "single fit on the whole data", &batch, &want, "gnb:batch", "gnb:batch", false);
        // every prefix of the history must equal the textbook estimate of the data seen so far
        for (i, st) in states.iter().enumerate() {
            let pre: Hist = h[..=i].to_vec();
            let (r, l) = concat(&pre);
            let w = gnb_textbook(&r, &l, p, vs);
            cmp_states(ctx, &format!("after batch {} of {}", i + 1, h.len()), st, &w, "gnb", &gnb_class(vs, i + 1), false);
        }
        format!("ok {}", states.iter().map(|s| show_state(s, "th", "sg")).collect::<Vec<_>>().join(" "))
    };
    if valid {
        em.case_valid(op, "gnb", body)
    } else {
        em.case(op, body)
    }
}

fn gnb_jll(st: &NbState, x: &[f64]) -> Vec<(usize, f64)> {
    st.iter()
        .map(|(c, (_, pr, th, sg))| {
            let a: f64 = sg.iter().map(|s| (2.0 * std::f64::consts::PI * s).ln()).sum::<f64>() * -0.5;
            let q: f64 = x.iter().zip(th).zip(sg).map(|((x, t), s)| (x - t) * (x - t) / s).sum::<f64>() * 0.5;
            (*c, a - q + pr.ln())
        })
        .collect()
}
fn mnb_jll(st: &NbState, x: &[f64]) -> Vec<(usize, f64)> {
    st.iter().map(|(c, (_, pr, _, lp))| (*c, x.iter().zip(lp).map(|(a, b)| a * b).sum::<f64>() + pr.ln())).collect()
}
/// (best class, margin to the second best)
fn best(scores: &[(usize, f64)]) -> (usize, f64) {
    let mut b = scores[0];
    for s in scores {
        if s.1 > b.1 {
            b = *s;
        }
    }
    let second = scores.iter().filter(|s| s.0 != b.0).map(|s| s.1).fold(f64::NEG_INFINITY, f64::max);
    (b.0, b.1 - second)
}

/// shared oracle of the two prediction ops
fn pred_oracle(ctx: &mut Ctx, kind: &str, eq_class: &str, qs: &Rows, inc_pred: &[usize], batch_pred: &[usize], inc_scores: &dyn Fn(&[f64]) -> Vec<(usize, f64)>, text_scores: &dyn Fn(&[f64]) -> Vec<(usize, f64)>) -> f64 {
    let mut min_margin = f64::INFINITY;
    for (i, q) in qs.iter().enumerate() {
        let (bc, m) = best(&inc_scores(q));
        min_margin = min_margin.min(m);
        if m > 1e-7 {
            ctx.require(inc_pred[i] == bc, "predict_is_argmax_posterior", kind, || format!("query {:?}: predicted {}, posterior of the model's own statistics is maximal at {} (margin {})", q, inc_pred[i], bc, m));
        }
        let (tc, tm) = best(&text_scores(q));
        if tm > 1e-7 {
            ctx.require(batch_pred[i] == tc, "batch_predict_is_textbook_argmax", kind, || format!("query {:?}: batch model predicts {}, textbook posterior maximal at {}", q, batch_pred[i], tc));
            ctx.require(inc_pred[i] == tc, "predict_equals_batch", eq_class, || format!("query {:?}: incremental model predicts {}, batch/textbook {} (textbook margin {})", q, inc_pred[i], tc, tm));
        }
    }
    min_margin
}

fn op_gnb_pred(em: &mut Em, h: &Hist, p: usize, vs: f64, qs: &Rows) {
    let op = format!("gnb_pred vs={} p={} x={} y={} q={}", hex64(vs), p, hist_x(h), hist_y(h), list2(qs.iter().map(|x| x.iter()), |x| hex64(*x)));
    em.case_valid(op, "gnb_pred", |ctx| {
        let (states, model) = gnb_run(h, p, vs).expect("valid history");
        let model = model.unwrap();
        let q = arr2(qs, p);
        let inc_pred = model.predict(&q).to_vec();
        let (rows, labels) = concat(h);
        let params = GaussianNb::<f64, usize>::params().var_smoothing(vs).check().unwrap();
        let ds = Dataset::new(arr2(&rows, p), Array1::from(labels.clone()));
        let batch_pred = params.fit(&ds).unwrap().predict(&q).to_vec();
        let text = gnb_textbook(&rows, &labels, p, vs);
        let last = states.last().unwrap().clone();
        let m = pred_oracle(ctx, "gnb_pred", &gnb_class(vs, h.len()), qs, &inc_pred, &batch_pred, &|x| gnb_jll(&last, x), &|x| gnb_jll(&text, x));
        format!("ok pred={} margin={}", list(inc_pred.iter(), |x| x.to_string()), tf(m))
    });
}

// ---------------------------------------------------------------- multinomial NB

fn mnb_logp(fc: &[f64], alpha: f64) -> Vec<f64> {
    let tot: f64 = fc.iter().map(|x| x + alpha).sum();
    fc.iter().map(|x| (x + alpha).ln() - tot.ln()).collect()
}
fn mnb_textbook(rows: &Rows, labels: &[usize], p: usize, alpha: f64) -> NbState {
    let mut out = BTreeMap::new();
    let mut classes: Vec<usize> = labels.to_vec();
    classes.sort();
    classes.dedup();
    for c in classes {
        let rc: Vec<&Vec<f64>> = rows.iter().zip(labels).filter(|(_, l)| **l == c).map(|(r, _)| r).collect();
        let fc: Vec<f64> = (0..p).map(|j| rc.iter().map(|r| r[j]).sum()).collect();
        let lp = mnb_logp(&fc, alpha);
        out.insert(c, (rc.len(), rc.len() as f64 / rows.len() as f64, fc, lp));
    }
    out
}
fn mnb_run(h: &Hist, p: usize, alpha: f64) -> Result<(Vec<NbState>, Option<MultinomialNb<f64, usize>>), String> {
    let params = MultinomialNb::<f64, usize>::params().alpha(alpha).check().map_err(|e| e.to_string())?;
    let mut model: Option<MultinomialNb<f64, usize>> = None;
    let mut states = vec![];
    for (rows, labels) in h {
        let ds = Dataset::new(arr2(rows, p), Array1::from(labels.clone()));
        model = params.fit_with(model, &ds).map_err(|e| e.to_string())?;
        states.push(nb_state(model.as_ref().unwrap()));
    }
    Ok((states, model))
}
fn op_mnb(em: &mut Em, h: &Hist, p: usize, alpha: f64) {
    let op = format!("mnb alpha={} p={} x={} y={}", hex64(alpha), p, hist_x(h), hist_y(h));
    em.case_valid(op, "mnb", |ctx| {
        let (states, _) = mnb_run(h, p, alpha).expect("valid history");
        let (rows, labels) = concat(h);
        let want = mnb_textbook(&rows, &labels, p, alpha);
        let params = MultinomialNb::<f64, usize>::params().alpha(alpha).check().unwrap();
        let ds = Dataset::new(arr2(&rows, p), Array1::from(labels.clone()));
        let batch = nb_state(&params.fit(&ds).expect("batch fit"));
        cmp_states(ctx, "single fit on the whole data", &batch, &want, "mnb:batch", "mnb:batch", true);
        for (i, st) in states.iter().enumerate() {
            let pre: Hist = h[..=i].to_vec();
            let (r, l) = concat(&pre);
            let w = mnb_textbook(&r, &l, p, alpha);
            cmp_states(ctx, &format!("after batch {} of {}", i + 1, h.len()), st, &w, "mnb", "mnb", true);
        }
        format!("ok {}", states.iter().map(|s| show_state(s, "fc", "lp")).collect::<Vec<_>>().join(" "))
    });
}
fn op_mnb_pred(em: &mut Em, h: &Hist, p: usize, alpha: f64, qs: &Rows) {
    let op = format!("mnb_pred alpha={} p={} x={} y={} q={}", hex64(alpha), p, hist_x(h), hist_y(h), list2(qs.iter().map(|x| x.iter()), |x| hex64(*x)));
    em.case_valid(op, "mnb_pred", |ctx| {
        let (states, model) = mnb_run(h, p, alpha).expect("valid history");
        let model = model.unwrap();
        let q = arr2(qs, p);
        let inc_pred = model.predict(&q).to_vec();
        let (rows, labels) = concat(h);
        let params = MultinomialNb::<f64, usize>::params().alpha(alpha).check().unwrap();
        let ds = Dataset::new(arr2(&rows, p), Array1::from(labels.clone()));
        let batch_pred = params.fit(&ds).unwrap().predict(&q).to_vec();
        let text = mnb_textbook(&rows, &labels, p, alpha);
        let last = states.last().unwrap().clone();
        let m = pred_oracle(ctx, "mnb_pred", "mnb_pred", qs, &inc_pred, &batch_pred, &|x| mnb_jll(&last, x), &|x| mnb_jll(&text, x));
        format!("ok pred={} margin={}", list(inc_pred.iter(), |x| x.to_string()), tf(m))
    });
}

// ---------------------------------------------------------------- mini-batch k-means

fn sqd(a: &[f64], b: &[f64]) -> f64 {
    let mut s = 0.0;
    for (x, y) in a.iter().zip(b) {
        s += (x - y) * (x - y);
    }
    s
}

fn op_km(em: &mut Em, c0: &Rows, batches: &[Rows], tol: f64, seed: u64) {
    let p = c0[0].len();
    let k = c0.len();
    let op = format!("km tol={} c0={} x={}", hex64(tol), list2(c0.iter().map(|x| x.iter()), |x| hex64(*x)), list3(batches.iter().map(|r| r.iter().map(|x| x.iter())), |x| hex64(*x)));
    em.case_valid(op, "km", |ctx| {
        let params = KMeans::params_with_rng(k, Xoshiro256Plus::seed_from_u64(seed)).tolerance(tol).init_method(KMeansInit::Precomputed(arr2(c0, p))).check().expect("valid k-means parameters");
        let mut model: Option<KMeans<f64, L2Dist>> = None;
        let mut parts = vec![];
        // first-principles replay: everything ever assigned to a cluster
        let mut cs: Rows = c0.clone();
        let mut cnt = vec![0usize; k];
        let mut sums: Rows = vec![vec![0.0; p]; k];
        for (bi, b) in batches.iter().enumerate() {
            let ds = DatasetBase::from(arr2(b, p));
            let (m, conv) = match params.fit_with(model.take(), &ds) {
                Ok(m) => (m, true),
                Err(IncrKMeansError::NotConverged(m)) => (m, false),
                Err(e) => panic!("unexpected error {}", e),
            };
            let got_cs: Rows = m.centroids().rows().into_iter().map(|r| r.to_vec()).collect();
            let got_cnt: Vec<f64> = m.cluster_count().to_vec();
            // oracle: assignment against the centroids at the start of the batch, documented recurrence
            let mut want = cs.clone();
            let mut tie = false;
            for x in b {
                let ds_: Vec<f64> = cs.iter().map(|c| sqd(c, x)).collect();
                let mut bi_ = 0;
                for (i, d) in ds_.iter().enumerate() {
                    if *d < ds_[bi_] {
                        bi_ = i;
                    }
                }
                let mut sorted = ds_.clone();
                sorted.sort_by(|a, b| a.partial_cmp(b).unwrap());
                if sorted.len() > 1 && sorted[1] - sorted[0] < 1e-9 && sorted[1] != sorted[0] {
                    tie = true;
                }
                cnt[bi_] += 1;
                for j in 0..p {
                    sums[bi_][j] += x[j];
                    want[bi_][j] += (x[j] - want[bi_][j]) / cnt[bi_] as f64;
                }
            }
            let class = format!("km:batch={}", if bi == 0 { "first" } else { "later" });
            if !tie {
                ctx.require(got_cnt.iter().zip(&cnt).all(|(a, b)| *a == *b as f64), "cumulative_counts", &class, || format!("batch {}: cluster_count {:?}, cumulative assignments {:?}", bi, got_cnt, cnt));
                for c in 0..k {
                    ctx.require(near_v(&got_cs[c], &want[c], 1e-12), "recurrence", &class, || format!("batch {}: centroid {} = {:?}, recurrence from the previous state gives {:?}", bi, c, got_cs[c], want[c]));
                    if cnt[c] > 0 {
                        let mean: Vec<f64> = sums[c].iter().map(|s| s / cnt[c] as f64).collect();
                        ctx.require(near_v(&got_cs[c], &mean, 1e-9), "running_mean", &class, || format!("batch {}: centroid {} = {:?}, mean of the {} points ever assigned {:?}", bi, c, got_cs[c], cnt[c], mean));
                    } else {
                        ctx.require(got_cs[c] == c0[c], "running_mean", &class, || format!("batch {}: empty cluster {} moved to {:?}", bi, c, got_cs[c]));
                    }
                }
            }
            let shift = sqd(&cs.concat(), &got_cs.concat()).sqrt();
            // exact equality is a real boundary on lattice inputs and is judged; only a shift within rounding
            // distance of the tolerance (but not equal to it) is left undecided
            if shift == tol || (shift - tol).abs() > 1e-12 * (1.0 + tol) {
                ctx.require(conv == (shift < tol), "converged_truthful", &class, || format!("batch {}: centroid shift {} tolerance {} reported converged={}", bi, shift, tol, conv));
            }
            parts.push(format!("cs={}/cnt={}/conv={}", list2(got_cs.iter().map(|x| x.iter()), |x| hex64c(*x)), list(got_cnt.iter(), |x| hex64c(*x)), conv as u8));
            cs = got_cs;
            model = Some(m);
        }
        format!("ok {}", parts.join(" "))
    });
}

// ---------------------------------------------------------------- FTRL

fn ftrl_w(z: f64, n: f64, hp: &[f64; 4]) -> f64 {
    let (a, b, l1, l2) = (hp[0], hp[1], hp[2], hp[3]);
    if z.abs() <= l1 {
        0.0
    } else {
        -(z - z.signum() * l1) / ((b + n.sqrt()) / a + l2)
    }
}
/// the documented per-coordinate recurrence, from the previous state and the probabilities the model used
fn ftrl_expect(z: &[f64], n: &[f64], hp: &[f64; 4], probs: &[f32], xs: &Rows, ys: &[bool]) -> (Vec<f64>, Vec<f64>) {
    let p = z.len();
    let mut zo = vec![];
    let mut no = vec![];
    for j in 0..p {
        let g: f64 = (0..xs.len()).map(|i| (probs[i] as f64 - if ys[i] { 1.0 } else { 0.0 }) * xs[i][j]).sum();
        let sigma = ((n[j] + g * g).sqrt() - n[j].sqrt()) / hp[0];
        zo.push(z[j] + g - sigma * ftrl_w(z[j], n[j], hp));
        no.push(n[j] + g * g);
    }
    (zo, no)
}
fn ftrl_checks(ctx: &mut Ctx, class: &str, step: usize, m: &Ftrl<f64>, hp: &[f64; 4], z0: &[f64], n0: &[f64], probs: &[f32], xs: &Rows, ys: &[bool]) {
    let (wz, wn) = ftrl_expect(z0, n0, hp, probs, xs, ys);
    let (z, n) = (m.z().to_vec(), m.n().to_vec());
    ctx.require(near_v(&z, &wz, 1e-9) && near_v(&n, &wn, 1e-9), "recurrence", class, || format!("step {}: z {:?} n {:?}, recurrence gives z {:?} n {:?}", step, z, n, wz, wn));
    ctx.require(n.iter().zip(n0).all(|(a, b)| a >= b), "n_monotone", class, || format!("step {}: n decreased: {:?} -> {:?}", step, n0, n));
    let w = m.get_weights().to_vec();
    for j in 0..z.len() {
        ctx.require((w[j] == 0.0) == (z[j].abs() <= hp[2]), "zero_iff_within_l1", class, || format!("step {}: coordinate {}: z {} l1 {} weight {}", step, j, z[j], hp[2], w[j]));
    }
}
fn show_ftrl(m: &Ftrl<f64>) -> String {
    format!("z={}/n={}/w={}", list(m.z().iter(), |x| tf(*x)), list(m.n().iter(), |x| tf(*x)), list(m.get_weights().iter(), |x| tf(*x)))
}
fn mk_bool_ds(xs: &Rows, ys: &[bool], p: usize) -> Dataset<f64, bool, ndarray::Ix1> {
    Dataset::new(arr2(xs, p), Array1::from(ys.to_vec()))
}

fn op_ftrl_update(em: &mut Em, hp: [f64; 4], z: &[f64], n: &[f64], probs: &[f32], xs: &Rows, ys: &[bool]) {
    let p = z.len();
    let op = format!(
        "ftrl_update hp={} z={} n={} probs={} x={} y={}",
        list(hp.iter(), |x| hex64(*x)),
        list(z.iter(), |x| hex64(*x)),
        list(n.iter(), |x| hex64(*x)),
        list(probs.iter(), |x| hex64(*x as f64)),
        list2(xs.iter().map(|x| x.iter()), |x| hex64(*x)),
        list(ys.iter(), |x| (*x as u8).to_string())
    );
    em.case_valid(op, "ftrl_update", |ctx| {
        let arr = |v: &[f64]| serde_json::json!({"v": 1, "dim": [v.len()], "data": v});
        let mut m: Ftrl<f64> = serde_json::from_value(serde_json::json!({"alpha": hp[0], "beta": hp[1], "l1_ratio": hp[2], "l2_ratio": hp[3], "z": arr(z), "n": arr(n)})).expect("Ftrl deserialises");
        let ds = mk_bool_ds(xs, ys, p);
        let pr: Array1<Pr> = Array1::from(probs.iter().map(|x| Pr::new(*x)).collect::<Vec<_>>());
        m.update(&ds, pr.view());
        ftrl_checks(ctx, "ftrl_update", 0, &m, &hp, z, n, probs, xs, ys);
        format!("ok {}", show_ftrl(&m))
    });
}

fn op_ftrl_fit(em: &mut Em, hp: [f64; 4], seed: u64, p: usize, batches: &[(Rows, Vec<bool>)]) {
    // z0 is drawn by the real code from the seeded generator; it is part of the request line
    let params = Ftrl::<f64>::params_with_rng(Xoshiro256Plus::seed_from_u64(seed)).alpha(hp[0]).beta(hp[1]).l1_ratio(hp[2]).l2_ratio(hp[3]).check().expect("valid FTRL parameters");
    let z0 = Ftrl::new(params.clone(), p).z().to_vec();
    let op = format!(
        "ftrl_fit hp={} z0={} x={} y={}",
        list(hp.iter(), |x| hex64(*x)),
        list(z0.iter(), |x| hex64(*x)),
        list3(batches.iter().map(|(r, _)| r.iter().map(|x| x.iter())), |x| hex64(*x)),
        list2(batches.iter().map(|(_, l)| l.iter()), |x| (*x as u8).to_string())
    );
    em.case_valid(op, "ftrl_fit", |ctx| {
        let mut model: Option<Ftrl<f64>> = None;
        let mut parts = vec![];
        let (mut z, mut n) = (z0.clone(), vec![0.0; p]);
        for (i, (xs, ys)) in batches.iter().enumerate() {
            let ds = mk_bool_ds(xs, ys, p);
            // the probabilities the update will use: the public prediction of the previous model
            let prev = model.clone().unwrap_or_else(|| Ftrl::new(params.clone(), p));
            ctx.require(prev.z().to_vec() == z && prev.n().to_vec() == n, "function_of_history", "ftrl_fit", || format!("step {}: state before the update differs from the state after the previous one", i));
            let probs: Vec<f32> = prev.predict(&arr2(xs, p)).iter().map(|pr| **pr).collect();
            let m = params.fit_with(model.take(), &ds).expect("fit_with");
            ftrl_checks(ctx, "ftrl_fit", i, &m, &hp, &z, &n, &probs, xs, ys);
            z = m.z().to_vec();
            n = m.n().to_vec();
            parts.push(show_ftrl(&m));
            model = Some(m);
        }
        format!("ok {}", parts.join(" "))
    });
}

// ---------------------------------------------------------------- generators

/// cut `rows` into the batches described by `mask` (bit i set = cut after row i)
fn cut<T: Clone>(rows: &[T], mask: u64) -> Vec<Vec<T>> {
    let mut out = vec![];
    let mut cur = vec![];
    for (i, r) in rows.iter().enumerate() {
        cur.push(r.clone());
        if i + 1 == rows.len() || (mask >> i) & 1 == 1 {
            out.push(std::mem::take(&mut cur));
        }
    }
    out
}
fn mk_hist(rows: &Rows, labels: &[usize], mask: u64) -> Hist {
    cut(rows, mask).into_iter().zip(cut(labels, mask)).collect()
}
fn random_mask(rng: &mut Rng, n: usize) -> u64 {
    // few or many cuts
    let dens = *rng.pick(&[1u64, 2, 4, 8]);
    let mut m = 0u64;
    for i in 0..n.saturating_sub(1).min(63) {
        if rng.chance(1, dens) {
            m |= 1 << i;
        }
    }
    m
}
fn lattice(rng: &mut Rng, kind: usize) -> f64 {
    match kind {
        0 => rng.range(-8, 8) as f64,
        1 => rng.range(-32, 32) as f64 / 4.0,
        _ => rng.range(0, 3) as f64, // many duplicates
    }
}
fn gen_labels(rng: &mut Rng, n: usize) -> Vec<usize> {
    let names: &[usize] = *rng.pick(&[&[0usize, 1][..], &[1, 2, 3][..], &[7, 3, 10, 4][..], &[5][..]]);
    let mut l: Vec<usize> = (0..n).map(|_| *rng.pick(names)).collect();
    match rng.below(3) {
        // sorted by class: batches lack classes, new classes appear late
        0 => l.sort(),
        1 => l.sort_by(|a, b| b.cmp(a)),
        _ => {}
    }
    l
}
fn gen_vs(rng: &mut Rng) -> f64 {
    *rng.pick(&[0.0, 0.0, 0.0, 0.125, 0.5, 1e-9])
}
fn gnb_data(rng: &mut Rng, n: usize, p: usize) -> (Rows, Vec<usize>) {
    let kind = rng.below(3);
    let rows: Rows = (0..n).map(|_| (0..p).map(|_| lattice(rng, kind)).collect()).collect();
    (rows, gen_labels(rng, n))
}
fn mnb_data(rng: &mut Rng, n: usize, p: usize) -> (Rows, Vec<usize>) {
    let hi = *rng.pick(&[1i64, 3, 6]);
    let rows: Rows = (0..n).map(|_| (0..p).map(|_| rng.range(0, hi) as f64).collect()).collect();
    (rows, gen_labels(rng, n))
}
fn gnb_pred_ok(h: &Hist, p: usize, vs: f64) -> bool {
    // every class needs a positive variance in every feature for the posterior to be defined
    let (rows, labels) = concat(h);
    let t = gnb_textbook(&rows, &labels, p, vs);
    let all_pos = |s: &NbState| s.values().all(|(_, _, _, sg)| sg.iter().all(|v| *v > 1e-6));
    match gnb_run(h, p, vs) {
        Ok((states, _)) => all_pos(&t) && all_pos(states.last().unwrap()),
        Err(_) => false,
    }
}
fn gen_queries(rng: &mut Rng, rows: &Rows, p: usize, hi: bool) -> Rows {
    let nq = 1 + rng.below(4);
    (0..nq)
        .map(|_| {
            if rng.coin() {
                rng.pick(rows).clone()
            } else {
                (0..p).map(|_| if hi { rng.range(0, 6) as f64 } else { lattice(rng, 1) }).collect()
            }
        })
        .collect()
}

fn nb_cases(em: &mut Em, rng: &mut Rng, rows_g: &(Rows, Vec<usize>), rows_m: &(Rows, Vec<usize>), p: usize, mask: u64, with_pred: bool) {
    let vs = gen_vs(rng);
    let alpha = *rng.pick(&[0.0, 0.5, 1.0, 1.0, 2.0]);
    let hg = mk_hist(&rows_g.0, &rows_g.1, mask);
    let hm = mk_hist(&rows_m.0, &rows_m.1, mask);
    em.count(&format!("nb:batches={}", hg.len().min(8)));
    let nclass = |l: &[usize]| {
        let mut v = l.to_vec();
        v.sort();
        v.dedup();
        v.len()
    };
    if hg.iter().any(|(_, l)| nclass(l) < nclass(&rows_g.1)) {
        em.count("nb:class_incomplete_batch");
    }
    em.count(if vs == 0.0 { "gnb:var_smoothing=0" } else { "gnb:var_smoothing>0" });
    op_gnb(em, &hg, p, vs);
    op_mnb(em, &hm, p, alpha);
    if with_pred {
        let qg = gen_queries(rng, &rows_g.0, p, false);
        let qm = gen_queries(rng, &rows_m.0, p, true);
        if gnb_pred_ok(&hg, p, vs) {
            op_gnb_pred(em, &hg, p, vs, &qg);
        } else {
            em.count("gnb_pred:skipped_zero_variance");
        }
        if alpha > 0.0 {
            op_mnb_pred(em, &hm, p, alpha, &qm);
        }
    }
}

pub fn run(em: &mut Em, rng: &mut Rng) {
    let thorough = em.thorough();
    // --- naive Bayes: every ordered partition of small datasets (n <= 7) into non-empty batches
    let nmax = if thorough { 9 } else { 7 };
    let reps = if thorough { 4 } else { 2 };
    for n in 1..=nmax {
        for _ in 0..reps {
            let p = 1 + rng.below(3);
            let dg = gnb_data(rng, n, p);
            let dm = mnb_data(rng, n, p);
            for mask in 0..(1u64 << (n - 1)) {
                nb_cases(em, rng, &dg, &dm, p, mask, mask % 3 == 0);
            }
        }
    }
    // random cuts of larger datasets
    let extra = if thorough { 1500 } else { 150 };
    for _ in 0..extra {
        let n = 8 + rng.below(if thorough { 120 } else { 40 });
        let p = 1 + rng.below(4);
        let dg = gnb_data(rng, n, p);
        let dm = mnb_data(rng, n, p);
        let mask = random_mask(rng, n);
        nb_cases(em, rng, &dg, &dm, p, mask, true);
    }
    // error branch of the real code: an empty batch in the history / no feature column
    {
        let h: Hist = vec![(vec![vec![1.0], vec![2.0]], vec![0, 1]), (vec![], vec![])];
        op_gnb(em, &h, 1, 0.0);
        let h0: Hist = vec![(vec![vec![], vec![]], vec![0, 1])];
        op_gnb(em, &h0, 0, 0.0);
    }

    // --- mini-batch k-means
    let nkm = if thorough { 3000 } else { 300 };
    for _ in 0..nkm {
        let k = 1 + rng.below(4);
        let p = 1 + rng.below(3);
        let kind = rng.below(3);
        let c0: Rows = (0..k).map(|_| (0..p).map(|_| lattice(rng, kind)).collect()).collect();
        let nb = 1 + rng.below(if thorough { 8 } else { 5 });
        let batches: Vec<Rows> = (0..nb).map(|_| (0..1 + rng.below(6)).map(|_| (0..p).map(|_| lattice(rng, kind)).collect()).collect()).collect();
        let tol = *rng.pick(&[0.5, 1.0, 2.0, 4.0, 1e-4, 100.0]);
        em.count(&format!("km:k={}", k));
        op_km(em, &c0, &batches, tol, rng.next());
    }

    // --- FTRL
    let nft = if thorough { 3000 } else { 300 };
    for _ in 0..nft {
        let p = 1 + rng.below(4);
        let mut hp = [*rng.pick(&[0.005, 0.5, 1.0, 2.0]), *rng.pick(&[0.0, 0.5, 1.0]), *rng.pick(&[0.0, 0.25, 0.5, 1.0]), *rng.pick(&[0.0, 0.5, 1.0])];
        if hp[1] == 0.0 && hp[3] == 0.0 {
            // beta = l2 = 0 makes the very first weight (n = 0) a division by zero in the textbook formula itself
            hp[3] = 0.5;
        }
        // lattice state with |z| on, below and above the l1 threshold
        let z: Vec<f64> = (0..p)
            .map(|_| match rng.below(4) {
                0 => hp[2],
                1 => -hp[2],
                _ => rng.range(-16, 16) as f64 / 8.0,
            })
            .collect();
        let n: Vec<f64> = (0..p).map(|_| (rng.range(0, 6) * rng.range(0, 6)) as f64 / 4.0).collect();
        let rows = 1 + rng.below(6);
        let xs: Rows = (0..rows).map(|_| (0..p).map(|_| rng.range(-3, 3) as f64).collect()).collect();
        let ys: Vec<bool> = (0..rows).map(|_| rng.coin()).collect();
        let probs: Vec<f32> = (0..rows).map(|_| rng.range(0, 16) as f32 / 16.0).collect();
        op_ftrl_update(em, hp, &z, &n, &probs, &xs, &ys);
        // full histories from the seeded initial state
        let nb = 1 + rng.below(if thorough { 10 } else { 5 });
        let batches: Vec<(Rows, Vec<bool>)> = (0..nb)
            .map(|_| {
                let r = 1 + rng.below(5);
                ((0..r).map(|_| (0..p).map(|_| rng.range(-3, 3) as f64).collect()).collect(), (0..r).map(|_| rng.coin()).collect())
            })
            .collect();
        op_ftrl_fit(em, hp, rng.next() % 1000, p, &batches);
    }
}
