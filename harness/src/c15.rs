//! C15 — stub, replaced when the property's harness lands.
use crate::util::{Em, Rng};

pub fn run(_em: &mut Em, _rng: &mut Rng) {}
