//! C15 — incremental fitting: Gaussian / multinomial naive Bayes (`fit_with` batch by batch vs one
//! `fit`, vs the textbook estimates), mini-batch k-means (`fit_with` recurrence, convergence flag,
//! first-batch initialisation, inertia: `c15_km.rs`), FTRL (`update` / `fit_with` recurrence, exact
//! zeros, probabilities: `c15_ftrl.rs`).
//!
//! One request line carries the whole batch history; the response lists the state after every batch.
//! Inputs are lattice values (small integers / dyadic rationals) so sums are exact in f64 whatever
//! the reduction order; the only `~` tokens are values that went through ndarray's Welford variance
//! (fused multiply-add), libm (`ln`, `exp`) or a dot product of non-lattice values.
use crate::util::*;
use linfa::prelude::*;
use linfa_bayes::{GaussianNb, MultinomialNb};
use ndarray::{s, Array1, Array2, ArrayView1, ArrayView2, Axis, ShapeBuilder};
use std::collections::BTreeMap;

#[path = "c15_ftrl.rs"]
mod ftrl;
#[path = "c15_km.rs"]
mod km;

type Rows = Vec<Vec<f64>>;
type Hist = Vec<(Rows, Vec<usize>)>;

fn arr2(rows: &Rows, p: usize) -> Array2<f64> {
    Array2::from_shape_fn((rows.len(), p), |(i, j)| rows[i][j])
}
fn tf(x: f64) -> String {
    format!("~{}", hex64c(x))
}
fn hist_x(h: &Hist) -> String {
    list3(h.iter().map(|(r, _)| r.iter().map(|x| x.iter())), |x| hex64(*x))
}
fn hist_y(h: &Hist) -> String {
    list2(h.iter().map(|(_, l)| l.iter()), |x| x.to_string())
}
fn near(a: f64, b: f64, tol: f64) -> bool {
    if a.is_nan() || b.is_nan() {
        return a.is_nan() && b.is_nan();
    }
    if a.is_infinite() || b.is_infinite() {
        return a == b;
    }
    (a - b).abs() <= tol * (1.0 + a.abs().max(b.abs()))
}
fn near_v(a: &[f64], b: &[f64], tol: f64) -> bool {
    a.len() == b.len() && a.iter().zip(b).all(|(x, y)| near(*x, *y, tol))
}
// ---------------------------------------------------------------- outcome counters (coverage floors)
//
// A case's closure calls `tag("ok:...")` when it REACHED the point the tag names (a fit that succeeded, a
// batch whose assignment was judged, a query whose margin was large enough ...).  The tags of a case that
// ran to completion are added to the distribution; `check` compares them with the baseline of the
// unchanged tree (conf "floors"), so an implementation that stops reaching what the correspondence is
// claimed to cover (every fit an error, every batch an undecidable tie, ...) is reported.
thread_local! {
    static TAGS: std::cell::RefCell<Vec<String>> = const { std::cell::RefCell::new(Vec::new()) };
}
fn tag(t: &str) {
    TAGS.with(|v| v.borrow_mut().push(t.to_string()));
}
fn flush_tags(em: &mut Em, panics_before: u64) {
    let tags: Vec<String> = TAGS.with(|v| v.borrow_mut().drain(..).collect());
    if em.panics == panics_before {
        for t in tags {
            em.count(&t);
        }
    }
}
/// `em.case_valid` + outcome tags
fn case_t(em: &mut Em, op: String, class: &str, f: impl FnOnce(&mut Ctx) -> String) {
    TAGS.with(|v| v.borrow_mut().clear());
    let before = em.panics;
    em.case_valid(op, class, f);
    flush_tags(em, before);
}
/// `em.case` + outcome tags
fn case_u(em: &mut Em, op: String, f: impl FnOnce(&mut Ctx) -> String) {
    TAGS.with(|v| v.borrow_mut().clear());
    let before = em.panics;
    em.case(op, f);
    flush_tags(em, before);
}

/// per-class statistics: (count, prior, first vector, second vector)
type NbState = BTreeMap<usize, (usize, f64, Vec<f64>, Vec<f64>)>;

#[derive(Clone, Copy, PartialEq, Debug)]
enum KeyKind {
    Usize,
    Str,
    Bool,
}

/// The naive-Bayes models keep their statistics private; they are read through the public serde
/// implementation (bincode, so that infinities and NaN survive).  Layout: map length, then per
/// class `key, class_count, prior, array, array`; an `Array1` is `v: u8, dim: [u64; 1], data: seq`.
/// `key` is a `usize` (8 bytes), a `String` (length + bytes, written `L<number>` by the harness) or a
/// `bool` (1 byte; `distinct` lists the at most two labels it stands for); floats are 8 or 4 bytes.
fn nb_state_gen(bytes: &[u8], key: KeyKind, is_f32: bool, distinct: &[usize]) -> NbState {
    let mut pos = 0usize;
    let u64_ = |pos: &mut usize| {
        let v = u64::from_le_bytes(bytes[*pos..*pos + 8].try_into().unwrap());
        *pos += 8;
        v
    };
    let fl = |pos: &mut usize| -> f64 {
        if is_f32 {
            let v = f32::from_bits(u32::from_le_bytes(bytes[*pos..*pos + 4].try_into().unwrap()));
            *pos += 4;
            v as f64
        } else {
            let v = f64::from_bits(u64::from_le_bytes(bytes[*pos..*pos + 8].try_into().unwrap()));
            *pos += 8;
            v
        }
    };
    let mut out = BTreeMap::new();
    let nclass = u64_(&mut pos);
    for _ in 0..nclass {
        let key = match key {
            KeyKind::Usize => u64_(&mut pos) as usize,
            KeyKind::Str => {
                let len = u64_(&mut pos) as usize;
                let s = std::str::from_utf8(&bytes[pos..pos + len]).expect("utf8 label").to_string();
                pos += len;
                s[1..].parse::<usize>().expect("label written by the harness")
            }
            KeyKind::Bool => {
                let b = bytes[pos];
                pos += 1;
                assert!(b <= 1, "bool label");
                distinct[b as usize]
            }
        };
        let cnt = u64_(&mut pos) as usize;
        let prior = fl(&mut pos);
        let arr = |pos: &mut usize| -> Vec<f64> {
            assert_eq!(bytes[*pos], 1, "ndarray serde version");
            *pos += 1;
            let dim = u64::from_le_bytes(bytes[*pos..*pos + 8].try_into().unwrap());
            let len = u64::from_le_bytes(bytes[*pos + 8..*pos + 16].try_into().unwrap());
            assert_eq!(dim, len);
            *pos += 16;
            (0..len).map(|_| fl(pos)).collect()
        };
        let a = arr(&mut pos);
        let b = arr(&mut pos);
        out.insert(key, (cnt, prior, a, b));
    }
    assert_eq!(pos, bytes.len(), "whole model consumed");
    out
}
fn nb_state<M: serde::Serialize>(m: &M) -> NbState {
    nb_state_gen(&bincode::serialize(m).expect("model serialises"), KeyKind::Usize, false, &[])
}
fn show_state(s: &NbState, a: &str, b: &str) -> String {
    if s.is_empty() {
        return "-".into();
    }
    s.iter().map(|(c, (n, pr, v1, v2))| format!("c={}/n={}/pr={}/{}={}/{}={}", c, n, hex64c(*pr), a, list(v1.iter(), |x| hex64c(*x)), b, list(v2.iter(), |x| tf(*x)))).collect::<Vec<_>>().join(";")
}
fn concat(h: &[(Rows, Vec<usize>)]) -> (Rows, Vec<usize>) {
    let mut r = vec![];
    let mut l = vec![];
    for (a, b) in h {
        r.extend(a.iter().cloned());
        l.extend(b.iter().cloned());
    }
    (r, l)
}
fn col_var(rows: &[&Vec<f64>], j: usize) -> (f64, f64) {
    let n = rows.len() as f64;
    let mean = rows.iter().map(|r| r[j]).sum::<f64>() / n;
    let var = rows.iter().map(|r| (r[j] - mean) * (r[j] - mean)).sum::<f64>() / n;
    (mean, var)
}
fn distinct_labels(h: &Hist) -> Vec<usize> {
    let mut v: Vec<usize> = h.iter().flat_map(|(_, l)| l.iter().cloned()).collect();
    v.sort();
    v.dedup();
    v
}

// ------------------------------------------------------------ entry-point variants (scalar, label type, memory layout)

/// label types of the variants: the same history with the labels written as `String` / `bool`
trait VLabel: linfa::Label + serde::Serialize + 'static {
    const KIND: KeyKind;
    const NAME: &'static str;
    fn mk(l: usize, distinct: &[usize]) -> Self;
    fn back(&self, distinct: &[usize]) -> usize;
}
impl VLabel for usize {
    const KIND: KeyKind = KeyKind::Usize;
    const NAME: &'static str = "usize";
    fn mk(l: usize, _: &[usize]) -> Self {
        l
    }
    fn back(&self, _: &[usize]) -> usize {
        *self
    }
}
impl VLabel for String {
    const KIND: KeyKind = KeyKind::Str;
    const NAME: &'static str = "string";
    fn mk(l: usize, _: &[usize]) -> Self {
        format!("L{}", l)
    }
    fn back(&self, _: &[usize]) -> usize {
        self[1..].parse().unwrap()
    }
}
impl VLabel for bool {
    const KIND: KeyKind = KeyKind::Bool;
    const NAME: &'static str = "bool";
    fn mk(l: usize, distinct: &[usize]) -> Self {
        distinct.iter().position(|d| *d == l).expect("label of the history") == 1
    }
    fn back(&self, distinct: &[usize]) -> usize {
        distinct[*self as usize]
    }
}
const LAYOUTS: [&str; 6] = ["owned", "fview", "strided", "rowrev", "colrev", "inverted"];
/// backing storage for a record matrix: C order, Fortran order, every second row / all but the last column
/// of a larger matrix (a non-contiguous view), and three layouts with NEGATIVE strides whose memory is
/// contiguous (`as_slice_memory_order()` answers `Some`, in an order that is not the logical one): rows stored
/// backwards and read through `slice(s![..;-1, ..])`, columns stored backwards and read through
/// `slice(s![.., ..;-1])`, both backwards in Fortran order and read after `invert_axis` on both axes
fn mk_store<F: linfa::Float>(rows: &Rows, p: usize, layout: usize) -> Array2<F> {
    let n = rows.len();
    match layout {
        1 => Array2::from_shape_fn((n, p).f(), |(i, j)| F::cast(rows[i][j])),
        2 => Array2::from_shape_fn((2 * n, p + 1), |(i, j)| if i % 2 == 0 && j < p { F::cast(rows[i / 2][j]) } else { F::cast(-77.0) }),
        3 => Array2::from_shape_fn((n, p), |(i, j)| F::cast(rows[n - 1 - i][j])),
        4 => Array2::from_shape_fn((n, p), |(i, j)| F::cast(rows[i][p - 1 - j])),
        5 => Array2::from_shape_fn((n, p).f(), |(i, j)| F::cast(rows[n - 1 - i][p - 1 - j])),
        _ => Array2::from_shape_fn((n, p), |(i, j)| F::cast(rows[i][j])),
    }
}
fn mk_view<F: linfa::Float>(store: &Array2<F>, p: usize, layout: usize) -> ArrayView2<'_, F> {
    match layout {
        2 => store.slice(s![..;2, ..p]),
        3 => store.slice(s![..;-1, ..]),
        4 => store.slice(s![.., ..;-1]),
        5 => {
            let mut v = store.view();
            v.invert_axis(Axis(0));
            v.invert_axis(Axis(1));
            v
        }
        _ => store.view(),
    }
}
/// targets of a batch: stored backwards and read through a reversed view for the layouts whose rows are
fn mk_tstore<L: Clone>(ys: &[L], layout: usize) -> Array1<L> {
    if layout == 3 || layout == 5 {
        ys.iter().rev().cloned().collect()
    } else {
        ys.iter().cloned().collect()
    }
}
fn mk_tview<L>(store: &Array1<L>, layout: usize) -> ArrayView1<'_, L> {
    if layout == 3 || layout == 5 {
        store.slice(s![..;-1])
    } else {
        store.view()
    }
}

macro_rules! nb_variant {
    ($name:ident, $model:ident, $setter:ident) => {
        /// the history fed through `fit_with` on `DatasetView`s of the given scalar / label type / layout;
        /// states after every batch (labels mapped back) and the predictions for `qs`
        fn $name<F: linfa::Float + serde::Serialize, L: VLabel>(h: &Hist, p: usize, smoothing: f64, layout: usize, distinct: &[usize], qs: &Rows, pred_if: &dyn Fn(&NbState) -> bool) -> (Vec<NbState>, Option<Vec<usize>>) {
            let params = $model::<F, L>::params().$setter(F::cast(smoothing)).check().expect("valid parameters");
            let mut model: Option<$model<F, L>> = None;
            let mut states = vec![];
            for (rows, labels) in h {
                let store = mk_store::<F>(rows, p, layout);
                let ys: Array1<L> = mk_tstore(&labels.iter().map(|l| L::mk(*l, distinct)).collect::<Vec<_>>(), layout);
                let ds = DatasetView::new(mk_view(&store, p, layout), mk_tview(&ys, layout));
                model = params.fit_with(model, &ds).expect("fit_with on a valid batch");
                let bytes = bincode::serialize(model.as_ref().unwrap()).expect("model serialises");
                states.push(nb_state_gen(&bytes, L::KIND, std::mem::size_of::<F>() == 4, distinct));
            }
            // predictions only where the posterior of the final model is defined (the arg-max of the real code
            // panics on NaN scores: zero variance without smoothing, alpha = 0 with unseen features)
            if !pred_if(states.last().unwrap()) {
                return (states, None);
            }
            let qstore = mk_store::<F>(qs, p, layout);
            let pred = model.as_ref().unwrap().predict(&mk_view(&qstore, p, layout));
            (states, Some(pred.iter().map(|l| l.back(distinct)).collect()))
        }
    };
}
nb_variant!(gnb_variant, GaussianNb, var_smoothing);
nb_variant!(mnb_variant, MultinomialNb, alpha);

// ---------------------------------------------------------------- Gaussian NB

fn batch_eps(rows: &Rows, p: usize, vs: f64) -> f64 {
    let all: Vec<&Vec<f64>> = rows.iter().collect();
    vs * (0..p).map(|j| col_var(&all, j).1).fold(f64::NEG_INFINITY, f64::max)
}

/// textbook estimate: class frequencies, per-class means, per-class variances + `eps(c)`
fn gnb_stats(rows: &Rows, labels: &[usize], p: usize, eps: &dyn Fn(usize) -> f64) -> NbState {
    let mut out = BTreeMap::new();
    let mut classes: Vec<usize> = labels.to_vec();
    classes.sort();
    classes.dedup();
    for c in classes {
        let rc: Vec<&Vec<f64>> = rows.iter().zip(labels).filter(|(_, l)| **l == c).map(|(r, _)| r).collect();
        let mv: Vec<(f64, f64)> = (0..p).map(|j| col_var(&rc, j)).collect();
        let e = eps(c);
        out.insert(c, (rc.len(), rc.len() as f64 / rows.len() as f64, mv.iter().map(|x| x.0).collect(), mv.iter().map(|x| x.1 + e).collect()));
    }
    out
}
fn gnb_textbook(rows: &Rows, labels: &[usize], p: usize, vs: f64) -> NbState {
    let eps = batch_eps(rows, p, vs);
    gnb_stats(rows, labels, p, &|_| eps)
}
/// What `fit_with` stores after the history (Lean: `gnb_replay_any_smoothing`): everything as in the
/// textbook estimate except that the smoothing term of class c is `Σ_b eps_b · n_cb / n_c`, the mean of
/// the per-batch epsilons weighted by the rows of the class in each batch.  Second component: the
/// weighted term equals the textbook epsilon for every class (then the open finding does not apply).
fn gnb_code_law(h: &[(Rows, Vec<usize>)], p: usize, vs: f64) -> (NbState, bool) {
    let (rows, labels) = concat(h);
    let eps_all = batch_eps(&rows, p, vs);
    let eps_b: Vec<f64> = h.iter().map(|(r, _)| batch_eps(r, p, vs)).collect();
    let eff = |c: usize| -> f64 {
        let mut s = 0.0;
        let mut n = 0usize;
        for (b, (_, l)) in h.iter().enumerate() {
            let m = l.iter().filter(|x| **x == c).count();
            s += eps_b[b] * m as f64;
            n += m;
        }
        s / n as f64
    };
    let st = gnb_stats(&rows, &labels, p, &eff);
    let uniform = st.keys().all(|c| (eff(*c) - eps_all).abs() <= 1e-13 * (1.0 + eps_all.abs()));
    (st, uniform)
}

const TOL: f64 = 1e-10;

/// tolerances of one comparison: means, second vector
#[derive(Clone, Copy)]
struct Tols {
    mean: f64,
    second: f64,
    /// priors and multinomial feature counts compared bit for bit (f64 on lattice inputs)
    exact: bool,
}
const T64: Tols = Tols { mean: TOL, second: TOL, exact: true };
/// f64 on real-valued (non-lattice) inputs: sums are no longer exact, everything is judged at 1e-10 (1 + |x|)
/// (<= 600 rows of magnitude <= 150: a few thousand roundings of 1.1e-16 relative, < 1e-12)
const T64R: Tols = Tols { mean: TOL, second: TOL, exact: false };
/// f32 instantiation: lattice sums stay exact (|values| <= 8, quarters, <= 128 rows: all partial sums are
/// multiples of 1/16 below 2^24/16), so the error is that of a few roundings (6e-8 relative each) per row and
/// per batch: pooled mean 3 roundings per batch, <= 128 batches: 2.3e-5 worst case; Welford / pooled variance
/// <= ~3 roundings per row plus 5 per batch: 4e-5 worst case (twice the bound for means, five times for variances)
const T32: Tols = Tols { mean: 5e-5, second: 2e-4, exact: false };

fn cmp_states(ctx: &mut Ctx, what: &str, got: &NbState, want: &NbState, kind: &str, second_clause: &str, var_class: &str, multinomial: bool, t: Tols) {
    let keys_ok = got.keys().collect::<Vec<_>>() == want.keys().collect::<Vec<_>>();
    ctx.require(keys_ok, "counts_priors", kind, || format!("{}: classes {:?}, textbook {:?}", what, got.keys().collect::<Vec<_>>(), want.keys().collect::<Vec<_>>()));
    if !keys_ok {
        return;
    }
    for (c, (n, pr, v1, v2)) in got {
        let (wn, wpr, w1, w2) = &want[c];
        // the prior is one division of two exactly representable counts: exact in f64, one f32 rounding otherwise
        let pr_ok = if t.exact || t.mean == TOL { pr == wpr } else { near(*pr, *wpr, 1e-7) };
        ctx.require(n == wn && pr_ok, "counts_priors", kind, || format!("{}: class {} count {} prior {}, textbook {} / {}", what, c, n, pr, wn, wpr));
        if multinomial {
            // multinomial: first vector = additive counts (exact), second = smoothed log-frequencies
            ctx.require(if t.exact { v1 == w1 } else { near_v(v1, w1, t.mean) }, "feature_counts", kind, || format!("{}: class {} feature counts {:?}, textbook {:?}", what, c, v1, w1));
            ctx.require(near_v(v2, w2, t.second), second_clause, kind, || format!("{}: class {} log-frequencies {:?}, textbook {:?}", what, c, v2, w2));
        } else {
            ctx.require(near_v(v1, w1, t.mean), "mean_replay", kind, || format!("{}: class {} mean {:?}, textbook {:?}", what, c, v1, w1));
            ctx.require(near_v(v2, w2, t.second), second_clause, var_class, || format!("{}: class {} variance {:?}, expected {:?}", what, c, v2, w2));
        }
    }
}

/// class of the textbook variance / prediction clauses.  The open finding (epsilon taken from the current
/// batch) is confined to `positive:batches=multi` with batch epsilons that do not average to the
/// textbook epsilon; histories whose batches share the epsilon of the whole data get their own class,
/// which is not listed, so the textbook variance is enforced there.
fn gnb_class(vs: f64, nb: usize, uniform: bool) -> String {
    let base = format!("gnb:var_smoothing={}:batches={}", if vs == 0.0 { "zero" } else { "positive" }, if nb <= 1 { "single" } else { "multi" });
    if vs != 0.0 && nb > 1 && uniform {
        format!("{}:eps=uniform", base)
    } else {
        base
    }
}

/// every prefix of the history against (a) the textbook estimate of the data seen so far and (b) the
/// exact law of the code for any smoothing (row-weighted batch epsilons)
fn gnb_oracle(ctx: &mut Ctx, h: &Hist, p: usize, vs: f64, states: &[NbState], kind: &str, t: Tols) {
    for (i, st) in states.iter().enumerate() {
        let pre = &h[..=i];
        let (r, l) = concat(pre);
        let w = gnb_textbook(&r, &l, p, vs);
        let (law, uniform) = gnb_code_law(pre, p, vs);
        let what = format!("after batch {} of {}", i + 1, h.len());
        cmp_states(ctx, &what, st, &w, kind, "var_replay", &gnb_class(vs, i + 1, uniform), false, t);
        // independent of the open finding: counts, means as above; variance = population variance +
        // Σ_b eps_b n_cb / n_c exactly (an absent class keeps its epsilon, a new class gets the batch's)
        // (a repair of the open finding — stored variance = textbook variance, which is what the statement asks
        // for — satisfies this clause as well: either value is accepted, anything else is a failure)
        for (c, (_, _, _, v2)) in st {
            if let Some((_, _, _, w2)) = law.get(c) {
                let textbook_ok = w.get(c).map(|x| near_v(v2, &x.3, t.second)).unwrap_or(false);
                ctx.require(near_v(v2, w2, t.second) || textbook_ok, "var_weighted_eps", kind, || format!("{}: class {} variance {:?}, population variance + row-weighted mean of the batch epsilons {:?} (textbook {:?})", what, c, v2, w2, w.get(c).map(|x| x.3.clone())));
            }
        }
    }
}

fn gnb_run(h: &Hist, p: usize, vs: f64) -> Result<(Vec<NbState>, Option<GaussianNb<f64, usize>>), String> {
    let params = GaussianNb::<f64, usize>::params().var_smoothing(vs).check().map_err(|e| e.to_string())?;
    let mut model: Option<GaussianNb<f64, usize>> = None;
    let mut states = vec![];
    for (rows, labels) in h {
        let ds = Dataset::new(arr2(rows, p), Array1::from(labels.clone()));
        model = params.fit_with(model, &ds).map_err(|e| e.to_string())?;
        states.push(nb_state(model.as_ref().unwrap()));
    }
    Ok((states, model))
}

fn op_gnb(em: &mut Em, h: &Hist, p: usize, vs: f64) {
    let op = format!("gnb vs={} p={} x={} y={}", hex64(vs), p, hist_x(h), hist_y(h));
    let valid = p > 0 && h.iter().all(|(r, _)| !r.is_empty());
    let body = |ctx: &mut Ctx| {
        let (states, _) = match gnb_run(h, p, vs) {
            Ok(x) => x,
            Err(e) => {
                // the only errors of the real code are the two guards (no feature column, empty batch)
                ctx.require(!valid, "fit_succeeds", "gnb", || format!("fit_with returned an error on a valid history: {}", e));
                return "err".to_string();
            }
        };
        tag("ok:gnb:fitted");
        if h.len() > 1 {
            tag(if vs > 0.0 { "ok:gnb:fitted:multi_batch:smoothing" } else { "ok:gnb:fitted:multi_batch:no_smoothing" });
        }
        let (rows, labels) = concat(h);
        let want = gnb_textbook(&rows, &labels, p, vs);
        let params = GaussianNb::<f64, usize>::params().var_smoothing(vs).check().unwrap();
        let ds = Dataset::new(arr2(&rows, p), Array1::from(labels.clone()));
        let batch = nb_state(&params.fit(&ds).expect("batch fit"));
        cmp_states(ctx, "single fit on the whole data", &batch, &want, "gnb:batch", "var_replay", "gnb:batch", false, T64);
        gnb_oracle(ctx, h, p, vs, &states, "gnb", T64);
        format!("ok {}", states.iter().map(|s| show_state(s, "th", "sg")).collect::<Vec<_>>().join(" "))
    };
    if valid {
        case_t(em, op, "gnb", body)
    } else {
        case_u(em, op, body)
    }
}

/// one `fit` on the whole data; the driver answers through the TEXTBOOK model (`gnbTextbookState`), not
/// through the incremental step
fn op_gnb_batch(em: &mut Em, rows: &Rows, labels: &[usize], p: usize, vs: f64) {
    let h: Hist = vec![(rows.clone(), labels.to_vec())];
    let op = format!("gnb_batch vs={} p={} x={} y={}", hex64(vs), p, hist_x(&h), hist_y(&h));
    case_t(em, op, "gnb_batch", |ctx| {
        let params = GaussianNb::<f64, usize>::params().var_smoothing(vs).check().unwrap();
        let ds = Dataset::new(arr2(rows, p), Array1::from(labels.to_vec()));
        let batch = nb_state(&params.fit(&ds).expect("batch fit"));
        tag("ok:gnb_batch:fitted");
        cmp_states(ctx, "single fit on the whole data", &batch, &gnb_textbook(rows, labels, p, vs), "gnb:batch", "var_replay", "gnb:batch", false, T64);
        format!("ok {}", show_state(&batch, "th", "sg"))
    });
}
fn op_mnb_batch(em: &mut Em, rows: &Rows, labels: &[usize], p: usize, alpha: f64) {
    let h: Hist = vec![(rows.clone(), labels.to_vec())];
    let op = format!("mnb_batch alpha={} p={} x={} y={}", hex64(alpha), p, hist_x(&h), hist_y(&h));
    case_t(em, op, "mnb_batch", |ctx| {
        let params = MultinomialNb::<f64, usize>::params().alpha(alpha).check().unwrap();
        let ds = Dataset::new(arr2(rows, p), Array1::from(labels.to_vec()));
        let batch = nb_state(&params.fit(&ds).expect("batch fit"));
        tag("ok:mnb_batch:fitted");
        cmp_states(ctx, "single fit on the whole data", &batch, &mnb_textbook(rows, labels, p, alpha), "mnb:batch", "log_prob", "mnb:batch", true, T64);
        format!("ok {}", show_state(&batch, "fc", "lp"))
    });
}

/// Count-size region (oracle only; the data are rebuilt from the request's integers): ONE class fed in two or
/// three batches of tens of thousands of rows, so that `count_new * count_old` in the pooled-variance weight
/// passes 2^32 (a product taken through `u32` / `i32` wraps) and is not representable in an `f32` (a product
/// taken through `f32` is off by 6e-8 relative; the batches have means 2 and 6, so the weight term is ~4 of a
/// variance of ~6 and the error 2e-7 against a tolerance of 1e-9).  Values are small integers: every sum is exact.
fn op_gnb_big(em: &mut Em, sizes: &[usize], seed: u64, vs: f64) {
    let op = format!("#gnb_big sizes={} seed={} vs={}", list(sizes.iter(), |x| x.to_string()), seed, hex64(vs));
    case_t(em, op, "gnb_big", |ctx| {
        let mut r = Rng::new(seed);
        let h: Hist = sizes.iter().enumerate().map(|(b, n)| ((0..*n).map(|_| vec![(r.range(0, 4) + 4 * (b as i64 % 2)) as f64]).collect(), vec![5usize; *n])).collect();
        let (states, _) = gnb_run(&h, 1, vs).expect("valid history");
        tag("ok:gnb_big:fitted");
        // first principles in integers: n, Σx, Σx² are exact
        let mut eps_w = 0.0;
        let (mut n, mut sx, mut sxx) = (0f64, 0f64, 0f64);
        for (i, (rows, _)) in h.iter().enumerate() {
            let (bn, bs, bss) = rows.iter().fold((0f64, 0f64, 0f64), |a, x| (a.0 + 1.0, a.1 + x[0], a.2 + x[0] * x[0]));
            eps_w += vs * (bss / bn - (bs / bn) * (bs / bn)) * bn;
            n += bn;
            sx += bs;
            sxx += bss;
            let (cnt, pr, th, sg) = &states[i][&5];
            let (mean, var) = (sx / n, sxx / n - (sx / n) * (sx / n));
            ctx.require(*cnt as f64 == n && *pr == 1.0, "counts_priors", "gnb_big", || format!("after batch {}: count {} prior {}, rows fed {}", i + 1, cnt, pr, n));
            ctx.require(near(th[0], mean, 1e-12), "mean_replay", "gnb_big", || format!("after batch {}: mean {} but the mean of the {} rows fed is {}", i + 1, th[0], n, mean));
            ctx.require(near(sg[0], var + eps_w / n, 1e-9), "var_weighted_eps", "gnb_big", || format!("after batch {}: variance {} but population variance + weighted epsilon of the {} rows fed is {}", i + 1, sg[0], n, var + eps_w / n));
        }
        "-".to_string()
    });
}

/// joint log-likelihoods per class: (class, score, Σ|terms| — the scale of the rounding noise)
fn gnb_jll(st: &NbState, x: &[f64]) -> Vec<(usize, f64, f64)> {
    st.iter()
        .map(|(c, (_, pr, th, sg))| {
            let lt: Vec<f64> = sg.iter().map(|s| (2.0 * std::f64::consts::PI * s).ln()).collect();
            let a: f64 = lt.iter().sum::<f64>() * -0.5;
            let q: f64 = x.iter().zip(th).zip(sg).map(|((x, t), s)| (x - t) * (x - t) / s).sum::<f64>() * 0.5;
            (*c, a - q + pr.ln(), 0.5 * lt.iter().map(|v| v.abs()).sum::<f64>() + q.abs() + pr.ln().abs())
        })
        .collect()
}
fn mnb_jll(st: &NbState, x: &[f64]) -> Vec<(usize, f64, f64)> {
    st.iter()
        .map(|(c, (_, pr, _, lp))| {
            let terms: Vec<f64> = x.iter().zip(lp).map(|(a, b)| a * b).collect();
            (*c, terms.iter().sum::<f64>() + pr.ln(), terms.iter().map(|v| v.abs()).sum::<f64>() + pr.ln().abs())
        })
        .collect()
}
/// (best class, margin to the second best relative to `1 + |best score|` — the number written into the
/// response, same formula as the driver —, margin relative to `1 + largest Σ|terms|` — what the oracle
/// judges: scores can be huge or cancel when a smoothed variance is tiny, the rounding noise scales with
/// the terms)
fn best(scores: &[(usize, f64, f64)]) -> (usize, f64, f64) {
    let mut b = scores[0];
    for s in scores {
        if s.1 > b.1 {
            b = *s;
        }
    }
    let second = scores.iter().filter(|s| s.0 != b.0).map(|s| s.1).fold(f64::NEG_INFINITY, f64::max);
    let scale = scores.iter().map(|s| if s.2.is_finite() { s.2 } else { 0.0 }).fold(0.0, f64::max);
    (b.0, (b.1 - second) / (1.0 + b.1.abs()), (b.1 - second) / (1.0 + scale))
}
fn scores_defined(sc: &[(usize, f64, f64)]) -> bool {
    sc.iter().all(|s| !s.1.is_nan()) && sc.iter().any(|s| s.1.is_finite())
}

type ScoreFn<'a> = &'a dyn Fn(&[f64]) -> Vec<(usize, f64, f64)>;
/// shared oracle of the prediction ops; `min_rel` = smallest relative margin that is judged
fn pred_oracle(ctx: &mut Ctx, kind: &str, eq_class: &str, qs: &Rows, inc_pred: &[usize], batch_pred: Option<&[usize]>, inc_scores: ScoreFn, text_scores: Option<ScoreFn>, min_rel: f64) -> f64 {
    let mut min_margin = f64::INFINITY;
    for (i, q) in qs.iter().enumerate() {
        let (bc, mr, m) = best(&inc_scores(q));
        if mr < min_margin {
            min_margin = mr;
        }
        if m > min_rel {
            tag(&format!("ok:pred_judged:{}", &kind[..3]));
            ctx.require(inc_pred[i] == bc, "predict_is_argmax_posterior", kind, || format!("query {:?}: predicted {}, posterior of the model's own statistics is maximal at {} (relative margin {})", q, inc_pred[i], bc, m));
        }
        if let Some(ts) = text_scores {
            let (tc, _, tm) = best(&ts(q));
            if tm > min_rel {
                tag(&format!("ok:pred_vs_textbook_judged:{}", &kind[..3]));
                if let Some(bp) = batch_pred {
                    ctx.require(bp[i] == tc, "batch_predict_is_textbook_argmax", kind, || format!("query {:?}: batch model predicts {}, textbook posterior maximal at {}", q, bp[i], tc));
                }
                ctx.require(inc_pred[i] == tc, "predict_equals_batch", eq_class, || format!("query {:?}: incremental model predicts {}, batch/textbook {} (relative textbook margin {})", q, inc_pred[i], tc, tm));
            }
        }
    }
    min_margin
}

fn op_gnb_pred(em: &mut Em, h: &Hist, p: usize, vs: f64, qs: &Rows) {
    let op = format!("gnb_pred vs={} p={} x={} y={} q={}", hex64(vs), p, hist_x(h), hist_y(h), list2(qs.iter().map(|x| x.iter()), |x| hex64(*x)));
    case_t(em, op, "gnb_pred", |ctx| {
        let (states, model) = gnb_run(h, p, vs).expect("valid history");
        let model = model.unwrap();
        let q = arr2(qs, p);
        let inc_pred = model.predict(&q).to_vec();
        tag("ok:gnb_pred:predicted");
        let (rows, labels) = concat(h);
        let params = GaussianNb::<f64, usize>::params().var_smoothing(vs).check().unwrap();
        let ds = Dataset::new(arr2(&rows, p), Array1::from(labels.clone()));
        let batch_pred = params.fit(&ds).unwrap().predict(&q).to_vec();
        let text = gnb_textbook(&rows, &labels, p, vs);
        let last = states.last().unwrap().clone();
        let (_, uniform) = gnb_code_law(h, p, vs);
        let m = pred_oracle(ctx, "gnb_pred", &gnb_class(vs, h.len(), uniform), qs, &inc_pred, Some(&batch_pred), &|x| gnb_jll(&last, x), Some(&|x| gnb_jll(&text, x)), 1e-8);
        format!("ok pred={} margin={}", list(inc_pred.iter(), |x| x.to_string()), tf(m))
    });
}

/// entry-point variants of the same history: f32, `String` / `bool` labels, Fortran-ordered and strided
/// `DatasetView`s.  Oracle only (the model side is the f64/usize/owned run of `gnb`): every prefix against
/// the textbook estimate and the weighted-epsilon law, predictions against the arg-max of the model's own
/// statistics.
fn op_gnb_var(em: &mut Em, h: &Hist, p: usize, vs: f64, qs: &Rows, f32_: bool, lab: usize, layout: usize, real: bool) {
    let distinct = distinct_labels(h);
    let lab = if lab == 2 && distinct.len() > 2 { 1 } else { lab };
    let labname = ["usize", "string", "bool"][lab];
    let kind = format!("gnb_var:{}:{}:{}{}", if f32_ { "f32" } else { "f64" }, labname, LAYOUTS[layout], if real { ":real" } else { "" });
    let op = format!("#gnb_var f={} lab={} layout={} vs={} p={} x={} y={} q={}", if f32_ { 32 } else { 64 }, labname, LAYOUTS[layout], hex64(vs), p, hist_x(h), hist_y(h), list2(qs.iter().map(|x| x.iter()), |x| hex64(*x)));
    em.count(&format!("variant:{}", kind));
    case_t(em, op, &kind, |ctx| {
        let pos = |st: &NbState| st.values().all(|(_, _, _, sg)| sg.iter().all(|v| *v > 0.0 && v.is_finite()));
        let (states, pred) = match (f32_, lab) {
            (false, 0) => gnb_variant::<f64, usize>(h, p, vs, layout, &distinct, qs, &pos),
            (false, 1) => gnb_variant::<f64, String>(h, p, vs, layout, &distinct, qs, &pos),
            (false, _) => gnb_variant::<f64, bool>(h, p, vs, layout, &distinct, qs, &pos),
            (true, 0) => gnb_variant::<f32, usize>(h, p, vs, layout, &distinct, qs, &pos),
            (true, 1) => gnb_variant::<f32, String>(h, p, vs, layout, &distinct, qs, &pos),
            (true, _) => gnb_variant::<f32, bool>(h, p, vs, layout, &distinct, qs, &pos),
        };
        // f32: var_smoothing itself is rounded to f32 (1e-9 is not representable); the oracle uses the rounded value
        let vs_eff = if f32_ { vs as f32 as f64 } else { vs };
        tag(&format!("ok:gnb_var:{}:{}:{}", if f32_ { "f32" } else { "f64" }, labname, LAYOUTS[layout]));
        gnb_oracle(ctx, h, p, vs_eff, &states, &kind, if f32_ { T32 } else { T64 });
        let _ = real;
        let last = states.last().unwrap().clone();
        if let Some(pred) = pred {
            let (rows, labels) = concat(h);
            let text = gnb_textbook(&rows, &labels, p, vs_eff);
            let (_, uniform) = gnb_code_law(h, p, vs_eff);
            let cls = gnb_class(vs, h.len(), uniform);
            let text_ok = text.values().all(|(_, _, _, sg)| sg.iter().all(|v| *v > 0.0));
            // f32: the scores are computed in f32 (~1e-6 of the terms), judged against the model's own (exactly
            // read) statistics only; the f64 variants are also compared with the textbook posterior
            let min_rel = if f32_ { 1e-3 } else { 1e-8 };
            let ts = |x: &[f64]| gnb_jll(&text, x);
            let ts_opt: Option<ScoreFn> = if text_ok && !f32_ { Some(&ts) } else { None };
            pred_oracle(ctx, &kind, &cls, qs, &pred, None, &|x| gnb_jll(&last, x), ts_opt, min_rel);
        }
        "-".to_string()
    });
}

// ---------------------------------------------------------------- multinomial NB

fn mnb_logp(fc: &[f64], alpha: f64) -> Vec<f64> {
    let tot: f64 = fc.iter().map(|x| x + alpha).sum();
    fc.iter().map(|x| (x + alpha).ln() - tot.ln()).collect()
}
fn mnb_textbook(rows: &Rows, labels: &[usize], p: usize, alpha: f64) -> NbState {
    let mut out = BTreeMap::new();
    let mut classes: Vec<usize> = labels.to_vec();
    classes.sort();
    classes.dedup();
    for c in classes {
        let rc: Vec<&Vec<f64>> = rows.iter().zip(labels).filter(|(_, l)| **l == c).map(|(r, _)| r).collect();
        let fc: Vec<f64> = (0..p).map(|j| rc.iter().map(|r| r[j]).sum()).collect();
        let lp = mnb_logp(&fc, alpha);
        out.insert(c, (rc.len(), rc.len() as f64 / rows.len() as f64, fc, lp));
    }
    out
}
fn mnb_run(h: &Hist, p: usize, alpha: f64) -> Result<(Vec<NbState>, Option<MultinomialNb<f64, usize>>), String> {
    let params = MultinomialNb::<f64, usize>::params().alpha(alpha).check().map_err(|e| e.to_string())?;
    let mut model: Option<MultinomialNb<f64, usize>> = None;
    let mut states = vec![];
    for (rows, labels) in h {
        let ds = Dataset::new(arr2(rows, p), Array1::from(labels.clone()));
        model = params.fit_with(model, &ds).map_err(|e| e.to_string())?;
        states.push(nb_state(model.as_ref().unwrap()));
    }
    Ok((states, model))
}
fn mnb_oracle(ctx: &mut Ctx, h: &Hist, p: usize, alpha: f64, states: &[NbState], kind: &str, t: Tols) {
    for (i, st) in states.iter().enumerate() {
        let (r, l) = concat(&h[..=i]);
        let w = mnb_textbook(&r, &l, p, alpha);
        cmp_states(ctx, &format!("after batch {} of {}", i + 1, h.len()), st, &w, kind, "log_prob", kind, true, t);
    }
}
fn op_mnb(em: &mut Em, h: &Hist, p: usize, alpha: f64) {
    let op = format!("mnb alpha={} p={} x={} y={}", hex64(alpha), p, hist_x(h), hist_y(h));
    // the multinomial `fit_with` has no error path: an empty batch is accepted and changes nothing (the
    // property quantifies over non-empty batches; such histories are compared with the model, a panic there
    // is not an oracle failure)
    let valid = h.iter().all(|(r, _)| !r.is_empty());
    let body = |ctx: &mut Ctx| {
        let (states, _) = match mnb_run(h, p, alpha) {
            Ok(x) => x,
            Err(e) => {
                ctx.require(!valid, "fit_succeeds", "mnb", || format!("fit_with returned an error on a valid history: {}", e));
                return "err".to_string();
            }
        };
        tag("ok:mnb:fitted");
        if h.len() > 1 {
            tag("ok:mnb:fitted:multi_batch");
        }
        if !valid {
            tag("ok:mnb:fitted:with_empty_batch");
            for i in 1..h.len() {
                if h[i].0.is_empty() {
                    ctx.require(states[i] == states[i - 1], "function_of_history", "mnb:empty_batch", || format!("an empty batch changed the model: {:?} -> {:?}", states[i - 1], states[i]));
                }
            }
        }
        let (rows, labels) = concat(h);
        let want = mnb_textbook(&rows, &labels, p, alpha);
        let params = MultinomialNb::<f64, usize>::params().alpha(alpha).check().unwrap();
        let ds = Dataset::new(arr2(&rows, p), Array1::from(labels.clone()));
        let batch = nb_state(&params.fit(&ds).expect("batch fit"));
        cmp_states(ctx, "single fit on the whole data", &batch, &want, "mnb:batch", "log_prob", "mnb:batch", true, T64);
        mnb_oracle(ctx, h, p, alpha, &states, "mnb", T64);
        format!("ok {}", states.iter().map(|s| show_state(s, "fc", "lp")).collect::<Vec<_>>().join(" "))
    };
    if valid {
        case_t(em, op, "mnb", body)
    } else {
        case_u(em, op, body)
    }
}
fn op_mnb_pred(em: &mut Em, h: &Hist, p: usize, alpha: f64, qs: &Rows) {
    let op = format!("mnb_pred alpha={} p={} x={} y={} q={}", hex64(alpha), p, hist_x(h), hist_y(h), list2(qs.iter().map(|x| x.iter()), |x| hex64(*x)));
    case_t(em, op, "mnb_pred", |ctx| {
        let (states, model) = mnb_run(h, p, alpha).expect("valid history");
        let model = model.unwrap();
        let q = arr2(qs, p);
        let inc_pred = model.predict(&q).to_vec();
        tag("ok:mnb_pred:predicted");
        let (rows, labels) = concat(h);
        let params = MultinomialNb::<f64, usize>::params().alpha(alpha).check().unwrap();
        let ds = Dataset::new(arr2(&rows, p), Array1::from(labels.clone()));
        let batch_pred = params.fit(&ds).unwrap().predict(&q).to_vec();
        let text = mnb_textbook(&rows, &labels, p, alpha);
        let last = states.last().unwrap().clone();
        let m = pred_oracle(ctx, "mnb_pred", "mnb_pred", qs, &inc_pred, Some(&batch_pred), &|x| mnb_jll(&last, x), Some(&|x| mnb_jll(&text, x)), 1e-8);
        format!("ok pred={} margin={}", list(inc_pred.iter(), |x| x.to_string()), tf(m))
    });
}
fn op_mnb_var(em: &mut Em, h: &Hist, p: usize, alpha: f64, qs: &Rows, f32_: bool, lab: usize, layout: usize, real: bool) {
    let distinct = distinct_labels(h);
    let lab = if lab == 2 && distinct.len() > 2 { 1 } else { lab };
    let labname = ["usize", "string", "bool"][lab];
    let kind = format!("mnb_var:{}:{}:{}{}", if f32_ { "f32" } else { "f64" }, labname, LAYOUTS[layout], if real { ":real" } else { "" });
    let op = format!("#mnb_var f={} lab={} layout={} alpha={} p={} x={} y={} q={}", if f32_ { 32 } else { 64 }, labname, LAYOUTS[layout], hex64(alpha), p, hist_x(h), hist_y(h), list2(qs.iter().map(|x| x.iter()), |x| hex64(*x)));
    em.count(&format!("variant:{}", kind));
    case_t(em, op, &kind, |ctx| {
        let (rows, labels) = concat(h);
        let text = mnb_textbook(&rows, &labels, p, alpha);
        let defined = |st: &NbState| qs.iter().all(|q| scores_defined(&mnb_jll(st, q)) && scores_defined(&mnb_jll(&text, q)));
        let (states, pred) = match (f32_, lab) {
            (false, 0) => mnb_variant::<f64, usize>(h, p, alpha, layout, &distinct, qs, &defined),
            (false, 1) => mnb_variant::<f64, String>(h, p, alpha, layout, &distinct, qs, &defined),
            (false, _) => mnb_variant::<f64, bool>(h, p, alpha, layout, &distinct, qs, &defined),
            (true, 0) => mnb_variant::<f32, usize>(h, p, alpha, layout, &distinct, qs, &defined),
            (true, 1) => mnb_variant::<f32, String>(h, p, alpha, layout, &distinct, qs, &defined),
            (true, _) => mnb_variant::<f32, bool>(h, p, alpha, layout, &distinct, qs, &defined),
        };
        tag(&format!("ok:mnb_var:{}:{}:{}", if f32_ { "f32" } else { "f64" }, labname, LAYOUTS[layout]));
        // f32 log-frequencies: two f32 logarithms and a subtraction of values <= ~10: 1e-5 is > 10 roundings
        mnb_oracle(ctx, h, p, alpha, &states, &kind, if f32_ { Tols { mean: 5e-5, second: 1e-5, exact: false } } else if real { T64R } else { T64 });
        let last = states.last().unwrap().clone();
        if let Some(pred) = pred {
            let ts = |x: &[f64]| mnb_jll(&text, x);
            let ts_opt: Option<ScoreFn> = if f32_ { None } else { Some(&ts) };
            pred_oracle(ctx, &kind, &kind, qs, &pred, None, &|x| mnb_jll(&last, x), ts_opt, if f32_ { 1e-3 } else { 1e-8 });
        }
        "-".to_string()
    });
}

// ---------------------------------------------------------------- generators

/// cut `rows` into the batches described by `mask` (bit i set = cut after row i)
fn cut<T: Clone>(rows: &[T], mask: u64) -> Vec<Vec<T>> {
    let mut out = vec![];
    let mut cur = vec![];
    for (i, r) in rows.iter().enumerate() {
        cur.push(r.clone());
        if i + 1 == rows.len() || (mask >> i) & 1 == 1 {
            out.push(std::mem::take(&mut cur));
        }
    }
    out
}
fn mk_hist(rows: &Rows, labels: &[usize], mask: u64) -> Hist {
    cut(rows, mask).into_iter().zip(cut(labels, mask)).collect()
}
fn random_mask(rng: &mut Rng, n: usize) -> u64 {
    // few or many cuts
    let dens = *rng.pick(&[1u64, 2, 4, 8]);
    let mut m = 0u64;
    for i in 0..n.saturating_sub(1).min(63) {
        if rng.chance(1, dens) {
            m |= 1 << i;
        }
    }
    m
}
fn lattice(rng: &mut Rng, kind: usize) -> f64 {
    match kind {
        0 => rng.range(-8, 8) as f64,
        1 => rng.range(-32, 32) as f64 / 4.0,
        _ => rng.range(0, 3) as f64, // many duplicates
    }
}
fn gen_labels(rng: &mut Rng, n: usize) -> Vec<usize> {
    let names: &[usize] = *rng.pick(&[&[0usize, 1][..], &[1, 2, 3][..], &[7, 3, 10, 4][..], &[5][..]]);
    let mut l: Vec<usize> = (0..n).map(|_| *rng.pick(names)).collect();
    match rng.below(3) {
        // sorted by class: batches lack classes, new classes appear late
        0 => l.sort(),
        1 => l.sort_by(|a, b| b.cmp(a)),
        _ => {}
    }
    l
}
fn gen_vs(rng: &mut Rng) -> f64 {
    *rng.pick(&[0.0, 0.0, 0.0, 0.125, 0.5, 1e-9, 0.0009765625, 2.0])
}
fn gnb_data(rng: &mut Rng, n: usize, p: usize) -> (Rows, Vec<usize>) {
    let kind = rng.below(3);
    let rows: Rows = (0..n).map(|_| (0..p).map(|_| lattice(rng, kind)).collect()).collect();
    (rows, gen_labels(rng, n))
}
/// column 0 alternates +16 / -16, the other columns stay within [-8, 8]: every batch that is cut at an even
/// row has column-0 variance 256 >= every other variance, so all batch epsilons equal the epsilon of the
/// whole data and incremental fitting must reproduce the textbook estimate for every var_smoothing
fn gnb_balanced(rng: &mut Rng, n: usize, p: usize) -> (Rows, Vec<usize>) {
    let kind = rng.below(3);
    let rows: Rows = (0..n).map(|i| (0..p).map(|j| if j == 0 { if i % 2 == 0 { 16.0 } else { -16.0 } } else { lattice(rng, kind) }).collect()).collect();
    (rows, gen_labels(rng, n))
}
fn mnb_data(rng: &mut Rng, n: usize, p: usize) -> (Rows, Vec<usize>) {
    let hi = *rng.pick(&[1i64, 3, 6]);
    let rows: Rows = (0..n).map(|_| (0..p).map(|_| rng.range(0, hi) as f64).collect()).collect();
    (rows, gen_labels(rng, n))
}
fn gnb_pred_ok(h: &Hist, p: usize, vs: f64) -> bool {
    // every class needs a positive variance in every feature for the posterior to be defined; with
    // var_smoothing > 0 a zero-variance class has variance epsilon > 0 and is judged
    let (rows, labels) = concat(h);
    let t = gnb_textbook(&rows, &labels, p, vs);
    let all_pos = |s: &NbState| s.values().all(|(_, _, _, sg)| sg.iter().all(|v| *v > 0.0 && v.is_finite()));
    // the real code runs here outside a case: a panic must not take the harness down (the op is then emitted
    // and the panic is recorded inside the case)
    let r = std::panic::catch_unwind(std::panic::AssertUnwindSafe(|| gnb_run(h, p, vs)));
    match r {
        Ok(Ok((states, _))) => all_pos(&t) && all_pos(states.last().unwrap()),
        Ok(Err(_)) => false,
        Err(_) => true,
    }
}
fn mnb_pred_ok(h: &Hist, p: usize, alpha: f64, qs: &Rows) -> bool {
    if alpha > 0.0 {
        return true;
    }
    // alpha = 0: a feature never seen in a class has log-frequency -inf; 0 * -inf is NaN (posterior
    // undefined, the arg-max of the real code panics) - such queries are left out
    let (rows, labels) = concat(h);
    let t = mnb_textbook(&rows, &labels, p, alpha);
    let r = std::panic::catch_unwind(std::panic::AssertUnwindSafe(|| mnb_run(h, p, alpha)));
    match r {
        Ok(Ok((states, _))) => qs.iter().all(|q| scores_defined(&mnb_jll(&t, q)) && scores_defined(&mnb_jll(states.last().unwrap(), q))),
        Ok(Err(_)) => false,
        Err(_) => true,
    }
}
fn gen_queries(rng: &mut Rng, rows: &Rows, p: usize, hi: bool) -> Rows {
    let nq = 1 + rng.below(4);
    (0..nq)
        .map(|_| {
            if rng.coin() {
                rng.pick(rows).clone()
            } else {
                (0..p).map(|_| if hi { rng.range(0, 6) as f64 } else { lattice(rng, 1) }).collect()
            }
        })
        .collect()
}

fn gen_queries_real(rng: &mut Rng, rows: &Rows, p: usize) -> Rows {
    let nq = 1 + rng.below(4);
    (0..nq).map(|_| if rng.coin() { rng.pick(rows).clone() } else { (0..p).map(|j| rng.pick(rows)[j]).collect() }).collect()
}

#[allow(clippy::too_many_arguments)]
fn nb_cases(em: &mut Em, rng: &mut Rng, rows_g: &(Rows, Vec<usize>), rows_m: &(Rows, Vec<usize>), p: usize, mask: u64, with_var: bool, with_batch: bool) {
    let vs = gen_vs(rng);
    let alpha = *rng.pick(&[0.0, 0.5, 1.0, 1.0, 2.0]);
    let hg = mk_hist(&rows_g.0, &rows_g.1, mask);
    let hm = mk_hist(&rows_m.0, &rows_m.1, mask);
    em.count(&format!("nb:batches={}", hg.len().min(8)));
    let nclass = |l: &[usize]| {
        let mut v = l.to_vec();
        v.sort();
        v.dedup();
        v.len()
    };
    if hg.iter().any(|(_, l)| nclass(l) < nclass(&rows_g.1)) {
        em.count("nb:class_incomplete_batch");
    }
    em.count(if vs == 0.0 { "gnb:var_smoothing=0" } else { "gnb:var_smoothing>0" });
    op_gnb(em, &hg, p, vs);
    op_mnb(em, &hm, p, alpha);
    if with_batch {
        op_gnb_batch(em, &rows_g.0, &rows_g.1, p, vs);
        op_mnb_batch(em, &rows_m.0, &rows_m.1, p, alpha);
    }
    let qg = gen_queries(rng, &rows_g.0, p, false);
    let qm = gen_queries(rng, &rows_m.0, p, true);
    if gnb_pred_ok(&hg, p, vs) {
        op_gnb_pred(em, &hg, p, vs, &qg);
    } else {
        em.count("gnb_pred:skipped_zero_variance");
    }
    if mnb_pred_ok(&hm, p, alpha, &qm) {
        if alpha == 0.0 {
            em.count("mnb_pred:alpha=0");
        }
        op_mnb_pred(em, &hm, p, alpha, &qm);
    } else {
        em.count("mnb_pred:skipped_undefined_posterior");
    }
    if with_var {
        // one entry-point variant per model: scalar x label type x layout, never the plain f64/usize/owned one
        let pick = |rng: &mut Rng| loop {
            let v = (rng.coin(), rng.below(3), rng.below(6));
            if v != (false, 0, 0) {
                return v;
            }
        };
        let (f, l, y) = pick(rng);
        op_gnb_var(em, &hg, p, vs, &qg, f, l, y, false);
        let (f, l, y) = pick(rng);
        op_mnb_var(em, &hm, p, alpha, &qm, f, l, y, false);
    }
}

/// histories whose batches all have the epsilon of the whole data (`gnb_balanced`, even cuts only)
fn balanced_case(em: &mut Em, rng: &mut Rng, d: &(Rows, Vec<usize>), p: usize, half_mask: u64) {
    // bit i of half_mask = cut after row 2i+1
    let mut mask = 0u64;
    for i in 0..31 {
        if (half_mask >> i) & 1 == 1 {
            mask |= 1 << (2 * i + 1);
        }
    }
    let vs = *rng.pick(&[0.125, 0.5, 1e-9, 0.0009765625, 0.001953125]);
    let h = mk_hist(&d.0, &d.1, mask);
    em.count("gnb:balanced");
    if h.len() > 1 {
        em.count("gnb:balanced:multi");
    }
    op_gnb(em, &h, p, vs);
    let q = gen_queries(rng, &d.0, p, false);
    if gnb_pred_ok(&h, p, vs) {
        op_gnb_pred(em, &h, p, vs, &q);
    }
    if rng.chance(1, 3) {
        op_gnb_var(em, &h, p, vs, &q, rng.coin(), rng.below(3), 1 + rng.below(5), false);
    }
}

pub fn run(em: &mut Em, rng: &mut Rng) {
    // No pin of the global rayon pool any more: since the repair of k-means|| (one generator per fixed block
    // of observations) the model is a function of history + seed for every number of worker threads, and
    // `c15_km.rs` runs every k-means history under a 4-thread and under a 1-thread pool and demands the same bits.
    let thorough = em.thorough();
    // --- naive Bayes: every ordered partition of small datasets (n <= 7) into non-empty batches
    let nmax = if thorough { 10 } else { 8 };
    let reps = if thorough { 3 } else { 2 };
    for n in 1..=nmax {
        for _ in 0..reps {
            let p = 1 + rng.below(3);
            let dg = gnb_data(rng, n, p);
            let dm = mnb_data(rng, n, p);
            for mask in 0..(1u64 << (n - 1)) {
                nb_cases(em, rng, &dg, &dm, p, mask, mask % 3 == 0, mask == 0 || mask == (1u64 << (n - 1)) - 1);
            }
        }
    }
    // random cuts of larger datasets
    let extra = if thorough { 3000 } else { 300 };
    for _ in 0..extra {
        let n = 8 + rng.below(if thorough { 120 } else { 40 });
        let p = 1 + rng.below(4);
        let dg = gnb_data(rng, n, p);
        let dm = mnb_data(rng, n, p);
        let mask = random_mask(rng, n);
        nb_cases(em, rng, &dg, &dm, p, mask, true, true);
    }
    // real-valued (non-lattice) data, f64 only, oracle only: sums inside ndarray are no longer exact, so an
    // f32 round trip or a reordered / shortened accumulation that lattice data cannot see shows up here
    for _ in 0..extra {
        let n = 2 + rng.below(if thorough { 120 } else { 40 });
        let p = 1 + rng.below(4);
        let scale = *rng.pick(&[1.0, 100.0, 1e-3]);
        let offset = *rng.pick(&[0.0, 0.0, 1.0, 50.0]) * scale;
        let rows_g: Rows = (0..n).map(|_| (0..p).map(|_| offset + (rng.unit() - 0.5) * scale).collect()).collect();
        let rows_m: Rows = (0..n).map(|_| (0..p).map(|_| rng.unit() * scale).collect()).collect();
        let labels = gen_labels(rng, n);
        let mask = random_mask(rng, n);
        let (vs, alpha) = (gen_vs(rng), *rng.pick(&[0.0, 0.5, 1.0, 2.0]));
        let hg = mk_hist(&rows_g, &labels, mask);
        let hm = mk_hist(&rows_m, &labels, mask);
        let qg = gen_queries_real(rng, &rows_g, p);
        let qm = gen_queries_real(rng, &rows_m, p);
        em.count("nb:real_valued");
        op_gnb_var(em, &hg, p, vs, &qg, false, rng.below(3), rng.below(6), true);
        op_mnb_var(em, &hm, p, alpha, &qm, false, rng.below(3), rng.below(6), true);
    }
    // a few long histories: class counts in the hundreds (products of counts beyond 16 bits)
    for _ in 0..(if thorough { 40 } else { 8 }) {
        let n = 200 + rng.below(500);
        let p = 1 + rng.below(3);
        let dg = gnb_data(rng, n, p);
        let dm = mnb_data(rng, n, p);
        // two to five batches
        let mut mask = 0u64;
        let _ = &mut mask;
        let cuts: Vec<usize> = (0..1 + rng.below(4)).map(|_| 1 + rng.below(n - 1)).collect();
        let cut_at = |rows: &Rows, labels: &[usize]| -> Hist {
            let mut cs = cuts.clone();
            cs.sort();
            cs.dedup();
            let mut out: Hist = vec![];
            let mut start = 0;
            for c in cs.iter().chain(std::iter::once(&rows.len())) {
                out.push((rows[start..*c].to_vec(), labels[start..*c].to_vec()));
                start = *c;
            }
            out
        };
        let (vs, alpha) = (gen_vs(rng), *rng.pick(&[0.5, 1.0]));
        em.count("nb:long_history");
        op_gnb(em, &cut_at(&dg.0, &dg.1), p, vs);
        op_mnb(em, &cut_at(&dm.0, &dm.1), p, alpha);
    }
    // count-size region: one class, batches of tens of thousands of rows (count products beyond 2^32)
    for _ in 0..(if thorough { 6 } else { 2 }) {
        let mut sizes = vec![66_000 + rng.below(5_000), 66_000 + rng.below(5_000)];
        if rng.coin() {
            sizes.push(1 + rng.below(3_000));
        }
        let vs = *rng.pick(&[0.0, 0.125]);
        op_gnb_big(em, &sizes, rng.next() % 1_000_000, vs);
    }
    // balanced histories: var_smoothing > 0 and incremental == textbook must hold exactly
    let hmax = if thorough { 8 } else { 6 };
    for half in 1..=hmax {
        for _ in 0..reps {
            let p = 1 + rng.below(3);
            let d = gnb_balanced(rng, 2 * half, p);
            for hm in 0..(1u64 << (half - 1)) {
                balanced_case(em, rng, &d, p, hm);
            }
        }
    }
    for _ in 0..extra / 2 {
        let half = 4 + rng.below(if thorough { 40 } else { 16 });
        let p = 1 + rng.below(4);
        let d = gnb_balanced(rng, 2 * half, p);
        let hm = random_mask(rng, half);
        balanced_case(em, rng, &d, p, hm);
    }
    // error branch of the real code: an empty batch in the history / no feature column
    {
        let h: Hist = vec![(vec![vec![1.0], vec![2.0]], vec![0, 1]), (vec![], vec![])];
        op_gnb(em, &h, 1, 0.0);
        let h0: Hist = vec![(vec![vec![], vec![]], vec![0, 1])];
        op_gnb(em, &h0, 0, 0.0);
    }
    // multinomial: no error path — histories with empty batches (first, middle, last, several) go through
    for _ in 0..(if thorough { 200 } else { 40 }) {
        let n = 2 + rng.below(10);
        let p = 1 + rng.below(3);
        let d = mnb_data(rng, n, p);
        let mut h = mk_hist(&d.0, &d.1, random_mask(rng, n));
        for _ in 0..1 + rng.below(2) {
            let at = rng.below(h.len() + 1);
            h.insert(at, (vec![], vec![]));
        }
        em.count("mnb:empty_batch_history");
        op_mnb(em, &h, p, *rng.pick(&[0.5, 1.0, 2.0]));
    }

    km::run(em, rng);
    ftrl::run(em, rng);

    // floors: the streams the clauses above depend on must actually have been generated (a replay of a single
    // case skips this)
    if em.only.is_none() {
        let floors: [(&str, u64); 9] = [
            ("nb:class_incomplete_batch", 150),
            ("gnb:var_smoothing>0", 110),
            ("gnb:balanced:multi", 60),
            ("op:gnb_pred", 230),
            ("op:mnb_pred", 190),
            ("nb:real_valued", 100),
            ("km_init:kmeans++", 40),
            ("ftrl:logit<-35", 20),
            ("ftrl:logit>35", 20),
        ];
        let dist = em.dist.clone();
        em.case("#floors".to_string(), |ctx| {
            for (key, min) in floors.iter() {
                let got = dist.get(*key).cloned().unwrap_or(0);
                ctx.require(got >= *min, "generator_floor", "floors", || format!("only {} cases of {} generated (floor {})", got, key, min));
            }
            "-".to_string()
        });
    }
}
