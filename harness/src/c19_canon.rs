//! Canonical text of a value's serde data-model image, mapped to MessagePack shapes the way
//! `rmp-serde` 1.3 does (struct → map of field names / array, enum variants externally tagged by
//! name, `Option` → nil / value, unit → nil, unit struct → `[]`, newtype struct transparent,
//! integers by sign, f32 / f64 by width).  The Lean driver prints the same text from the decoded
//! bytes (`Wire.render`):
//!   N  T  F  u<dec>  i-<dec>  f<8 hex>  d<16 hex>  s<hex utf8>  b<hex>  [a,b]  {k:v,k:v}
use serde::ser::{self, Serialize};
use std::fmt;

#[derive(Clone, Copy, PartialEq, Eq, Debug)]
pub enum Norm {
    /// exactly the order the value serialises in
    Exact,
    /// map entries sorted (values that own a `HashMap`: iteration order is per-instance)
    SortMaps,
    /// additionally sequences sorted (values that own a `HashSet`)
    SortMapsSeqs,
}

#[derive(Debug)]
pub struct CErr(String);
impl fmt::Display for CErr {
    fn fmt(&self, f: &mut fmt::Formatter) -> fmt::Result {
        write!(f, "{}", self.0)
    }
}
impl std::error::Error for CErr {}
impl ser::Error for CErr {
    fn custom<T: fmt::Display>(m: T) -> Self {
        CErr(m.to_string())
    }
}

pub struct Canon {
    named: bool,
    norm: Norm,
    pub floats: u64,
}

fn hex(b: &[u8]) -> String {
    b.iter().map(|x| format!("{:02x}", x)).collect()
}

/// canonical text and number of float leaves
pub fn canon<T: Serialize + ?Sized>(v: &T, named: bool, norm: Norm) -> (String, u64) {
    let mut c = Canon { named, norm, floats: 0 };
    match v.serialize(&mut c) {
        Ok(s) => (s, c.floats),
        Err(e) => (format!("!{}", e), c.floats),
    }
}

pub struct Comp<'a> {
    c: &'a mut Canon,
    items: Vec<String>,
    pending_key: Option<String>,
    open: String,
    close: &'static str,
    is_map: bool,
    named_struct: bool,
}

impl<'a> Comp<'a> {
    fn finish(mut self) -> String {
        match self.c.norm {
            Norm::Exact => {}
            Norm::SortMaps => {
                if self.is_map && !self.named_struct {
                    self.items.sort()
                }
            }
            Norm::SortMapsSeqs => {
                if !self.named_struct && (self.is_map || self.open == "[") {
                    self.items.sort()
                }
            }
        }
        format!("{}{}{}", self.open, self.items.join(","), self.close)
    }
}

impl<'a> ser::Serializer for &'a mut Canon {
    type Ok = String;
    type Error = CErr;
    type SerializeSeq = Comp<'a>;
    type SerializeTuple = Comp<'a>;
    type SerializeTupleStruct = Comp<'a>;
    type SerializeTupleVariant = Comp<'a>;
    type SerializeMap = Comp<'a>;
    type SerializeStruct = Comp<'a>;
    type SerializeStructVariant = Comp<'a>;

    fn is_human_readable(&self) -> bool {
        false
    }
    fn serialize_bool(self, v: bool) -> Result<String, CErr> {
        Ok(if v { "T".into() } else { "F".into() })
    }
    fn serialize_i8(self, v: i8) -> Result<String, CErr> {
        self.serialize_i64(v as i64)
    }
    fn serialize_i16(self, v: i16) -> Result<String, CErr> {
        self.serialize_i64(v as i64)
    }
    fn serialize_i32(self, v: i32) -> Result<String, CErr> {
        self.serialize_i64(v as i64)
    }
    fn serialize_i64(self, v: i64) -> Result<String, CErr> {
        Ok(if v < 0 { format!("i{}", v) } else { format!("u{}", v) })
    }
    fn serialize_u8(self, v: u8) -> Result<String, CErr> {
        self.serialize_u64(v as u64)
    }
    fn serialize_u16(self, v: u16) -> Result<String, CErr> {
        self.serialize_u64(v as u64)
    }
    fn serialize_u32(self, v: u32) -> Result<String, CErr> {
        self.serialize_u64(v as u64)
    }
    fn serialize_u64(self, v: u64) -> Result<String, CErr> {
        Ok(format!("u{}", v))
    }
    fn serialize_i128(self, v: i128) -> Result<String, CErr> {
        Ok(format!("b{}", hex(&v.to_be_bytes())))
    }
    fn serialize_u128(self, v: u128) -> Result<String, CErr> {
        Ok(format!("b{}", hex(&v.to_be_bytes())))
    }
    fn serialize_f32(self, v: f32) -> Result<String, CErr> {
        self.floats += 1;
        Ok(format!("f{:08x}", v.to_bits()))
    }
    fn serialize_f64(self, v: f64) -> Result<String, CErr> {
        self.floats += 1;
        Ok(format!("d{:016x}", v.to_bits()))
    }
    fn serialize_char(self, v: char) -> Result<String, CErr> {
        let mut buf = [0u8; 4];
        self.serialize_str(v.encode_utf8(&mut buf))
    }
    fn serialize_str(self, v: &str) -> Result<String, CErr> {
        Ok(format!("s{}", hex(v.as_bytes())))
    }
    fn serialize_bytes(self, v: &[u8]) -> Result<String, CErr> {
        Ok(format!("b{}", hex(v)))
    }
    fn serialize_none(self) -> Result<String, CErr> {
        Ok("N".into())
    }
    fn serialize_some<T: ?Sized + Serialize>(self, v: &T) -> Result<String, CErr> {
        v.serialize(self)
    }
    fn serialize_unit(self) -> Result<String, CErr> {
        Ok("N".into())
    }
    fn serialize_unit_struct(self, _n: &'static str) -> Result<String, CErr> {
        Ok("[]".into())
    }
    fn serialize_unit_variant(self, _n: &'static str, _i: u32, variant: &'static str) -> Result<String, CErr> {
        self.serialize_str(variant)
    }
    fn serialize_newtype_struct<T: ?Sized + Serialize>(self, _n: &'static str, v: &T) -> Result<String, CErr> {
        v.serialize(self)
    }
    fn serialize_newtype_variant<T: ?Sized + Serialize>(self, _n: &'static str, _i: u32, variant: &'static str, v: &T) -> Result<String, CErr> {
        let inner = v.serialize(&mut *self)?;
        Ok(format!("{{s{}:{}}}", hex(variant.as_bytes()), inner))
    }
    fn serialize_seq(self, _len: Option<usize>) -> Result<Comp<'a>, CErr> {
        Ok(Comp { c: self, items: vec![], pending_key: None, open: "[".into(), close: "]", is_map: false, named_struct: false })
    }
    fn serialize_tuple(self, _len: usize) -> Result<Comp<'a>, CErr> {
        // a tuple is positional: never reordered
        Ok(Comp { c: self, items: vec![], pending_key: None, open: "[".into(), close: "]", is_map: false, named_struct: true })
    }
    fn serialize_tuple_struct(self, _n: &'static str, _len: usize) -> Result<Comp<'a>, CErr> {
        Ok(Comp { c: self, items: vec![], pending_key: None, open: "[".into(), close: "]", is_map: false, named_struct: true })
    }
    fn serialize_tuple_variant(self, _n: &'static str, _i: u32, variant: &'static str, _len: usize) -> Result<Comp<'a>, CErr> {
        Ok(Comp { c: self, items: vec![], pending_key: None, open: format!("{{s{}:[", hex(variant.as_bytes())), close: "]}", is_map: false, named_struct: true })
    }
    fn serialize_map(self, _len: Option<usize>) -> Result<Comp<'a>, CErr> {
        Ok(Comp { c: self, items: vec![], pending_key: None, open: "{".into(), close: "}", is_map: true, named_struct: false })
    }
    fn serialize_struct(self, _n: &'static str, _len: usize) -> Result<Comp<'a>, CErr> {
        let named = self.named;
        Ok(Comp { c: self, items: vec![], pending_key: None, open: if named { "{".into() } else { "[".into() }, close: if named { "}" } else { "]" }, is_map: named, named_struct: true })
    }
    fn serialize_struct_variant(self, _n: &'static str, _i: u32, variant: &'static str, _len: usize) -> Result<Comp<'a>, CErr> {
        let named = self.named;
        let open = format!("{{s{}:{}", hex(variant.as_bytes()), if named { "{" } else { "[" });
        Ok(Comp { c: self, items: vec![], pending_key: None, open, close: if named { "}}" } else { "]}" }, is_map: named, named_struct: true })
    }
}

impl<'a> ser::SerializeSeq for Comp<'a> {
    type Ok = String;
    type Error = CErr;
    fn serialize_element<T: ?Sized + Serialize>(&mut self, v: &T) -> Result<(), CErr> {
        let s = v.serialize(&mut *self.c)?;
        self.items.push(s);
        Ok(())
    }
    fn end(self) -> Result<String, CErr> {
        Ok(self.finish())
    }
}
impl<'a> ser::SerializeTuple for Comp<'a> {
    type Ok = String;
    type Error = CErr;
    fn serialize_element<T: ?Sized + Serialize>(&mut self, v: &T) -> Result<(), CErr> {
        ser::SerializeSeq::serialize_element(self, v)
    }
    fn end(self) -> Result<String, CErr> {
        Ok(self.finish())
    }
}
impl<'a> ser::SerializeTupleStruct for Comp<'a> {
    type Ok = String;
    type Error = CErr;
    fn serialize_field<T: ?Sized + Serialize>(&mut self, v: &T) -> Result<(), CErr> {
        ser::SerializeSeq::serialize_element(self, v)
    }
    fn end(self) -> Result<String, CErr> {
        Ok(self.finish())
    }
}
impl<'a> ser::SerializeTupleVariant for Comp<'a> {
    type Ok = String;
    type Error = CErr;
    fn serialize_field<T: ?Sized + Serialize>(&mut self, v: &T) -> Result<(), CErr> {
        ser::SerializeSeq::serialize_element(self, v)
    }
    fn end(self) -> Result<String, CErr> {
        Ok(self.finish())
    }
}
impl<'a> ser::SerializeMap for Comp<'a> {
    type Ok = String;
    type Error = CErr;
    fn serialize_key<T: ?Sized + Serialize>(&mut self, k: &T) -> Result<(), CErr> {
        self.pending_key = Some(k.serialize(&mut *self.c)?);
        Ok(())
    }
    fn serialize_value<T: ?Sized + Serialize>(&mut self, v: &T) -> Result<(), CErr> {
        let s = v.serialize(&mut *self.c)?;
        let k = self.pending_key.take().unwrap_or_default();
        self.items.push(format!("{}:{}", k, s));
        Ok(())
    }
    fn end(self) -> Result<String, CErr> {
        Ok(self.finish())
    }
}
impl<'a> ser::SerializeStruct for Comp<'a> {
    type Ok = String;
    type Error = CErr;
    fn serialize_field<T: ?Sized + Serialize>(&mut self, key: &'static str, v: &T) -> Result<(), CErr> {
        let s = v.serialize(&mut *self.c)?;
        if self.is_map {
            self.items.push(format!("s{}:{}", hex(key.as_bytes()), s));
        } else {
            self.items.push(s);
        }
        Ok(())
    }
    fn end(self) -> Result<String, CErr> {
        Ok(self.finish())
    }
}
impl<'a> ser::SerializeStructVariant for Comp<'a> {
    type Ok = String;
    type Error = CErr;
    fn serialize_field<T: ?Sized + Serialize>(&mut self, key: &'static str, v: &T) -> Result<(), CErr> {
        ser::SerializeStruct::serialize_field(self, key, v)
    }
    fn end(self) -> Result<String, CErr> {
        Ok(self.finish())
    }
}
