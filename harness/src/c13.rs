//! C13 — SMO solver of linfa-svm.
//!
//! * `step`  — scripted update / swap / reconstruct / shrink / select sequences on the private
//!             `SolverState` (stepper hook), state dumped after every step; compared bit-for-bit
//!             with the Lean model, and checked against the bookkeeping invariants recomputed
//!             from the original problem (oracle).
//! * `solve` — full `solve()` on small problems with shrinking on/off; published alpha, rho,
//!             objective, iteration count and separating hyperplane compared bit-for-bit; KKT oracle.
//! * `#fit`  — public-API fits (C / nu classification, one-class, eps / nu regression, kernels,
//!             shrinking on/off, f32/f64); oracle only: box, equality, KKT margins, decision value
//!             from the published coefficients, label = sign, Platt monotone, nsupport.
use crate::util::*;
use linfa::dataset::{Dataset, Pr};
use linfa::traits::{Fit, Predict};
use linfa_svm::verif_hooks_c13::{Dump, Solved, Stepper};
use linfa_svm::Svm;
use ndarray::{Array1, Array2};

// ------------------------------------------------------------------------------------------
// scripted problems for the stepper
// ------------------------------------------------------------------------------------------

#[derive(Clone)]
struct Prob {
    n: usize,
    x: Vec<Vec<f64>>,
    k: Vec<Vec<f64>>,
    linear: bool,
    y: Vec<bool>,
    p: Vec<f64>,
    b: Vec<f64>,
    a0: Vec<f64>,
    eps: f64,
}

impl Prob {
    fn header(&self) -> String {
        format!(
            "n={} lin={} X={} K={} y={} p={} b={} a0={} eps={}",
            self.n,
            self.linear as u8,
            list2(self.x.iter().map(|r| r.iter()), |v| hex64(*v)),
            list2(self.k.iter().map(|r| r.iter()), |v| hex64(*v)),
            list(self.y.iter(), |v| (*v as u8).to_string()),
            list(self.p.iter(), |v| hex64(*v)),
            list(self.b.iter(), |v| hex64(*v)),
            list(self.a0.iter(), |v| hex64(*v)),
            hex64(self.eps)
        )
    }
    fn bounds_class(&self) -> &'static str {
        if self.b.iter().all(|v| *v == self.b[0]) {
            "equal"
        } else {
            "unequal"
        }
    }
    fn q(&self, i: usize, j: usize) -> f64 {
        if self.y[i] != self.y[j] {
            -self.k[i][j]
        } else {
            self.k[i][j]
        }
    }
    fn ysign(&self, i: usize) -> f64 {
        if self.y[i] {
            1.0
        } else {
            -1.0
        }
    }
    fn dataset(&self) -> Array2<f64> {
        let d = self.x[0].len();
        Array2::from_shape_fn((self.n, d), |(i, j)| self.x[i][j])
    }
    fn kernel(&self) -> Array2<f64> {
        Array2::from_shape_fn((self.n, self.n), |(i, j)| self.k[i][j])
    }
}

fn gen_prob(rng: &mut Rng, nmax: usize, psd_only: bool) -> Prob {
    let n = 2 + rng.below(nmax - 1);
    let d = 1 + rng.below(3);
    let span = *rng.pick(&[1i64, 2, 3]);
    let mut x: Vec<Vec<f64>> = (0..n).map(|_| (0..d).map(|_| rng.range(-span, span) as f64).collect()).collect();
    // duplicated points
    if n > 2 && rng.chance(1, 3) {
        let a = rng.below(n);
        let b = rng.below(n);
        x[a] = x[b].clone();
    }
    let kind = if psd_only { rng.below(2) } else { rng.below(3) };
    let dot = |a: &Vec<f64>, b: &Vec<f64>| a.iter().zip(b.iter()).map(|(u, v)| u * v).sum::<f64>();
    let (k, linear): (Vec<Vec<f64>>, bool) = match kind {
        0 => ((0..n).map(|i| (0..n).map(|j| dot(&x[i], &x[j])).collect()).collect(), true),
        1 => ((0..n).map(|i| (0..n).map(|j| (dot(&x[i], &x[j]) + 1.0) * (dot(&x[i], &x[j]) + 1.0)).collect()).collect(), false),
        _ => {
            // arbitrary symmetric integer matrix (may be indefinite: exercises the 1e-10 guard)
            let mut m = vec![vec![0.0; n]; n];
            for i in 0..n {
                for j in i..n {
                    let v = rng.range(-3, 4) as f64;
                    m[i][j] = v;
                    m[j][i] = v;
                }
            }
            (m, false)
        }
    };
    let mut y: Vec<bool> = (0..n).map(|_| rng.coin()).collect();
    if y.iter().all(|v| *v) {
        y[0] = false;
    }
    if y.iter().all(|v| !*v) {
        y[0] = true;
    }
    let p: Vec<f64> = if rng.chance(2, 3) { vec![-1.0; n] } else { (0..n).map(|_| rng.range(-3, 3) as f64).collect() };
    let cs = [0.25, 0.5, 1.0, 2.0, 4.0];
    let b: Vec<f64> = match rng.below(4) {
        0 => vec![*rng.pick(&cs); n],
        1 | 2 => {
            let cp = *rng.pick(&cs);
            let cn = *rng.pick(&cs);
            y.iter().map(|t| if *t { cp } else { cn }).collect()
        }
        _ => (0..n).map(|_| *rng.pick(&cs)).collect(),
    };
    let a0: Vec<f64> = if rng.chance(1, 2) {
        vec![0.0; n]
    } else {
        (0..n).map(|i| *rng.pick(&[0.0, 0.0, b[i] / 2.0, b[i]])).collect()
    };
    let eps = *rng.pick(&[0.001, 0.125, 0.5]);
    Prob { n, x, k, linear, y, p, b, a0, eps }
}

fn dump_str(d: &Dump) -> String {
    format!(
        "A={}/U={}/G={}/H={}/S={}/N={}/X={}/P={}/Y={}/B={}",
        list(d.alpha.iter(), |v| hex64c(*v)),
        list(d.alpha_ub.iter(), |v| hex64c(*v)),
        list(d.gradient.iter(), |v| hex64c(*v)),
        list(d.gradient_fixed.iter(), |v| hex64c(*v)),
        list(d.active_set.iter(), |v| v.to_string()),
        d.nactive,
        d.unshrink as u8,
        list(d.p.iter(), |v| hex64c(*v)),
        list(d.targets.iter(), |v| (*v as u8).to_string()),
        list(d.bounds.iter(), |v| hex64c(*v)),
    )
}

fn close(a: f64, b: f64, scale: f64) -> bool {
    (a - b).abs() <= 1e-9 * (1.0 + scale.abs() + a.abs().max(b.abs()))
}

/// bookkeeping invariants of the solver state, recomputed from the original problem
fn oracle_state(ctx: &mut Ctx, pr: &Prob, d: &Dump, class: &str, at: &str, after_reconstruct: bool, after_shrink: bool, ysum0: f64) {
    let n = pr.n;
    let mut seen = vec![false; n];
    let mut perm = d.active_set.len() == n;
    for &s in &d.active_set {
        if s >= n || seen[s] {
            perm = false;
        } else {
            seen[s] = true;
        }
    }
    ctx.require(perm, "active_set_permutation", class, || format!("{}: active_set {:?}", at, d.active_set));
    if !perm {
        return;
    }
    ctx.require(d.nactive <= n, "nactive_range", class, || format!("{}: nactive {} of {}", at, d.nactive, n));
    let s = &d.active_set;
    for k in 0..n {
        ctx.require(d.p[k] == pr.p[s[k]] && d.targets[k] == pr.y[s[k]], "aligned_p_y", class, || format!("{}: position {} holds sample {} but p/y of another", at, k, s[k]));
        ctx.require(d.bounds[k] == pr.b[s[k]], "aligned_bounds", class, || format!("{}: position {} holds sample {} (bound {}) but bounds[{}]={}", at, k, s[k], pr.b[s[k]], k, d.bounds[k]));
        ctx.require(d.alpha_ub[k] == pr.b[s[k]], "aligned_alpha_bound", class, || format!("{}: position {} sample {} bound {} but Alpha.upper_bound {}", at, k, s[k], pr.b[s[k]], d.alpha_ub[k]));
        let okq = (0..n).all(|l| d.q_rows[k][l] == pr.q(s[k], s[l])) && d.q_diag[k] == pr.k[s[k]][s[k]];
        ctx.require(okq, "aligned_kernel", class, || format!("{}: kernel row at position {} is not the row of sample {}", at, k, s[k]));
    }
    // feasibility
    let mut ysum = 0.0;
    let mut scale = 0.0f64;
    for k in 0..n {
        let a = d.alpha[k];
        let bb = pr.b[s[k]];
        ctx.require(a >= 0.0 && a <= bb, "box", class, || format!("{}: alpha of sample {} = {} outside [0,{}]", at, s[k], a, bb));
        ysum += pr.ysign(s[k]) * a;
        scale = scale.max(bb);
    }
    ctx.require(close(ysum, ysum0, scale * n as f64), "equality", class, || format!("{}: sum y*alpha = {} but was {} initially", at, ysum, ysum0));
    // gradient of the active variables; G_bar of all variables
    let full_grad = |k: usize| -> f64 { pr.p[s[k]] + (0..n).map(|l| pr.q(s[k], s[l]) * d.alpha[l]).sum::<f64>() };
    let gbar = |k: usize| -> f64 { (0..n).filter(|l| d.alpha[*l] >= pr.b[s[*l]]).map(|l| pr.q(s[k], s[l]) * pr.b[s[l]]).sum::<f64>() };
    let gs: f64 = (0..n).map(|k| full_grad(k).abs()).fold(0.0, f64::max) + (0..n).map(|k| gbar(k).abs()).fold(0.0, f64::max);
    for k in 0..d.nactive.min(n) {
        ctx.require(close(d.gradient[k], full_grad(k), gs), "gradient_active", class, || format!("{}: gradient of active position {} (sample {}) = {} but p + Q alpha = {}", at, k, s[k], d.gradient[k], full_grad(k)));
    }
    for k in 0..n {
        ctx.require(close(d.gradient_fixed[k], gbar(k), gs), "gradient_fixed", class, || format!("{}: gradient_fixed at position {} (sample {}) = {} but sum over upper-bounded = {}", at, k, s[k], d.gradient_fixed[k], gbar(k)));
    }
    let inactive_at_bound = (d.nactive.min(n)..n).all(|k| d.alpha[k] == 0.0 || d.alpha[k] >= pr.b[s[k]]);
    if after_shrink {
        ctx.require(inactive_at_bound, "shrunk_at_bound", class, || format!("{}: a free variable was made inactive (nactive {}, alpha {:?})", at, d.nactive, d.alpha));
    }
    if after_reconstruct && inactive_at_bound {
        for k in 0..n {
            ctx.require(close(d.gradient[k], full_grad(k), gs), "gradient_reconstructed", class, || format!("{}: after reconstruct_gradient position {} (sample {}) has {} but p + Q alpha = {}", at, k, s[k], d.gradient[k], full_grad(k)));
        }
    }
}

/// generalised KKT check of `min 1/2 a'Qa + p'a, y'a = const, 0<=a<=b` at the published point
fn oracle_kkt(ctx: &mut Ctx, pr: &Prob, alpha: &[f64], rho: f64, class: &str) {
    let n = pr.n;
    let g: Vec<f64> = (0..n).map(|i| pr.p[i] + (0..n).map(|j| pr.q(i, j) * alpha[j]).sum::<f64>()).collect();
    let gs = g.iter().fold(0.0f64, |m, v| m.max(v.abs()));
    let tol = pr.eps + 1e-9 * (1.0 + gs);
    let mut ysum = 0.0;
    let mut ysum0 = 0.0;
    for i in 0..n {
        ctx.require(alpha[i] >= 0.0 && alpha[i] <= pr.b[i], "box", class, || format!("published alpha[{}] = {} outside [0,{}]", i, alpha[i], pr.b[i]));
        ysum += pr.ysign(i) * alpha[i];
        ysum0 += pr.ysign(i) * pr.a0[i];
    }
    let bs = pr.b.iter().fold(0.0f64, |m, v| m.max(*v));
    ctx.require(close(ysum, ysum0, bs * n as f64), "equality", class, || format!("sum y*alpha = {} but the start had {}", ysum, ysum0));
    for i in 0..n {
        let v = -pr.ysign(i) * g[i] + rho; // -y G - b with b = -rho
        let in_up = if pr.y[i] { alpha[i] < pr.b[i] } else { alpha[i] > 0.0 };
        let in_low = if pr.y[i] { alpha[i] > 0.0 } else { alpha[i] < pr.b[i] };
        if in_up {
            ctx.require(v <= tol, "kkt", class, || format!("sample {} (alpha {} of {}, y {}) violates KKT: -yG+rho = {} > tol {}", i, alpha[i], pr.b[i], pr.ysign(i), v, tol));
        }
        if in_low {
            ctx.require(v >= -tol, "kkt", class, || format!("sample {} (alpha {} of {}, y {}) violates KKT: -yG+rho = {} < -tol {}", i, alpha[i], pr.b[i], pr.ysign(i), v, tol));
        }
    }
}

#[derive(Clone, Copy, PartialEq)]
enum StepOp {
    U(usize, usize),
    S(usize, usize),
    R,
    D,
    W,
    H,
}

fn script_str(sc: &[StepOp]) -> String {
    sc.iter()
        .map(|o| match o {
            StepOp::U(i, j) => format!("u.{}.{}", i, j),
            StepOp::S(i, j) => format!("s.{}.{}", i, j),
            StepOp::R => "r".to_string(),
            StepOp::D => "d".to_string(),
            StepOp::W => "w".to_string(),
            StepOp::H => "h".to_string(),
        })
        .collect::<Vec<_>>()
        .join(",")
}

fn op_step(em: &mut Em, pr: &Prob, sc: &[StepOp]) {
    let op = format!("step {} script={}", pr.header(), script_str(sc));
    let bc = pr.bounds_class();
    em.case_valid(op, &format!("step:bounds={}", bc), |ctx| {
        let ds = pr.dataset();
        let mut st = Stepper::new(pr.kernel(), pr.linear, ds.view(), pr.a0.clone(), pr.p.clone(), pr.y.clone(), pr.b.clone(), pr.eps, true, false);
        let ysum0: f64 = (0..pr.n).map(|i| pr.ysign(i) * pr.a0[i]).sum();
        let mut out = vec![];
        let mut shrunk = false;
        let d0 = st.dump();
        oracle_state(ctx, pr, &d0, &format!("step:shrink=0:bounds={}", bc), "after new", true, false, ysum0);
        out.push(dump_str(&d0));
        for (t, o) in sc.iter().enumerate() {
            let mut extra = String::new();
            let mut rec = false;
            let mut shr = false;
            match *o {
                StepOp::U(a, b) => {
                    let na = st.dump().nactive;
                    if na >= 2 {
                        let i = a % na;
                        let mut j = b % na;
                        if i == j {
                            j = (i + 1) % na;
                        }
                        st.update(i, j);
                    }
                }
                StepOp::S(a, b) => {
                    shrunk = true;
                    let na = st.dump().nactive;
                    if na >= 1 {
                        st.swap(a % na, b % na)
                    }
                }
                StepOp::R => {
                    rec = true;
                    st.reconstruct_gradient()
                }
                StepOp::D => {
                    shrunk = true;
                    shr = true;
                    st.do_shrinking()
                }
                StepOp::W => {
                    let (i, j, opt) = st.select_working_set();
                    extra = format!("/W={}.{}.{}", i, j, opt as u8);
                    if !opt {
                        st.update(i, j);
                    }
                }
                StepOp::H => {
                    let r = st.calculate_rho();
                    extra = format!("/R={}", hex64c(r));
                }
            }
            let d = st.dump();
            let class = format!("step:shrink={}:bounds={}", shrunk as u8, bc);
            oracle_state(ctx, pr, &d, &class, &format!("after step {} ({})", t, script_str(&[*o])), rec, shr, ysum0);
            out.push(format!("{}{}", dump_str(&d), extra));
        }
        format!("ok {}", out.join(" "))
    });
}

fn solved_str(s: &Solved) -> String {
    let w = match (&s.linear, &s.support) {
        (Some(w), _) => format!("L:{}", list(w.iter(), |v| hex64c(*v))),
        (_, Some(sv)) => format!("V:{}", if sv.is_empty() { "none".to_string() } else { list2(sv.iter().map(|r| r.iter()), |v| hex64c(*v)) }),
        _ => "?".to_string(),
    };
    format!("ok it={} thr={} A={} rho={} obj={} {}", s.iterations, s.reached_threshold as u8, list(s.alpha.iter(), |v| hex64c(*v)), hex64c(s.rho), hex64c(s.obj), w)
}

const SOLVE_FUEL: usize = 20000;

fn op_solve(em: &mut Em, pr: &Prob, shrinking: bool) {
    let op = format!("solve {} shrink={} fuel={}", pr.header(), shrinking as u8, SOLVE_FUEL);
    let class = format!("solve:shrink={}:bounds={}", shrinking as u8, pr.bounds_class());
    em.case_valid(op, &class, |ctx| {
        let ds = pr.dataset();
        let st = Stepper::new(pr.kernel(), pr.linear, ds.view(), pr.a0.clone(), pr.p.clone(), pr.y.clone(), pr.b.clone(), pr.eps, shrinking, false);
        let s = st.solve();
        if s.iterations >= SOLVE_FUEL {
            return "ok longrun".to_string();
        }
        oracle_kkt(ctx, pr, &s.alpha, s.rho, &class);
        // published separating hyperplane pairs every sample with its own coefficient
        if let Some(w) = &s.linear {
            let d = pr.x[0].len();
            for c in 0..d {
                let want: f64 = (0..pr.n).map(|i| pr.ysign(i) * s.alpha[i] * pr.x[i][c]).sum();
                ctx.require(close(w[c], want, want.abs()), "linear_hyperplane", &class, || format!("weight[{}] = {} but sum_i y_i alpha_i x_i = {}", c, w[c], want));
            }
        }
        if let Some(sv) = &s.support {
            let want: Vec<&Vec<f64>> = (0..pr.n).filter(|i| s.alpha[*i].abs() > 100.0 * f64::EPSILON).map(|i| &pr.x[i]).collect();
            let same = sv.len() == want.len() && sv.iter().zip(want.iter()).all(|(a, b)| a == *b);
            ctx.require(same, "support_vectors", &class, || format!("support vectors {:?} are not the rows with non-zero coefficient {:?}", sv, s.alpha));
        }
        solved_str(&s)
    });
}

// ------------------------------------------------------------------------------------------
// public-API fits (oracle only)
// ------------------------------------------------------------------------------------------

#[derive(Clone, Copy, Debug, PartialEq)]
enum Kern {
    Linear,
    Gauss(f64),
    Poly(f64, f64),
}
impl Kern {
    fn eval(&self, a: &[f64], b: &[f64]) -> f64 {
        let dot: f64 = a.iter().zip(b.iter()).map(|(x, y)| x * y).sum();
        match *self {
            Kern::Linear => dot,
            Kern::Gauss(e) => {
                let d: f64 = a.iter().zip(b.iter()).map(|(x, y)| (x - y) * (x - y)).sum();
                (-d / e).exp()
            }
            Kern::Poly(c, d) => (dot + c).powf(d),
        }
    }
    fn name(&self) -> &'static str {
        match self {
            Kern::Linear => "linear",
            Kern::Gauss(_) => "gaussian",
            Kern::Poly(_, _) => "polynomial",
        }
    }
}

#[derive(Clone, Copy, Debug, PartialEq)]
enum Mode {
    C(f64, f64),
    Nu(f64),
    OneClass(f64),
    EpsSvr(f64, f64),
    NuSvr(f64, f64),
}
impl Mode {
    fn name(&self) -> &'static str {
        match self {
            Mode::C(_, _) => "c_svc",
            Mode::Nu(_) => "nu_svc",
            Mode::OneClass(_) => "one_class",
            Mode::EpsSvr(_, _) => "eps_svr",
            Mode::NuSvr(_, _) => "nu_svr",
        }
    }
}

struct FitCase {
    x: Vec<Vec<f64>>,
    yb: Vec<bool>,
    yr: Vec<f64>,
    kern: Kern,
    mode: Mode,
    eps: f64,
    shrinking: bool,
    f32_: bool,
    platt: bool,
    shape: &'static str,
}

struct Fitted {
    alpha: Vec<f64>,
    rho: f64,
    nsupport: usize,
    display: String,
    dec: Vec<f64>,
    labels: Option<Vec<bool>>,
    probs: Option<Vec<f32>>,
}

fn set_kernel<F: linfa::Float, T>(p: linfa_svm::SvmParams<F, T>, k: Kern) -> linfa_svm::SvmParams<F, T> {
    match k {
        Kern::Linear => p.linear_kernel(),
        Kern::Gauss(e) => p.gaussian_kernel(F::cast(e)),
        Kern::Poly(c, d) => p.polynomial_kernel(F::cast(c), F::cast(d)),
    }
}

fn run_fit<F: linfa::Float>(fc: &FitCase) -> Result<Fitted, String>
where
    Svm<F, F>: Predict<Array1<F>, F>,
    linfa_svm::SvmValidParams<F, F>: Fit<Array2<F>, Array1<F>, linfa_svm::SvmError, Object = Svm<F, F>>,
{
    let n = fc.x.len();
    let d = fc.x[0].len();
    let rec = Array2::from_shape_fn((n, d), |(i, j)| F::cast(fc.x[i][j]));
    let to64 = |v: F| -> f64 { v.to_f64().unwrap() };
    match fc.mode {
        Mode::C(_, _) | Mode::Nu(_) => {
            let ds = Dataset::new(rec.clone(), Array1::from(fc.yb.clone()));
            if fc.platt {
                let p = Svm::<F, Pr>::params().eps(F::cast(fc.eps)).shrinking(fc.shrinking);
                let p = set_kernel(p, fc.kern);
                let p = match fc.mode {
                    Mode::C(a, b) => p.pos_neg_weights(F::cast(a), F::cast(b)),
                    Mode::Nu(v) => p.nu_weight(F::cast(v)),
                    _ => unreachable!(),
                };
                let m = match p.fit(&ds) {
                    Ok(m) => m,
                    Err(e) => return Err(format!("{:?}", e)),
                };
                let dec: Vec<f64> = rec.outer_iter().map(|r| to64(m.weighted_sum(&r) - m.rho)).collect();
                let probs: Vec<f32> = rec.outer_iter().map(|r| *m.predict(r)).collect();
                Ok(Fitted { alpha: m.alpha.iter().map(|v| to64(*v)).collect(), rho: to64(m.rho), nsupport: m.nsupport(), display: format!("{}", m), dec, labels: None, probs: Some(probs) })
            } else {
                let p = Svm::<F, bool>::params().eps(F::cast(fc.eps)).shrinking(fc.shrinking);
                let p = set_kernel(p, fc.kern);
                let p = match fc.mode {
                    Mode::C(a, b) => p.pos_neg_weights(F::cast(a), F::cast(b)),
                    Mode::Nu(v) => p.nu_weight(F::cast(v)),
                    _ => unreachable!(),
                };
                let m = match p.fit(&ds) {
                    Ok(m) => m,
                    Err(e) => return Err(format!("{:?}", e)),
                };
                let dec: Vec<f64> = rec.outer_iter().map(|r| to64(m.weighted_sum(&r) - m.rho)).collect();
                let labels: Vec<bool> = rec.outer_iter().map(|r| m.predict(r)).collect();
                Ok(Fitted { alpha: m.alpha.iter().map(|v| to64(*v)).collect(), rho: to64(m.rho), nsupport: m.nsupport(), display: format!("{}", m), dec, labels: Some(labels), probs: None })
            }
        }
        Mode::OneClass(nu) => {
            let ds = Dataset::new(rec.clone(), Array1::from(vec![(); n]));
            let p = Svm::<F, Pr>::params().eps(F::cast(fc.eps)).shrinking(fc.shrinking).nu_weight(F::cast(nu));
            let p = set_kernel(p, fc.kern);
            let m = match p.fit(&ds) {
                    Ok(m) => m,
                    Err(e) => return Err(format!("{:?}", e)),
                };
            let dec: Vec<f64> = rec.outer_iter().map(|r| to64(m.weighted_sum(&r) - m.rho)).collect();
            let labels: Vec<bool> = rec.outer_iter().map(|r| m.predict(r)).collect();
            Ok(Fitted { alpha: m.alpha.iter().map(|v| to64(*v)).collect(), rho: to64(m.rho), nsupport: m.nsupport(), display: format!("{}", m), dec, labels: Some(labels), probs: None })
        }
        Mode::EpsSvr(_, _) | Mode::NuSvr(_, _) => {
            let ds = Dataset::new(rec.clone(), Array1::from(fc.yr.iter().map(|v| F::cast(*v)).collect::<Vec<F>>()));
            let p = Svm::<F, F>::params().eps(F::cast(fc.eps)).shrinking(fc.shrinking);
            let p = set_kernel(p, fc.kern);
            let p = match fc.mode {
                Mode::EpsSvr(c, e) => p.c_svr(F::cast(c), Some(F::cast(e))),
                Mode::NuSvr(nu, c) => p.nu_svr(F::cast(nu), Some(F::cast(c))),
                _ => unreachable!(),
            };
            let m = match p.fit(&ds) {
                    Ok(m) => m,
                    Err(e) => return Err(format!("{:?}", e)),
                };
            let dec: Vec<f64> = rec.outer_iter().map(|r| to64(m.weighted_sum(&r) - m.rho)).collect();
            let pred: Vec<f64> = rec.outer_iter().map(|r| to64(m.predict(r.to_owned()))).collect();
            let _ = pred;
            Ok(Fitted { alpha: m.alpha.iter().map(|v| to64(*v)).collect(), rho: to64(m.rho), nsupport: m.nsupport(), display: format!("{}", m), dec, labels: None, probs: None })
        }
    }
}

fn gen_points(rng: &mut Rng, n: usize, shape: usize) -> (Vec<Vec<f64>>, Vec<bool>, &'static str) {
    // 2-D, quarter-integer coordinates (exact in f32 and f64)
    let q = |rng: &mut Rng, lo: i64, hi: i64| rng.range(lo, hi) as f64 / 4.0;
    let mut x = vec![];
    let mut y = vec![];
    let name = ["separable", "overlapping", "imbalanced", "duplicated"][shape % 4];
    for i in 0..n {
        let pos = match shape % 4 {
            2 => i % 7 == 0,
            _ => i % 2 == 0,
        };
        let (cx, spread) = match shape % 4 {
            0 => (if pos { 10 } else { -10 }, 6),
            1 => (if pos { 3 } else { -3 }, 10),
            2 => (if pos { 6 } else { -4 }, 8),
            _ => (if pos { 4 } else { -4 }, 3),
        };
        x.push(vec![q(rng, cx - spread, cx + spread), q(rng, -spread, spread)]);
        y.push(pos);
    }
    (x, y, name)
}

fn op_fit(em: &mut Em, rng: &mut Rng, n: usize) {
    let shape = rng.below(4);
    let (x, yb, shape_name) = gen_points(rng, n, shape);
    let f32_ = rng.chance(1, 4);
    let kern = match rng.below(5) {
        0 | 1 => Kern::Linear,
        2 | 3 => Kern::Gauss(*rng.pick(&[0.5, 4.0, 32.0])),
        _ => Kern::Poly(*rng.pick(&[0.0, 1.0]), *rng.pick(&[2.0, 3.0])),
    };
    // regression target: smooth function of the first coordinate + lattice noise
    let yr: Vec<f64> = x.iter().map(|r| 0.5 * r[0] - 0.25 * r[1] + rng.range(-2, 2) as f64 / 8.0).collect();
    // badly scaled combinations (cubic kernels, thousands of points) with a huge C run into the
    // 10^7-iteration cap; they are kept at moderate C so that a check stays within minutes
    let heavy = n >= 800 || matches!(kern, Kern::Poly(_, _));
    let cmax = if f32_ { 4.0f64 } else if heavy { 4.0 } else { 1000.0 };
    let logc = |rng: &mut Rng| -> f64 {
        let lo = 0.01f64.ln();
        let hi = cmax.ln();
        (lo + rng.unit() * (hi - lo)).exp()
    };
    let mode = match rng.below(8) {
        0 | 1 | 2 => {
            let a = logc(rng);
            let b = if rng.chance(2, 3) { logc(rng) } else { a };
            Mode::C(a, b)
        }
        3 => {
            // nu-SVC is feasible iff nu <= 2 min(n+, n-) / n (libsvm rejects the rest up front)
            let npos = yb.iter().filter(|v| **v).count();
            let lim = 2.0 * (npos.min(n - npos) as f64) / n as f64;
            Mode::Nu(*rng.pick(&[0.05, 0.2, 0.5, 0.8]) * lim)
        }
        4 => Mode::OneClass(*rng.pick(&[0.05, 0.3, 0.7, 1.0])),
        5 | 6 => Mode::EpsSvr(logc(rng).min(100.0), *rng.pick(&[0.01, 0.1, 0.5])),
        _ => Mode::NuSvr(*rng.pick(&[0.1, 0.5, 0.9]), logc(rng).min(100.0)),
    };
    let eps = if f32_ { 1e-2 } else if heavy { 1e-3 } else { *rng.pick(&[1e-3, 1e-5]) };
    let shrinking = rng.coin();
    let platt = rng.chance(1, 3);
    let fc = FitCase { x, yb, yr, kern, mode, eps, shrinking, f32_, platt, shape: shape_name };
    let class = format!("fit:{}:shrink={}", mode.name(), shrinking as u8);
    let unequal = matches!(mode, Mode::C(a, b) if a != b);
    let class = if unequal { format!("{}:weights=unequal", class) } else { class };
    em.count(&format!("fit:{}", mode.name()));
    em.count(&format!("fit:kernel={}", kern.name()));
    em.count(&format!("fit:shrink={}", shrinking as u8));
    em.count(&format!("fit:shape={}", shape_name));
    em.count(if f32_ { "fit:f32" } else { "fit:f64" });
    let op = format!(
        "#fit n={} shape={} kernel={:?} mode={:?} eps={} shrink={} f32={} platt={} x={}",
        n,
        shape_name,
        kern,
        mode,
        eps,
        shrinking as u8,
        f32_ as u8,
        platt as u8,
        list2(fc.x.iter().map(|r| r.iter()), |v| format!("{}", v))
    )
    .replace(", ", ":");
    let t0 = std::time::Instant::now();
    let opd = op.chars().take(160).collect::<String>();
    em.case_valid(op, &class, |ctx| {
        if std::env::var("C13_DEBUG").is_ok() {
            std::panic::set_hook(Box::new(|i| eprintln!("PANIC {}", i)));
        }
        let ft = if fc.f32_ { run_fit::<f32>(&fc) } else { run_fit::<f64>(&fc) };
        let ft = match ft {
            Ok(ft) => ft,
            Err(e) => {
                // only the Platt calibration (linfa::composing) can refuse here: its Newton line search
                // reports non-convergence as an error value; the SVM solution itself is not reached
                ctx.mark_trivial();
                ctx.require(e.starts_with("Platt("), "fit_error", &class, || format!("fit returned {}", e));
                return "-".to_string();
            }
        };
        if std::env::var("C13_DEBUG").is_ok() {
            eprintln!("mode {:?} kern {:?} n {} shrink {} display {} rho {} nsupport {}\nalpha {:?}\ny {:?}", fc.mode, fc.kern, fc.x.len(), fc.shrinking, ft.display, ft.rho, ft.nsupport, ft.alpha, fc.yb.iter().map(|v| *v as u8).collect::<Vec<_>>());
        }
        oracle_fit(ctx, &fc, &ft, &class);
        "-".to_string()
    });
    if std::env::var("C13_TIME").is_ok() && t0.elapsed().as_secs_f64() > 1.0 {
        eprintln!("{:.1}s {}", t0.elapsed().as_secs_f64(), opd);
    }
}

fn oracle_fit(ctx: &mut Ctx, fc: &FitCase, ft: &Fitted, class: &str) {
    let n = fc.x.len();
    let fe = if fc.f32_ { f32::EPSILON as f64 } else { f64::EPSILON };
    if ft.display.starts_with("Reached maximal iterations") {
        // the iteration cap was hit: the statement's "up to the solver tolerance" does not apply
        ctx.mark_trivial();
        return;
    }
    ctx.require(ft.alpha.len() == n, "alpha_len", class, || format!("{} coefficients for {} samples", ft.alpha.len(), n));
    if ft.alpha.len() != n {
        return;
    }
    let a = &ft.alpha;
    let amax = a.iter().fold(0.0f64, |m, v| m.max(v.abs()));
    // kernel values in the precision of the run
    let xr: Vec<Vec<f64>> = fc.x.clone();
    let kmat: Vec<Vec<f64>> = (0..n).map(|i| (0..n).map(|j| fc.kern.eval(&xr[i], &xr[j])).collect()).collect();
    let kmax = kmat.iter().flatten().fold(0.0f64, |m, v| m.max(v.abs()));
    let f: Vec<f64> = (0..n).map(|i| (0..n).map(|j| a[j] * kmat[j][i]).sum::<f64>() - ft.rho).collect();
    let sumabs: f64 = a.iter().map(|v| v.abs()).sum();
    if let Mode::Nu(_) = fc.mode {
        // nu-SVC publishes alpha / r; when the optimal margin r is (numerically) zero the scaled
        // problem has no finite solution (libsvm divides by r as well) — degenerate, not judged
        if !(amax * kmax <= 1e6) || !(amax * fc.eps <= 0.05) || !ft.rho.is_finite() {
            ctx.mark_trivial();
            return;
        }
    }
    if !ft.rho.is_finite() {
        // all variables at the upper bound (one-class with nu = 1): rho is unbounded above
        let same = (0..n).all(|i| ft.dec[i] == f[i] || (ft.dec[i].is_nan() && f[i].is_nan()));
        ctx.require(same, "decision_value", class, || "decision values differ for an infinite rho".to_string());
        ctx.require(a.iter().all(|v| *v >= 1.0), "kkt_margin", class, || format!("rho = {} although not every coefficient is at its bound", ft.rho));
        return;
    }
    let noise = 64.0 * fe * (1.0 + sumabs * kmax + ft.rho.abs()) * (n as f64).sqrt();
    // decision value from the published coefficients
    for i in 0..n {
        ctx.require((f[i] - ft.dec[i]).abs() <= noise + 1e-3 * fe.sqrt() * (1.0 + f[i].abs()), "decision_value", class, || {
            format!("sample {}: weighted_sum - rho = {} but sum_j alpha_j K(x_j,x) - rho = {} (noise {})", i, ft.dec[i], f[i], noise)
        });
    }
    // number of support vectors
    let nz = a.iter().filter(|v| v.abs() > 100.0 * fe).count();
    ctx.require(nz == ft.nsupport, "nsupport", class, || format!("nsupport {} but {} non-zero coefficients", ft.nsupport, nz));
    if let Some(lab) = &ft.labels {
        for i in 0..n {
            if ft.dec[i].abs() > noise {
                ctx.require(lab[i] == (ft.dec[i] >= 0.0), "label_sign", class, || format!("sample {} decision {} label {}", i, ft.dec[i], lab[i]));
            }
        }
    }
    if let Some(pr) = &ft.probs {
        let mut idx: Vec<usize> = (0..n).collect();
        idx.sort_by(|u, v| ft.dec[*u].partial_cmp(&ft.dec[*v]).unwrap());
        let inc = idx.windows(2).all(|w| pr[w[0]] <= pr[w[1]] + 1e-6);
        let dec = idx.windows(2).all(|w| pr[w[0]] + 1e-6 >= pr[w[1]]);
        ctx.require(inc || dec, "platt_monotone", class, || "calibrated probabilities are not a monotone function of the decision value".to_string());
        ctx.require(pr.iter().all(|p| *p >= 0.0 && *p <= 1.0), "platt_range", class, || "probability outside [0,1]".to_string());
    }
    let tol = fc.eps + noise + 1e-7 * (1.0 + kmax * sumabs);
    let delta = |c: f64| 1e3 * fe * (1.0 + c);
    match fc.mode {
        Mode::C(cp, cn) => {
            let mut s = 0.0;
            for i in 0..n {
                let c = if fc.yb[i] { cp } else { cn };
                let c = if fc.f32_ { (c as f32) as f64 } else { c };
                let ys = if fc.yb[i] { 1.0 } else { -1.0 };
                let al = ys * a[i];
                s += a[i];
                ctx.require(al >= 0.0 && al <= c * (1.0 + 4.0 * fe), "box", class, || format!("sample {} (y {}): coefficient {} outside [0,{}]", i, ys, al, c));
                let yf = ys * f[i];
                if al < c - delta(c) {
                    ctx.require(yf >= 1.0 - tol, "kkt_margin", class, || format!("sample {} with alpha {} < C {} lies inside the margin: y f = {}", i, al, c, yf));
                }
                if al > delta(c) {
                    ctx.require(yf <= 1.0 + tol, "kkt_margin", class, || format!("sample {} with alpha {} > 0 lies outside the margin: y f = {}", i, al, yf));
                }
            }
            ctx.require(s.abs() <= 64.0 * fe * (1.0 + sumabs) * (n as f64).sqrt(), "equality", class, || format!("sum of y_i alpha_i = {}", s));
        }
        Mode::Nu(nu) => {
            // published alpha = alpha_raw / r with sum(alpha_raw) = nu * n, 0 <= alpha_raw <= 1:
            // the bound is 1/r = sum|alpha| / (nu n) and the solver tolerance scales by 1/r too
            let nu_ = if fc.f32_ { (nu as f32) as f64 } else { nu };
            let c = sumabs / (nu_ * n as f64);
            let mut s = 0.0;
            for i in 0..n {
                let ys = if fc.yb[i] { 1.0 } else { -1.0 };
                let al = ys * a[i];
                s += a[i];
                ctx.require(al >= 0.0 && al <= c * (1.0 + 1e3 * fe), "box", class, || format!("sample {} (y {}): coefficient {} outside [0, 1/r = {}]", i, ys, al, c));
                let yf = ys * f[i];
                if al < c - delta(c) {
                    ctx.require(yf >= 1.0 - tol * (1.0 + c), "kkt_margin", class, || format!("sample {} with alpha {} < bound {} lies inside the margin: y f = {}", i, al, c, yf));
                }
                if al > delta(c) {
                    ctx.require(yf <= 1.0 + tol * (1.0 + c), "kkt_margin", class, || format!("sample {} with alpha {} > 0 lies outside the margin: y f = {}", i, al, yf));
                }
            }
            ctx.require(s.abs() <= 64.0 * fe * (1.0 + sumabs) * (n as f64).sqrt(), "equality", class, || format!("sum of y_i alpha_i = {}", s));
        }
        Mode::OneClass(nu) => {
            let mut s = 0.0;
            for i in 0..n {
                s += a[i];
                ctx.require(a[i] >= 0.0 && a[i] <= 1.0 + 4.0 * fe, "box", class, || format!("sample {}: coefficient {} outside [0,1]", i, a[i]));
                if a[i] < 1.0 - delta(1.0) {
                    ctx.require(f[i] >= -tol, "kkt_margin", class, || format!("sample {} with alpha {} < 1 has decision {} < 0", i, a[i], f[i]));
                }
                if a[i] > delta(1.0) {
                    ctx.require(f[i] <= tol, "kkt_margin", class, || format!("sample {} with alpha {} > 0 has decision {} > 0", i, a[i], f[i]));
                }
            }
            let nu_ = if fc.f32_ { (nu as f32) as f64 } else { nu };
            ctx.require((s - nu_ * n as f64).abs() <= 64.0 * fe * (1.0 + s.abs()) * n as f64, "equality", class, || format!("sum alpha = {} but nu*n = {}", s, nu_ * n as f64));
        }
        Mode::EpsSvr(c, e) => {
            let c = if fc.f32_ { (c as f32) as f64 } else { c };
            let mut s = 0.0;
            for i in 0..n {
                s += a[i];
                ctx.require(a[i].abs() <= c * (1.0 + 4.0 * fe), "box", class, || format!("sample {}: coefficient {} outside [-{},{}]", i, a[i], c, c));
                let res = fc.yr[i] - f[i];
                let ytol = tol + 16.0 * fe * fc.yr[i].abs();
                // alpha_i - alpha*_i < C  => (alpha_i not at upper or alpha*_i > 0) : res <= eps
                if a[i] < c - delta(c) {
                    ctx.require(res <= e + ytol, "kkt_residual", class, || format!("sample {} coefficient {} < C {}: residual {} > eps {}", i, a[i], c, res, e));
                }
                if a[i] > -c + delta(c) {
                    ctx.require(res >= -e - ytol, "kkt_residual", class, || format!("sample {} coefficient {} > -C: residual {} < -eps {}", i, a[i], res, e));
                }
                if a[i] > delta(c) {
                    ctx.require(res >= e - ytol, "kkt_residual", class, || format!("sample {} coefficient {} > 0: residual {} < eps {}", i, a[i], res, e));
                }
                if a[i] < -delta(c) {
                    ctx.require(res <= -e + ytol, "kkt_residual", class, || format!("sample {} coefficient {} < 0: residual {} > -eps {}", i, a[i], res, e));
                }
            }
            ctx.require(s.abs() <= 64.0 * fe * (1.0 + sumabs) * (n as f64).sqrt(), "equality", class, || format!("sum of coefficients = {}", s));
        }
        Mode::NuSvr(_nu, c) => {
            let c = if fc.f32_ { (c as f32) as f64 } else { c };
            let mut s = 0.0;
            for i in 0..n {
                s += a[i];
                ctx.require(a[i].abs() <= c * (1.0 + 4.0 * fe), "box", class, || format!("sample {}: coefficient {} outside [-{},{}]", i, a[i], c, c));
            }
            ctx.require(s.abs() <= 64.0 * fe * (1.0 + sumabs) * (n as f64).sqrt(), "equality", class, || format!("sum of coefficients = {}", s));
            // second constraint of the nu-SVR dual: e'(alpha + alpha*) <= C nu n, and sum|alpha_i - alpha*_i| <= e'(alpha + alpha*)
            let nu_ = if fc.f32_ { (_nu as f32) as f64 } else { _nu };
            ctx.require(sumabs <= c * nu_ * n as f64 * (1.0 + 1e-6) + 64.0 * fe * (1.0 + sumabs), "nu_constraint", class, || {
                format!("sum |coefficient| = {} exceeds C nu n = {} (C {} nu {} n {}): nu does not constrain the solution", sumabs, c * nu_ * n as f64, c, nu_, n)
            });
            // tube width is a free variable of nu-SVR: all free vectors must share one |residual| = eps >= 0,
            // zero coefficients lie within it, bounded ones on or outside it
            let mut lo = 0.0f64; // eps >= lo
            let mut hi = f64::INFINITY; // eps <= hi
            for i in 0..n {
                let res = fc.yr[i] - f[i];
                if a[i] > delta(c) {
                    // res >= eps (== if free)
                    hi = hi.min(res);
                    if a[i] < c - delta(c) {
                        lo = lo.max(res);
                    }
                } else if a[i] < -delta(c) {
                    hi = hi.min(-res);
                    if a[i] > -c + delta(c) {
                        lo = lo.max(-res);
                    }
                } else {
                    lo = lo.max(res.abs());
                }
            }
            ctx.require(lo <= hi + 2.0 * tol, "kkt_residual", class, || format!("no tube width fits: needs eps >= {} and eps <= {}", lo, hi));
        }
    }
}

pub fn run(em: &mut Em, rng: &mut Rng) {
    let thorough = em.thorough();
    // ---- scripted steps
    let nstep = if thorough { 20000 } else { 2500 };
    for _ in 0..nstep {
        let pr = gen_prob(rng, if thorough { 12 } else { 8 }, false);
        let len = 1 + rng.below(if thorough { 14 } else { 9 });
        let mut sc = vec![];
        for _ in 0..len {
            let o = match rng.below(12) {
                0..=2 => StepOp::U(rng.below(64), rng.below(64)),
                3..=5 => StepOp::W,
                6 | 7 => StepOp::S(rng.below(64), rng.below(64)),
                8 => StepOp::R,
                9 | 10 => StepOp::D,
                _ => StepOp::H,
            };
            sc.push(o);
        }
        em.count(&format!("step:bounds={}", pr.bounds_class()));
        em.count(&format!("step:n={}", pr.n));
        op_step(em, &pr, &sc);
    }
    // ---- full solves on small problems
    let nsolve = if thorough { 12000 } else { 1500 };
    for t in 0..nsolve {
        let mut pr = gen_prob(rng, if thorough { 16 } else { 10 }, true);
        // feasible start of C-SVC unless the draw is a general start
        if t % 3 != 0 {
            pr.a0 = vec![0.0; pr.n];
        }
        let shrinking = t % 4 != 0;
        em.count(&format!("solve:shrink={}:bounds={}", shrinking as u8, pr.bounds_class()));
        op_solve(em, &pr, shrinking);
    }
    // ---- public API fits
    let nfit = if thorough { 800 } else { 250 };
    for t in 0..nfit {
        let n = if thorough {
            if t % 50 == 0 {
                1000 + rng.below(1001)
            } else {
                10 + rng.below(300)
            }
        } else if t % 30 == 0 {
            400 + rng.below(300)
        } else {
            10 + rng.below(120)
        };
        op_fit(em, rng, n);
    }
}
