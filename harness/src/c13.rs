//! C13 — SMO solver of linfa-svm.
//!
//! * `step`  — scripted update / swap / reconstruct / shrink / select sequences on the private
//!             `SolverState` (generic stepper hook: f64 and f32, the three permutable kernels,
//!             with and without `nu_constraint`), state dumped after every step; compared
//!             bit-for-bit with the Lean model (run on `Float` / `Float32`), and checked against
//!             the bookkeeping invariants recomputed from the original problem (oracle).
//! * `solve` — full `solve()` on small problems with shrinking on/off; published alpha, rho, r,
//!             objective, iteration count, separating hyperplane, `nsupport()` and
//!             `weighted_sum()` at query points compared bit-for-bit; KKT oracle (plain and nu form).
//! * `#fit`  — public-API fits (c13_fit.rs), oracle only.
use crate::util::*;
use linfa_kernel::KernelMethod;
use linfa_svm::verif_hooks_c13::Dump;
use linfa_svm::verif_hooks_c13g::{solved, KernelKind, StepperG};
use ndarray::{Array1, Array2};

#[path = "c13_fit.rs"]
mod fit;

// ------------------------------------------------------------------------------------------
// scripted problems for the stepper
// ------------------------------------------------------------------------------------------

#[derive(Clone)]
struct Prob {
    /// number of variables (`2 m` for the regression kernel)
    n: usize,
    /// samples: rows of `x`, size of `k`
    x: Vec<Vec<f64>>,
    k: Vec<Vec<f64>>,
    linear: bool,
    /// tag `weighted_sum` evaluates: 0 linear, 1 a tag unrelated to `k`, 2 `Polynomial(1, 2)`,
    /// 3 `Polynomial(1, 1)` (degree 1 with a constant: not `is_linear`, rows are stored)
    meth: u8,
    /// 0 `PermutableKernel`, 1 `PermutableKernelOneClass`, 2 `PermutableKernelRegression`
    km: u8,
    nu: bool,
    f32_: bool,
    y: Vec<bool>,
    p: Vec<f64>,
    b: Vec<f64>,
    a0: Vec<f64>,
    eps: f64,
    q: Vec<Vec<f64>>,
    tiny_bounds: bool,
    /// bounds that are not dyadic (0.1, 0.3, ...): sums and differences of bounds round
    inexact_bounds: bool,
}

impl Prob {
    fn m(&self) -> usize {
        self.x.len()
    }
    fn header(&self) -> String {
        format!(
            "n={} lin={} X={} K={} y={} p={} b={} a0={} eps={} km={} nu={} f={} meth={} q={}",
            self.n,
            self.linear as u8,
            list2(self.x.iter().map(|r| r.iter()), |v| hex64(*v)),
            list2(self.k.iter().map(|r| r.iter()), |v| hex64(*v)),
            list(self.y.iter(), |v| (*v as u8).to_string()),
            list(self.p.iter(), |v| hex64(*v)),
            list(self.b.iter(), |v| hex64(*v)),
            list(self.a0.iter(), |v| hex64(*v)),
            hex64(self.eps),
            self.km,
            self.nu as u8,
            if self.f32_ { 32 } else { 64 },
            self.meth,
            if self.q.is_empty() { "none".to_string() } else { list2(self.q.iter().map(|r| r.iter()), |v| hex64(*v)) },
        )
    }
    fn bounds_class(&self) -> &'static str {
        if self.tiny_bounds {
            "tiny"
        } else if self.inexact_bounds {
            "inexact"
        } else if self.b.iter().all(|v| *v == self.b[0]) {
            "equal"
        } else {
            "unequal"
        }
    }
    /// configuration class shared by the oracle clauses of `step` and `solve`
    fn cfg(&self) -> String {
        format!("km={}:nu={}:f={}:bounds={}", self.km, self.nu as u8, if self.f32_ { 32 } else { 64 }, self.bounds_class())
    }
    /// sample behind variable `i`
    fn smp(&self, i: usize) -> usize {
        if self.km == 2 {
            i % self.m()
        } else {
            i
        }
    }
    /// Q_ij of the dual the kernel wrapper stands for, from the original problem
    fn q(&self, i: usize, j: usize) -> f64 {
        let v = self.k[self.smp(i)][self.smp(j)];
        let differ = match self.km {
            0 => self.y[i] != self.y[j],
            1 => false,
            _ => (i < self.m()) != (j < self.m()),
        };
        if differ {
            -v
        } else {
            v
        }
    }
    fn kdiag(&self, i: usize) -> f64 {
        self.k[self.smp(i)][self.smp(i)]
    }
    fn ysign(&self, i: usize) -> f64 {
        if self.y[i] {
            1.0
        } else {
            -1.0
        }
    }
    /// relative accuracy the oracle grants to values the solver maintained incrementally
    fn rel(&self) -> f64 {
        if self.f32_ {
            4e-5
        } else {
            1e-9
        }
    }
    fn feps(&self) -> f64 {
        if self.f32_ {
            f32::EPSILON as f64
        } else {
            f64::EPSILON
        }
    }
}

fn gen_prob(rng: &mut Rng, nmax: usize, psd_only: bool, for_solve: bool) -> Prob {
    let km: u8 = match rng.below(20) {
        0..=11 => 0,
        12..=14 => 1,
        _ => 2,
    };
    let f32_ = rng.chance(1, 4);
    let nu = rng.chance(1, 4) && km != 1; // calculate_rho_nu needs both classes (NaN otherwise)
    let m = if km == 2 { 1 + rng.below((nmax / 2).max(1)) } else { 2 + rng.below(nmax - 1) };
    let n = if km == 2 { 2 * m } else { m };
    let d = 1 + rng.below(3);
    let span = *rng.pick(&[1i64, 2, 3]);
    let mut x: Vec<Vec<f64>> = (0..m).map(|_| (0..d).map(|_| rng.range(-span, span) as f64).collect()).collect();
    // duplicated points
    if m > 2 && rng.chance(1, 3) {
        let a = rng.below(m);
        let b = rng.below(m);
        x[a] = x[b].clone();
    }
    let kind = if psd_only { *rng.pick(&[0usize, 1, 3]) } else { rng.below(4) };
    let dot = |a: &Vec<f64>, b: &Vec<f64>| a.iter().zip(b.iter()).map(|(u, v)| u * v).sum::<f64>();
    let (k, linear, meth): (Vec<Vec<f64>>, bool, u8) = match kind {
        0 => ((0..m).map(|i| (0..m).map(|j| dot(&x[i], &x[j])).collect()).collect(), true, 0),
        1 => ((0..m).map(|i| (0..m).map(|j| (dot(&x[i], &x[j]) + 1.0) * (dot(&x[i], &x[j]) + 1.0)).collect()).collect(), false, 2),
        3 => ((0..m).map(|i| (0..m).map(|j| dot(&x[i], &x[j]) + 1.0).collect()).collect(), false, 3),
        _ => {
            // arbitrary symmetric integer matrix (may be indefinite: exercises the 1e-10 guard)
            let mut mm = vec![vec![0.0; m]; m];
            for i in 0..m {
                for j in i..m {
                    let v = rng.range(-3, 4) as f64;
                    mm[i][j] = v;
                    mm[j][i] = v;
                }
            }
            (mm, false, 1)
        }
    };
    let mut y: Vec<bool> = match km {
        0 => (0..n).map(|_| rng.coin()).collect(),
        1 => vec![true; n],
        _ => (0..n).map(|i| i < m).collect(),
    };
    if km == 0 {
        if y.iter().all(|v| *v) {
            y[0] = false;
        }
        if y.iter().all(|v| !*v) {
            y[0] = true;
        }
    }
    let fe = if f32_ { f32::EPSILON as f64 } else { f64::EPSILON };
    let cs = [0.25, 0.5, 1.0, 2.0, 4.0];
    // bounds around the support-vector threshold 100 eps (solve only): coefficients that sit at
    // such a bound are the ones on which the three `100 eps` filters of the code must agree
    let tiny_bounds = for_solve && !nu && rng.chance(1, 5);
    // scripted steps only: per-sample bounds that are not dyadic, cast to the float type of the run (the clipping
    // code computes `bound_j + diff`, `bound_i - diff`, `sum - bound_i`: with such bounds these round)
    let inexact_bounds = !for_solve && rng.chance(1, 8);
    let b: Vec<f64> = if inexact_bounds {
        let ci = [0.1, 0.3, 0.7, 1.1, 2.3];
        (0..n).map(|_| { let v = *rng.pick(&ci); if f32_ { (v as f32) as f64 } else { v } }).collect()
    } else if tiny_bounds {
        let ts = [4.0 * fe, 16.0 * fe, 32.0 * fe, 64.0 * fe, 128.0 * fe, 256.0 * fe, 512.0 * fe, 2048.0 * fe, 1.0, 1.0, 2.0, 0.5];
        (0..n).map(|_| *rng.pick(&ts)).collect()
    } else if nu && rng.chance(2, 3) {
        vec![1.0; n]
    } else {
        match rng.below(4) {
            0 => vec![*rng.pick(&cs); n],
            1 | 2 => {
                let cp = *rng.pick(&cs);
                let cn = *rng.pick(&cs);
                y.iter().map(|t| if *t { cp } else { cn }).collect()
            }
            _ => (0..n).map(|_| *rng.pick(&cs)).collect(),
        }
    };
    let p: Vec<f64> = if km == 2 && rng.chance(3, 4) {
        // fit_epsilon / regression::fit_nu: eps -/+ target
        let e = if nu { 0.0 } else { *rng.pick(&[0.0, 0.25, 0.5]) };
        let t: Vec<f64> = (0..m).map(|_| rng.range(-8, 8) as f64 / 4.0).collect();
        (0..n).map(|i| if i < m { e - t[i] } else { e + t[i - m] }).collect()
    } else if nu || km == 1 {
        if rng.chance(2, 3) {
            vec![0.0; n]
        } else {
            (0..n).map(|_| rng.range(-3, 3) as f64).collect()
        }
    } else if rng.chance(2, 3) {
        vec![-1.0; n]
    } else {
        (0..n).map(|_| rng.range(-3, 3) as f64).collect()
    };
    let a0: Vec<f64> = if nu && rng.chance(2, 3) {
        // classification::fit_nu: fill each class up to nu n / 2
        let npos = y.iter().filter(|v| **v).count();
        let cap = npos.min(n - npos) as f64;
        let half = *rng.pick(&[0.25, 0.5, 0.75, 1.0]) * cap;
        let (mut sp, mut sn) = (half, half);
        (0..n)
            .map(|i| {
                let s = if y[i] { &mut sp } else { &mut sn };
                let v = s.min(b[i]);
                *s -= v;
                v
            })
            .collect()
    } else if km == 1 && rng.chance(2, 3) {
        // fit_one_class: the first nu n variables at the bound
        let tot = *rng.pick(&[0.25, 0.5, 0.75]) * n as f64;
        let mut s = tot;
        (0..n)
            .map(|i| {
                let v = s.min(b[i]);
                s -= v;
                v
            })
            .collect()
    } else if rng.chance(1, 2) {
        vec![0.0; n]
    } else {
        (0..n).map(|i| *rng.pick(&[0.0, 0.0, b[i] / 2.0, b[i]])).collect()
    };
    let eps0 = *rng.pick(&[0.001, 0.125, 0.5]);
    let eps = if f32_ { (eps0 as f32) as f64 } else { eps0 };
    // query points for weighted_sum: one training row, two lattice points (seen or not)
    let q: Vec<Vec<f64>> = if for_solve && meth != 1 {
        let mut q = vec![x[rng.below(m)].clone()];
        for _ in 0..2 {
            q.push((0..d).map(|_| rng.range(-span - 1, span + 1) as f64).collect());
        }
        q
    } else {
        vec![]
    };
    Prob { n, x, k, linear, meth, km, nu, f32_, y, p, b, a0, eps, q, tiny_bounds, inexact_bounds }
}

fn stepper<'a, F: linfa::Float>(pr: &Prob, ds: &'a Array2<F>, shrinking: bool) -> StepperG<'a, F> {
    let c = |v: &f64| F::cast(*v);
    let m = pr.m();
    let kernel = Array2::from_shape_fn((m, m), |(i, j)| F::cast(pr.k[i][j]));
    let method = match pr.meth {
        0 => KernelMethod::Linear,
        2 => KernelMethod::Polynomial(F::one(), F::cast(2.0)),
        3 => KernelMethod::Polynomial(F::one(), F::one()),
        _ => KernelMethod::Gaussian(F::one()),
    };
    let kind = match pr.km {
        0 => KernelKind::Class,
        1 => KernelKind::OneClass,
        _ => KernelKind::Regression,
    };
    StepperG::new(
        kind,
        kernel,
        method,
        ds.view(),
        pr.a0.iter().map(c).collect(),
        pr.p.iter().map(c).collect(),
        pr.y.clone(),
        pr.b.iter().map(c).collect(),
        F::cast(pr.eps),
        shrinking,
        pr.nu,
    )
}

fn dataset<F: linfa::Float>(pr: &Prob) -> Array2<F> {
    let d = pr.x[0].len();
    Array2::from_shape_fn((pr.m(), d), |(i, j)| F::cast(pr.x[i][j]))
}

fn dump_str(d: &Dump) -> String {
    format!(
        "A={}/U={}/G={}/H={}/S={}/N={}/X={}/P={}/Y={}/B={}",
        list(d.alpha.iter(), |v| hex64c(*v)),
        list(d.alpha_ub.iter(), |v| hex64c(*v)),
        list(d.gradient.iter(), |v| hex64c(*v)),
        list(d.gradient_fixed.iter(), |v| hex64c(*v)),
        list(d.active_set.iter(), |v| v.to_string()),
        d.nactive,
        d.unshrink as u8,
        list(d.p.iter(), |v| hex64c(*v)),
        list(d.targets.iter(), |v| (*v as u8).to_string()),
        list(d.bounds.iter(), |v| hex64c(*v)),
    )
}

/// clause of a box failure: an excess of at most 8 ulp of the largest bound is the rounding of `update`'s clipped
/// value (open finding `C13-update-clip-rounds-outside-box`), anything else is `box`
pub(crate) fn box_clause(a: f64, lo: f64, hi: f64, bmax: f64, fe: f64) -> &'static str {
    let slack = 8.0 * fe * bmax;
    if (a > hi && a <= hi + slack) || (a < lo && a >= lo - slack) {
        "box_rounding"
    } else {
        "box"
    }
}

fn close(a: f64, b: f64, scale: f64, rel: f64) -> bool {
    (a - b).abs() <= rel * (1.0 + scale.abs() + a.abs().max(b.abs()))
}

/// per-class sums of the variables (the two equality constraints of the nu duals)
fn class_sums(pr: &Prob, s: &[usize], alpha: &[f64]) -> (f64, f64) {
    let mut sp = 0.0;
    let mut sn = 0.0;
    for k in 0..pr.n {
        if pr.y[s[k]] {
            sp += alpha[k]
        } else {
            sn += alpha[k]
        }
    }
    (sp, sn)
}

/// bookkeeping invariants of the solver state, recomputed from the original problem
#[allow(clippy::too_many_arguments)]
fn oracle_state(ctx: &mut Ctx, pr: &Prob, d: &Dump, class: &str, at: &str, after_reconstruct: bool, after_shrink: bool, ysum0: f64) {
    let n = pr.n;
    let rel = pr.rel();
    let mut seen = vec![false; n];
    let mut perm = d.active_set.len() == n;
    for &s in &d.active_set {
        if s >= n || seen[s] {
            perm = false;
        } else {
            seen[s] = true;
        }
    }
    ctx.require(perm, "active_set_permutation", class, || format!("{}: active_set {:?}", at, d.active_set));
    if !perm {
        return;
    }
    ctx.require(d.nactive <= n, "nactive_range", class, || format!("{}: nactive {} of {}", at, d.nactive, n));
    let s = &d.active_set;
    for k in 0..n {
        ctx.require(d.p[k] == pr.p[s[k]] && d.targets[k] == pr.y[s[k]], "aligned_p_y", class, || format!("{}: position {} holds sample {} but p/y of another", at, k, s[k]));
        ctx.require(d.bounds[k] == pr.b[s[k]], "aligned_bounds", class, || format!("{}: position {} holds sample {} (bound {}) but bounds[{}]={}", at, k, s[k], pr.b[s[k]], k, d.bounds[k]));
        ctx.require(d.alpha_ub[k] == pr.b[s[k]], "aligned_alpha_bound", class, || format!("{}: position {} sample {} bound {} but Alpha.upper_bound {}", at, k, s[k], pr.b[s[k]], d.alpha_ub[k]));
        let okq = (0..n).all(|l| d.q_rows[k][l] == pr.q(s[k], s[l])) && d.q_diag[k] == pr.kdiag(s[k]);
        ctx.require(okq, "aligned_kernel", class, || format!("{}: kernel row at position {} is not the row of variable {}", at, k, s[k]));
    }
    // feasibility
    let mut ysum = 0.0;
    let mut scale = 0.0f64;
    for k in 0..n {
        let a = d.alpha[k];
        let bb = pr.b[s[k]];
        let bmax = pr.b.iter().fold(0.0f64, |m, v| m.max(*v));
        ctx.require(a >= 0.0 && a <= bb, box_clause(a, 0.0, bb, bmax, pr.feps()), class, || format!("{}: alpha of sample {} = {:e} outside [0,{:e}] (by {:e})", at, s[k], a, bb, if a < 0.0 { -a } else { a - bb }));
        ysum += pr.ysign(s[k]) * a;
        scale = scale.max(bb);
    }
    ctx.require(close(ysum, ysum0, scale * n as f64, rel), "equality", class, || format!("{}: sum y*alpha = {} but was {} initially", at, ysum, ysum0));
    // gradient of the active variables; G_bar of all variables
    let full_grad = |k: usize| -> f64 { pr.p[s[k]] + (0..n).map(|l| pr.q(s[k], s[l]) * d.alpha[l]).sum::<f64>() };
    let gbar = |k: usize| -> f64 { (0..n).filter(|l| d.alpha[*l] >= pr.b[s[*l]]).map(|l| pr.q(s[k], s[l]) * pr.b[s[l]]).sum::<f64>() };
    let gs: f64 = (0..n).map(|k| full_grad(k).abs()).fold(0.0, f64::max) + (0..n).map(|k| gbar(k).abs()).fold(0.0, f64::max);
    // in f32 the steps taken so far may have moved the gradient by more than its present size
    let gs = gs + if pr.f32_ { (0..n).map(|k| (0..n).map(|l| (pr.q(k, l) * pr.b[l]).abs()).sum::<f64>()).fold(0.0, f64::max) } else { 0.0 };
    for k in 0..d.nactive.min(n) {
        ctx.require(close(d.gradient[k], full_grad(k), gs, rel), "gradient_active", class, || format!("{}: gradient of active position {} (sample {}) = {} but p + Q alpha = {}", at, k, s[k], d.gradient[k], full_grad(k)));
    }
    for k in 0..n {
        ctx.require(close(d.gradient_fixed[k], gbar(k), gs, rel), "gradient_fixed", class, || format!("{}: gradient_fixed at position {} (sample {}) = {} but sum over upper-bounded = {}", at, k, s[k], d.gradient_fixed[k], gbar(k)));
    }
    let inactive_at_bound = (d.nactive.min(n)..n).all(|k| d.alpha[k] == 0.0 || d.alpha[k] >= pr.b[s[k]]);
    if after_shrink {
        ctx.require(inactive_at_bound, "shrunk_at_bound", class, || format!("{}: a free variable was made inactive (nactive {}, alpha {:?})", at, d.nactive, d.alpha));
    }
    if after_reconstruct && inactive_at_bound {
        for k in 0..n {
            ctx.require(close(d.gradient[k], full_grad(k), gs, rel), "gradient_reconstructed", class, || format!("{}: after reconstruct_gradient position {} (sample {}) has {} but p + Q alpha = {}", at, k, s[k], d.gradient[k], full_grad(k)));
        }
    }
}

/// generalised KKT check of `min 1/2 a'Qa + p'a, y'a = const (, e'a = const), 0<=a<=b` at the
/// published point (`alpha` per variable, before the regression fold)
fn oracle_kkt(ctx: &mut Ctx, pr: &Prob, alpha: &[f64], rho: f64, r: Option<f64>, iterations: usize, class: &str) {
    let n = pr.n;
    let g: Vec<f64> = (0..n).map(|i| pr.p[i] + (0..n).map(|j| pr.q(i, j) * alpha[j]).sum::<f64>()).collect();
    let gs = g.iter().fold(0.0f64, |m, v| m.max(v.abs()));
    // f32: every iteration adds rounding errors of the size of the moved gradient mass
    let gq = (0..n).map(|k| (0..n).map(|l| (pr.q(k, l) * pr.b[l]).abs()).sum::<f64>()).fold(0.0, f64::max);
    let tol = pr.eps + if pr.f32_ { 2.0 * pr.feps() * (1.0 + gs + gq) * (4.0 + iterations as f64) } else { 1e-9 * (1.0 + gs) };
    let mut ysum = 0.0;
    let mut ysum0 = 0.0;
    for i in 0..n {
        let bmax = pr.b.iter().fold(0.0f64, |m, v| m.max(*v));
        ctx.require(alpha[i] >= 0.0 && alpha[i] <= pr.b[i], box_clause(alpha[i], 0.0, pr.b[i], bmax, pr.feps()), class, || format!("published alpha[{}] = {:e} outside [0,{:e}]", i, alpha[i], pr.b[i]));
        ysum += pr.ysign(i) * alpha[i];
        ysum0 += pr.ysign(i) * pr.a0[i];
    }
    let bs = pr.b.iter().fold(0.0f64, |m, v| m.max(*v));
    ctx.require(close(ysum, ysum0, bs * n as f64, pr.rel()), "equality", class, || format!("sum y*alpha = {} but the start had {}", ysum, ysum0));
    match r {
        None => {
            for i in 0..n {
                let v = -pr.ysign(i) * g[i] + rho; // -y G - b with b = -rho
                let in_up = if pr.y[i] { alpha[i] < pr.b[i] } else { alpha[i] > 0.0 };
                let in_low = if pr.y[i] { alpha[i] > 0.0 } else { alpha[i] < pr.b[i] };
                if in_up {
                    ctx.require(v <= tol, "kkt", class, || format!("sample {} (alpha {} of {}, y {}) violates KKT: -yG+rho = {} > tol {}", i, alpha[i], pr.b[i], pr.ysign(i), v, tol));
                }
                if in_low {
                    ctx.require(v >= -tol, "kkt", class, || format!("sample {} (alpha {} of {}, y {}) violates KKT: -yG+rho = {} < -tol {}", i, alpha[i], pr.b[i], pr.ysign(i), v, tol));
                }
            }
        }
        Some(r) => {
            // two equality constraints: every class keeps its own sum and has its own multiplier
            let id: Vec<usize> = (0..n).collect();
            let (sp, sn) = class_sums(pr, &id, alpha);
            let (sp0, sn0) = class_sums(pr, &id, &pr.a0);
            ctx.require(close(sp, sp0, bs * n as f64, pr.rel()) && close(sn, sn0, bs * n as f64, pr.rel()), "equality_nu", class, || format!("class sums ({}, {}) but the start had ({}, {})", sp, sn, sp0, sn0));
            let (r1, r2) = (r + rho, r - rho);
            for i in 0..n {
                let ri = if pr.y[i] { r1 } else { r2 };
                if !ri.is_finite() {
                    continue; // a class without free and without opposite-bound variables: multiplier unbounded
                }
                if alpha[i] < pr.b[i] {
                    ctx.require(g[i] >= ri - tol, "kkt_nu", class, || format!("sample {} (alpha {} of {}, y {}) violates KKT: G = {} < r_class {} - tol {}", i, alpha[i], pr.b[i], pr.ysign(i), g[i], ri, tol));
                }
                if alpha[i] > 0.0 {
                    ctx.require(g[i] <= ri + tol, "kkt_nu", class, || format!("sample {} (alpha {} of {}, y {}) violates KKT: G = {} > r_class {} + tol {}", i, alpha[i], pr.b[i], pr.ysign(i), g[i], ri, tol));
                }
            }
        }
    }
}

#[derive(Clone, Copy, PartialEq)]
enum StepOp {
    U(usize, usize),
    S(usize, usize),
    R,
    D,
    W,
    H,
}

fn script_str(sc: &[StepOp]) -> String {
    sc.iter()
        .map(|o| match o {
            StepOp::U(i, j) => format!("u.{}.{}", i, j),
            StepOp::S(i, j) => format!("s.{}.{}", i, j),
            StepOp::R => "r".to_string(),
            StepOp::D => "d".to_string(),
            StepOp::W => "w".to_string(),
            StepOp::H => "h".to_string(),
        })
        .collect::<Vec<_>>()
        .join(",")
}

fn run_step<F: linfa::Float>(ctx: &mut Ctx, pr: &Prob, sc: &[StepOp]) -> String {
    let cfg = pr.cfg();
    let ds = dataset::<F>(pr);
    let mut st = stepper::<F>(pr, &ds, true);
    let w = |v: F| v.to_f64().unwrap();
    let ysum0: f64 = (0..pr.n).map(|i| pr.ysign(i) * pr.a0[i]).sum();
    let mut out = vec![];
    let mut shrunk = false;
    let d0 = st.dump();
    oracle_state(ctx, pr, &d0, &format!("step:shrink=0:{}", cfg), "after new", true, false, ysum0);
    out.push(dump_str(&d0));
    for (t, o) in sc.iter().enumerate() {
        let mut extra = String::new();
        let mut rec = false;
        let mut shr = false;
        let before = st.dump();
        let mut selected = None;
        match *o {
            StepOp::U(a, b) => {
                let na = before.nactive;
                if na >= 2 {
                    let i = a % na;
                    let mut j = b % na;
                    if i == j {
                        j = (i + 1) % na;
                    }
                    st.update(i, j);
                }
            }
            StepOp::S(a, b) => {
                shrunk = true;
                let na = before.nactive;
                if na >= 1 {
                    st.swap(a % na, b % na)
                }
            }
            StepOp::R => {
                rec = true;
                st.reconstruct_gradient()
            }
            StepOp::D => {
                shrunk = true;
                shr = true;
                st.do_shrinking()
            }
            StepOp::W => {
                let (i, j, opt) = st.select_working_set();
                extra = format!("/W={}.{}.{}", i, j, opt as u8);
                if !opt {
                    selected = Some((i, j));
                    st.update(i, j);
                }
            }
            StepOp::H => {
                let r = st.calculate_rho();
                extra = format!("/R={}", hex64c(w(r)));
                if pr.nu {
                    extra.push_str(&format!("/r={}", hex64c(w(st.r()))));
                }
            }
        }
        let d = st.dump();
        let class = format!("step:shrink={}:{}", shrunk as u8, cfg);
        let at = format!("after step {} ({})", t, script_str(&[*o]));
        oracle_state(ctx, pr, &d, &class, &at, rec, shr, ysum0);
        if let Some((i, j)) = selected {
            // the pair the selection returns is a legal working pair: distinct active positions;
            // under nu_constraint both of one class, so that each class keeps its sum
            ctx.require(i != j && i < before.nactive && j < before.nactive, "working_pair", &class, || format!("{}: select_working_set returned ({}, {}) with nactive {}", at, i, j, before.nactive));
            if pr.nu {
                let (sp0, sn0) = class_sums(pr, &before.active_set, &before.alpha);
                let (sp, sn) = class_sums(pr, &d.active_set, &d.alpha);
                let sc_ = pr.b.iter().fold(0.0f64, |m, v| m.max(*v)) * pr.n as f64;
                ctx.require(close(sp, sp0, sc_, pr.rel()) && close(sn, sn0, sc_, pr.rel()), "equality_nu", &class, || format!("{}: class sums ({}, {}) -> ({}, {})", at, sp0, sn0, sp, sn));
            }
        }
        out.push(format!("{}{}", dump_str(&d), extra));
    }
    format!("ok {}", out.join(" "))
}

fn op_step(em: &mut Em, pr: &Prob, sc: &[StepOp]) {
    let op = format!("step {} script={}", pr.header(), script_str(sc));
    em.case_valid(op, &format!("step:{}", pr.cfg()), |ctx| if pr.f32_ { run_step::<f32>(ctx, pr, sc) } else { run_step::<f64>(ctx, pr, sc) });
}

const SOLVE_FUEL: usize = 20000;

/// runs `solve()`; `Ok(response)` or `Err(())` when the run did not finish within `SOLVE_FUEL`
fn run_solve<F: linfa::Float>(ctx: &mut Ctx, pr: &Prob, shrinking: bool, class: &str) -> Result<String, ()> {
    let w = |v: F| v.to_f64().unwrap();
    let ds = dataset::<F>(pr);
    let st = stepper::<F>(pr, &ds, shrinking);
    let svm = st.solve_svm();
    let s = solved(&svm);
    if s.iterations >= SOLVE_FUEL {
        return Err(());
    }
    let m = pr.m();
    let fe = pr.feps();
    // per-variable coefficients are not published for regression (folded): feasibility of the fold;
    // the KKT conditions of regression fits are checked on the public fits (`kkt_residual`)
    if pr.km == 2 {
        // the fold itself: |coefficient| <= max bound, sum of coefficients = sum y alpha (kept by every step)
        let ysum0: f64 = (0..pr.n).map(|i| pr.ysign(i) * pr.a0[i]).sum();
        let ssum: f64 = s.alpha.iter().sum();
        let bs = pr.b.iter().fold(0.0f64, |mm, v| mm.max(*v));
        ctx.require(s.alpha.len() == m, "alpha_len", class, || format!("{} coefficients for {} samples", s.alpha.len(), m));
        ctx.require(close(ssum, ysum0, bs * pr.n as f64, pr.rel()), "equality", class, || format!("sum of folded coefficients {} but the start had sum y alpha = {}", ssum, ysum0));
        for i in 0..m {
            ctx.require(s.alpha[i] <= pr.b[i] && -s.alpha[i] <= pr.b[i + m], box_clause(s.alpha[i], -pr.b[i + m], pr.b[i], bs, fe), class, || format!("folded coefficient {} = {} outside [-{}, {}]", i, s.alpha[i], pr.b[i + m], pr.b[i]));
        }
    } else {
        oracle_kkt(ctx, pr, &s.alpha, s.rho, s.r, s.iterations, class);
    }
    ctx.require(s.r.is_some() == pr.nu, "r_published", class, || format!("r = {:?} with nu_constraint = {}", s.r, pr.nu));
    // sign the linear branch attaches to sample i
    let st_sign = |i: usize| -> f64 { if pr.km == 0 { pr.ysign(i) } else { 1.0 } };
    // published separating hyperplane pairs every sample with its own coefficient
    if let Some(wv) = &s.linear {
        let d = pr.x[0].len();
        for c in 0..d {
            let want: f64 = (0..m).map(|i| st_sign(i) * s.alpha[i] * pr.x[i][c]).sum();
            let sc_: f64 = (0..m).map(|i| (s.alpha[i] * pr.x[i][c]).abs()).sum();
            ctx.require(close(wv[c], want, sc_, pr.rel()), "linear_hyperplane", class, || format!("weight[{}] = {} but sum_i y_i alpha_i x_i = {}", c, wv[c], want));
        }
    }
    let thr = 100.0 * fe;
    let nz = s.alpha.iter().filter(|v| v.abs() > thr).count();
    if let Some(sv) = &s.support {
        let want: Vec<&Vec<f64>> = (0..m).filter(|i| s.alpha[*i].abs() > thr).map(|i| &pr.x[i]).collect();
        let same = sv.len() == want.len() && sv.iter().zip(want.iter()).all(|(a, b)| a == *b);
        ctx.require(same, "support_vectors", class, || format!("support vectors {:?} are not the rows with non-zero coefficient {:?}", sv, s.alpha));
        ctx.require(sv.len() == svm.nsupport(), "nsupport", class, || format!("nsupport() = {} but {} support vectors are stored (coefficients {:?})", svm.nsupport(), sv.len(), s.alpha));
    }
    ctx.require(svm.nsupport() == nz, "nsupport", class, || format!("nsupport() = {} but {} coefficients are non-zero (> 100 eps): {:?}", svm.nsupport(), nz, s.alpha));
    // decision value at the query points from the published coefficients
    let mut ws = vec![];
    for q in &pr.q {
        let qa: Array1<F> = Array1::from(q.iter().map(|v| F::cast(*v)).collect::<Vec<F>>());
        let got = w(svm.weighted_sum(&qa) + F::zero());
        ws.push(got);
        let dot = |a: &Vec<f64>| a.iter().zip(q.iter()).map(|(u, v)| u * v).sum::<f64>();
        let kv = |i: usize| -> f64 {
            if pr.meth == 0 {
                dot(&pr.x[i])
            } else if pr.meth == 3 {
                dot(&pr.x[i]) + 1.0
            } else {
                (dot(&pr.x[i]) + 1.0) * (dot(&pr.x[i]) + 1.0)
            }
        };
        let want: f64 = (0..m).map(|i| (if pr.linear { st_sign(i) } else { 1.0 }) * s.alpha[i] * kv(i)).sum();
        let sc_: f64 = (0..m).map(|i| (s.alpha[i] * kv(i)).abs()).sum();
        let dropped: f64 = (0..m).filter(|i| s.alpha[*i].abs() <= thr).map(|i| (s.alpha[i] * kv(i)).abs()).sum();
        ctx.require((got - want).abs() <= 16.0 * fe * (1.0 + sc_) * (m as f64) + dropped, "decision_value", class, || {
            format!("weighted_sum({:?}) = {} but sum_i alpha_i K(x_i, q) = {} from the published coefficients {:?}", q, got, want, s.alpha)
        });
    }
    let wstr = match (&s.linear, &s.support) {
        (Some(wv), _) => format!("L:{}", list(wv.iter(), |v| hex64c(*v))),
        (_, Some(sv)) => format!("V:{}", if sv.is_empty() { "none".to_string() } else { list2(sv.iter().map(|r| r.iter()), |v| hex64c(*v)) }),
        _ => "?".to_string(),
    };
    Ok(format!(
        "ok it={} thr={} A={} rho={} obj={} {} r={} ns={} ws={}",
        s.iterations,
        s.reached_threshold as u8,
        list(s.alpha.iter(), |v| hex64c(*v)),
        hex64c(s.rho),
        hex64c(s.obj),
        wstr,
        match s.r {
            Some(r) => hex64c(r),
            None => "-".to_string(),
        },
        svm.nsupport(),
        if ws.is_empty() { "-".to_string() } else { list(ws.iter(), |v| hex64c(*v)) }
    ))
}

fn op_solve(em: &mut Em, pr: &Prob, shrinking: bool) -> bool {
    let op = format!("solve {} shrink={} fuel={}", pr.header(), shrinking as u8, SOLVE_FUEL);
    let class = format!("solve:shrink={}:{}", shrinking as u8, pr.cfg());
    let mut finished = true;
    em.case_valid(op, &class, |ctx| {
        let r = if pr.f32_ { run_solve::<f32>(ctx, pr, shrinking, &class) } else { run_solve::<f64>(ctx, pr, shrinking, &class) };
        match r {
            Ok(s) => s,
            Err(()) => {
                // no problem of this size needs 20 000 iterations on the unchanged code (none in any tier / seed)
                finished = false;
                ctx.fail("terminates", &class, format!("solve() was still running after {} iterations on {} variables", SOLVE_FUEL, pr.n));
                "ok longrun".to_string()
            }
        }
    });
    finished
}

pub fn run(em: &mut Em, rng: &mut Rng) {
    let thorough = em.thorough();
    // ---- scripted steps
    let nstep = if thorough { 20000 } else { 2500 };
    for _ in 0..nstep {
        let pr = gen_prob(rng, if thorough { 12 } else { 8 }, false, false);
        let len = 1 + rng.below(if thorough { 14 } else { 9 });
        let mut sc = vec![];
        for _ in 0..len {
            let o = match rng.below(12) {
                0..=2 => StepOp::U(rng.below(64), rng.below(64)),
                3..=5 => StepOp::W,
                6 | 7 => StepOp::S(rng.below(64), rng.below(64)),
                8 => StepOp::R,
                9 | 10 => StepOp::D,
                _ => StepOp::H,
            };
            sc.push(o);
        }
        em.count(&format!("step:bounds={}", pr.bounds_class()));
        em.count(&format!("step:n={}", pr.n));
        em.count(&format!("step:km={}:nu={}:f={}", pr.km, pr.nu as u8, if pr.f32_ { 32 } else { 64 }));
        op_step(em, &pr, &sc);
    }
    // ---- full solves on small problems
    let nsolve = if thorough { 12000 } else { 1500 };
    for t in 0..nsolve {
        let mut pr = gen_prob(rng, if thorough { 16 } else { 10 }, true, true);
        // feasible start of C-SVC unless the draw is a general start
        if t % 3 != 0 && !pr.nu && pr.km != 1 {
            pr.a0 = vec![0.0; pr.n];
        }
        let shrinking = t % 4 != 0;
        let fin = op_solve(em, &pr, shrinking);
        let key = format!("solve:shrink={}:km={}:nu={}:f={}", shrinking as u8, pr.km, pr.nu as u8, if pr.f32_ { 32 } else { 64 });
        em.count(&format!("{}:{}", if fin { "solved" } else { "longrun" }, key));
        if fin && pr.tiny_bounds {
            em.count("solved:bounds=tiny");
        }
    }
    // ---- public API fits
    fit::run(em, rng);
}
