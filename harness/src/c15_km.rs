//! C15 — mini-batch k-means: `fit_with` recurrence for L2 / L1 / L-infinity metrics, cumulative counts,
//! convergence flag, inertia of the last batch, `predict` / `transform` of the incrementally fitted model,
//! first-batch initialisation inside `fit_with(None, ..)` (Random / KMeans++ / KMeans|| with `n_runs`), f32.
use super::*;
use linfa_clustering::verif_hooks_c09 as hooks;
use linfa_clustering::{IncrKMeansError, KMeans, KMeansInit};
use linfa_nn::distance::{Distance, L1Dist, L2Dist, LInfDist, LpDist};
use rand_xoshiro::rand_core::SeedableRng;
use rand_xoshiro::Xoshiro256Plus;

/// the three metrics from first principles: `rdistance` of two rows and `distance` of two (flattened) matrices
#[derive(Clone, Copy, PartialEq, Debug)]
pub(super) enum Metric {
    L2,
    L1,
    LInf,
    /// `LpDist(p)`: `(Σ|a-b|^p)^(1/p)`, reduced distance = the distance (trait default); oracle only
    Lp(f64),
}
impl Metric {
    fn name(self) -> &'static str {
        match self {
            Metric::L2 => "l2",
            Metric::L1 => "l1",
            Metric::LInf => "linf",
            Metric::Lp(_) => "lp",
        }
    }
    fn rdist(self, a: &[f64], b: &[f64]) -> f64 {
        match self {
            Metric::L2 => {
                let mut s = 0.0;
                for (x, y) in a.iter().zip(b) {
                    s += (x - y) * (x - y);
                }
                s
            }
            Metric::L1 => {
                let mut s = 0.0;
                for (x, y) in a.iter().zip(b) {
                    s += (x - y).abs();
                }
                s
            }
            Metric::LInf => a.iter().zip(b).map(|(x, y)| (x - y).abs()).fold(0.0, f64::max),
            Metric::Lp(pw) => a.iter().zip(b).map(|(x, y)| (x - y).abs().powf(pw)).sum::<f64>().powf(1.0 / pw),
        }
    }
    fn dist(self, a: &[f64], b: &[f64]) -> f64 {
        match self {
            Metric::L2 => self.rdist(a, b).sqrt(),
            _ => self.rdist(a, b),
        }
    }
}

/// local rayon pools: every k-means history runs under 4 worker threads (so that `par_for_each` and any
/// future parallel reduction really split the batch) and once more under a single one
fn pool(n: usize) -> &'static rayon::ThreadPool {
    static P1: std::sync::OnceLock<rayon::ThreadPool> = std::sync::OnceLock::new();
    static P4: std::sync::OnceLock<rayon::ThreadPool> = std::sync::OnceLock::new();
    let cell = if n == 1 { &P1 } else { &P4 };
    cell.get_or_init(|| rayon::ThreadPoolBuilder::new().num_threads(n).build().expect("rayon pool"))
}

/// (centroids, cluster_count, converged, inertia) after every batch
type Trace = Vec<(Rows, Vec<f64>, bool, f64)>;
fn same_trace(a: &Trace, b: &Trace) -> bool {
    a.len() == b.len() && a.iter().zip(b).all(|(a, b)| a.0.iter().flatten().map(|v| v.to_bits()).eq(b.0.iter().flatten().map(|v| v.to_bits())) && a.1 == b.1 && a.2 == b.2 && a.3.to_bits() == b.3.to_bits())
}

/// the whole history through `fit_with`, every batch handed over as a view of the given memory layout
/// (`mk_store` / `mk_view`: C, Fortran, strided, reversed rows, reversed columns, both axes inverted)
#[allow(clippy::too_many_arguments)]
fn km_trace<D: Distance<f64> + std::fmt::Debug + 'static>(dist_fn: &D, init: &KMeansInit<f64>, k: usize, n_runs: usize, batches: &[Rows], p: usize, tol: f64, seed: u64, layout: usize) -> (Trace, KMeans<f64, D>) {
    let params = KMeans::params_with(k, Xoshiro256Plus::seed_from_u64(seed), dist_fn.clone()).tolerance(tol).n_runs(n_runs).init_method(init.clone()).check().expect("valid k-means parameters");
    let mut model: Option<KMeans<f64, D>> = None;
    let mut out = vec![];
    for b in batches {
        let store = mk_store::<f64>(b, p, layout);
        let ds = DatasetBase::from(mk_view(&store, p, layout));
        let (mo, conv) = match params.fit_with(model.take(), &ds) {
            Ok(mo) => (mo, true),
            Err(IncrKMeansError::NotConverged(mo)) => (mo, false),
            Err(e) => panic!("unexpected error {}", e),
        };
        out.push((to_rows(mo.centroids()), mo.cluster_count().to_vec(), conv, mo.inertia()));
        model = Some(mo);
    }
    (out, model.unwrap())
}
/// the history under 4 threads with the given layout, and under 1 thread with a plain owned C-order matrix:
/// the model is a function of the history (and the seed) alone, so the two traces must agree bit for bit
#[allow(clippy::too_many_arguments)]
fn km_trace_checked<D: Distance<f64> + std::fmt::Debug + 'static>(ctx: &mut Ctx, class: &str, dist_fn: &D, init: &KMeansInit<f64>, k: usize, n_runs: usize, batches: &[Rows], p: usize, tol: f64, seed: u64, layout: usize) -> (Trace, KMeans<f64, D>) {
    let (got, model) = pool(4).install(|| km_trace(dist_fn, init, k, n_runs, batches, p, tol, seed, layout));
    let (plain, _) = pool(1).install(|| km_trace(dist_fn, init, k, n_runs, batches, p, tol, seed, 0));
    tag(&format!("ok:km:layout_fitted:{}", LAYOUTS[layout]));
    ctx.require(same_trace(&got, &plain), "function_of_history", &format!("{}:layout={}:threads=4", class, LAYOUTS[layout]), || {
        let at = got.iter().zip(&plain).position(|(a, b)| !same_trace(&vec![a.clone()], &vec![b.clone()])).unwrap_or(0);
        format!("the history fed as {} views under 4 rayon threads and as owned C-order matrices under 1 thread differ after batch {}: {:?} / {:?} vs {:?} / {:?}", LAYOUTS[layout], at, got[at].0, got[at].1, plain[at].0, plain[at].1)
    });
    (got, model)
}

fn to_rows(a: &Array2<f64>) -> Rows {
    a.rows().into_iter().map(|r| r.to_vec()).collect()
}

/// nearest centroid from first principles: (index of the first minimum, its rdistance, gap to the runner-up
/// relative to `1 + distance`; `inf` for a single centroid, 0 for an exact tie)
fn nearest(m: Metric, cs: &Rows, x: &[f64]) -> (usize, f64, f64) {
    let ds: Vec<f64> = cs.iter().map(|c| m.rdist(c, x)).collect();
    let mut bi = 0;
    for (i, d) in ds.iter().enumerate() {
        if *d < ds[bi] {
            bi = i;
        }
    }
    let second = ds.iter().enumerate().filter(|(i, _)| *i != bi).map(|(_, d)| *d).fold(f64::INFINITY, f64::min);
    (bi, ds[bi], (second - ds[bi]) / (1.0 + ds[bi]))
}

/// State of the first-principles replay: everything ever assigned to a cluster
struct Replay {
    cs: Rows,
    cnt: Vec<usize>,
    sums: Rows,
    c0: Rows,
    /// an earlier batch had an assignment too close to call: the cumulative counts were re-read from the model,
    /// the sums of "everything ever assigned" are no longer known (running mean not judged any more)
    tainted: bool,
}

/// one batch of the oracle: assignment against the centroids at the start of the batch, documented
/// recurrence, cumulative counts, running mean, truthful `converged`, inertia of the batch.
/// Returns false if the batch had an inexact near-tie (then only convergence and inertia are judged).
#[allow(clippy::too_many_arguments)]
fn km_batch_oracle(ctx: &mut Ctx, class: &str, bi: usize, m: Metric, rp: &mut Replay, b: &Rows, tol: f64, got_cs: &Rows, got_cnt: &[f64], conv: bool, inertia: f64, t: f64) -> bool {
    let k = rp.cs.len();
    let p = rp.cs[0].len();
    let mut tie = false;
    let mut inert = 0.0;
    // per observation the clusters it may be assigned to: the nearest centroid; on an EXACT tie (lattice inputs,
    // f64) every minimiser — the statement promises the recurrence and the cumulative counts, not a tie rule
    let mut choices: Vec<Vec<usize>> = vec![];
    for x in b {
        let (c, d, gap) = nearest(m, &rp.cs, x);
        // a gap within rounding distance is not judged.  In f32 (t > 1e-12) a tie that is exact for the oracle
        // (f64 arithmetic on the widened centroids) need not be exact for the implementation (f32 distance sums
        // of non-lattice centroids), so it is not judged either
        if gap != 0.0 || t > 1e-12 {
            if gap < 1e-9f64.max(t) {
                tie = true;
            }
            choices.push(vec![c]);
        } else {
            choices.push((0..k).filter(|i| m.rdist(&rp.cs[*i], x) == d).collect());
            tag("ok:km:exact_tie_point");
        }
        inert += d;
    }
    let combos = choices.iter().fold(1usize, |a, c| a.saturating_mul(c.len()));
    // the recurrence for one admissible assignment
    let apply = |assign: &[usize]| -> (Rows, Vec<usize>, Rows) {
        let (mut want, mut cnt, mut sums) = (rp.cs.clone(), rp.cnt.clone(), rp.sums.clone());
        for (x, &c) in b.iter().zip(assign) {
            cnt[c] += 1;
            for j in 0..p {
                sums[c][j] += x[j];
                want[c][j] += (x[j] - want[c][j]) / cnt[c] as f64;
            }
        }
        (want, cnt, sums)
    };
    let first: Vec<usize> = choices.iter().map(|c| c[0]).collect();
    let mut picked = apply(&first);
    let explains = |cand: &(Rows, Vec<usize>, Rows)| got_cnt.iter().zip(&cand.1).all(|(a, b)| *a == *b as f64) && (0..k).all(|c| near_v(&got_cs[c], &cand.0[c], t));
    if !tie && combos > 256 {
        // too many combinations of tied points to enumerate: the two natural tie rules (first minimum — the one
        // tried above —, last minimum) are tried; a batch that neither explains is not judged
        let last: Vec<usize> = choices.iter().map(|c| *c.last().unwrap()).collect();
        let cand = apply(&last);
        if explains(&picked) {
            tag("ok:km:many_ties_judged");
        } else if explains(&cand) {
            picked = cand;
            tag("ok:km:many_ties_judged");
        } else {
            tie = true;
        }
    } else if !tie && combos > 1 {
        let mut idx = vec![0usize; choices.len()];
        'search: loop {
            let assign: Vec<usize> = idx.iter().zip(&choices).map(|(i, c)| c[*i]).collect();
            let cand = apply(&assign);
            if got_cnt.iter().zip(&cand.1).all(|(a, b)| *a == *b as f64) && (0..k).all(|c| near_v(&got_cs[c], &cand.0[c], t)) {
                picked = cand;
                break 'search;
            }
            let mut q = 0;
            loop {
                if q == idx.len() {
                    break 'search;
                }
                idx[q] += 1;
                if idx[q] < choices[q].len() {
                    break;
                }
                idx[q] = 0;
                q += 1;
            }
        }
    }
    let (want, cnt, sums) = picked;
    rp.cnt = cnt;
    rp.sums = sums;
    inert /= b.len() as f64;
    let pre = class.split(':').next().unwrap_or("km");
    tag(&format!("ok:{}:{}:{}", pre, m.name(), if conv { "converged" } else { "not_converged" }));
    if !tie {
        tag(&format!("ok:{}:batch_judged", pre));
        ctx.require(got_cnt.iter().zip(&rp.cnt).all(|(a, b)| *a == *b as f64), "cumulative_counts", class, || format!("batch {}: cluster_count {:?}, cumulative assignments {:?}", bi, got_cnt, rp.cnt));
        for c in 0..k {
            ctx.require(near_v(&got_cs[c], &want[c], t), "recurrence", class, || format!("batch {}: centroid {} = {:?}, recurrence from the previous state gives {:?}", bi, c, got_cs[c], want[c]));
            if rp.tainted {
                continue;
            }
            if rp.cnt[c] > 0 {
                let mean: Vec<f64> = rp.sums[c].iter().map(|s| s / rp.cnt[c] as f64).collect();
                ctx.require(near_v(&got_cs[c], &mean, if t <= 1e-12 { 1e-9 } else { 10.0 * t }), "running_mean", class, || format!("batch {}: centroid {} = {:?}, mean of the {} points ever assigned {:?}", bi, c, got_cs[c], rp.cnt[c], mean));
            } else {
                ctx.require(got_cs[c] == rp.c0[c], "running_mean", class, || format!("batch {}: empty cluster {} moved to {:?}", bi, c, got_cs[c]));
            }
        }
        ctx.require(near(inertia, inert, t.max(1e-12)), "inertia", class, || format!("batch {}: inertia {} but the mean distance of the batch to its closest start centroids is {}", bi, inertia, inert));
    }
    if tie {
        // the assignment of this batch is not decidable by the oracle: continue from the model's own counts
        rp.cnt = got_cnt.iter().map(|v| *v as usize).collect();
        rp.tainted = true;
    }
    let shift = m.dist(&rp.cs.concat(), &got_cs.concat());
    // exact equality is a real boundary on lattice inputs and is judged; only a shift within rounding
    // distance of the tolerance (but not equal to it) is left undecided
    if (shift == tol && t <= 1e-12) || (shift - tol).abs() > t.max(1e-12) * (1.0 + tol) {
        ctx.require(conv == (shift < tol), "converged_truthful", class, || format!("batch {}: centroid shift {} tolerance {} reported converged={}", bi, shift, tol, conv));
    }
    rp.cs = got_cs.clone();
    !tie
}

/// `predict` / `transform` of the model after the history: nearest of the *current* centroids
fn km_predict_oracle<D: Distance<f64>>(ctx: &mut Ctx, class: &str, m: Metric, model: &KMeans<f64, D>, xs: &Rows, p: usize, layout: usize) {
    let cs = to_rows(model.centroids());
    let store = mk_store::<f64>(xs, p, layout);
    let a = mk_view(&store, p, layout);
    let pred = model.predict(&a);
    let tr = model.transform(&a);
    for (i, x) in xs.iter().enumerate() {
        let (c, d, gap) = nearest(m, &cs, x);
        if gap == 0.0 || gap > 1e-9 {
            tag("ok:km:predict_judged");
            // on an exact tie any minimiser is a closest centroid
            let okp = pred[i] == c || (gap == 0.0 && pred[i] < cs.len() && m.rdist(&cs[pred[i]], x) == d);
            ctx.require(okp, "predict_closest_centroid", class, || format!("point {:?}: predict {} but the closest centroid of the fitted model is {}", x, pred[i], c));
        }
        ctx.require(near(tr[i], d, 1e-12), "transform_min_distance", class, || format!("point {:?}: transform {} but the distance to the closest centroid is {}", x, tr[i], d));
    }
}

fn km_history<D: Distance<f64> + std::fmt::Debug + 'static>(ctx: &mut Ctx, dist_fn: D, m: Metric, c0: &Rows, batches: &[Rows], tol: f64, seed: u64, layout: usize) -> String {
    let p = c0[0].len();
    let k = c0.len();
    let (got, mo) = km_trace_checked(ctx, &format!("km:{}", m.name()), &dist_fn, &KMeansInit::Precomputed(arr2(c0, p)), k, 10, batches, p, tol, seed, layout);
    let mut parts = vec![];
    let mut rp = Replay { cs: c0.clone(), cnt: vec![0; k], sums: vec![vec![0.0; p]; k], c0: c0.clone(), tainted: false };
    for (bi, b) in batches.iter().enumerate() {
        let (got_cs, got_cnt, conv, inertia) = &got[bi];
        let class = format!("km:{}:batch={}", m.name(), if bi == 0 { "first" } else { "later" });
        km_batch_oracle(ctx, &class, bi, m, &mut rp, b, tol, got_cs, got_cnt, *conv, *inertia, 1e-12);
        parts.push(format!("cs={}/cnt={}/conv={}/in={}", list2(got_cs.iter().map(|x| x.iter()), |x| hex64c(*x)), list(got_cnt.iter(), |x| hex64c(*x)), *conv as u8, tf(*inertia)));
    }
    km_predict_oracle(ctx, &format!("km:{}", m.name()), m, &mo, batches.last().unwrap(), p, layout);
    km_predict_oracle(ctx, &format!("km:{}", m.name()), m, &mo, c0, p, layout);
    format!("ok {}", parts.join(" "))
}

fn op_km(em: &mut Em, m: Metric, c0: &Rows, batches: &[Rows], tol: f64, seed: u64, layout: usize) {
    let op = format!("km tol={} m={} c0={} x={}", hex64(tol), m.name(), list2(c0.iter().map(|x| x.iter()), |x| hex64(*x)), list3(batches.iter().map(|r| r.iter().map(|x| x.iter())), |x| hex64(*x)));
    case_t(em, op, "km", |ctx| match m {
        Metric::L2 => km_history(ctx, L2Dist, m, c0, batches, tol, seed, layout),
        Metric::L1 => km_history(ctx, L1Dist, m, c0, batches, tol, seed, layout),
        Metric::LInf => km_history(ctx, LInfDist, m, c0, batches, tol, seed, layout),
        Metric::Lp(pw) => km_history(ctx, LpDist(pw), m, c0, batches, tol, seed, layout),
    });
}

/// the same history with `LpDist(p)` (p = 1.5, 3; powf on both sides: everything judged at 1e-9, exact ties
/// not judged).  Oracle only: recurrence, cumulative counts, inertia and — the point of this variant — the
/// truthful converged / not-converged report for a metric whose reduced distance is the distance itself.
fn op_km_lp(em: &mut Em, pw: f64, c0: &Rows, batches: &[Rows], tol: f64, seed: u64) {
    let op = format!("#km_lp pw={} tol={} c0={} x={}", hex64(pw), hex64(tol), list2(c0.iter().map(|x| x.iter()), |x| hex64(*x)), list3(batches.iter().map(|r| r.iter().map(|x| x.iter())), |x| hex64(*x)));
    case_t(em, op, "km_lp", |ctx| {
        let p = c0[0].len();
        let k = c0.len();
        let m = Metric::Lp(pw);
        let params = KMeans::params_with(k, Xoshiro256Plus::seed_from_u64(seed), LpDist(pw)).tolerance(tol).init_method(KMeansInit::Precomputed(arr2(c0, p))).check().expect("valid k-means parameters");
        let mut model: Option<KMeans<f64, LpDist<f64>>> = None;
        let mut rp = Replay { cs: c0.clone(), cnt: vec![0; k], sums: vec![vec![0.0; p]; k], c0: c0.clone(), tainted: false };
        for (bi, b) in batches.iter().enumerate() {
            let ds = DatasetBase::from(arr2(b, p));
            let (mo, conv) = match params.fit_with(model.take(), &ds) {
                Ok(mo) => (mo, true),
                Err(IncrKMeansError::NotConverged(mo)) => (mo, false),
                Err(e) => panic!("unexpected error {}", e),
            };
            let got_cs = to_rows(mo.centroids());
            let got_cnt: Vec<f64> = mo.cluster_count().to_vec();
            km_batch_oracle(ctx, "km_lp", bi, m, &mut rp, b, tol, &got_cs, &got_cnt, conv, mo.inertia(), 1e-9);
            model = Some(mo);
        }
        "-".to_string()
    });
}

/// the same history in f32 (lattice inputs are exactly representable), any of the three metrics, any memory
/// layout, 4 rayon threads; oracle in f64 with the f32 error
/// bound: one centroid coordinate takes 3 roundings per absorbed point (6e-8 relative each): <= 12 points per
/// batch give 2.2e-6 relative per batch (recurrence judged at 2e-5), <= 100 points ever absorbed give 1.8e-5
/// (running mean judged at 2e-4); assignments with a relative distance gap below 2e-5 are not judged
fn km_f32_history<D: Distance<f32> + std::fmt::Debug + 'static>(ctx: &mut Ctx, dist_fn: D, m: Metric, c0: &Rows, batches: &[Rows], tol: f64, seed: u64, layout: usize) {
    let p = c0[0].len();
    let k = c0.len();
    let class = format!("km_f32:{}", m.name());
    let run = |layout: usize| -> Trace {
        let params = KMeans::params_with(k, Xoshiro256Plus::seed_from_u64(seed), dist_fn.clone()).tolerance(tol as f32).init_method(KMeansInit::Precomputed(mk_store::<f32>(c0, p, 0))).check().expect("valid k-means parameters");
        let mut model: Option<KMeans<f32, D>> = None;
        let mut out: Trace = vec![];
        for b in batches {
            let store = mk_store::<f32>(b, p, layout);
            let ds = DatasetBase::from(mk_view(&store, p, layout));
            let (mo, conv) = match params.fit_with(model.take(), &ds) {
                Ok(mo) => (mo, true),
                Err(IncrKMeansError::NotConverged(mo)) => (mo, false),
                Err(e) => panic!("unexpected error {}", e),
            };
            out.push((mo.centroids().rows().into_iter().map(|r| r.iter().map(|v| *v as f64).collect()).collect(), mo.cluster_count().iter().map(|v| *v as f64).collect(), conv, mo.inertia() as f64));
            model = Some(mo);
        }
        out
    };
    let got = pool(4).install(|| run(layout));
    let plain = pool(1).install(|| run(0));
    tag(&format!("ok:km_f32:fitted:{}:{}", m.name(), LAYOUTS[layout]));
    ctx.require(same_trace(&got, &plain), "function_of_history", &format!("{}:layout={}:threads=4", class, LAYOUTS[layout]), || format!("the f32 history fed as {} views under 4 threads differs from the owned one under 1 thread: {:?} vs {:?}", LAYOUTS[layout], got.last().map(|x| &x.0), plain.last().map(|x| &x.0)));
    let mut rp = Replay { cs: c0.clone(), cnt: vec![0; k], sums: vec![vec![0.0; p]; k], c0: c0.clone(), tainted: false };
    for (bi, b) in batches.iter().enumerate() {
        km_batch_oracle(ctx, &class, bi, m, &mut rp, b, tol as f32 as f64, &got[bi].0, &got[bi].1, got[bi].2, got[bi].3, 2e-5);
    }
}
fn op_km_f32(em: &mut Em, m: Metric, c0: &Rows, batches: &[Rows], tol: f64, seed: u64, layout: usize) {
    let op = format!("#km_f32 m={} layout={} tol={} c0={} x={}", m.name(), LAYOUTS[layout], hex64(tol), list2(c0.iter().map(|x| x.iter()), |x| hex64(*x)), list3(batches.iter().map(|r| r.iter().map(|x| x.iter())), |x| hex64(*x)));
    case_t(em, op, "km_f32", |ctx| {
        match m {
            Metric::L1 => km_f32_history(ctx, L1Dist, m, c0, batches, tol, seed, layout),
            Metric::LInf => km_f32_history(ctx, LInfDist, m, c0, batches, tol, seed, layout),
            _ => km_f32_history(ctx, L2Dist, Metric::L2, c0, batches, tol, seed, layout),
        }
        "-".to_string()
    });
}

#[derive(Clone, Copy, PartialEq, Debug)]
enum Init {
    Random,
    PlusPlus,
    Para,
}
impl Init {
    fn name(self) -> &'static str {
        match self {
            Init::Random => "random",
            Init::PlusPlus => "kmeans++",
            Init::Para => "kmeans_para",
        }
    }
    fn mk(self) -> KMeansInit<f64> {
        match self {
            Init::Random => KMeansInit::Random,
            Init::PlusPlus => KMeansInit::KMeansPlusPlus,
            Init::Para => KMeansInit::KMeansPara,
        }
    }
}

/// `fit_with(None, first batch)` with a non-precomputed initialisation, then further batches.  The
/// candidates of the `n_runs` initialisation runs are regenerated through the hook `init_run` from a clone
/// of the parameters' generator; the oracle demands that (1) two runs from the same parameters give the
/// same models (function of history + seed), (2) every candidate consists of rows of the first batch,
/// (3) the model after the first batch is the documented recurrence applied to a candidate of LOWEST
/// inertia, (4) later batches continue the recurrence; inertia, counts and `converged` as for `km`.
/// the candidates of the `n_runs` initialisation runs of `fit_with(None, first batch)`, in order, drawn
/// through the hook `init_run` (= `KMeansInit::run`) from a clone of the parameters' generator
fn km_init_cands<D: Distance<f64>>(dist_fn: &D, init: Init, k: usize, n_runs: usize, first: &Rows, seed: u64) -> Vec<Rows> {
    let mut rng = Xoshiro256Plus::seed_from_u64(seed);
    let p = first[0].len();
    let first = arr2(first, p);
    let km_init = init.mk();
    (0..n_runs).map(|_| to_rows(&hooks::init_run(&km_init, dist_fn, k, first.view(), &mut rng))).collect()
}

#[allow(clippy::too_many_arguments)]
fn km_init_history<D: Distance<f64> + std::fmt::Debug + 'static>(ctx: &mut Ctx, dist_fn: D, m: Metric, init: Init, k: usize, n_runs: usize, batches: &[Rows], tol: f64, seed: u64, layout: usize) {
    let p = batches[0][0].len();
    let class = format!("km_init:{}:{}", init.name(), m.name());
    // 4 threads + the given layout against 1 thread + owned matrices: function of history + seed alone
    let (got, _) = km_trace_checked(ctx, &class, &dist_fn, &init.mk(), k, n_runs, batches, p, tol, seed, layout);
    let mut cands: Vec<(Rows, f64)> = vec![];
    for c in km_init_cands(&dist_fn, init, k, n_runs, &batches[0], seed) {
        let inertia: f64 = batches[0].iter().map(|x| nearest(m, &c, x).1).sum();
        for row in &c {
            ctx.require(batches[0].iter().any(|x| x == row), "init_from_first_batch", &class, || format!("initial centroid {:?} is not a row of the first batch", row));
        }
        cands.push((c, inertia));
    }
    let min_inertia = cands.iter().map(|c| c.1).fold(f64::INFINITY, f64::min);
    // which candidates explain the model after the first batch?  (None: an inexact near-tie in the assignment)
    // does the documented recurrence applied to this candidate (any minimiser on an exact tie) give the model
    // after the first batch?  None: an inexact near-tie in the assignment
    let explain = |c0: &Rows| -> Option<bool> {
        let mut rp = Replay { cs: c0.clone(), cnt: vec![0; k], sums: vec![vec![0.0; p]; k], c0: c0.clone(), tainted: false };
        let mut scratch = Ctx { fails: vec![], trivial: false };
        let judged = km_batch_oracle(&mut scratch, &class, 0, m, &mut rp, &batches[0], tol, &got[0].0, &got[0].1, got[0].2, got[0].3, 1e-12);
        if !judged {
            return None;
        }
        Some(!scratch.fails.iter().any(|f| f.0 == "cumulative_counts" || f.0 == "recurrence"))
    };
    let ex: Vec<Option<bool>> = cands.iter().map(|c| explain(&c.0)).collect();
    let explaining: Vec<usize> = (0..cands.len()).filter(|i| ex[*i] == Some(true)).collect();
    // candidates whose first-batch assignment has an inexact near-tie are undecidable; the case is given up only
    // when the verdict hangs on one of them: no decidable candidate explains the model, or the only lowest-inertia
    // candidates are undecidable ones
    let undecided: Vec<usize> = (0..cands.len()).filter(|i| ex[*i].is_none()).collect();
    if (explaining.is_empty() && !undecided.is_empty()) || (!explaining.iter().any(|i| cands[*i].1 <= min_inertia * (1.0 + 1e-12)) && undecided.iter().any(|i| cands[*i].1 <= min_inertia * (1.0 + 1e-12))) {
        return;
    }
    ctx.require(!explaining.is_empty(), "function_of_history", &class, || format!("the model after the first batch {:?} is not the recurrence applied to any of the {} initialisations drawn from the parameters' generator", got[0].0, n_runs));
    if !explaining.is_empty() {
        tag(&format!("ok:km_init:{}:selection_judged", init.name()));
        if n_runs > 1 && cands.iter().any(|c| c.1 > min_inertia * (1.0 + 1e-9)) {
            tag("ok:km_init:selection_judged:inertias_differ");
        }
        let ok = explaining.iter().any(|i| cands[*i].1 <= min_inertia * (1.0 + 1e-12));
        ctx.require(ok, "init_lowest_inertia", &class, || format!("n_runs={}: inertias of the initialisations {:?}, the model continues one with inertia {:?}", n_runs, cands.iter().map(|c| c.1).collect::<Vec<_>>(), explaining.iter().map(|i| cands[*i].1).collect::<Vec<_>>()));
        // Clusters that received points forget their initial centroid, so several initialisations can lead to the
        // same model after the first batch while differing in inertia and shift of that batch: the replay continues
        // from a lowest-inertia initialisation for which the whole first batch (converged, inertia) checks out, if
        // there is one, and reports against the first lowest-inertia one otherwise
        let lowest: Vec<usize> = explaining.iter().cloned().filter(|i| cands[*i].1 <= min_inertia * (1.0 + 1e-12)).collect();
        let order: Vec<usize> = if lowest.is_empty() { explaining.clone() } else { lowest };
        let dry = |ci: usize| -> usize {
            let c0 = cands[ci].0.clone();
            let mut rp = Replay { cs: c0.clone(), cnt: vec![0; k], sums: vec![vec![0.0; p]; k], c0, tainted: false };
            let mut scratch = Ctx { fails: vec![], trivial: false };
            km_batch_oracle(&mut scratch, &class, 0, m, &mut rp, &batches[0], tol, &got[0].0, &got[0].1, got[0].2, got[0].3, 1e-12);
            scratch.fails.len()
        };
        let chosen = order.iter().cloned().find(|ci| dry(*ci) == 0).unwrap_or(order[0]);
        let c0 = cands[chosen].0.clone();
        let mut rp = Replay { cs: c0.clone(), cnt: vec![0; k], sums: vec![vec![0.0; p]; k], c0, tainted: false };
        for (bi, b) in batches.iter().enumerate() {
            km_batch_oracle(ctx, &class, bi, m, &mut rp, b, tol, &got[bi].0, &got[bi].1, got[bi].2, got[bi].3, 1e-12);
        }
    }
}

#[allow(clippy::too_many_arguments)]
fn op_km_init(em: &mut Em, m: Metric, init: Init, k: usize, n_runs: usize, batches: &[Rows], tol: f64, seed: u64, layout: usize) {
    let op = format!("#km_init m={} init={} layout={} k={} n_runs={} tol={} seed={} x={}", m.name(), init.name(), LAYOUTS[layout], k, n_runs, hex64(tol), seed, list3(batches.iter().map(|r| r.iter().map(|x| x.iter())), |x| hex64(*x)));
    em.count(&format!("km_init:{}", init.name()));
    case_t(em, op, "km_init", |ctx| {
        match m {
            Metric::L2 => km_init_history(ctx, L2Dist, m, init, k, n_runs, batches, tol, seed, layout),
            Metric::L1 => km_init_history(ctx, L1Dist, m, init, k, n_runs, batches, tol, seed, layout),
            Metric::LInf => km_init_history(ctx, LInfDist, m, init, k, n_runs, batches, tol, seed, layout),
            Metric::Lp(pw) => km_init_history(ctx, LpDist(pw), m, init, k, n_runs, batches, tol, seed, layout),
        }
        "-".to_string()
    });
    // the same history as a MODEL op: the candidates travel in the request, the driver selects among them through
    // `pickInit` (costs of the first batch, `min_by` tie rule) and continues the recurrence (`kmFitInitHistory`)
    let cands = std::panic::catch_unwind(std::panic::AssertUnwindSafe(|| match m {
        Metric::L2 => km_init_cands(&L2Dist, init, k, n_runs, &batches[0], seed),
        Metric::L1 => km_init_cands(&L1Dist, init, k, n_runs, &batches[0], seed),
        _ => km_init_cands(&LInfDist, init, k, n_runs, &batches[0], seed),
    }));
    let Ok(cands) = cands else { return };
    let p = batches[0][0].len();
    let op = format!("km_initfit m={} tol={} cands={} x={}", m.name(), hex64(tol), list3(cands.iter().map(|r| r.iter().map(|x| x.iter())), |x| hex64(*x)), list3(batches.iter().map(|r| r.iter().map(|x| x.iter())), |x| hex64(*x)));
    case_t(em, op, "km_initfit", |_ctx| {
        let got = pool(4).install(|| match m {
            Metric::L2 => km_trace(&L2Dist, &init.mk(), k, n_runs, batches, p, tol, seed, layout).0,
            Metric::L1 => km_trace(&L1Dist, &init.mk(), k, n_runs, batches, p, tol, seed, layout).0,
            _ => km_trace(&LInfDist, &init.mk(), k, n_runs, batches, p, tol, seed, layout).0,
        });
        tag(&format!("ok:km_initfit:{}", init.name()));
        format!("ok {}", got.iter().map(|(cs, cnt, conv, inertia)| format!("cs={}/cnt={}/conv={}/in={}", list2(cs.iter().map(|x| x.iter()), |x| hex64c(*x)), list(cnt.iter(), |x| hex64c(*x)), *conv as u8, tf(*inertia))).collect::<Vec<_>>().join(" "))
    });
}

pub(super) fn run(em: &mut Em, rng: &mut Rng) {
    let thorough = em.thorough();
    let nkm = if thorough { 6000 } else { 800 };
    for i in 0..nkm {
        let k = 1 + rng.below(4);
        let p = 1 + rng.below(3);
        let kind = rng.below(3);
        let c0: Rows = (0..k).map(|_| (0..p).map(|_| lattice(rng, kind)).collect()).collect();
        let nb = 1 + rng.below(if thorough { 8 } else { 5 });
        // batches of up to 12 rows: ndarray sums 8 and more contiguous distances with its unrolled kernel; every
        // eighth history has batches of up to 160 rows (rayon splits them over its 4 workers several times)
        let bmax = if i % 8 == 5 { *rng.pick(&[48usize, 160]) } else { *rng.pick(&[6usize, 6, 12]) };
        let batches: Vec<Rows> = (0..nb).map(|_| (0..1 + rng.below(bmax)).map(|_| (0..p).map(|_| lattice(rng, kind)).collect()).collect()).collect();
        let tol = *rng.pick(&[0.5, 1.0, 2.0, 4.0, 1e-4, 100.0]);
        let m = *rng.pick(&[Metric::L2, Metric::L2, Metric::L1, Metric::LInf]);
        em.count(&format!("km:k={}", k));
        em.count(&format!("km:metric={}", m.name()));
        let seed = rng.next();
        // memory layout of the batches: rotates through owned / Fortran / strided / reversed rows / reversed
        // columns / both axes inverted
        let layout = i % LAYOUTS.len();
        em.count(&format!("km:layout={}", LAYOUTS[layout]));
        op_km(em, m, &c0, &batches, tol, seed, layout);
        if i % 4 == 0 && bmax <= 12 {
            op_km_f32(em, m, &c0, &batches, tol, seed, (i / 4) % LAYOUTS.len());
        }
        if i % 4 == 1 {
            op_km_lp(em, *rng.pick(&[1.5, 3.0]), &c0, &batches, tol, seed);
        }
    }
    // first-batch initialisation inside fit_with(None, ..)
    let nin = if thorough { 4000 } else { 600 };
    for i in 0..nin {
        let p = 1 + rng.below(3);
        let kind = rng.below(3);
        let nb = 1 + rng.below(4);
        let n0 = 1 + rng.below(10);
        let k = 1 + rng.below(n0.min(4));
        let mut batches: Vec<Rows> = vec![(0..n0).map(|_| (0..p).map(|_| lattice(rng, kind)).collect()).collect()];
        for _ in 1..nb {
            batches.push((0..1 + rng.below(6)).map(|_| (0..p).map(|_| lattice(rng, kind)).collect()).collect());
        }
        let tol = *rng.pick(&[0.5, 2.0, 1e-4, 100.0]);
        let m = *rng.pick(&[Metric::L2, Metric::L2, Metric::L1, Metric::LInf]);
        let init = *rng.pick(&[Init::Random, Init::PlusPlus, Init::Para]);
        let n_runs = *rng.pick(&[1usize, 2, 3, 5, 10]);
        op_km_init(em, m, init, k, n_runs, &batches, tol, rng.next() % 100_000, i % LAYOUTS.len());
    }
}
